"""Convert the implementation's parse tree into the mirror AST of gen.py (so that gen.lexemes can re-render it)."""
import gtwrap.interface_parser as ip
from gtwrap.interface_parser.template import Template

import gen


def tn(t):
    return gen.TN(list(t.namespaces), str(t.name), [tn(i) for i in t.instantiations])


def ty(t):
    suffix = '*' if t.is_shared_ptr else '@' if t.is_ptr else '&' if t.is_ref else ''
    if isinstance(t, ip.TemplatedType):
        return gen.Ty(list(t.typename.namespaces), str(t.typename.name), [ty(p) for p in t.template_params], bool(t.is_const), suffix, False)
    return gen.Ty(list(t.typename.namespaces), str(t.typename.name), None, bool(t.is_const), suffix, bool(t.is_basic))


def args(al):
    return [gen.Arg(ty(a.ctype), a.name, a.default) for a in al.list()]


def ret(r):
    return gen.Ret(ty(r.type1), ty(r.type2) if r.type2 else None, False)


def tmpl(t):
    if not isinstance(t, Template):
        return None
    return [gen.TParam(n, [tn(i) for i in il]) for n, il in zip(t.typenames, t.instantiations)]


def enum(e):
    return gen.Enum('enum', e.name, [x.name for x in e.enumerators])


def var(v):
    return gen.Var(ty(v.ctype), v.name, v.default)


def cls(c):
    ms = []
    for k in c.ctors:
        ms.append(gen.Member('ctor', tmpl=tmpl(k.template), name=k.name, args=args(k.args)))
    for m in c.methods:
        ms.append(gen.Member('method', tmpl=tmpl(m.template), ret=ret(m.return_type), name=m.name, args=args(m.args), const=bool(m.is_const)))
    for m in c.static_methods:
        ms.append(gen.Member('static', tmpl=tmpl(m.template), ret=ret(m.return_type), name=m.name, args=args(m.args)))
    for p in c.properties:
        ms.append(gen.Member('prop', var=var(p)))
    for o in c.operators:
        ms.append(gen.Member('op', ret=ret(o.return_type), sym=o.operator, args=args(o.args)))
    for e in c.enums:
        ms.append(gen.Member('enum', enum=enum(e)))
    for d in c.dunder_methods:
        ms.append(gen.Member('dunder', name=d.name, args=args(d.args)))
    par = None
    if c.parent_class:
        par = ty(c.parent_class) if isinstance(c.parent_class, ip.TemplatedType) else \
            gen.Ty(list(c.parent_class.namespaces), str(c.parent_class.name), None, False, '', False)
    return gen.Class(tmpl(c.template), bool(c.is_virtual), c.name, par, ms)


def decl(d):
    if isinstance(d, ip.ForwardDeclaration):
        return gen.Decl('fwd', virtual=bool(d.is_virtual), tn=tn(d.typename), parent_tn=tn(d.parent_type) if d.parent_type else None)
    if isinstance(d, ip.Include):
        return gen.Decl('incl', header=d.header)
    if isinstance(d, ip.Class):
        return gen.Decl('cls', cls=cls(d))
    if isinstance(d, ip.TypedefTemplateInstantiation):
        return gen.Decl('typedef', tn=tn(d.typename), new_name=d.new_name)
    if isinstance(d, ip.GlobalFunction):
        return gen.Decl('func', tmpl=tmpl(d.template), ret=ret(d.return_type), name=d.name, args=args(d.args))
    if isinstance(d, ip.Enum):
        return gen.Decl('enum', enum=enum(d))
    if isinstance(d, ip.Variable):
        return gen.Decl('var', var=var(d))
    if isinstance(d, ip.Namespace):
        return gen.Decl('ns', name=d.name, content=[decl(x) for x in d.content])
    raise TypeError(repr(d))


def module(m):
    return [decl(x) for x in m.content]


def norm_token(k, t):
    if k == 'atom' and t.startswith('enum'):
        return 'enum'
    if k == 'stdpair':
        return 'pair'
    return t


def token_bag(lexemes):
    """multiset of token texts; `std::`/`class`/`struct` spelling variants the tree does not record are normalised"""
    from collections import Counter
    c = Counter()
    for k, t in lexemes:
        c[norm_token(k, t)] += 1
    return c


def char_bag(lexemes):
    """multiset of the non-blank characters of all tokens (verbatim texts such as default values and include paths may
    absorb neighbouring tokens and comments, so accounting is done on characters, not on token boundaries)"""
    from collections import Counter
    c = Counter()
    for k, t in lexemes:
        for ch in norm_token(k, t):
            if not ch.isspace():
                c[ch] += 1
    return c
