"""C18 — the MATLAB runtime header converts values without loss.

THEOREMS  lean/WrapModel/Props/C18.lean (model: Model/Runtime/Mx.lean, transcription of matlab.h)
TIE       the REAL /repo/matlab.h compiled against a mock mex.h (harness/c18) executes generated
          op lines; the Lean model executes the same lines; outputs must be byte-identical
ORACLE    (SEARCH) direct round-trip / error oracle on the implementation's own output lines
"""
import json
import os
import random
import shutil
import subprocess
import sys
import tempfile

import framework as fw
from common import REPO, DRIVER

PROP = "C18"
THEOREM_MODULES = ["WrapModel.Props.C18"]
HERE = os.path.join(fw.VERIF, "harness", "c18")


def build_impl(outdir):
    r = subprocess.run(["sh", os.path.join(HERE, "build.sh"), outdir], capture_output=True, text=True,
                       env=dict(os.environ, REPO=REPO))
    return r.returncode == 0, (r.stdout + r.stderr)[-2000:]


def run_impl(exe, ops):
    p = subprocess.run([exe], input="\n".join(ops) + "\n", capture_output=True, text=True, timeout=600)
    return p.returncode, p.stdout.splitlines(), p.stderr[-1000:]


def run_model(ops):
    p = subprocess.run([DRIVER], input="\n".join("mx\t" + o for o in ops) + "\n", capture_output=True, text=True,
                       timeout=600)
    return p.stdout.splitlines()


NONNUMERIC = {0, 1, 2, 3, 4, 5, 16, 17, 18}   # unknown, cell, struct, logical, char, void, function, opaque, object
SCALAR_TYPES = {"bool", "char", "uchar", "int", "size_t", "double"}


def direct_oracle(op, out, known_ops):
    """The property's own observation on one implementation answer (independent of the model):
    a round trip returns its input; a non-scalar where a scalar is required and a non-numeric array where a
    vector / point / matrix is required are errors.  Returns a description of the failure or None."""
    if op in known_ops:
        return None
    f = op.split("\t")
    if f[0] == "rt":
        if f[1] == "string" and "00" in [f[2][i:i + 2] for i in range(0, len(f[2]), 2)]:
            return None      # embedded NUL: recorded finding C18-string-embedded-nul-truncated
        want = " => ok " + " ".join(f[2:])
        if not out.endswith(want):
            return "a wrap -> unwrap round trip does not return the original value"
    elif f[0] == "unwrap" and len(f) >= 5:
        ty, cls, m, n = f[1], int(f[2]), int(f[3]), int(f[4])
        if max(m, n) >= 2**31:
            return None      # recorded finding C18-dimensions-through-int
        if ty in SCALAR_TYPES and m * n != 1 and not out.startswith("err"):
            return "a non-scalar array was accepted where a scalar is required"
        if ty in ("vector", "point2", "point3", "matrix") and cls in NONNUMERIC and not out.startswith("err"):
            return "a non-numeric array was accepted where a vector or matrix is required"
    return None


def main(ctx):
    sys.path.insert(0, HERE)
    import c18_ops
    fw.translate_and_build(ctx, ["WrapModel", "wrapmodel"])
    fw.audit(ctx, THEOREM_MODULES)
    tmp = tempfile.mkdtemp(prefix="verif_c18_")
    try:
        ok, log = build_impl(tmp)
        if not ok:
            # the real header no longer compiles against the mock API: the tie is broken
            ctx.disagree("matlab.h does not compile in the C18 harness", log=log)
            return fw.finish(ctx)
        n = ctx.scale(4000, 120000)
        rng = random.Random(ctx.seed * 7919 + 18)
        ops = c18_ops.gen_ops(rng, n)
        rc, impl, err = run_impl(os.path.join(tmp, "c18_impl"), ops)
        model = run_model(ops)
        dist = c18_ops.distribution(ops)
        for k, v in dist.items():
            if isinstance(v, int):
                ctx.count(k, v)
            elif isinstance(v, dict):
                for k2, v2 in v.items():
                    ctx.count("%s.%s" % (k, k2), v2)
        if rc != 0:
            ctx.disagree("implementation driver crashed (exit %d)" % rc, stderr=err, ops_run=len(impl))
        known_ops = {e["witness"]["op"] for e in ctx.known if e.get("kind") != "fixed"}
        for i, op in enumerate(ops):
            ctx.case(op, sample=dict(op=op, impl=impl[i] if i < len(impl) else None))
            a = impl[i] if i < len(impl) else "<missing>"
            bad = direct_oracle(op, a, known_ops) if i < len(impl) else None
            if bad and len(ctx.spec_failures) < 5:
                ctx.spec_fail(bad, op=op, impl=a)
            b = model[i] if i < len(model) else "<missing>"
            if a != b:
                if len(ctx.disagreements) < 20:
                    ctx.disagree("matlab.h (compiled) and model differ", op=op, impl=a, model=b)
                # the model is proved to round-trip under the stated guards: if the model's answer is the
                # proved-correct one and the implementation's differs, that input violates the property
                if b.startswith("ok") and len(ctx.spec_failures) < 5:
                    ctx.spec_fail("conversion result differs from the proved-correct result", op=op, impl=a, expected=b)
            else:
                ctx.traces_validated += 1
        # known findings: replayed on the implementation
        for e in ctx.known:
            w = e["witness"]
            rc2, out2, _ = run_impl(os.path.join(tmp, "c18_impl"), [w["op"]])
            still = bool(out2) and out2[0] == w["defect_output"]
            if e.get("kind") == "fixed":
                if still:
                    ctx.spec_fail("a defect recorded as fixed is back: " + e["what"], **w)
            elif still:
                ctx.known_hit(e)
    finally:
        shutil.rmtree(tmp, ignore_errors=True)
    ctx.extra["rule"] = ("op lines from harness/c18/c18_ops.py: wrap/unwrap/round trips of every scalar type with extremes, "
                         "strings, vectors, matrices (all shapes incl. empty), foreign class ids and shapes (error paths), "
                         "handle histories; distinct = distinct op lines")
    return fw.finish(ctx, assumptions=[
        "mock mex.h stands in for the MATLAB C API (docs/NOTES_C18.md)", "x86-64 little-endian LP64",
        "floating-point conversions are an uninterpreted parameter of the model (never on a round-trip path)"])


def replay(ctx, path):
    doc = json.load(open(path))
    v = doc["violation"]
    tmp = tempfile.mkdtemp(prefix="verif_c18_")
    try:
        build_impl(tmp)
        op = v.get("op")
        if op:
            print("implementation:", run_impl(os.path.join(tmp, "c18_impl"), [op])[1])
            print("model         :", run_model([op]))
    finally:
        shutil.rmtree(tmp, ignore_errors=True)
    return 0
