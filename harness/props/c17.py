"""C17 — embedded docstrings are the right text, correctly escaped, change nothing else.

THEOREMS  lean/WrapModel/Props/C17.lean (Model/Xml.lean, Model/CppLit.lean)
TIE       real XMLDocParser.extract_docstring + the real escaping expression on generated Doxygen
          trees / Unicode texts vs the model; model decode vs g++; whole files with vs without XML
"""
import json
import os
import re
import subprocess
import sys

import framework as fw

PROP = "C17"
THEOREM_MODULES = ["WrapModel.Props.C17"]
HERE = os.path.join(fw.VERIF, "harness", "c17")


def main(ctx):
    fw.translate_and_build(ctx, ["WrapModel", "wrapmodel"])
    fw.audit(ctx, THEOREM_MODULES)
    cases, texts, lits = ctx.scale(120, 1500), ctx.scale(800, 12000), ctx.scale(150, 1200)
    r = subprocess.run([sys.executable, os.path.join(HERE, "c17_check.py"), "--seed", str(ctx.seed + 17), "--cases", str(cases),
                        "--texts", str(texts), "--literals", str(lits), "--skip-build"],
                       capture_output=True, text=True, timeout=3000, env=dict(os.environ, VERIF_REPO=fw.REPO))
    out = r.stdout + r.stderr
    lines = [l for l in out.splitlines() if l.startswith(("IDENTICAL", "DIFFERENT"))]
    if not lines and r.returncode != 0:
        raise RuntimeError("c17_check.py failed: " + out[-1500:])
    for l in lines:
        m = re.match(r"(IDENTICAL|DIFFERENT)\s+(.*?)\s{2,}(.*)$", l)
        what = m.group(2) if m else l
        ctx.count("stream: " + what)
        nums = re.findall(r"(\d+) (?:lines|texts|items)", l)
        if nums:
            ctx.evaluations += int(nums[0])
        if l.startswith("DIFFERENT"):
            i = out.find(l)
            detail = out[i:i + 1200]
            if "g++ round trip" in what:
                # the compiler decodes an emitted literal to something else than the text: the property's own observation fails
                ctx.spec_fail("emitted C++ literal does not decode to the extracted text", detail=detail)
            elif "with XML = without" in what:
                ctx.spec_fail("generated code with XML differs from code without XML by more than the literals", detail=detail)
            else:
                ctx.disagree("model and implementation differ: " + what, detail=detail)
        else:
            ctx.traces_validated += 1
    m = re.search(r"generated (\d+) cases, (\d+) lookups, (\d+) texts, (\d+) literals", out)
    if m:
        ctx.count("lookups", int(m.group(2)))
        ctx.count("texts", int(m.group(3)))
        for i in range(int(m.group(2)) + int(m.group(3))):
            ctx.distinct.add(i)
    m = re.search(r"lookup outcomes: (.*)", out)
    if m:
        ctx.extra["lookup_outcomes"] = m.group(1)
    m = re.search(r"okText guard\s+(\d+) texts: (.*)", out)
    if m:
        ctx.extra["escape_outcomes"] = m.group(2)
    ctx.samples.append(dict(summary=[l for l in lines]))
    overload_stream(ctx, ctx.scale(150, 2000))
    binding_doc_stream(ctx, ctx.scale(60, 800))
    # known findings, replayed on the real code
    sys.path.insert(0, HERE)
    for e in ctx.known:
        still = replay_finding(e)
        if e.get("kind") == "fixed":
            if still:
                ctx.spec_fail("a defect recorded as fixed is back: " + e["what"], **e["witness"])
        elif still:
            ctx.known_hit(e)
    ctx.extra["rule"] = ("generated Doxygen-shaped XML directories x lookup sequences (present/partial/missing/overloaded members), "
                         "documentation texts over a Unicode alphabet incl. quotes, backslashes, controls, C1, NBSP, astral; "
                         "distinct = distinct (directory, lookup) pairs and texts")
    return fw.finish(ctx, search=lambda c: overload_stream(c, c.scale(400, 3000), off=5, collect=False) or binding_doc_stream(c, c.scale(80, 500), off=5, collect=False),
                     assumptions=["ElementTree/expat parsing is outside the model", "g++ is the oracle for literal decoding",
                                       "str.isprintable table regenerated from the running interpreter"])


def binding_doc_stream(ctx, n, off=0, collect=True):
    """End to end through PybindWrapper: every method binding carries the documentation of the C++ member it CALLS — also
    when the Python name differs from the C++ name (keywords get a trailing `_`, ipython display names become `_repr_x_`)
    and the class has a sibling whose C++ name is that Python name (`in` next to `in_`)."""
    import random, shutil, tempfile
    from gtwrap.pybind_wrapper import PybindWrapper
    import streams
    rng = random.Random(ctx.seed * 104729 + 29 + off)
    pool = ["area", "in", "in_", "pass", "pass_", "is", "from", "global", "lambda", "html", "svg", "png", "latex", "markdown",
            "print_", "dim", "def", "None", "_repr_html_"]
    first = None
    for case in range(n):
        d = tempfile.mkdtemp(prefix="verif_c17b_")
        try:
            names = rng.sample(pool, rng.randint(2, 6))
            undocumented = set(rng.sample(names, rng.randint(0, 1)))
            text = "class A { A(); %s };" % " ".join("double %s(int x) const;" % nm for nm in names)
            # the XML files in the encoding their declaration names (expat reads the declaration / the BOM), with a
            # non-ASCII character in a text that is not looked at
            enc = rng.choice(["utf-8", "utf-8", "ISO-8859-1", "UTF-16", "windows-1252", "utf-8-sig"])
            decl = '<?xml version="1.0" encoding="%s"?>' % {"utf-8-sig": "UTF-8"}.get(enc, enc)

            def put(name, body):
                with open(os.path.join(d, name), "wb") as fh:
                    fh.write((decl + body).encode(enc))
            put("index.xml", '<doxygenindex><!-- caf\u00e9 --><compound refid="classA" kind="class"><name>A</name></compound></doxygenindex>')
            put("classA.xml",
                '<doxygen><compounddef id="classA" kind="class"><compoundname>A</compoundname><title>Fl\u00e4che \u00d7 2</title><sectiondef kind="public-func">' + "".join(
                    '<memberdef kind="function" id="m%d"><type>double</type><name>%s</name><argsstring>(int x)</argsstring>'
                    '<param><type>int</type><declname>x</declname></param><briefdescription><para>DOCOF[%s]END</para>'
                    '</briefdescription><detaileddescription></detaileddescription></memberdef>' % (i, nm, nm)
                    for i, nm in enumerate(names) if nm not in undocumented) + '</sectiondef></compounddef></doxygen>')
            if collect:
                ctx.count("binding_doc_xml_encoding_" + enc)
            ctx.evaluations += 1
            if collect:
                ctx.count("binding_doc_cases")
            try:
                out = PybindWrapper(module_name="m", top_module_namespaces=[''], use_boost_serialization=False, ignore_classes=[],
                                    module_template=streams.TPL_MIN, xml_source=d).wrap_file(text, module_name="m")
            except Exception as ex:  # noqa
                out = "<<%s>>" % type(ex).__name__
            bad = None
            for nm in names:
                lines = [l for l in out.splitlines() if "self->%s(" % nm in l]
                docs = re.findall(r"DOCOF\[(.*?)\]END", " ".join(lines))
                want = [] if nm in undocumented else [nm]
                if len(lines) != 1 or docs != want:
                    bad = dict(what="the binding that calls A::%s carries %s instead of the documentation of A::%s" % (
                                   nm, ("the documentation of " + ", ".join("A::" + x for x in docs)) if docs else "no documentation", nm)
                               if want else "the binding of the undocumented member A::%s carries documentation of %s" % (nm, docs),
                               input=text, documented=[x for x in names if x not in undocumented], binding=lines[:2] or out[:200], xml_encoding=enc)
                    break
            if not bad:
                bad = values_insert_case(rng, d)
            if not bad:
                bad = undocumented_sibling_case(rng, d)
            if not bad:
                bad = markup_first_case(rng, d)
            if not bad and case % 3 == 0:
                bad = long_doc_case(rng, d)
                if collect:
                    ctx.count("long_doc_cases")
            if bad:
                first = first or dict(bad)
                if collect:
                    ctx.spec_fail(bad.pop("what"), **bad)
            elif collect:
                ctx.traces_validated += 1
        finally:
            shutil.rmtree(d, ignore_errors=True)
    return first


def long_doc_case(rng, d):
    """LONG documentation (several thousand characters) dense with characters that need escaping: whatever way the generator
    spells the literal (one literal, or adjacent literals `"…" "…"`), the C++ compiler must decode it to the extracted text"""
    import subprocess
    from gtwrap.pybind_wrapper import PybindWrapper
    from gtwrap.xml_parser.xml_parser import XMLDocParser
    import streams
    special = ['"', "\\", "\n", "?", "\t", "'", "\u00e9", "\x7f", "%", "\x01", "??/", "\u2028"]
    parts = ["Doc"]
    total = rng.choice([2100, 4200, 6300, 3000])
    while sum(len(x) for x in parts) < total:
        r = rng.random()
        if r < 0.5:
            parts.append(rng.choice(["x", "word ", "value", "1", "e"]) * rng.randint(1, 40))
        else:
            parts.append("".join(rng.choice(special) for _ in range(rng.randint(1, 12))))
    # dense escapes around the multiples of 1024 of the raw text
    text = "".join(parts)
    for b in range(1024, len(text), 1024):
        text = text[:b - 8] + "".join(rng.choice(special[:6]) for _ in range(16)) + text[b + 8:]
    text = text.strip() + "."
    sub = os.path.join(d, "longdoc")
    os.makedirs(sub, exist_ok=True)
    esc = text.replace("&", "&amp;").replace("<", "&lt;").replace(">", "&gt;")
    esc = "".join(c if (c in "\n\t" or ord(c) >= 0x20) else "&#%d;" % ord(c) for c in esc)
    if any(ord(c) < 0x20 and c not in "\n\t" for c in text):
        text = "".join(c for c in text if c in "\n\t" or ord(c) >= 0x20)       # XML 1.0 has no other control characters
        esc = text.replace("&", "&amp;").replace("<", "&lt;").replace(">", "&gt;")
    open(os.path.join(sub, "index.xml"), "w", encoding="utf-8").write(
        '<doxygenindex><compound refid="classL" kind="class"><name>L</name></compound></doxygenindex>')
    open(os.path.join(sub, "classL.xml"), "w", encoding="utf-8").write(
        '<doxygen><compounddef id="classL" kind="class"><compoundname>L</compoundname><sectiondef kind="public-func">'
        '<memberdef kind="function" id="m1"><type>double</type><name>f</name><argsstring>(int x)</argsstring>'
        '<param><type>int</type><declname>x</declname></param><briefdescription><para>%s</para></briefdescription>'
        '<detaileddescription></detaileddescription></memberdef></sectiondef></compounddef></doxygen>' % esc)
    import io, contextlib
    with contextlib.redirect_stdout(io.StringIO()):
        want = XMLDocParser().extract_docstring(sub, "L", "f", ["x"])
    try:
        out = PybindWrapper(module_name="m", top_module_namespaces=[''], use_boost_serialization=False, ignore_classes=[],
                            module_template=streams.TPL_MIN, xml_source=sub).wrap_file("class L { L(); double f(int x) const; };", module_name="m")
    except Exception as ex:  # noqa
        return dict(what="generation fails for a long documentation text (%s)" % type(ex).__name__, documentation=text[:300])
    m = re.search(r'self->f\(x\);\}, py::arg\("x"\), (.*)\)\s*;?\s*$', out, re.M | re.S)
    line = next((l for l in out.split("\n") if "self->f(" in l), "")
    m = re.search(r'py::arg\("x"\),\s*(.*)\)\s*;?\s*$', line)
    if not m:
        return dict(what="the binding of L::f carries no docstring literal for a long documentation text", binding=line[:300])
    src = os.path.join(sub, "lit.cpp")
    with open(src, "w", encoding="utf-8") as f:
        f.write('#include <cstdio>\nstatic const char s[] = %s;\nint main() { for (unsigned long k = 0; k + 1 < sizeof s; k++) std::printf("%%02x", (unsigned)(unsigned char)s[k]); return 0; }\n' % m.group(1))
    r = subprocess.run(["g++", "-std=c++17", "-finput-charset=UTF-8", "-fexec-charset=UTF-8", "-w", "-o", os.path.join(sub, "lit"), src], capture_output=True, text=True)
    if r.returncode != 0:
        return dict(what="the docstring literal emitted for a long documentation text is not valid C++", documentation_length=len(want),
                    compiler=r.stderr[-300:], literal_head=m.group(1)[:200])
    got = bytes.fromhex(subprocess.run([os.path.join(sub, "lit")], capture_output=True, text=True).stdout)
    if got != want.encode("utf-8"):
        gw = want.encode("utf-8")
        k = next((i for i in range(min(len(got), len(gw))) if got[i] != gw[i]), min(len(got), len(gw)))
        return dict(what="the docstring literal emitted for a long documentation text (%d characters) decodes to another text" % len(want),
                    first_difference_at_byte=k, expected=repr(gw[max(0, k - 20):k + 20]), got=repr(got[max(0, k - 20):k + 20]))
    return None


def undocumented_sibling_case(rng, d):
    """a documented class followed by classes whose documentation cannot be found (not in the index, class file missing,
    class file malformed) and which have members of the same names and parameter names: their bindings carry NO
    documentation, the documented class keeps its own"""
    from gtwrap.pybind_wrapper import PybindWrapper
    import io, contextlib
    import streams
    names = rng.sample(["scale", "update", "reset", "value", "norm"], rng.randint(2, 4))
    body = " ".join("double %s(double factor) const;" % nm for nm in names)
    kinds = rng.sample(["not-in-index", "file-missing", "malformed"], rng.randint(1, 3))
    classes = ["Doc"] + ["Plain%d" % i for i in range(len(kinds))]
    order = list(classes)
    if rng.random() < 0.3:
        order = order[1:] + order[:1]          # the undocumented ones first
    text = " ".join("class %s { %s(); %s };" % (c, c, body) for c in order)
    sub = os.path.join(d, "siblings")
    os.makedirs(sub, exist_ok=True)
    index = '<compound refid="classDoc" kind="class"><name>Doc</name></compound>'
    for i, k in enumerate(kinds):
        if k != "not-in-index":
            index += '<compound refid="classPlain%d" kind="class"><name>Plain%d</name></compound>' % (i, i)
        if k == "malformed":
            open(os.path.join(sub, "classPlain%d.xml" % i), "w").write("<doxygen><compounddef>")
    open(os.path.join(sub, "index.xml"), "w").write("<doxygenindex>" + index + "</doxygenindex>")
    open(os.path.join(sub, "classDoc.xml"), "w").write(
        '<doxygen><compounddef id="classDoc" kind="class"><compoundname>Doc</compoundname><sectiondef kind="public-func">' + "".join(
            '<memberdef kind="function" id="m%d"><type>double</type><name>%s</name><argsstring>(double factor)</argsstring>'
            '<param><type>double</type><declname>factor</declname></param><briefdescription><para>DOCOF[%s]END</para>'
            '</briefdescription><detaileddescription></detaileddescription></memberdef>' % (i, nm, nm) for i, nm in enumerate(names))
        + '</sectiondef></compounddef></doxygen>')
    try:
        with contextlib.redirect_stdout(io.StringIO()):
            out = PybindWrapper(module_name="m", top_module_namespaces=[''], use_boost_serialization=False, ignore_classes=[],
                                module_template=streams.TPL_MIN, xml_source=sub).wrap_file(text, module_name="m")
    except Exception as ex:  # noqa
        return dict(what="generation fails when the documentation of a class cannot be found (%s): %s" % (", ".join(kinds), type(ex).__name__), input=text)
    for l in out.splitlines():
        cm = re.search(r'\[\]\((\w+)\* self', l)
        if not cm:
            continue
        docs = re.findall(r"DOCOF\[(.*?)\]END", l)
        nm = re.search(r'self->(\w+)\(', l)
        if cm.group(1) == "Doc" and nm and docs != [nm.group(1)]:
            return dict(what="the binding that calls Doc::%s carries %s instead of its documentation" % (nm.group(1), docs or "no documentation"), input=text, binding=l.strip()[:300])
        if cm.group(1) != "Doc" and docs:
            return dict(what="the binding of %s::%s — a class whose documentation cannot be found (%s) — carries the documentation of Doc::%s"
                        % (cm.group(1), nm.group(1) if nm else "?", ", ".join(kinds), docs[0]), input=text, binding=l.strip()[:300])
    return None


def markup_first_case(rng, d):
    """Doxygen paragraphs that BEGIN with a markup element (`@return Pose of the camera` with `Pose` a documented class becomes
    `<para><ref …>Pose</ref> of the camera</para>`; a parameter description or a brief that starts with `<computeroutput>`):
    generation never fails, and the binding keeps the documentation of its member"""
    from gtwrap.pybind_wrapper import PybindWrapper
    import io, contextlib
    import streams
    el = rng.choice(['<ref refid="classPose" kindref="compound">Pose</ref>', '<computeroutput>Pose</computeroutput>', '<emphasis>the</emphasis>', '<bold>T</bold>'])
    where = rng.sample(["return", "param", "detail"], rng.randint(1, 3))
    ret = '<simplesect kind="return"><para>%s of the camera</para></simplesect>' % (el if "return" in where else "pose")
    par = ('<parameterlist kind="param"><parameteritem><parameternamelist><parametername>u</parametername></parameternamelist>'
           '<parameterdescription><para>%s pixel column</para></parameterdescription></parameteritem></parameterlist>' % (el if "param" in where else "the"))
    det = '<para>%s longer text.</para>' % (el if "detail" in where else "A")
    sub = os.path.join(d, "markup")
    os.makedirs(sub, exist_ok=True)
    open(os.path.join(sub, "index.xml"), "w").write('<doxygenindex><compound refid="classCam" kind="class"><name>ns::Cam</name></compound></doxygenindex>')
    open(os.path.join(sub, "classCam.xml"), "w").write(
        '<doxygen><compounddef id="classCam" kind="class"><compoundname>ns::Cam</compoundname><sectiondef kind="public-func">'
        '<memberdef kind="function" id="m1"><type>double</type><name>depth</name><argsstring>(int u)</argsstring>'
        '<param><type>int</type><declname>u</declname></param><briefdescription><para>DOCOF[depth]END</para></briefdescription>'
        '<detaileddescription>%s<para>%s%s</para></detaileddescription></memberdef></sectiondef></compounddef></doxygen>' % (det, par, ret))
    text = "namespace ns { class Cam { Cam(); double depth(int u) const; }; }"
    try:
        with contextlib.redirect_stdout(io.StringIO()):
            out = PybindWrapper(module_name="m", top_module_namespaces=[''], use_boost_serialization=False, ignore_classes=[],
                                module_template=streams.TPL_MIN, xml_source=sub).wrap_file(text, module_name="m")
    except Exception as ex:  # noqa
        return dict(what="generation fails (%s) on Doxygen XML whose %s paragraph begins with a markup element" % (type(ex).__name__, "/".join(where)),
                    input=text, paragraph_begins_with=el)
    line = next((l for l in out.splitlines() if "self->depth(" in l), "")
    if "DOCOF[depth]END" not in line:
        return dict(what="the binding of ns::Cam::depth lost its documentation (a paragraph begins with a markup element)", input=text, binding=line[:300])
    return None


def values_insert_case(rng, d):
    """ONE documented C++ member that is bound several times: gtsam::Values::insert(size_t j, T val) is bound as insert_<name>
    and as insert, for each value type of the interface; Doxygen documents the one C++ template.  Every binding that calls
    the member carries its documentation."""
    from gtwrap.pybind_wrapper import PybindWrapper
    import streams
    pname = rng.choice(["val", "value", "x"])
    types = rng.sample(["double", "const gtsam::Pt&", "int", "const gtsam::Rot&"], rng.randint(1, 3))
    text = "namespace gtsam { class Pt { Pt(); }; class Rot { Rot(); };\nclass Values { Values(); %s size_t size() const; }; }" % " ".join(
        "void insert(size_t j, %s %s);" % (t, pname) for t in types)
    sub = os.path.join(d, "values")
    os.makedirs(sub, exist_ok=True)
    open(os.path.join(sub, "index.xml"), "w").write(
        '<doxygenindex><compound refid="classV" kind="class"><name>gtsam::Values</name></compound></doxygenindex>')
    open(os.path.join(sub, "classV.xml"), "w").write(
        '<doxygen><compounddef id="classV" kind="class"><compoundname>gtsam::Values</compoundname><sectiondef kind="public-func">'
        '<memberdef kind="function" id="m1"><type>void</type><name>insert</name><argsstring>(Key j, const T &amp;%s)</argsstring>'
        '<param><type>Key</type><declname>j</declname></param><param><type>const T &amp;</type><declname>%s</declname></param>'
        '<briefdescription><para>DOCOF[insert]END</para></briefdescription><detaileddescription></detaileddescription></memberdef>'
        '<memberdef kind="function" id="m2"><type>size_t</type><name>size</name><argsstring>()</argsstring>'
        '<briefdescription><para>DOCOF[size]END</para></briefdescription><detaileddescription></detaileddescription></memberdef>'
        '</sectiondef></compounddef></doxygen>' % (pname, pname))
    try:
        out = PybindWrapper(module_name="m", top_module_namespaces=[''], use_boost_serialization=False, ignore_classes=[],
                            module_template=streams.TPL_MIN, xml_source=sub).wrap_file(text, module_name="m")
    except Exception as ex:  # noqa
        out = "<<%s>>" % type(ex).__name__
    lines = [l for l in out.splitlines() if "self->insert(" in l]
    missing = [l for l in lines if "DOCOF[insert]END" not in l]
    if len(lines) < len(types) or missing:
        return dict(what="a binding that calls the documented member gtsam::Values::insert carries no documentation (the member is bound %d times, "
                    "%d bindings are documented)" % (len(lines), len(lines) - len(missing)), input=text, documented=["gtsam::Values::insert(j, %s)" % pname],
                    binding=(missing or [out[:200]])[:2])
    return None


def overload_stream(ctx, n, off=0, collect=True):
    """The property's own observation for overload matching, on clean Doxygen trees (one class, every parameter named,
    every member's brief description a unique marker): the docstring returned for (class, method, argument names)
    must carry the marker of a member of that class with that name whose parameter names are the argument names —
    all of them, or (the rule the code documents for members with defaulted parameters) the required ones only.
    A fresh XMLDocParser per lookup keeps the per-key overload counter out of the picture."""
    import io, contextlib, random, shutil, tempfile
    from gtwrap.xml_parser.xml_parser import XMLDocParser
    rng = random.Random(ctx.seed * 7919 + 17 + off)
    names = ["rows", "cols", "zero", "key", "value", "tol", "x", "y"]
    first = None
    for case in range(n):
        d = tempfile.mkdtemp(prefix="verif_c17o_")
        try:
            members = []
            base = rng.sample(names, rng.randint(1, 4))
            for k in range(rng.randint(1, 4)):
                r = rng.random()
                if r < 0.5:
                    ps = base[:rng.randint(0, len(base))]
                elif r < 0.7:
                    ps = list(base)
                else:
                    ps = rng.sample(names, rng.randint(0, 4))
                ndef = rng.choice([0, 0, 1, 2, 3])
                ndef = min(ndef, len(ps))
                members.append((ps, ndef, "MARK%dQ" % k))
            body = "".join(
                '<memberdef kind="function" id="m%d"><type>void</type><name>f</name><argsstring>(%s)</argsstring>%s'
                '<briefdescription><para>%s</para></briefdescription><detaileddescription><para><parameterlist kind="param">%s'
                '</parameterlist></para></detaileddescription></memberdef>'
                % (i, ", ".join(ps), "".join('<param><type>T</type><declname>%s</declname>%s</param>' % (
                    nm, "<defval>1</defval>" if j >= len(ps) - ndef else "") for j, nm in enumerate(ps)), mark,
                   "".join('<parameteritem><parameternamelist><parametername>%s</parametername></parameternamelist>'
                           '<parameterdescription><para>PD%dX%s</para></parameterdescription></parameteritem>' % (nm, i, nm) for nm in ps))
                for i, (ps, ndef, mark) in enumerate(members))
            # sometimes a later compound of the same name (a Doxygen group / page called like the class) documents a free function
            index = '<doxygenindex><compound refid="classA" kind="class"><name>A</name></compound>'
            if rng.random() < 0.3:
                index += '<compound refid="group__A" kind="group"><name>A</name></compound>'
                open(os.path.join(d, "group__A.xml"), "w").write(
                    '<doxygen><compounddef id="group__A" kind="group"><compoundname>A</compoundname><sectiondef kind="func">'
                    '<memberdef kind="function" id="g1"><type>void</type><name>f</name><argsstring>(%s)</argsstring>%s'
                    '<briefdescription><para>GROUPDOC</para></briefdescription><detaileddescription></detaileddescription></memberdef>'
                    '</sectiondef></compounddef></doxygen>' % (", ".join(members[0][0]),
                        "".join('<param><type>T</type><declname>%s</declname></param>' % nm for nm in members[0][0])))
            index += '</doxygenindex>'
            open(os.path.join(d, "index.xml"), "w").write(index)
            open(os.path.join(d, "classA.xml"), "w").write(
                '<doxygen><compounddef id="classA" kind="class"><compoundname>A</compoundname><sectiondef kind="%s">'
                # members of a Doxygen member group (`@name … @{ @}`) sit in a `user-defined` section
                % rng.choice(["public-func", "public-func", "user-defined", "public-static-func", "func"])
                + body + '</sectiondef></compounddef></doxygen>')
            lookups = [ps for ps, _, _ in members] + [ps[:len(ps) - nd] for ps, nd, _ in members]
            lookups += [ps[:len(ps) - rng.randint(0, nd)] for ps, nd, _ in members if nd >= 2]
            for args in lookups:
                ctx.evaluations += 1
                try:
                    with contextlib.redirect_stdout(io.StringIO()):
                        doc = XMLDocParser().extract_docstring(d, "A", "f", list(args))
                except Exception as ex:  # noqa
                    doc = "<<%s>>" % type(ex).__name__
                got = [m for m in members if m[2] in doc]
                ok = [m for m in members if m[0] == args or m[0][:len(m[0]) - m[1]] == args]
                bad = None
                if "GROUPDOC" in doc:
                    bad = "a binding received the documentation of a same-named compound that is not the class"
                elif any(m not in ok for m in got):
                    bad = "a binding received the documentation of an overload with other parameter names"
                elif ok and not got:
                    bad = "a documented member with exactly these parameter names yields no documentation"
                elif len(got) == 1:
                    k = members.index(got[0])
                    missing = [nm for nm in args if ("%s: PD%dX%s" % (nm, k, nm)) not in doc]
                    if missing:
                        bad = "the documentation of parameter(s) %s of the bound overload is missing from its docstring" % missing
                if collect:
                    ctx.count("overload_lookups")
                    ctx.count("overload_" + ("documented" if got else "empty"))
                if bad:
                    w = dict(members=[dict(params=m[0], defaulted=m[1], brief=m[2]) for m in members], lookup=list(args), got=doc)
                    first = first or dict(what=bad, **w)
                    if collect:
                        ctx.spec_fail(bad, **w)
        finally:
            shutil.rmtree(d, ignore_errors=True)
    return first


def replay_finding(e):
    """True if the witness still shows the defect on the real code"""
    w = e["witness"]
    if w["kind"] == "escape":
        # end to end: the literal the real `_wrap_method` emits for this documentation text
        sys.path.insert(0, HERE)
        import c17_impl
        esc, _ = c17_impl.real_escape_expr()
        return w["bad_fragment"] in esc(w["text"])
    if w["kind"] == "indexerror":
        import tempfile, shutil
        from gtwrap.xml_parser.xml_parser import XMLDocParser
        d = tempfile.mkdtemp(prefix="verif_c17_")
        try:
            open(os.path.join(d, "index.xml"), "w").write(w["index_xml"])
            open(os.path.join(d, "classA.xml"), "w").write(w["class_xml"])
            p = XMLDocParser()
            try:
                for _ in range(w["lookups"]):
                    p.extract_docstring(d, "A", "f", ["x"])
                return False
            except IndexError:
                return True
            except Exception:
                return False
        finally:
            shutil.rmtree(d, ignore_errors=True)
    return False


def replay(ctx, path):
    print(open(path).read()[:4000])
    return 0
