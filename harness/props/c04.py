"""C04 — every Python binding forwards to the declared C++ entity, faithfully.

THEOREMS  lean/WrapModel/Props/C04.lean (IR: LambdaDef / ClassItem, printer)
TIE       byte-exact generated text vs the model; ORACLE: whitespace-normalised binding text of the implementation
          vs the model's (lambda parameters, callee, argument order, py::arg names/defaults, def/def_static,
          return keyword, readonly/readwrite, enum values, base classes)
PARTIAL   pybind11 / C++ semantics of the emitted text are modelled, not verified (DESIGN.md §6 C04)
"""
import framework as fw
import projections as pj
from props import _pybind_common as pc

PROP = "C04"
THEOREM_MODULES = ["WrapModel.Props.C04"]


def direct(text, r):
    p = pj.pybind_lambda_problems(text)
    return p[0] if p else None


def main(ctx):
    search = pc.run(ctx, THEOREM_MODULES, pj.normalize_ws_keep_literals, direct,
                    "a binding's forwarding code differs from the proved-correct one",
                    "wrapper lambda and keyword-argument list disagree",
                    # member templates (methods, static methods, constructors) with nested instantiations
                    extra_streams=[(dict(p_template=0.9, max_members=8, max_decls=3), 0.5),
                                   # default values in quantity (string / character literals with blanks and tabs, nested calls)
                                   (dict(rich_defaults=True, p_default=0.8, max_args=4), 0.4),
                                   # enumerators named like Python keywords and builtins: each maps to the C++ enumerator of the same name
                                   (dict(enumerators=["None", "in", "from", "pass", "yield", "is", "True", "lambda", "print", "match", "in_", "None_", "A"],
                                         extra_kinds=['enum', 'enum', 'cls'], extra_member_kinds=['enum', 'enum']), 0.3)])
    return fw.finish(ctx, search=search, assumptions=[
        "pybind11 and C++ call semantics are modelled (dispatch of a .def with py::arg defaults), not verified",
        "hand-written model of pybind_wrapper.py, tied byte-exactly on generated inputs"])


def replay(ctx, path):
    return pc.replay(ctx, path, pj.normalize_ws_keep_literals)
