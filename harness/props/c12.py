"""C12 — layout and comments never change the result.

THEOREMS  lean/WrapModel/Props/C12.lean
TIE/ORACLE for generated files: k re-layouts of the same lexeme list (whitespace-only, comment-heavy, one-line, one lexeme
          per line, CR-only, tabs); the implementation's parse dumps and both generators' outputs must be identical across
          layouts, identical to the tree the text was rendered from, and identical to the model's
"""
import json
import random

import framework as fw
import streams
from common import impl_pybind, impl_matlab

PROP = "C12"
THEOREM_MODULES = ["WrapModel.Props.C12"]
STYLES = ['min', 'space', 'lines', 'comments', 'ws', 'cr', 'tab', 'comments']


def case(idx, payload):
    import gen
    import props.c01 as c01
    seed, cfg_kw, n_layouts = payload
    rng = random.Random(seed * 1000003 + idx)
    kw = dict(max_decls=3, max_members=4, max_depth=2)
    kw.update(cfg_kw or {})
    g = gen.Gen(rng, gen.Cfg(**kw))
    m = gen.gen_module_inst(g)
    lx = gen.lexemes(m)
    want = gen.dump_module(m)
    styles = rng.sample(STYLES, n_layouts)
    texts = [gen.layout(rng, lx, s) for s in styles]
    res = dict(idx=idx, styles=styles, nlex=len(lx), texts=texts, bad=None)
    outs = []
    for s, t in zip(styles, texts):
        impl = c01.impl_parse_dump(t)
        if impl != want:
            res["bad"] = dict(kind="spec", what="layout '%s' changes the parse result" % s, input=t, reference=texts[0],
                              **c01.first_diff(want, impl))
            return res
        model = c01.model_parse_dump(t)
        if model != impl:
            res["bad"] = dict(kind="model", what="model parse != implementation parse", input=t, **c01.first_diff(impl, model))
            return res
    # generated wrappers for two of the layouts
    top = ['']
    for t in texts[:2]:
        outs.append((impl_pybind(t, streams.TPL_MIN, "m", top, True, [], None), impl_matlab([t], "m", [], True)))
    if outs[0] != outs[1]:
        which = "pybind" if outs[0][0] != outs[1][0] else "matlab"
        res["bad"] = dict(kind="spec", what="generated %s wrapper differs between two layouts of the same tokens" % which,
                          input=texts[1], reference=texts[0])
    return res


def multifile_case(idx, payload):
    """several interface files wrapped together for MATLAB: layout at the file BOUNDARIES (leading / trailing blank lines and
    complete comments, e.g. `}  // namespace gtsam` + newline at the end of a file, code on the first line of the next one)
    must not change the toolbox"""
    import gen
    seed, _, _ = payload
    rng = random.Random(seed * 1000003 + idx + 7117)
    n = rng.randint(2, 3)
    plain, dressed = [], []
    for k in range(n):
        g = gen.Gen(rng, gen.Cfg(max_decls=2, max_members=3, max_depth=1, matlab_safe=True, typedef_same_ns=True,
                                 ns_pool=[["a1", "b1"], ["a2", "b2"], ["a3", "b3"]][k], class_pool=[["P1", "Q1"], ["P2", "Q2"], ["P3", "Q3"]][k],
                                 mnames=["f%d" % k, "g%d" % k]))
        m = gen.gen_module_inst(g)
        body = gen.layout(rng, gen.lexemes(m), 'space').strip()
        if rng.random() < 0.5:
            body = "#include <part%d.h>\n" % k + body
        plain.append(body + "\n")
        head = rng.choice(["", "", "\n", "// part %d\n" % k, "/* file %d */ " % k])
        tail = rng.choice(["  // end of part %d\n" % k, "  // namespace x }\n", "\n\n", " /* eof */\n", "\n// trailing\n"])
        dressed.append(head + body + tail)
    res = dict(idx=idx, styles=["files"], nlex=1, texts=["\x1e".join(dressed)], bad=None)
    a = impl_matlab(plain, "m", [], False)
    b = impl_matlab(dressed, "m", [], False)
    if a != b:
        res["bad"] = dict(kind="spec", what="MATLAB: comments / blank lines at the boundaries of the interface files change the toolbox",
                          files=dressed, files_plain=plain, expected=str(a)[:300], got=str(b)[:300])
    return res


EXOTIC = ["\x0c", "\x0b", "\x1c", "\x1d", "\x1e", "\x85", "\u2028", "\u2029", "\xa0", "\u3000", "\ufeff", "\t", "\\n", "\x7f"]


def pybind_from_disk(text, submodule):
    """PybindWrapper.wrap / wrap_submodule reading the interface file from DISK (the way the script and CMake use it)"""
    import os
    import shutil
    import tempfile
    from common import classify_exc
    from gtwrap.pybind_wrapper import PybindWrapper
    d = tempfile.mkdtemp(prefix="verif_c12d_")
    cwd = os.getcwd()
    try:
        src = os.path.join(d, "iface.i")
        with open(src, "w", encoding="utf-8", newline="") as f:
            f.write(text)
        w = PybindWrapper(module_name="m", top_module_namespaces=[''], use_boost_serialization=False, ignore_classes=[],
                          module_template=streams.TPL_MIN)
        try:
            if submodule:
                os.chdir(d)
                w.wrap_submodule(src)
                return ("ok", open(os.path.join(d, "iface.cpp"), encoding="utf-8").read())
            w.wrap([src], os.path.join(d, "out.cpp"))
            return ("ok", open(os.path.join(d, "out.cpp"), encoding="utf-8").read())
        except Exception as e:  # noqa
            return ("err", classify_exc(e))
    finally:
        os.chdir(cwd)
        shutil.rmtree(d, ignore_errors=True)


def disk_case(idx, payload):
    """interface files READ FROM DISK by the generators, whose `//` comments contain characters that some text functions
    treat as line boundaries (form feed, vertical tab, FS/GS/RS, NEL, U+2028/9) or as blanks (NBSP, U+3000, BOM), followed
    on the same line by text that looks like declarations: comments are comments up to the line feed"""
    import gen
    import props.c01 as c01
    seed, _, _ = payload
    rng = random.Random(seed * 1000003 + idx + 90001)
    g = gen.Gen(rng, gen.Cfg(max_decls=3, max_members=4, max_depth=2, matlab_safe=True, typedef_same_ns=True))
    m = gen.gen_module_inst(g)
    want = gen.dump_module(m)
    ref = gen.layout(rng, gen.lexemes(m), 'lines')
    lines = ref.split("\n")
    hidden = ["class Hq9 { Hq9(); };", "void hq9(int x);", "enum Eq9 { A, B };", "} }", "double q9;", "prose, not code (", "template<T = {int}>"]
    dressed = []
    for ln in lines:
        if rng.random() < 0.5:
            ln += "  // note" + rng.choice(EXOTIC) + " " + rng.choice(hidden) + rng.choice(["", rng.choice(EXOTIC) + "more"])
        dressed.append(ln)
    text = "\n".join(dressed)
    res = dict(idx=idx, styles=["disk"], nlex=1, texts=[text], bad=None)
    impl = c01.impl_parse_dump(text)
    if impl != want:
        res["bad"] = dict(kind="spec", what="text inside `//` comments changes the parse result", input=text, reference=ref, **c01.first_diff(want, impl))
        return res
    for sub in (False, True):
        a, b = pybind_from_disk(ref, sub), pybind_from_disk(text, sub)
        if a != b:
            res["bad"] = dict(kind="spec", what="pybind (%s, file read from disk): text inside `//` comments changes the generated module"
                              % ("wrap_submodule" if sub else "wrap"), input=text, reference=ref, expected=str(a)[:300], got=str(b)[:300])
            return res
    a, b = impl_matlab([ref], "m", [], False), impl_matlab([text], "m", [], False)
    if a != b:
        res["bad"] = dict(kind="spec", what="MATLAB (file read from disk): text inside `//` comments changes the toolbox",
                          input=text, reference=ref, expected=str(a)[:300], got=str(b)[:300])
    return res


def run(ctx, n, seed_off=0, collect=True):
    res = fw.run_cases(case, [(ctx.seed + seed_off, None, 4)] * n)
    res += fw.run_cases(disk_case, [(ctx.seed + seed_off + 9, None, 0)] * max(16, n // 3))
    res += fw.run_cases(multifile_case, [(ctx.seed + seed_off + 5, None, 0)] * max(12, n // 3))
    # operator overloads, dunder methods, enums and defaults in quantity: the places where two alternatives of the grammar
    # compete and a comment glued to a token can tip the longest match
    res += fw.run_cases(case, [(ctx.seed + seed_off + 3, dict(extra_member_kinds=['op', 'op', 'op', 'dunder', 'enum', 'prop'],
                                                             max_members=7, extra_kinds=['cls', 'cls', 'var', 'enum']), 4)] * (n // 2))
    first = None
    for r in res:
        if "crash" in r:
            raise RuntimeError(r["crash"])
        if collect:
            for s, t in zip(r["styles"], r["texts"]):
                ctx.case(t, nontrivial=r["nlex"] > 0, sample=dict(style=s, text=t[:400]))
                ctx.count("layout_" + s)
        b = r["bad"]
        if b:
            if b["kind"] == "spec":
                first = first or b
                if collect:
                    ctx.spec_fail(b["what"], **{k: v for k, v in b.items() if k not in ("kind", "what")})
            elif collect:
                ctx.disagree(b["what"], **{k: v for k, v in b.items() if k not in ("kind", "what")})
        elif collect:
            ctx.traces_validated += len(r["texts"])
    return first


def search(ctx):
    b = run(ctx, ctx.scale(150, 1000), seed_off=4242, collect=False)
    return dict(what=b["what"], **{k: v for k, v in b.items() if k not in ("kind", "what")}) if b else None


def main(ctx):
    fw.translate_and_build(ctx, ["WrapModel", "wrapmodel"])
    fw.audit(ctx, THEOREM_MODULES)
    run(ctx, ctx.scale(70, 1500))
    import props.c01 as c01
    for e in ctx.known:
        w = e["witness"]
        still = c01.impl_parse_dump(w["input"]) != c01.impl_parse_dump(w["reference"])
        if e.get("kind") == "fixed":
            if still:
                ctx.spec_fail("a defect recorded as fixed is back: " + e["what"], **w)
        elif still:
            ctx.known_hit(e)
    ctx.extra["rule"] = ("each generated module is spelled with 4 of the layout styles %s; atomic lexemes whose inner layout is not free "
                         "(documented limits): 'unsigned char', 'enum class', 'enum struct', 'std::' before pair, operator symbols, "
                         "include header text, default-value text" % STYLES)
    return fw.finish(ctx, search=search, assumptions=["hand-written model of the lexical layer, tied by differential runs"])


def replay(ctx, path):
    import props.c01 as c01
    v = json.load(open(path))["violation"]
    for k in ("reference", "input"):
        if k in v:
            print(k, "->", c01.impl_parse_dump(v[k])[:1500])
    return 0
