"""C07 — input is either fully understood or loudly rejected, never half-used.

THEOREMS  lean/WrapModel/Props/C07.lean
TIE       corrupted stream: valid lexeme lists damaged at token level (deletion, duplication, swap, truncation, stray
          token, unbalanced bracket) and by character truncation.  Relation: model accepts => implementation accepts with
          the same tree.
ORACLE    when the implementation accepts: token accounting — the multiset of tokens of the input equals the multiset
          of tokens re-rendered from the implementation's own tree (nothing skipped, nothing swallowed);
          process level: both scripts run as subprocesses on rejected inputs in a directory with sentinel outputs must exit
          non-zero and leave the directory byte-identical (PARTIAL: observed, not proved)
"""
import json
import os
import random
import shutil
import subprocess
import sys
import tempfile

import framework as fw
from common import REPO, classify_exc

PROP = "C07"
THEOREM_MODULES = ["WrapModel.Props.C07"]


def impl_parse(text):
    from gtwrap.interface_parser import Module
    try:
        return Module.parseString(text), None
    except Exception as e:  # noqa
        return None, classify_exc(e)


def case(idx, payload):
    import gen
    import corrupt
    import mirror
    import pydump
    import props.c01 as c01
    seed, mode = payload
    rng = random.Random(seed * 1000003 + idx)
    g = gen.Gen(rng, gen.Cfg(max_decls=3, max_members=4, max_depth=2, rich_defaults=False))
    m = g.gen_module()
    lx = gen.lexemes(m)
    if mode == "chars":
        text = gen.layout(rng, lx, 'space')
        cut = rng.randrange(max(1, len(text)))
        text = text[:cut]
        kind = "char-truncate"
        bag_in = None
    else:
        kind, lx2 = corrupt.corrupt(rng, lx)
        text = gen.layout(rng, lx2, rng.choice(['space', 'lines', 'comments']))
        bag_in = mirror.char_bag(lx2)
        toks_in = mirror.token_bag(lx2)
    tree, err = impl_parse(text)
    model = c01.model_parse_dump(text)
    res = dict(idx=idx, kind=kind, text=text, impl_accepts=tree is not None, model_accepts=not model.startswith("ERR"), bad=None)
    if tree is not None and model == "ERR ValidationError":
        # the text is grammatical but breaks an explicit validity rule of the dialect (a constructor must be named like
        # its class, operator arity/shape: Props/C07.lean `C07_ctor_name_checked`, `C07_operator_arity_checked`)
        res["bad"] = dict(kind="spec", what="input accepted although it breaks a validity rule of the dialect (constructor name / operator shape)",
                          input=text, corruption=kind)
        return res
    if tree is not None:
        impl_dump = pydump.module(tree)
        if res["model_accepts"] and model != impl_dump:
            res["bad"] = dict(kind="model", what="model and implementation accept the input with different trees", input=text,
                              **c01.first_diff(impl_dump, model))
            return res
        if bag_in is not None:
            try:
                lx_tree = gen.lexemes(mirror.module(tree))
                bag_tree = mirror.char_bag(lx_tree)
            except Exception as e:  # noqa
                res["bad"] = dict(kind="model", what="cannot re-render the accepted tree: %r" % (e,), input=text)
                return res
            if bag_in - bag_tree:
                missing = dict((toks_in - mirror.token_bag(lx_tree)).items())
                extra = {}
                res["bad"] = dict(kind="spec", what="input accepted although tokens are not accounted for in the parse result",
                                  input=text, tokens_not_in_tree=missing, tokens_only_in_tree=extra, corruption=kind)
                return res
    elif res["model_accepts"]:
        res["bad"] = dict(kind="model", what="model accepts an input the implementation rejects (%s)" % err, input=text)
    return res


def semantic_case(idx, payload):
    """grammatical text that the dialect's validity rules or the generators cannot use: a method whose return type was
    lost (a constructor-shaped member with a foreign name) in a class with or without genuine constructors, a misspelled
    constructor overload, an operator of the wrong shape, a dunder method the Python generator has no binding for.
    The parser (first three) resp. the pybind generator (last) must reject, or else use every declaration."""
    import gen
    import streams
    from common import impl_pybind
    seed, _ = payload
    rng = random.Random(seed * 1000003 + idx + 99991)
    g = gen.Gen(rng, gen.Cfg(max_decls=3, max_members=4, max_depth=1, rich_defaults=False, allow_dunder=False, p_template=0.15,
                             extra_kinds=['cls', 'cls']))
    m = g.gen_module()
    classes = [d.cls for _, content in gen.walk_namespaces(m) for d in content if d.kind == 'cls']
    res = dict(idx=idx, kind="none", text="", impl_accepts=False, model_accepts=False, bad=None)
    if not classes:
        return res
    c = rng.choice(classes)
    kind = rng.choice(["ctor-shaped-method", "ctor-shaped-method", "misspelled-ctor", "operator-shape", "unknown-dunder", "static-const",
                       "typedef-unknown-template", "default-before-nondefault", "double-qualifier", "double-qualifier"])
    if kind == "double-qualifier":
        # `const Foo&& x`, `Foo** p`, `Foo*& p`, `std::vector<Foo>@@ f()`: a second pointer / reference marker behind a type — no
        # rule of the dialect has a place for it
        lx = gen.lexemes(m)
        spots = [k for k, t in enumerate(lx) if t[1] in ("&", "*", "@")]
        if not spots:
            return res
        k = rng.choice(spots)
        lx = lx[:k + 1] + [("sym", rng.choice(["&", "*", "@"]))] + lx[k + 1:]
        text = gen.layout(rng, lx, rng.choice(['space', 'lines', 'min']))
        res.update(kind=kind, text=text)
        import props.c01 as c01
        tree, err = impl_parse(text)
        model = c01.model_parse_dump(text)
        res["impl_accepts"], res["model_accepts"] = tree is not None, not model.startswith("ERR")
        if tree is not None:
            res["bad"] = dict(kind="spec", what="input accepted although a type carries two pointer / reference markers: the extra token is silently dropped",
                              input=text, corruption=kind)
        elif not model.startswith("ERR"):
            res["bad"] = dict(kind="model", what="model accepts a doubled pointer / reference marker", input=text)
        return res
    if kind == "default-before-nondefault":
        # `f(double force = 7041, int times)`: a default value in front of a parameter without one — out of dialect for the MATLAB
        # generator (its overload expansion asserts trailing defaults): it must refuse, or else the value must be used
        from common import impl_matlab
        shape = rng.choice(["func", "method", "static", "ctor"])
        sig = "(double force = 7041, int times%s)" % rng.choice(["", ", string tag", ", double w = 2"])
        decl = {"func": "void shake%s;" % sig, "method": "class Shaker9 { Shaker9(); void shake%s const; };" % sig,
                "static": "class Shaker9 { Shaker9(); static void Shake%s; };" % sig, "ctor": "class Shaker9 { Shaker9%s; };" % sig}[shape]
        g2 = gen.Gen(rng, gen.Cfg(max_decls=2, max_members=3, max_depth=1, rich_defaults=False, allow_dunder=False, p_template=0.0, matlab_safe=True, typedef_same_ns=True))
        base = gen.layout(rng, gen.lexemes(g2.gen_module()), 'space')
        text = base + "\n" + decl + "\n"
        res.update(kind=kind, text=text)
        if impl_matlab([base], "m", [], False)[0] != "ok":
            res["kind"] = "none"
            return res
        out = impl_matlab([text], "m", [], False)
        res["impl_accepts"] = out[0] == "ok"
        if out[0] == "ok" and not any("7041" in v for v in out[1].values()):
            res["bad"] = dict(kind="spec", what="the MATLAB generator accepts a %s whose defaulted parameter stands before a parameter without default, "
                              "and the default value is silently dropped" % shape, input=text, corruption=kind)
        return res

    if kind == "typedef-unknown-template":
        # `typedef Tmpl<Args> Alias;` whose template name is misspelled (one letter lost, or the wrong namespace): the name
        # denotes nothing in the module, so no declaration can account for the typedef — both generators must refuse
        from common import impl_matlab
        good = rng.choice(["Tmq9", "Holderq9", "Boxq9"])
        ns = rng.choice(["", "", "q9ns"])
        wrong = rng.choice([good[:-1], good[1:], good + "s", good.lower()])
        qual = (ns + "::") if ns else ""
        wrong_q = rng.choice([qual + wrong, qual + wrong, "nosuchns9::" + good])
        arg = rng.choice(["double", "int", "string"])
        decl = "template<T> class %s { %s(); T get() const; };\n" % (good, good)
        tdef = "typedef %s<%s> %sAlias;\n"
        body = lambda name: (("namespace %s {\n" % ns) if ns else "") + decl + tdef % (name, arg, good) + ("}\n" if ns else "")
        base = gen.layout(rng, gen.lexemes(m), 'space')
        text_ok, text = base + "\n" + body(qual + good), base + "\n" + body(wrong_q)
        res.update(kind=kind, text=text)
        ok_py = impl_pybind(text_ok, streams.TPL_MIN, "m", [''], False, [], None)
        if ok_py[0] != "ok":
            res["kind"] = "none"
            return res
        bad_py = impl_pybind(text, streams.TPL_MIN, "m", [''], False, [], None)
        bad_ml = impl_matlab([text], "m", [], False)
        res["impl_accepts"] = bad_py[0] == "ok" or bad_ml[0] == "ok"
        if res["impl_accepts"]:
            which = [n_ for n_, o_ in (("pybind", bad_py), ("matlab", bad_ml)) if o_[0] == "ok"]
            res["bad"] = dict(kind="spec", what="a typedef of a template that is declared nowhere (misspelled name %s) is accepted by the %s generator: "
                              "the declaration is silently dropped" % (wrong_q, "/".join(which)), input=text, corruption=kind)
        return res
    n_ctor = rng.choice([0, 1, 2])
    for _ in range(n_ctor):
        c.members.insert(rng.randint(0, len(c.members)), gen.Member('ctor', name=c.name, args=g.gen_args((), n=rng.randint(0, 2))))
    if kind == "ctor-shaped-method":
        c.members.insert(rng.randint(0, len(c.members)),
                         gen.Member('ctor', name=rng.choice(["print", "update", "insert", "f", c.name + "x"]), args=g.gen_args((), n=rng.randint(0, 2))))
    elif kind == "misspelled-ctor":
        c.members.insert(rng.randint(0, len(c.members)), gen.Member('ctor', name=(c.name[:-1] if len(c.name) > 1 else c.name + "x"), args=g.gen_args((), n=1)))
    elif kind == "operator-shape":
        cls_ty = gen.Ty([], c.name, None, False, '', False)
        other = gen.Ty([], "double", None, False, '', True)
        shape = rng.choice(["two-args", "unary-star", "foreign-arg"])
        args = {"two-args": [gen.Arg(cls_ty, "a"), gen.Arg(cls_ty, "b")], "unary-star": [], "foreign-arg": [gen.Arg(other, "a")]}[shape]
        c.members.insert(rng.randint(0, len(c.members)), gen.Member('op', ret=gen.Ret(cls_ty), sym='*', args=args))
    elif kind == "static-const":
        # a `const` after a static member function: no rule of the dialect has a place for it
        c.members.insert(rng.randint(0, len(c.members)),
                         gen.Member('static', tmpl=(g.gen_tmpl() if rng.random() < 0.3 else None), ret=gen.Ret(gen.Ty([], "double", None, False, '', True)),
                                    name="StaticK9", args=g.gen_args((), n=rng.randint(0, 2))))
    else:
        c.tmpl = None
        c.members.insert(rng.randint(0, len(c.members)), gen.Member('dunder', name=rng.choice(["str", "lenn", "hash", "itre", "call"]), args=[]))
    lx = gen.lexemes(m)
    if kind == "static-const":
        i = next(k for k, t in enumerate(lx) if t[1] == "StaticK9")
        j = next(k for k in range(i, len(lx)) if lx[k][1] == ";")
        lx = lx[:j] + [("word", "const")] + lx[j:]
    text = gen.layout(rng, lx, rng.choice(['space', 'lines', 'comments']))
    res.update(kind=kind, text=text)
    import props.c01 as c01
    tree, err = impl_parse(text)
    model = c01.model_parse_dump(text)
    res["impl_accepts"], res["model_accepts"] = tree is not None, not model.startswith("ERR")
    if kind == "static-const":
        if tree is not None:
            res["bad"] = dict(kind="spec", what="input accepted although it contains a token no declaration can hold (`const` after a static member function): "
                                                "the token is silently dropped", input=text, corruption=kind)
        elif not model.startswith("ERR"):
            res["bad"] = dict(kind="model", what="model accepts a `const` after a static member function", input=text)
        return res
    if kind != "unknown-dunder":
        if tree is not None:
            res["bad"] = dict(kind="spec", what="input accepted although it breaks a validity rule of the dialect (%s)" % kind,
                              input=text, corruption=kind)
        elif model != "ERR ValidationError":
            res["bad"] = dict(kind="model", what="model does not report a validation error for %s: %s" % (kind, model[:60]), input=text)
        return res
    if tree is None:
        return res
    out = impl_pybind(text, streams.TPL_MIN, "m", [''], False, [], None)
    dunder = [mb.name for mb in c.members if mb.kind == 'dunder'][0]
    if out[0] == "ok" and ("__%s__" % dunder) not in out[1]:
        res["bad"] = dict(kind="spec", what="pybind generation succeeds although the declaration __%s__ is silently left out" % dunder,
                          input=text, corruption=kind)
    return res


SCRIPTS = [("pybind", ["scripts/pybind_wrap.py", "--module_name", "m", "--out", "out.cpp", "--template", "TPL", "--src", "SRC"], ["out.cpp"]),
           ("pybind-sub", ["scripts/pybind_wrap.py", "--module_name", "m", "--out", "out.cpp", "--template", "TPL", "--is_submodule", "--src", "SRC"],
            ["src.cpp", "out.cpp"]),
           ("matlab", ["scripts/matlab_wrap.py", "--module_name", "m", "--out", "toolbox", "--src", "SRC"], ["toolbox/m_wrapper.cpp", "toolbox/A.m"]),
           # a LIST of interface files, one of them the rejected text: still all-or-nothing.  (pybind_wrap.py without --is_submodule
           # reads only the FIRST file of the list — the others are only named as submodules — so there the rejected text is first.)
           ("pybind-list", ["scripts/pybind_wrap.py", "--module_name", "m", "--out", "out.cpp", "--template", "TPL", "--src", "SRC3"], ["out.cpp"]),
           ("pybind-sub-list", ["scripts/pybind_wrap.py", "--module_name", "m", "--out", "out.cpp", "--template", "TPL", "--is_submodule", "--src", "SRC2"],
            ["good.cpp", "src.cpp", "out.cpp"]),
           ("matlab-list", ["scripts/matlab_wrap.py", "--module_name", "m", "--out", "toolbox", "--src", "SRC2"],
            ["toolbox/m_wrapper.cpp", "toolbox/Goodq9.m"])]
GOOD_FILE = "class Goodq9 {\n  Goodq9();\n  double value() const;\n};\n"


def snapshot(d):
    out = {}
    for root, _, fs in os.walk(d):
        for f in fs:
            p = os.path.join(root, f)
            out[os.path.relpath(p, d)] = open(p, "rb").read()
    return out


def script_case(idx, payload):
    """a rejected input through a command-line script in a directory with sentinel outputs"""
    seed, texts = payload
    text = texts[idx % len(texts)]
    name, argv, sentinels = SCRIPTS[idx % len(SCRIPTS)]
    with_sentinel = (idx // len(SCRIPTS)) % 2 == 0
    d = tempfile.mkdtemp(prefix="verif_c07_")
    try:
        src = os.path.join(d, "src.i")
        open(src, "w", encoding="utf-8").write(text)
        open(os.path.join(d, "good.i"), "w", encoding="utf-8").write(GOOD_FILE)
        tpl = os.path.join(REPO, "tests", "pybind_wrapper.tpl")
        if with_sentinel:
            for s in sentinels:
                p = os.path.join(d, s)
                os.makedirs(os.path.dirname(p), exist_ok=True)
                open(p, "w").write("// sentinel: a previous good output\n")
        before = snapshot(d)
        cmd = [sys.executable] + [os.path.join(REPO, a) if a.startswith("scripts/") else (tpl if a == "TPL" else ("src.i" if a == "SRC" else ({"SRC2": "good.i;src.i", "SRC3": "src.i;good.i"}.get(a, a))))
                                  for a in argv]
        try:
            r = subprocess.run(cmd, cwd=d, capture_output=True, text=True, timeout=60, env=dict(os.environ, PYTHONPATH=REPO))
            rc, timed_out = r.returncode, False
        except subprocess.TimeoutExpired:
            rc, timed_out = None, True
        after = snapshot(d)
        bad = None
        if timed_out:
            bad = "the run did not terminate within 60 s"
        elif rc == 0:
            bad = "the script exited 0 on an input the parser rejects"
        elif before != after:
            ch = sorted(set(before) ^ set(after)) + [k for k in before if k in after and before[k] != after[k]]
            bad = "a failing run created or modified output files: %s" % ch[:5]
        return dict(idx=idx, script=name, sentinel=with_sentinel, text=text, bad=bad)
    finally:
        shutil.rmtree(d, ignore_errors=True)


BYTE_INPUTS = [b'class A { A(); void order(string what = "caf\xe9", int cups = 1) const; };\n',
               b'#include <demo/Caf\xe9.h>\nclass A { A(); };\n',
               b'class A { A(); };  // caf\xe9\n',
               b'class A { A(); char c = \'\xe9\'; };\n']


def bytes_case(idx, payload):
    """an interface file that is not valid UTF-8 (a Latin-1 byte inside a default value, an include path, a comment):
    each script must fail and leave the directory as it was, or succeed — never fail after clobbering an output"""
    raw = BYTE_INPUTS[idx % len(BYTE_INPUTS)]
    name, argv, sentinels = SCRIPTS[(idx // len(BYTE_INPUTS)) % len(SCRIPTS)]
    d = tempfile.mkdtemp(prefix="verif_c07b_")
    try:
        open(os.path.join(d, "src.i"), "wb").write(raw)
        open(os.path.join(d, "good.i"), "w", encoding="utf-8").write(GOOD_FILE)
        tpl = os.path.join(REPO, "tests", "pybind_wrapper.tpl")
        for s_ in sentinels:
            p_ = os.path.join(d, s_)
            os.makedirs(os.path.dirname(p_), exist_ok=True)
            open(p_, "w").write("// sentinel: a previous good output\n")
        before = snapshot(d)
        cmd = [sys.executable] + [os.path.join(REPO, a) if a.startswith("scripts/") else (tpl if a == "TPL" else ("src.i" if a == "SRC" else ({"SRC2": "good.i;src.i", "SRC3": "src.i;good.i"}.get(a, a))))
                                  for a in argv]
        r = subprocess.run(cmd, cwd=d, capture_output=True, text=True, timeout=60, env=dict(os.environ, PYTHONPATH=REPO))
        after = snapshot(d)
        bad = None
        if r.returncode != 0 and before != after:
            ch = sorted(set(before) ^ set(after)) + [k for k in before if k in after and before[k] != after[k]]
            bad = "a failing run created or modified output files: %s" % ch[:5]
        return dict(idx=idx, script=name, sentinel=True, text=repr(raw), bad=bad, exit=r.returncode)
    finally:
        shutil.rmtree(d, ignore_errors=True)


def run(ctx, n, n_scripts, off=0, collect=True):
    first = None
    rejected = []
    res = fw.run_cases(case, [(ctx.seed + off, "tokens")] * n + [(ctx.seed + off + 1, "chars")] * (n // 4))
    res += fw.run_cases(semantic_case, [(ctx.seed + off, None)] * (n // 3))
    for r in res:
        if "crash" in r:
            raise RuntimeError(r["crash"])
        if collect:
            ctx.case(r["text"], sample=dict(corruption=r["kind"], text=r["text"][:300], implementation_accepts=r["impl_accepts"]))
            ctx.count("corruption_" + r["kind"])
            ctx.count("impl_accepts" if r["impl_accepts"] else "impl_rejects")
            ctx.count("model_accepts" if r["model_accepts"] else "model_rejects")
        if not r["impl_accepts"] and len(r["text"]) < 2500:
            rejected.append(r["text"])
        b = r["bad"]
        if b:
            kind = b.pop("kind")
            if kind == "spec":
                if is_known_leniency(ctx, b):
                    continue
                first = first or dict(b)
                if collect:
                    ctx.spec_fail(b.pop("what"), **b)
            elif collect:
                ctx.disagree(b.pop("what"), **b)
        elif collect:
            ctx.traces_validated += 1
    # several interface files given together: everything that is accepted must be used (the files live in disjoint namespaces)
    import props.c05 as c05
    for r in fw.run_cases(c05.multifile_case, [(ctx.seed + off + 9, None)] * max(10, n // 12)):
        if "crash" in r:
            raise RuntimeError(r["crash"])
        if collect:
            ctx.case("multifile" + r["text"], nontrivial=r["ran"], sample=None)
            ctx.count("multifile_lists" if r["ran"] else "multifile_rejected")
        if r["bad"]:
            v = dict(what="a list of interface files is accepted but not fully used: " + r["bad"], files=r["text"].split("\x1e"))
            first = first or v
            if collect:
                ctx.spec_fail(v["what"], files=v["files"])
        elif collect and r["ran"]:
            ctx.traces_validated += 1
    script_results = []
    if n_scripts:
        script_results += fw.run_cases(bytes_case, [(ctx.seed, None)] * (len(BYTE_INPUTS) * len(SCRIPTS)))
    if rejected and n_scripts:
        script_results += fw.run_cases(script_case, [(ctx.seed, rejected)] * n_scripts)
    if script_results:
        for r in script_results:
            if "crash" in r:
                raise RuntimeError(r["crash"])
            if collect:
                ctx.evaluations += 1
                ctx.count("script_run_" + r["script"])
            if r["bad"]:
                v = dict(what="%s: %s" % (r["script"], r["bad"]), input=r["text"], script=r["script"], sentinel_present=r["sentinel"])
                first = first or v
                if collect:
                    ctx.spec_fail(v["what"], **{k: x for k, x in v.items() if k != "what"})
    return first


def is_known_leniency(ctx, b):
    """token-accounting failures that belong to a listed known finding (qualifiers silently dropped in template
    instantiation lists / typedefs)"""
    miss = b.get("tokens_not_in_tree", {})
    extra = b.get("tokens_only_in_tree", {})
    if extra:
        return False
    for e in ctx.known:
        cls = e.get("class")
        if cls == "dropped-qualifier" and miss and set(miss) <= {"const", "*", "@", "&"}:
            hit = e
            if not any(h is hit for h, _ in ctx.known_hits):
                ctx.known_hit(hit, "e.g. " + b["input"][:80].replace("\n", " "))
            return True
    return False


def main(ctx):
    fw.translate_and_build(ctx, ["WrapModel", "wrapmodel"])
    fw.audit(ctx, THEOREM_MODULES)
    run(ctx, ctx.scale(360, 9000), ctx.scale(48, 720))
    for e in ctx.known:
        if e.get("class") == "dropped-qualifier" and not any(h is e for h, _ in ctx.known_hits):
            tree, err = impl_parse(e["witness"]["input"])
            if tree is not None:
                ctx.known_hit(e)
    ctx.extra["rule"] = ("valid lexeme lists damaged by one of 6 token-level corruptions or cut at a random character; the rejected "
                         "ones are also fed to scripts/pybind_wrap.py (main and --is_submodule) and scripts/matlab_wrap.py in a "
                         "directory with sentinel outputs; distinct = distinct texts")
    return fw.finish(ctx, search=lambda c: run(c, c.scale(500, 3000), 0, off=31, collect=False),
                     assumptions=["process/file-system behaviour is observed on samples, not proved",
                                  "the model parser is predictive: only 'model accepts => implementation accepts the same tree' is required on corrupted inputs"])


def replay(ctx, path):
    v = json.load(open(path))["violation"]
    if "input" in v:
        tree, err = impl_parse(v["input"])
        print("implementation:", "accepts" if tree is not None else "rejects (%s)" % err)
    return 0
