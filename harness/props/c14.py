"""C14 — generation is a pure, repeatable function of inputs and options.

THEOREMS  lean/WrapModel/Props/C14.lean — the model *is* a function of (text, template, options); what is proved is the part
          that is logic: the export block of a file depends on that file's own classes only (no state carried between files)
ORACLE    direct observation on the implementation (PARTIAL: hash seed, working directory, scheduling and the file system are
          properties of CPython and the OS, observed on samples): one wrapper object reused for several inputs vs fresh ones;
          the scripts as subprocesses under different PYTHONHASHSEED / working directories / in parallel in one build
          directory; set of files written vs requested
"""
import concurrent.futures
import json
import os
import random
import shutil
import subprocess
import sys
import tempfile

import framework as fw
import streams
from common import REPO, impl_pybind, impl_matlab, classify_exc
from props.c16 import gen_text

PROP = "C14"
KEYWORDISH = ["print", "lambda", "def", "from", "None", "pass", "async", "f", "serialize", "markdown", "svg", "clone"]
# the plain C locale with Python's UTF-8 mode and locale coercion switched off: the preferred encoding is ASCII
C_LOCALE = {"LC_ALL": "C", "LANG": "C", "PYTHONUTF8": "0", "PYTHONCOERCECLOCALE": "0"}
STEMS = ["omni", "wifi", "i", "basis", "geometry", "nav", "linear", "sfm", "slam", "base", "inference", "symbolic", "discrete", "a", "zz9"]
THEOREM_MODULES = ["WrapModel.Props.C14"]


def reuse_case(idx, payload):
    from gtwrap.pybind_wrapper import PybindWrapper
    seed, _ = payload
    rng = random.Random(seed * 1000003 + idx)
    # half of the sequences draw method and function names from a pool of names the generators treat specially
    pool = KEYWORDISH if rng.random() < 0.5 else None
    texts = [gen_text(rng, dict(extra_kinds=['cls', 'cls', 'func'], max_depth=2, mnames=pool), serializable=0.5)[1]
             for _ in range(rng.randint(2, 4))]
    if rng.random() < 0.3:
        texts.append(texts[0])        # the same file again
    boost = rng.random() < 0.7
    res = dict(idx=idx, text=texts[-1], n=len(texts), boost=boost, bad=None)
    try:
        w = PybindWrapper(module_name="m", top_module_namespaces=[''], use_boost_serialization=boost, ignore_classes=[],
                          module_template=streams.TPL_MIN)
        outs = [w.wrap_file(t, module_name="m") for t in texts]
    except Exception as e:  # noqa
        res["err"] = classify_exc(e)
        return res
    for i, (t, o) in enumerate(zip(texts, outs)):
        fresh = impl_pybind(t, streams.TPL_MIN, "m", [''], boost, [], None)
        again = impl_pybind(t, streams.TPL_MIN, "m", [''], boost, [], None)
        if fresh != again:
            res["bad"] = dict(what="two fresh runs on the same input differ", input=t)
            return res
        if fresh != ("ok", o):
            res["bad"] = dict(what="output for an input depends on the files wrapped earlier by the same wrapper object",
                              input=t, earlier_inputs=texts[:i], **streams.first_diff(fresh[1], o))
            return res
    # the same history on the model's wrapper-object state machine (Model/PybindState.lean, theorem C14_reuse_history)
    st, ans = fw.worker_driver().call("pyhist", "\x1e".join(texts), streams.TPL_MIN, "m", "\x1f", "1" if boost else "0", "")
    model_outs = ans.split("\x1e") if st == "ok" else None
    if model_outs != ["ok:" + o for o in outs]:
        k = next((j for j in range(len(outs)) if model_outs is None or j >= len(model_outs) or model_outs[j] != "ok:" + outs[j]), 0)
        res["bad"] = dict(kind="model", what="model of a re-used wrapper object differs from the implementation at call %d of the history" % k,
                          input=texts[k], earlier_inputs=texts[:k],
                          **(streams.first_diff(outs[k], model_outs[k][3:]) if model_outs and k < len(model_outs) else dict(got=str(ans)[:200])))
        return res
    return res


def history_case(idx, payload):
    """earlier wrap calls in the process: text B wrapped after text A (same declaration names, other members) in one
    fresh process must equal text B wrapped alone in another fresh process — new wrapper objects each time, so that
    only state outside the wrapper objects (class attributes, module-level caches, memo tables) can leak"""
    import copy
    import gen
    seed, _ = payload
    rng = random.Random(seed * 1000003 + idx + 424242)
    g = gen.Gen(rng, gen.Cfg(max_decls=4, max_members=3, max_depth=1, matlab_safe=True, typedef_same_ns=True, unique_ns=True,
                             rich_defaults=False, p_template=0.6, n_typedefs=3))
    m = gen.gen_module_inst(g)
    m2 = copy.deepcopy(m)
    for _, content in gen.walk_namespaces(m2):
        for d in content:
            if d.kind == 'cls':
                c = d.cls
                keep = [mb for mb in c.members if mb.kind != 'ctor'][1:]
                c.members = [gen.Member('ctor', name=c.name, args=[gen.Arg(gen.Ty([], "size_t", None, False, '', True), "n"),
                                                                 gen.Arg(gen.Ty([], "bool", None, False, '', True), "flag")])] + keep
    a = gen.layout(rng, gen.lexemes(m), 'space')
    b = gen.layout(rng, gen.lexemes(m2), 'space')
    res = dict(idx=idx, text=b, first=a, bad=None, runs=0)
    # every generation has its own options: the first and third ignore some classes (by qualified name), the second none of
    # them — an ignore list is an option of ONE wrapper object
    quals = ["::".join(list(p_) + [d_.cls.name]) for p_, content in gen.walk_namespaces(m) for d_ in content if d_.kind == 'cls' and not d_.cls.tmpl]
    ia = rng.sample(quals, min(len(quals), rng.choice([0, 1, 1, 2])))
    ib = [] if rng.random() < 0.7 else rng.sample(quals, min(len(quals), 1))
    res["ignores"] = [ia, ib]
    d = tempfile.mkdtemp(prefix="verif_c14h_")
    try:
        outs = []
        for name, texts, report, ign in (("seq", [a, b, a], [1, 2], [ia, ib, ia]), ("b_alone", [b], [0], [ib]), ("a_alone", [a], [0], [ia])):
            jp = os.path.join(d, name + ".json")
            json.dump(dict(texts=texts, report=report, ignores=ign), open(jp, "w", encoding="utf-8"))
            r = run_script([os.path.join(fw.VERIF, "harness", "c14_history.py"), jp], d, {})
            res["runs"] += 1
            if r.returncode != 0:
                raise RuntimeError("c14_history.py failed: " + r.stderr[-500:])
            outs.append(json.loads(r.stdout))
        seq, b_alone, a_alone = outs
        for k, alone, label, t in (("1", b_alone["0"], "second", b), ("2", a_alone["0"], "third", a)):
            for gen_name in ("pybind", "matlab"):
                if seq[k][gen_name] != alone[gen_name]:
                    x, y = alone[gen_name], seq[k][gen_name]
                    dd = {}
                    if gen_name == "pybind" and x[0] == y[0] == "ok":
                        dd = streams.first_diff(x[1], y[1])
                    res["bad"] = dict(what="%s output for the %s text of a process differs from wrapping it in a fresh process" % (gen_name, label),
                                      input=t, earlier_inputs=[a, b][:int(k)], ignore_lists=[ia, ib, ia][:int(k) + 1], **dd)
                    return res
    finally:
        shutil.rmtree(d, ignore_errors=True)
    return res


def xml_history_case(idx, payload):
    """Doxygen documentation with overloads that have identical parameter names (the per-key counter of the XML parser):
    a NEW wrapper object for the same input and the same XML folder must produce the same output as the first one"""
    from gtwrap.pybind_wrapper import PybindWrapper
    seed, _ = payload
    rng = random.Random(seed * 1000003 + idx + 515151)
    n_doc = rng.randint(2, 4)
    n_wrapped = rng.randint(1, n_doc)
    types = ["int", "double", "size_t", "char"]
    text = "class A { A(); %s };" % " ".join("void scale(%s s);" % types[i] for i in range(n_wrapped))
    res = dict(idx=idx, text=text, bad=None, runs=0)
    d = tempfile.mkdtemp(prefix="verif_c14x_")
    try:
        open(os.path.join(d, "index.xml"), "w").write(
            '<doxygenindex><compound refid="classA" kind="class"><name>A</name></compound></doxygenindex>')
        open(os.path.join(d, "classA.xml"), "w").write(
            '<doxygen><compounddef id="classA" kind="class"><compoundname>A</compoundname><sectiondef kind="public-func">' + "".join(
                '<memberdef kind="function" id="m%d"><type>void</type><name>scale</name><argsstring>(%s s)</argsstring>'
                '<param><type>%s</type><declname>s</declname></param><briefdescription><para>Overload number %d.</para>'
                '</briefdescription><detaileddescription></detaileddescription></memberdef>' % (i, types[i], types[i], i)
                for i in range(n_doc)) + '</sectiondef></compounddef></doxygen>')
        # ONE wrapper object wrapping the file, another file, and the file again: the second output for the file is the first
        # (the overload counter of the XML parser is a per-FILE accumulator, like the list of serialising classes)
        w0 = PybindWrapper(module_name="m", top_module_namespaces=[''], use_boost_serialization=False, ignore_classes=[],
                           module_template=streams.TPL_MIN, xml_source=d)
        try:
            o1 = w0.wrap_file(text, module_name="m")
            if rng.random() < 0.5:
                w0.wrap_file("class B { B(); void scale(int s); };", module_name="m")
            o2 = w0.wrap_file(text, module_name="m")
        except Exception as e:  # noqa
            o1, o2 = "", "<<%s>>" % classify_exc(e)
        if o1 != o2:
            res["bad"] = dict(what="with Doxygen XML, the output for an input depends on the files wrapped earlier by the same wrapper object",
                              input=text, documented_overloads=n_doc, **streams.first_diff(o1, o2))
            return res
        outs = []
        for _ in range(3):
            w = PybindWrapper(module_name="m", top_module_namespaces=[''], use_boost_serialization=False, ignore_classes=[],
                              module_template=streams.TPL_MIN, xml_source=d)
            try:
                outs.append(("ok", w.wrap_file(text, module_name="m")))
            except Exception as e:  # noqa
                outs.append(("err", classify_exc(e)))
        if outs[1] != outs[0] or outs[2] != outs[0]:
            k = 1 if outs[1] != outs[0] else 2
            dd = streams.first_diff(outs[0][1], outs[k][1]) if outs[0][0] == outs[k][0] == "ok" else dict(expected=str(outs[0])[:200], got=str(outs[k])[:200])
            res["bad"] = dict(what="with Doxygen XML, a new wrapper object produces other output than the first one did for the same input",
                              input=text, documented_overloads=n_doc, **dd)
            return res
        # the XML folder is an INPUT: when its files change between two generations of one process (an edited comment, a class
        # file that did not exist before), a new wrapper object reads what is on disk now
        if outs[0][0] == "ok":
            xml = open(os.path.join(d, "classA.xml")).read()
            open(os.path.join(d, "classA.xml"), "w").write(xml.replace("Overload number", "Revised wording"))
            w = PybindWrapper(module_name="m", top_module_namespaces=[''], use_boost_serialization=False, ignore_classes=[],
                              module_template=streams.TPL_MIN, xml_source=d)
            try:
                again = ("ok", w.wrap_file(text, module_name="m"))
            except Exception as e:  # noqa
                again = ("err", classify_exc(e))
            want = ("ok", outs[0][1].replace("Overload number", "Revised wording"))
            if again != want:
                dd = streams.first_diff(want[1], again[1]) if again[0] == "ok" else dict(expected=want[1][:200], got=str(again)[:200])
                res["bad"] = dict(what="with Doxygen XML edited between two generations of one process, the second generation does not show the documentation that is on disk",
                                  input=text, documented_overloads=n_doc, **dd)
    finally:
        shutil.rmtree(d, ignore_errors=True)
    return res


def ignore_history_case(idx, payload):
    """the ignore list is an option of ONE generation: project 1 ignores a class; project 2, generated afterwards in the same
    process by new wrapper objects with another (or no) ignore list, uses a class of the same simple name as argument type
    of constructors, methods, static methods and free functions — its outputs are those of a fresh process"""
    seed, _ = payload
    rng = random.Random(seed * 1000003 + idx + 515151)
    nm = rng.choice(["Secret", "Key", "Impl", "Node"])
    other = rng.choice(["Other", "Helper", "Aux"])
    ns1, ns2 = rng.sample(["legacy", "app", "core", "v2"], 2)
    if rng.random() < 0.3:
        ns2 = ns1
    a = "namespace %s {\nclass %s { %s(); int id() const; };\nclass %s { %s(); void see(const %s::%s& s) const; };\n}\n" % (ns1, nm, nm, other, other, ns1, nm)
    mem = []
    if rng.random() < 0.8:
        mem.append("User(const %s::%s& s);" % (ns2, nm))
    if rng.random() < 0.8:
        mem.append("User(const %s::%s& s, int n);" % (ns2, nm))
    mem.append("void use(const %s::%s& s, double w) const;" % (ns2, nm))
    if rng.random() < 0.6:
        mem.append("void use(int k) const;")
    if rng.random() < 0.6:
        mem.append("static int Count(const %s::%s& s);" % (ns2, nm))
    b = "namespace %s {\nclass %s { %s(); int id() const; };\nclass User { %s };\nint helper(const %s::%s& s);\nint helper(int n);\n}\n" % (
        ns2, nm, nm, " ".join(mem), ns2, nm)
    ia, ib = ["%s::%s" % (ns1, nm)], rng.choice([[], [], ["%s::User" % ns2]])
    res = dict(idx=idx, text=b, first=a, bad=None, runs=0, ignores=[ia, ib])
    d = tempfile.mkdtemp(prefix="verif_c14i_")
    try:
        outs = []
        for name, texts, report, ign in (("seq", [a, b], [1], [ia, ib]), ("b_alone", [b], [0], [ib])):
            jp = os.path.join(d, name + ".json")
            json.dump(dict(texts=texts, report=report, ignores=ign), open(jp, "w", encoding="utf-8"))
            r = run_script([os.path.join(fw.VERIF, "harness", "c14_history.py"), jp], d, {})
            res["runs"] += 1
            if r.returncode != 0:
                raise RuntimeError("c14_history.py failed: " + r.stderr[-500:])
            outs.append(json.loads(r.stdout))
        for gen_name in ("pybind", "matlab"):
            x, y = outs[1]["0"][gen_name], outs[0]["1"][gen_name]
            if x != y:
                dd = {}
                if gen_name == "matlab" and x[0] == y[0] == "ok":
                    f = next((k for k in sorted(x[1]) if x[1].get(k) != y[1].get(k)), None)
                    if f:
                        dd = dict(file=f, **streams.first_diff(x[1][f], y[1].get(f, "")))
                elif gen_name == "pybind" and x[0] == y[0] == "ok":
                    dd = streams.first_diff(x[1], y[1])
                res["bad"] = dict(what="%s output of a project generated after another project (which ignored %s) differs from generating it in a fresh process"
                                  % (gen_name, ia), input=b, earlier_inputs=[a], ignore_lists=[ia, ib], **dd)
                return res
    finally:
        shutil.rmtree(d, ignore_errors=True)
    return res


def regen_case(idx, payload):
    """previous runs: a MATLAB toolbox regenerated into the directory of an earlier (longer or shorter) revision is byte-identical
    to the toolbox generated into a fresh directory (the stream of props/c05.regen_case, read for this property)"""
    from props import c05
    r = c05.regen_case(idx, (payload[0] + 3, None))
    res = dict(idx=idx, text=r["text"], bad=None, runs=2 if r["ran"] else 0)
    if r["bad"] and "not the file of the new revision" in r["bad"]:
        res["bad"] = dict(what="MATLAB output depends on an earlier run into the same directory: " + r["bad"], revisions=r["text"].split("\x1e"))
    return res


def run_script(args, cwd, env_extra):
    env = dict(os.environ, PYTHONPATH=REPO)
    env.update(env_extra)
    return subprocess.run([sys.executable] + args, cwd=cwd, capture_output=True, text=True, timeout=180, env=env)


def listing(d):
    out = {}
    for root, _, fs in os.walk(d):
        for f in fs:
            p = os.path.join(root, f)
            out[os.path.relpath(p, d)] = open(p, "rb").read()
    return out


def process_case(idx, payload):
    seed, _ = payload
    rng = random.Random(seed * 1000003 + idx + 70000)
    m, text = gen_text(rng, dict(max_depth=2, extra_kinds=['cls', 'ns']), serializable=0.3)
    if rng.random() < 0.7:
        # non-ASCII text in a comment or in a default value: the bytes must come through under every locale
        text += rng.choice(["\n// Grüß Gott, 東京\n", "\nclass Ort { Ort(); void name(string s = \"Zürich\") const; };\n"])
    if rng.random() < 0.6:
        # a serialising class template with TWO arguments: its BOOST_CLASS_EXPORT goes through a generated typedef alias
        text += "\nnamespace geoq9 { class Keyq9 { Keyq9(); };\ntemplate<K = {geoq9::Keyq9, int}, V = {double}>\nclass Tableq9 { Tableq9(); void serialize() const; };\n}\n"
    res = dict(idx=idx, text=text, bad=None, runs=0)
    base = tempfile.mkdtemp(prefix="verif_c14_")
    try:
        src = os.path.join(base, "in.i")
        open(src, "w", encoding="utf-8").write(text)
        tpl = os.path.join(base, "t.tpl")
        open(tpl, "w").write(streams.TPL_MIN)
        stems = rng.sample(STEMS, rng.choice([0, 2, 3, 5]))
        subs = []
        for st in stems:
            # the main-module step uses only the NAMES of the submodule files: some exist, some do not exist (yet), some are
            # given relative to a directory that is not the working directory
            how = rng.choice(["exists", "exists", "missing", "relative"])
            sp = os.path.join(base, st + ".i") if how != "relative" else os.path.join("gen", "sub", st + ".i")
            if how == "exists":
                open(sp, "w", encoding="utf-8").write(gen_text(rng, dict(max_depth=1), serializable=0.3)[1])
            subs.append(sp)
        api = impl_pybind(text, streams.TPL_MIN, "modx", [''], True, [], stems)
        apim = impl_matlab([text], "modx", [], True)
        if api[0] != "ok" or apim[0] != "ok":
            return res
        for hs, sub in (("0", "w1"), ("1", "w2/deeper"), ("4242", "w3"), ("7", "w4-c-locale")):
            cwd = os.path.join(base, sub)
            os.makedirs(cwd)
            before = set(listing(base))
            r = run_script([os.path.join(REPO, "scripts", "pybind_wrap.py"), "--src", ";".join([src] + subs), "--module_name", "modx", "--out", "o.cpp",
                            "--template", tpl, "--use-boost-serialization"], cwd, dict(C_LOCALE if sub == "w4-c-locale" else {"LC_ALL": rng.choice(["C", "C.UTF-8"])}, PYTHONHASHSEED=hs))
            res["runs"] += 1
            got = open(os.path.join(cwd, "o.cpp"), encoding="utf-8").read() if os.path.exists(os.path.join(cwd, "o.cpp")) else None
            if r.returncode != 0 or got != api[1]:
                res["bad"] = dict(what="pybind script output depends on hash seed / working directory / locale (PYTHONHASHSEED=%s)" % hs,
                                  input=text, submodules=stems, stderr=r.stderr[-300:], **(streams.first_diff(api[1], got) if got else {}))
                return res
            new = set(listing(base)) - before
            if new != {os.path.join(sub, "o.cpp")}:
                res["bad"] = dict(what="pybind script wrote files it was not asked to produce", input=text, written=sorted(new))
                return res
            before = set(listing(base))
            r = run_script([os.path.join(REPO, "scripts", "matlab_wrap.py"), "--src", src, "--module_name", "modx", "--out", "tb",
                            "--use-boost-serialization"], cwd, dict(C_LOCALE if sub == "w4-c-locale" else {}, PYTHONHASHSEED=hs))
            res["runs"] += 1
            got = {k[len(sub) + 4:]: v.decode("utf-8") for k, v in listing(base).items() if k.startswith(os.path.join(sub, "tb") + os.sep)}
            if r.returncode != 0 or got != apim[1]:
                res["bad"] = dict(what="MATLAB script output depends on hash seed / working directory (PYTHONHASHSEED=%s)" % hs,
                                  input=text, stderr=r.stderr[-300:])
                return res
            new = set(listing(base)) - before
            if any(not n.startswith(os.path.join(sub, "tb") + os.sep) for n in new):
                res["bad"] = dict(what="MATLAB script wrote files outside the requested folder", input=text, written=sorted(new)[:10])
                return res
        # previous runs: the same target path again, other options, inputs untouched — the earlier output must not survive
        cwd = os.path.join(base, "w1")
        api2 = impl_pybind(text, streams.TPL_MIN, "mody", [''], False, [], stems)
        r = run_script([os.path.join(REPO, "scripts", "pybind_wrap.py"), "--src", ";".join([src] + subs), "--module_name", "mody", "--out", "o.cpp",
                        "--template", tpl], cwd, {})
        res["runs"] += 1
        got = open(os.path.join(cwd, "o.cpp"), encoding="utf-8").read() if os.path.exists(os.path.join(cwd, "o.cpp")) else None
        if api2[0] == "ok" and (r.returncode != 0 or got != api2[1]):
            res["bad"] = dict(what="pybind script output depends on an earlier run into the same build directory (other options, same inputs)",
                              input=text, stderr=r.stderr[-300:], **(streams.first_diff(api2[1], got) if got else {}))
            return res
        apim2 = impl_matlab([text], "mody", [], False)
        r = run_script([os.path.join(REPO, "scripts", "matlab_wrap.py"), "--src", src, "--module_name", "mody", "--out", "tb2"], cwd, {})
        res["runs"] += 1
        got = {k[len("w1/tb2/"):]: v.decode("utf-8") for k, v in listing(base).items() if k.startswith("w1/tb2/")}
        if apim2[0] == "ok" and (r.returncode != 0 or got != apim2[1]):
            res["bad"] = dict(what="MATLAB script output for a second module in the same build directory differs from the API's",
                              input=text, stderr=r.stderr[-300:])
            return res
    finally:
        shutil.rmtree(base, ignore_errors=True)
    return res


def parallel_check(ctx, seed, nproc):
    """nproc script processes at once in one build directory, each writing its own target"""
    rng = random.Random(seed * 31 + 5)
    base = tempfile.mkdtemp(prefix="verif_c14p_")
    try:
        tpl = os.path.join(base, "t.tpl")
        open(tpl, "w").write(streams.TPL_MIN)
        jobs = []
        for i in range(nproc):
            m, text = gen_text(rng, dict(max_depth=1), serializable=0.3)
            api = impl_pybind(text, streams.TPL_MIN, "mod%d" % i, [''], True, [], [])
            if api[0] != "ok":
                continue
            src = os.path.join(base, "in%d.i" % i)
            open(src, "w", encoding="utf-8").write(text)
            jobs.append((i, text, api[1], [os.path.join(REPO, "scripts", "pybind_wrap.py"), "--src", src, "--module_name", "mod%d" % i,
                                            "--out", "out%d.cpp" % i, "--template", tpl, "--use-boost-serialization"]))
        with concurrent.futures.ThreadPoolExecutor(len(jobs) or 1) as ex:
            rs = list(ex.map(lambda j: run_script(j[3], base, {}), jobs))
        for (i, text, want, _), r in zip(jobs, rs):
            ctx.evaluations += 1
            ctx.count("parallel_runs")
            p = os.path.join(base, "out%d.cpp" % i)
            got = open(p, encoding="utf-8").read() if os.path.exists(p) else None
            if r.returncode != 0 or got != want:
                ctx.spec_fail("a wrapper process running in parallel with others in one build directory produced different output",
                              input=text, stderr=r.stderr[-300:])
        extra = set(os.listdir(base)) - {"t.tpl"} - {"in%d.i" % j[0] for j in jobs} - {"out%d.cpp" % j[0] for j in jobs}
        if extra:
            ctx.spec_fail("parallel wrapper processes left unrequested files", files=sorted(extra))
        # second phase: the `--is_submodule` steps of ONE module (same --module_name, as PybindWrap.cmake starts them) at once in a
        # build directory that holds other files: each step writes <stem>.cpp and touches nothing else
        sub = os.path.join(base, "subs")
        os.makedirs(sub)
        bystanders = {"robotics.cpp.tmp": "scratch of somebody else\n", "CMakeCache.txt": "CMAKE\n", "part0.cpp.tmp": "x\n", "robotics.cpp": "// main module\n"}
        for k, v in bystanders.items():
            open(os.path.join(sub, k), "w").write(v)
        sjobs = []
        for i in range(max(4, nproc // 2)):
            m, text = gen_text(rng, dict(max_depth=1), serializable=0.3)
            api = impl_pybind(text, streams.TPL_MIN, "part%d" % i, [''], True, [], None)
            if api[0] != "ok":
                continue
            src = os.path.join(base, "part%d.i" % i)
            open(src, "w", encoding="utf-8").write(text)
            sjobs.append((i, text, api[1], [os.path.join(REPO, "scripts", "pybind_wrap.py"), "--src", src, "--module_name", "robotics",
                                             "--out", "robotics.cpp", "--template", tpl, "--use-boost-serialization", "--is_submodule"]))
        with concurrent.futures.ThreadPoolExecutor(len(sjobs) or 1) as ex:
            rs = list(ex.map(lambda j: run_script(j[3], sub, {}), sjobs))
        for (i, text, want, _), r in zip(sjobs, rs):
            ctx.evaluations += 1
            ctx.count("parallel_submodule_runs")
            p = os.path.join(sub, "part%d.cpp" % i)
            got = open(p, encoding="utf-8").read() if os.path.exists(p) else None
            if r.returncode != 0 or got != want:
                ctx.spec_fail("a submodule step running in parallel with the other steps of its module failed or produced different output",
                              input=text, stderr=r.stderr[-300:])
        now = {k: open(os.path.join(sub, k)).read() for k in os.listdir(sub)}
        touched = sorted(k for k, v in bystanders.items() if now.get(k) != v)
        extra = sorted(set(now) - set(bystanders) - {"part%d.cpp" % j[0] for j in sjobs})
        if touched or extra:
            ctx.spec_fail("submodule steps modified or removed files they were not asked to produce, or left extra files",
                          modified_or_removed=touched, extra=extra, input=sjobs[0][1] if sjobs else "")
    finally:
        shutil.rmtree(base, ignore_errors=True)


def replay_finding(e):
    w = e["witness"]
    if w.get("kind") == "matlab_c_locale":
        d = tempfile.mkdtemp(prefix="verif_c14k_")
        try:
            open(os.path.join(d, "in.i"), "w", encoding="utf-8").write(w["input"])
            r = run_script([os.path.join(REPO, "scripts", "matlab_wrap.py"), "--src", "in.i", "--module_name", "m", "--out", "tb"], d, C_LOCALE)
            return r.returncode != 0
        finally:
            shutil.rmtree(d, ignore_errors=True)
    if w.get("kind") == "xml_reuse":
        from gtwrap.pybind_wrapper import PybindWrapper
        d = tempfile.mkdtemp(prefix="verif_c14k_")
        try:
            open(os.path.join(d, "index.xml"), "w").write('<doxygenindex><compound refid="classA" kind="class"><name>A</name></compound></doxygenindex>')
            open(os.path.join(d, "classA.xml"), "w").write(
                '<doxygen><compounddef id="classA" kind="class"><compoundname>A</compoundname><sectiondef kind="public-func">' + "".join(
                    '<memberdef kind="function" id="m%d"><type>void</type><name>scale</name><argsstring>(%s s)</argsstring>'
                    '<param><type>%s</type><declname>s</declname></param><briefdescription><para>Overload number %d.</para>'
                    '</briefdescription><detaileddescription></detaileddescription></memberdef>' % (i, t, t, i)
                    for i, t in enumerate(w["overload_types"])) + '</sectiondef></compounddef></doxygen>')
            wr = PybindWrapper(module_name="m", top_module_namespaces=[''], use_boost_serialization=False, ignore_classes=[],
                               module_template=streams.TPL_MIN, xml_source=d)
            return wr.wrap_file(w["input"], module_name="m") != wr.wrap_file(w["input"], module_name="m")
        finally:
            shutil.rmtree(d, ignore_errors=True)
    return False


def driver_case(idx, payload):
    """the library API driven twice with ONE list of sources (wrap + wrap_submodule): same files both times, list untouched"""
    import props.c16 as c16
    r = c16.driver_case(idx, payload)
    if r["bad"]:
        r["bad"].pop("kind", None)
    return r


def shared_dir_case(idx, payload):
    """two MATLAB targets that share a top-level C++ namespace (as gtsam and gtsam_unstable share +gtsam) generated into ONE
    toolbox directory, in both orders: the directory is the union of what each target produces alone — a run writes its own
    files and touches nothing else"""
    seed, _ = payload
    rng = random.Random(seed * 1000003 + idx + 171717)
    texts = []
    for k in range(2):
        m, t = gen_text(rng, dict(max_depth=1, max_decls=3, class_pool=[["Pa", "Pb", "Pc"], ["Qa", "Qb", "Qc"]][k], mnames=["f%d" % k, "g%d" % k],
                                  ns_pool=["gtsam"], allow_typedef=False, p_template=0.0, extra_kinds=['cls', 'cls'], allow_enum=False))
        texts.append("namespace gtsam {\n%s\n}\n" % t.rstrip())
    res = dict(idx=idx, text="\x1e".join(texts), bad=None, runs=0)
    base = tempfile.mkdtemp(prefix="verif_c14s_")
    try:
        srcs = []
        for k, t in enumerate(texts):
            sp = os.path.join(base, "mod%d.i" % k)
            open(sp, "w", encoding="utf-8").write(t)
            srcs.append(sp)

        def gen_into(out, k):
            r = run_script([os.path.join(REPO, "scripts", "matlab_wrap.py"), "--src", srcs[k], "--module_name", "mod%d" % k, "--out", out],
                           base, {})
            res["runs"] += 1
            return r.returncode

        alone = []
        for k in range(2):
            if gen_into("alone%d" % k, k) != 0:
                return res
            alone.append({p[len("alone%d" % k) + 1:]: v for p, v in listing(base).items() if p.startswith("alone%d" % k + os.sep)})
        if set(alone[0]) & set(alone[1]):
            return res       # the two targets write a common path: not the situation of this case
        want = dict(alone[0], **alone[1])
        for order in ((0, 1), (1, 0)):
            out = "shared%d%d" % order
            for k in order:
                if gen_into(out, k) != 0:
                    res["bad"] = dict(what="a MATLAB target that generates alone fails in a directory that holds another target's files", input=texts[k])
                    return res
            got = {p[len(out) + 1:]: v for p, v in listing(base).items() if p.startswith(out + os.sep)}
            if got != want:
                res["bad"] = dict(what="two MATLAB targets generated into one toolbox directory (order %s): the directory is not the union of "
                                       "their stand-alone outputs" % (order,), files=texts,
                                  missing=sorted(set(want) - set(got))[:6], unexpected=sorted(set(got) - set(want))[:6],
                                  changed=sorted(p for p in want if p in got and got[p] != want[p])[:6])
                return res
    finally:
        shutil.rmtree(base, ignore_errors=True)
    return res


def run(ctx, n_reuse, n_proc, off=0, collect=True):
    first = None
    for fn, n, tag in ((reuse_case, n_reuse, "reuse"), (process_case, n_proc, "process"), (history_case, n_proc * 2, "history"),
                       (xml_history_case, 12, "xml_history"), (driver_case, max(10, n_proc), "api_driver"),
                       (shared_dir_case, max(6, n_proc // 2), "shared_dir"), (ignore_history_case, max(10, n_proc), "ignore_history"),
                       (regen_case, max(16, n_proc), "matlab_regenerate")):
        for r in fw.run_cases(fn, [(ctx.seed + off, None)] * n):
            if "crash" in r:
                raise RuntimeError(r["crash"])
            if collect:
                ctx.case(tag + r["text"], sample=dict(stream=tag, text=r["text"][:300]))
                ctx.count("stream_" + tag)
                ctx.count("script_runs", r.get("runs", 0))
            b = r["bad"]
            if b and b.get("kind") == "model":
                b.pop("kind")
                if collect:
                    ctx.disagree(b.pop("what"), **b)
            elif b:
                first = first or dict(b)
                if collect:
                    ctx.spec_fail(b.pop("what"), **b)
            elif collect:
                ctx.traces_validated += 1
    return first


def main(ctx):
    fw.translate_and_build(ctx, ["WrapModel", "wrapmodel"])
    fw.audit(ctx, THEOREM_MODULES)
    run(ctx, ctx.scale(80, 1500), ctx.scale(10, 100))
    parallel_check(ctx, ctx.seed, ctx.scale(8, 16))
    for e in ctx.known:
        still = replay_finding(e)
        if e.get("kind") == "fixed":
            if still:
                ctx.spec_fail("a defect recorded as fixed is back: " + e["what"], **e["witness"])
        elif still:
            ctx.known_hit(e)
    ctx.extra["rule"] = ("(a) one PybindWrapper object wrapping 2-4 generated files in a row vs fresh wrappers; (b) both scripts as "
                         "subprocesses under 3 hash seeds / working directories / locales, outputs and written file sets compared "
                         "with the in-process API; (c) 8-16 script processes in parallel in one directory")
    return fw.finish(ctx, search=lambda c: run(c, c.scale(200, 800), 0, off=9, collect=False),
                     assumptions=["hash seed, locale, scheduling and file-system behaviour are observed, not proved",
                                  "reuse of a MatlabWrapper object is not supported by the code (its id counter is never reset) and not claimed"])


def replay(ctx, path):
    print(open(path).read()[:4000])
    return 0
