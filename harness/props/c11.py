"""C11 — MEX gateway calls reach the right C++ code and never leak or double-free.

THEOREMS  lean/WrapModel/Props/C11.lean (state machine Model/Runtime/Gateway.lean)
TIE       generated <module>_wrapper.cpp (real generator) + REAL matlab.h + mock MEX API + instrumented
          stub library, driven by ids parsed out of the generated .m files, on random call histories;
          per-step observations (call trace, results, live objects, collector sizes) vs the model
ORACLE    sanitizer / leak / leftover reports of the compiled gateway are direct violations
"""
import json
import os
import shutil
import subprocess
import sys
import tempfile

import framework as fw

PROP = "C11"
THEOREM_MODULES = ["WrapModel.Props.C11"]
HERE = os.path.join(fw.VERIF, "harness", "c11")


def run(ctx, extra, seed, n, gateways, ops, workdir):
    out = os.path.join(workdir, "result.json")
    cmd = [sys.executable, os.path.join(HERE, "run_c11.py"), "--seed", str(seed), "--n", str(n), "--gateways",
           str(gateways), "--ops", str(ops), "--workdir", os.path.join(workdir, "w"), "--json-out", out] + extra
    r = subprocess.run(cmd, capture_output=True, text=True, timeout=3000,
                       env=dict(os.environ, WRAP_REPO=fw.REPO, C11_LEAN_DIR=fw.LEAN_DIR))
    try:
        res = json.load(open(out))
    except Exception:
        res = None
    return r, res


def classify(ctx, res, label):
    for f in res["failures"]:
        msg = f["msg"]
        if "sanitizer report" in msg or "leftovers at exit" in msg or "driver exit code" in msg:
            ctx.spec_fail("memory error / leak / crash in the compiled gateway (%s)" % label, history=f["tag"], detail=msg[:1500])
        elif "generated gateway does not compile" in msg:
            ctx.spec_fail("the gateway generated for a valid interface file is not valid C++ (%s)" % label, gateway=f["tag"], detail=msg[:3000])
        elif "did not receive the supplied argument values" in msg:
            ctx.spec_fail("a call did not reach the declared C++ entity with the supplied argument values (%s)" % label,
                          history=f["tag"], detail=msg[:1500])
        elif "not a copy of the declared source" in msg:
            ctx.spec_fail("a call returned an object that is not (a copy of) what the declared C++ entity returned (%s)" % label,
                          history=f["tag"], detail=msg[:1500])
        else:
            ctx.disagree("gateway and model differ (%s)" % label, history=f["tag"], detail=msg[:1500])


def main(ctx):
    fw.translate_and_build(ctx, ["WrapModel", "wrapmodel"])
    fw.audit(ctx, THEOREM_MODULES)
    tmp = tempfile.mkdtemp(prefix="verif_c11_")
    try:
        base_seed = ctx.seed * 31 + 1
        r, res = run(ctx, [], base_seed, ctx.scale(30, 80), ctx.scale(3, 9), ctx.scale(60, 90), tmp)
        if res is None:
            raise RuntimeError("run_c11.py produced no result: " + (r.stdout + r.stderr)[-1500:])
        classify(ctx, res, "plain build")
        ctx.evaluations += res["histories"]
        ctx.traces_validated += res["histories"] - res["n_failures"]
        for k, v in res["distribution"].items():
            ctx.count(k, v)
        ctx.count("observed_steps", res["steps"])
        for s in res["samples"]:
            ctx.samples.append(s)
            ctx.distinct.add(json.dumps(s))
        # distinct histories: every history has its own seed; count those with >= 1 observed step
        for i in range(res["histories"]):
            ctx.distinct.add("h%d" % i)
        # sanitizer pass (ASan/UBSan): double free, use after free, leaks
        r2, res2 = run(ctx, ["--asan"], base_seed + 500, ctx.scale(15, 60), ctx.scale(1, 8), ctx.scale(50, 80), tmp)
        if res2 is None:
            raise RuntimeError("run_c11.py --asan produced no result: " + (r2.stdout + r2.stderr)[-1500:])
        classify(ctx, res2, "ASan/UBSan build")
        ctx.evaluations += res2["histories"]
        ctx.count("asan_histories", res2["histories"])
        if ctx.tier == "thorough":
            r3, res3 = run(ctx, ["--valgrind"], base_seed + 900, 25, 4, 60, tmp)
            if res3 is not None:
                classify(ctx, res3, "valgrind")
                ctx.evaluations += res3["histories"]
                ctx.count("valgrind_histories", res3["histories"])
        # known finding: unload, then delete (replayed with ASan)
        for e in ctx.known:
            r4, _ = run(ctx, ["--asan", "--finding"], base_seed, 1, 1, 5, tmp)
            still = "double free reported" in r4.stdout
            if e.get("kind") == "fixed":
                if still:
                    ctx.spec_fail("a defect recorded as fixed is back: " + e["what"])
            elif still:
                ctx.known_hit(e)
    finally:
        shutil.rmtree(tmp, ignore_errors=True)
    ctx.extra["rule"] = ("random gateway universes (inheritance chains depth 0-3, virtual/non-virtual, namespaces) x random valid "
                         "session histories (construct, call, return objects, pass objects, properties, delete in any order, unload); "
                         "distinct = distinct (gateway, history seed)")
    return fw.finish(ctx, assumptions=[
        "mock MEX API and the session player stand in for MATLAB (docs/NOTES_C11.md)",
        "C++ memory safety of the real code is observed (ASan/UBSan, valgrind), not proved",
        "'reaches the declared entity with the supplied values' is decided by the correspondence (call trace), not by a theorem"])


def replay(ctx, path):
    print(open(path).read()[:4000])
    return 0
