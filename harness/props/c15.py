"""C15 — ignoring or removing a class affects that class only.

THEOREMS  lean/WrapModel/Props/C15.lean
ORACLE    metamorphic triples on the implementation: (input, input without the class, input with the class on the ignore
          list) through both generators: ignore == delete byte for byte; every other class's generated block is unchanged
TIE       the pybind outputs with ignore lists are also compared with the model (C03 stream uses ignore lists as well)
"""
import copy
import json
import os
import random
import re

import framework as fw
import streams
from common import impl_pybind, impl_matlab, model_pybind

PROP = "C15"
THEOREM_MODULES = ["WrapModel.Props.C15"]


def candidates(m):
    """(content list, index, path, class) of classes that nothing else refers to"""
    import gen
    words = {}
    for path, content in gen.walk_namespaces(m):
        for i, d in enumerate(content):
            for k, t in gen.lx_decl(d) if d.kind != 'ns' else []:
                if k == 'word':
                    words.setdefault(t, set()).add(id(d))
    out = []
    for path, content in gen.walk_namespaces(m):
        for i, d in enumerate(content):
            if d.kind != 'cls':
                continue
            c = d.cls
            if len(words.get(c.name, ())) != 1:
                continue       # the name occurs in another declaration (typedef, base class, argument type, …)
            if c.tmpl and not all(len(tp.insts) == 1 for tp in c.tmpl):
                continue
            out.append((content, i, path, c))
    return out


def class_blocks(text, start=r'py::class_<'):
    """py::class_ statements: from `py::class_<` to the `;` that ends the statement (brackets and string literals
    respected), so that the white space the generator puts between statements is not part of a block"""
    out = []
    for m in re.finditer(start, text):
        i, depth, n = m.start(), 0, len(text)
        j = i
        while j < n:
            c = text[j]
            if c == '"':
                j += 1
                while j < n and text[j] != '"':
                    if text[j] == '\\':
                        j += 1
                    j += 1
            elif c == "'" and j + 2 < n and text[j + 2] == "'":
                j += 2
            elif c == "'" and j + 3 < n and text[j + 1] == '\\' and text[j + 3] == "'":
                j += 3
            elif c in '([{':
                depth += 1
            elif c in ')]}':
                depth -= 1
            elif c == ';' and depth == 0:
                break
            j += 1
        out.append(text[i:j + 1])
    return out


def case(idx, payload):
    import gen
    seed, cfg_kw = payload
    rng = random.Random(seed * 1000003 + idx)
    kw = dict(max_decls=4, max_members=4, max_depth=2, matlab_safe=True, typedef_same_ns=True, unique_ns=True, p_template=0.3)
    kw.update({k: v for k, v in (cfg_kw or {}).items() if k != 'homonym'})
    g = gen.Gen(rng, gen.Cfg(**kw))
    m = gen.gen_module_inst(g)
    res = dict(idx=idx, text="", bad=None, kinds=[])
    cands = candidates(m)
    homonym = (cfg_kw or {}).get("homonym")
    if cands and homonym:
        # an unrelated class with the same simple name in another namespace (not a reference to the chosen class)
        content, i, path, c = rng.choice(cands)
        others = [(p2, c2) for p2, c2 in gen.walk_namespaces(m) if tuple(p2) != tuple(path) and p2
                  and not any(d.kind in ('cls', 'enum') and (d.cls.name if d.kind == 'cls' else d.enum.name) == c.name for d in c2)]
        if others:
            p2, c2 = rng.choice(others)
            c2.append(gen.Decl('cls', cls=gen.Class(None, rng.random() < 0.5, c.name, None,
                                                    [gen.Member('ctor', name=c.name, args=[]),
                                                     gen.Member('method', ret=gen.Ret(gen.Ty([], "double", None, False, '', True)), name="level", args=[], const=True)])))
        cands = [(content, i, path, c)]
    text = gen.layout(rng, gen.lexemes(m), 'space')
    res["text"] = text
    if not cands:
        return res
    if (cfg_kw or {}).get("p_serialize"):
        # prefer a namespaced class that has serialize(): the generators keep serialization state while they walk the classes
        pref = [x for x in cands if x[2] and any(mm.kind == 'method' and mm.name == "serialize" for mm in x[3].members)]
        cands = pref or cands
    content, i, path, c = rng.choice(cands)
    names = streams.model_call("icpp", text)
    if names.startswith("ERR"):
        return res
    qual = "::".join(list(path) + [c.name])
    cpp = inst_name = None
    for l in names.split("\n"):
        if l.startswith("C "):
            f = l.split(" | ")
            if f[1] == qual or f[1].startswith(qual + "<"):
                cpp, inst_name = f[1], f[0][2:]
    if cpp is None:
        return res
    m2 = copy.deepcopy(m)
    for p2, content2 in gen.walk_namespaces(m2):
        if p2 == path:
            del content2[i]
            break
    text_del = gen.layout(random.Random(1), gen.lexemes(m2), 'space')
    top = ['']
    has_enum = any(mem.kind == 'enum' for mem in c.members)
    # ---- pybind
    a = impl_pybind(text, streams.TPL_MIN, "m", top, True, [cpp], None)
    b = impl_pybind(text_del, streams.TPL_MIN, "m", top, True, [], None)
    full = impl_pybind(text, streams.TPL_MIN, "m", top, True, [], None)
    res["kinds"].append("pybind" + ("_enum" if has_enum else ""))
    mdl = model_pybind(fw.worker_driver(), text, streams.TPL_MIN, "m", top, True, [cpp], None)
    if a != b:
        d = streams.first_diff(b[1], a[1]) if a[0] == b[0] == "ok" else dict(expected=str(b)[:200], got=str(a)[:200])
        res["bad"] = dict(kind="spec", what="pybind: ignoring class %s is not equivalent to deleting its declaration" % cpp,
                          input=text, input_deleted=text_del, ignore=[cpp], **d)
        return res
    if mdl != a:
        res["bad"] = dict(kind="model", what="pybind output with ignore list differs from the model", input=text, ignore=[cpp])
        return res
    if full[0] == "ok" and b[0] == "ok":
        fb = set(class_blocks(full[1]))
        for blk in class_blocks(b[1]):
            if blk not in fb:
                res["bad"] = dict(kind="spec", what="pybind: deleting class %s changes the binding of another class" % cpp,
                                  input=text, input_deleted=text_del, changed_block=blk[:400])
                return res
    # ---- MATLAB (the ignore key is the qualified name without a leading `::`, for global classes the bare name)
    if True:
        key = "::".join(list(path) + [inst_name])
        ma = impl_matlab([text], "m", [key], True)
        mb = impl_matlab([text_del], "m", [], True)
        res["kinds"].append("matlab")
        if ma != mb:
            if ma[0] == mb[0] == "ok":
                from props._matlab_common import files_diff
                d = files_diff(mb[1], ma[1])
            else:
                d = dict(expected=str(mb)[:200], got=str(ma)[:200])
            res["bad"] = dict(kind="spec", what="MATLAB: ignoring class %s is not equivalent to deleting its declaration" % key,
                              input=text, input_deleted=text_del, ignore=[key], **d)
            return res
        # the .m files of the OTHER classes / functions are those of the full input (up to the gateway ids, which are renumbered)
        mfull = impl_matlab([text], "m", [], True)
        if mfull[0] == "ok" and mb[0] == "ok":
            norm = lambda t: re.sub(r"m_wrapper\(\d+", "m_wrapper(#", t)   # noqa: E731
            for fn, body in mb[1].items():
                if fn.endswith(".m") and fn in mfull[1] and norm(body) != norm(mfull[1][fn]):
                    res["bad"] = dict(kind="spec", what="MATLAB: deleting class %s changes the generated file %s of another entity" % (key, fn),
                                      input=text, input_deleted=text_del, **streams.first_diff(norm(mfull[1][fn]), norm(body)))
                    return res
            fr = set(matlab_routines(mfull[1]))
            for rname, rbody in matlab_routines(mb[1]):
                if (rname, rbody) not in fr:
                    res["bad"] = dict(kind="spec", what="MATLAB: deleting class %s changes the gateway routine %s of another entity" % (key, rname),
                                      input=text, input_deleted=text_del, changed_routine=rbody[:500])
                    return res
    return res


def matlab_routines(files, module="m"):
    """gateway routines of the MEX source as (name without its id, body)"""
    cpp = files.get(module + "_wrapper.cpp", "")
    return [(re.sub(r'_\d+$', '', m.group(1)), m.group(2)) for m in
            re.finditer(r'^void (\w+)\(int nargout, mxArray \*out\[\], int nargin, const mxArray \*in\[\]\)\n\{(.*?)^\}', cpp, re.M | re.S)
            if m.group(1) != "mexFunction" and not m.group(1).startswith("_")]


def others_unchanged(full_py, del_py, full_ml, del_ml, what, d):
    """every entity of the reduced input is generated exactly as in the full input (pybind: class statements; MATLAB: .m
    files up to the renumbered gateway ids, and gateway routines)"""
    if full_py[0] == "ok" and del_py[0] == "ok":
        fb = set(class_blocks(full_py[1]))
        for blk in class_blocks(del_py[1]):
            if blk not in fb:
                return dict(kind="spec", what="pybind: %s changes the binding of another class" % what, changed_block=blk[:400], **d)
        fdefs = set(class_blocks(full_py[1], r'\bm_\w*\.def\('))
        for l in class_blocks(del_py[1], r'\bm_\w*\.def\('):
            if l not in fdefs:
                return dict(kind="spec", what="pybind: %s changes the binding of another function" % what, changed_block=l[:400], **d)
    if full_ml[0] == "ok" and del_ml[0] == "ok":
        norm = lambda t: re.sub(r"m_wrapper\(\d+", "m_wrapper(#", t)   # noqa: E731
        for fn, body in del_ml[1].items():
            if fn.endswith(".m") and fn in full_ml[1] and norm(body) != norm(full_ml[1][fn]):
                return dict(kind="spec", what="MATLAB: %s changes the generated file %s of another entity" % (what, fn),
                            **dict(d, **streams.first_diff(norm(full_ml[1][fn]), norm(body))))
        fr = set(matlab_routines(full_ml[1]))
        for name, body in matlab_routines(del_ml[1]):
            if (name, body) not in fr:
                return dict(kind="spec", what="MATLAB: %s changes the gateway routine %s of another entity" % (what, name),
                            changed_routine=body[:500], **d)
    elif full_ml[0] == "ok" and del_ml[0] != "ok":
        return dict(kind="spec", what="MATLAB: %s makes the generation fail (%s)" % (what, del_ml[1]), **d)
    return None


def same_ns_enum_case(idx, payload):
    """two DIFFERENT namespaces with the same simple name (x::util, y::util, or a re-opened block); a class in the later one
    uses an enumeration of its own namespace; deleting / ignoring an unrelated class of the earlier one changes nothing else"""
    seed, _ = payload
    rng = random.Random(seed * 1000003 + idx + 616161)
    inner = rng.choice(["util", "detail", "types"])
    o1, o2 = rng.sample(["x", "y", "zeta", "core"], 2)
    en = rng.choice(["Kind", "Mode", "Level"])
    q2 = "%s::%s" % (o2, inner)
    first_mem = rng.sample(["First();", "First(int n);", "void set(int a);", "double value() const;", "int count;", "static int Count(double x);"], rng.randint(1, 4))
    first_enum = "enum %s { P, Q };" % rng.choice([en, "Other"]) if rng.random() < 0.3 else ""
    sec = ["Second();"] + rng.sample(["Second(%s::%s k);" % (q2, en), "void set%s(%s::%s k);" % (en, q2, en), "%s::%s get%s() const;" % (q2, en, en),
                                      "%s::%s current;" % (q2, en), "static %s::%s Default();" % (q2, en), "double scale(double s) const;"], rng.randint(2, 5))
    blk1 = "namespace %s { namespace %s { %s class First { %s }; } }" % (o1, inner, first_enum, " ".join(first_mem))
    blk1_del = "namespace %s { namespace %s { %s } }" % (o1, inner, first_enum)
    blk2 = "namespace %s { namespace %s { enum %s { A, B, C }; class Second { %s }; } }" % (o2, inner, en, " ".join(sec))
    text, text_del = blk1 + "\n" + blk2 + "\n", blk1_del + "\n" + blk2 + "\n"
    res = dict(idx=idx, text=text, bad=None, kinds=["same_ns_enum"])
    key = "%s::%s::First" % (o1, inner)
    full_py, del_py = impl_pybind(text, streams.TPL_MIN, "m", [''], False, [], None), impl_pybind(text_del, streams.TPL_MIN, "m", [''], False, [], None)
    ign_py = impl_pybind(text, streams.TPL_MIN, "m", [''], False, [key], None)
    full_ml, del_ml = impl_matlab([text], "m", [], False), impl_matlab([text_del], "m", [], False)
    ign_ml = impl_matlab([text], "m", [key], False)
    d = dict(input=text, input_deleted=text_del)
    if ign_py != del_py:
        res["bad"] = dict(kind="spec", what="pybind: ignoring class %s is not equivalent to deleting its declaration" % key, ignore=[key], **d)
    elif ign_ml != del_ml:
        from props._matlab_common import files_diff
        dd = files_diff(del_ml[1], ign_ml[1]) if ign_ml[0] == del_ml[0] == "ok" else dict(expected=str(del_ml)[:200], got=str(ign_ml)[:200])
        res["bad"] = dict(kind="spec", what="MATLAB: ignoring class %s is not equivalent to deleting its declaration" % key, ignore=[key], **dict(d, **dd))
    else:
        res["bad"] = others_unchanged(full_py, del_py, full_ml, del_ml, "deleting class %s" % key, d)
    return res


def unrelated_decl_case(idx, payload):
    """deleting an unrelated declaration that is NOT a class — a free function, an enumeration, a variable that nothing else
    mentions — leaves every other entity's generated code as it was (both generators)"""
    import gen
    seed, _ = payload
    rng = random.Random(seed * 1000003 + idx + 717171)
    g = gen.Gen(rng, gen.Cfg(max_decls=4, max_members=4, max_depth=2, matlab_safe=True, typedef_same_ns=True, unique_ns=True, p_template=0.2,
                             extra_kinds=['func', 'func', 'cls', 'ns', 'enum', 'var'], mnames=["print", "f", "g", "update", "print"]))
    m = gen.gen_module_inst(g)
    text = gen.layout(rng, gen.lexemes(m), 'space')
    res = dict(idx=idx, text=text, bad=None, kinds=[])
    words = {}
    for path, content in gen.walk_namespaces(m):
        for d_ in content:
            for k, t in gen.lx_decl(d_) if d_.kind != 'ns' else []:
                if k == 'word':
                    words.setdefault(t, set()).add(id(d_))
    cands = []
    for path, content in gen.walk_namespaces(m):
        for i, d_ in enumerate(content):
            if d_.kind not in ('func', 'enum', 'var'):
                continue
            nm = {'func': lambda: d_.name, 'enum': lambda: d_.enum.name, 'var': lambda: d_.var.name}[d_.kind]()
            if len(words.get(nm, ())) == 1:
                cands.append((path, i, d_.kind, nm))
    if not cands:
        return res
    path, i, kind, nm = rng.choice(cands)
    m2 = copy.deepcopy(m)
    for p2, content2 in gen.walk_namespaces(m2):
        if p2 == path:
            del content2[i]
            break
    text_del = gen.layout(random.Random(1), gen.lexemes(m2), 'space')
    res["kinds"].append("unrelated_" + kind)
    full_py, del_py = impl_pybind(text, streams.TPL_MIN, "m", [''], True, [], None), impl_pybind(text_del, streams.TPL_MIN, "m", [''], True, [], None)
    full_ml, del_ml = impl_matlab([text], "m", [], True), impl_matlab([text_del], "m", [], True)
    res["bad"] = others_unchanged(full_py, del_py, full_ml, del_ml, "deleting the %s %s" % ({'func': 'free function', 'enum': 'enumeration', 'var': 'variable'}[kind],
                                  "::".join(list(path) + [nm])), dict(input=text, input_deleted=text_del))
    return res


def typedef_victim_case(idx, payload):
    """the removed entity is a TYPEDEF instantiation of a template that lives in another (nested) namespace, written before
    that namespace, next to free functions and classes of the typedef's own namespace (pybind): ignoring the instantiated
    class == deleting the typedef, and nothing else moves"""
    seed, _ = payload
    rng = random.Random(seed * 1000003 + idx + 919191)
    outer, inner = rng.choice(["tools", "geo"]), rng.choice(["detail", "impl"])
    arg = rng.choice(["double", "int"])
    alias = rng.choice(["BoxD", "Holder1"])
    funcs = rng.sample(["double measure(double x);", "void reset();", "int count(int a, int b = 2);"], rng.randint(1, 3))
    cls = rng.choice(["", "class Report { Report(); void print() const; };"])
    tmpl = "namespace %s { template<T> class Box { Box(); T get() const; void set(const T& t); }; }" % inner
    td = "typedef %s::%s::Box<%s> %s;" % (outer, inner, arg, alias)
    rest = [tmpl] + funcs + ([cls] if cls else [])
    rng.shuffle(rest)
    k = rest.index(tmpl)
    pos = rng.randint(0, k)          # the typedef stands before the namespace of its template
    mk = lambda with_td: "namespace %s {\n%s\n}\n" % (outer, "\n".join(rest[:pos] + ([td] if with_td else []) + rest[pos:]))   # noqa: E731
    text, text_del = mk(True), mk(False)
    cpp = "%s::%s::Box<%s>" % (outer, inner, arg)
    res = dict(idx=idx, text=text, bad=None, kinds=["typedef_victim"])
    full = impl_pybind(text, streams.TPL_MIN, "m", [''], False, [], None)
    if full[0] != "ok":
        res["kinds"] = []
        return res
    ign = impl_pybind(text, streams.TPL_MIN, "m", [''], False, [cpp], None)
    dele = impl_pybind(text_del, streams.TPL_MIN, "m", [''], False, [], None)
    d = dict(input=text, input_deleted=text_del)
    if ign != dele:
        dd = streams.first_diff(dele[1], ign[1]) if ign[0] == dele[0] == "ok" else dict(expected=str(dele)[:200], got=str(ign)[:200])
        res["bad"] = dict(kind="spec", what="pybind: ignoring the typedef'd class %s is not equivalent to deleting the typedef" % cpp, ignore=[cpp], **dict(d, **dd))
    else:
        res["bad"] = others_unchanged(full, dele, ("err", ""), ("err", ""), "deleting the typedef %s" % alias, d)
    return res


def special_names_case(idx, payload):
    """classes whose members have names the generators treat specially (print, serialize, Python keywords) next to free
    functions and namespaces in every order and nesting: deleting ONE free function (or one namespace holding only free
    functions) changes no other entity"""
    seed, _ = payload
    rng = random.Random(seed * 1000003 + idx + 818181)
    special = ["print", "print", "lambda", "def", "serialize", "from", "is", "update", "print_"]

    def cls(nm):
        mem = ["%s();" % nm]
        for sp in rng.sample(special, rng.randint(1, 3)):
            mem.append({"serialize": "void serialize() const;", "print": rng.choice(["void print() const;", "void print(string s) const;", "static void print(int n);"])}
                       .get(sp, "double %s(double x) const;" % sp))
        return "class %s { %s };" % (nm, " ".join(mem))

    def fn(nm):
        return rng.choice(["double %s(double x);", "void %s();", "int %s(int a, int b = 2);"]) % nm
    fnames = rng.sample(["scale", "helper", "compute", "print", "lambda", "norm2", "reset"], rng.randint(2, 4))
    items = [("cls", cls(n)) for n in rng.sample(["Report", "Log", "Table", "View"], rng.randint(1, 3))]
    items += [("fn", fn(n), n) for n in fnames]
    rng.shuffle(items)
    # some of the items go into (possibly nested) namespaces
    out, victims = [], []
    k = 0
    while k < len(items):
        take = rng.randint(1, 2)
        grp = items[k:k + take]
        k += take
        ns = rng.choice([None, None, "tools", "io", "tools::deep"])
        if ns and ns in [o[0] for o in out]:
            ns = None
        out.append((ns, grp))
    def render(skip):
        parts = []
        for ns, grp in out:
            body = " ".join(it[1] for it in grp if it is not skip)
            parts.append((" ".join("namespace %s {" % x for x in ns.split("::")) + " " + body + " " + "}" * len(ns.split("::"))) if ns else body)
        return "\n".join(parts) + "\n"
    fns = [it for _, grp in out for it in grp if it[0] == "fn"]
    victim = rng.choice(fns)
    text, text_del = render(None), render(victim)
    res = dict(idx=idx, text=text, bad=None, kinds=["special_names"])
    full_py, del_py = impl_pybind(text, streams.TPL_MIN, "m", [''], True, [], None), impl_pybind(text_del, streams.TPL_MIN, "m", [''], True, [], None)
    full_ml, del_ml = impl_matlab([text], "m", [], True), impl_matlab([text_del], "m", [], True)
    res["bad"] = others_unchanged(full_py, del_py, full_ml, del_ml, "deleting the free function %s" % victim[2], dict(input=text, input_deleted=text_del))
    return res


MI_MEMBERS = ["Solver();", "Solver(const This::Params& p);", "void configure(const This::Params& p);", "This::Params params() const;",
              "T first() const;", "This copy() const;", "static This Create(T seed);", "void swap(This& other);", "This::Params defaults;",
              "double norm() const;", "void apply(const T& x) const;", "static This::Params Defaults();", "void both(const T& x, This::Params p);",
              "std::vector<T> all() const;", "This::Mode mode;"]


def multi_inst_case(idx, payload):
    """a class template with several instantiations: ignoring ONE instantiation == removing it from the instantiation list
    (both generators), and the bindings of the other instantiations are those of the full input"""
    seed, _ = payload
    rng = random.Random(seed * 1000003 + idx + 31337)
    pool = ["ns::Dense", "ns::Sparse", "ns::Banded", "double", "ns::Tri"]
    args = rng.sample(pool, rng.randint(2, 4))
    members = rng.sample(MI_MEMBERS, rng.randint(2, 6))
    with_xml = rng.random() < 0.4
    n_doc = rng.randint(2, 3)
    if with_xml:
        members += ["void fill(int value);", "void fill(double value);"][:rng.randint(1, 2)]
    if not any(mm.startswith("Solver(") for mm in members):
        members.insert(0, "Solver();")
    head = "namespace ns { " + " ".join("class %s { %s(); };" % (a[4:], a[4:]) for a in pool if a.startswith("ns::")) + " }\n"
    tail = "\nnamespace lin { class After { After(); double value() const; }; }\n"

    def mk(lst):
        return head + "namespace lin {\ntemplate<T = {%s}>\nclass Solver {\n  %s\n};\n}" % (", ".join(lst), "\n  ".join(members)) + tail
    k = rng.randrange(len(args))
    victim = args[k]
    text, text_del = mk(args), mk(args[:k] + args[k + 1:])
    cpp = "lin::Solver<%s>" % victim
    base = victim.split("::")[-1]
    key = "lin::Solver" + base[0].upper() + base[1:]
    res = dict(idx=idx, text=text, bad=None, kinds=["pybind_multi_inst", "matlab_multi_inst"])
    xml = ""
    if with_xml:
        # Doxygen documents the template (under its plain name) and, for good measure, each instantiation
        import tempfile
        xml = tempfile.mkdtemp(prefix="verif_c15x_")
        names = ["lin::Solver"] + ["lin::Solver<%s>" % a_ for a_ in args] + ["lin::After"]
        open(os.path.join(xml, "index.xml"), "w").write("<doxygenindex>" + "".join(
            '<compound refid="c%d" kind="class"><name>%s</name></compound>' % (i, nm.replace("<", "&lt;").replace(">", "&gt;"))
            for i, nm in enumerate(names)) + "</doxygenindex>")
        for i, nm in enumerate(names):
            open(os.path.join(xml, "c%d.xml" % i), "w").write(
                '<doxygen><compounddef id="c%d" kind="class"><compoundname>x</compoundname><sectiondef kind="public-func">' % i + "".join(
                    '<memberdef kind="function" id="m%d"><type>void</type><name>fill</name><argsstring>(%s value)</argsstring>'
                    '<param><type>%s</type><declname>value</declname></param><briefdescription><para>Doc %d of class %d.</para>'
                    '</briefdescription><detaileddescription></detaileddescription></memberdef>' % (j, t, t, j, i)
                    for j, t in enumerate(["int", "double", "char"][:n_doc])) + '</sectiondef></compounddef></doxygen>')
        res["kinds"].append("pybind_multi_inst_xml")
    try:
        a = impl_pybind(text, streams.TPL_MIN, "m", [''], True, [cpp], None, xml)
        b = impl_pybind(text_del, streams.TPL_MIN, "m", [''], True, [], None, xml)
        full = impl_pybind(text, streams.TPL_MIN, "m", [''], True, [], None, xml)
    finally:
        if xml:
            import shutil
            shutil.rmtree(xml, ignore_errors=True)
    if a != b:
        d = streams.first_diff(b[1], a[1]) if a[0] == b[0] == "ok" else dict(expected=str(b)[:200], got=str(a)[:200])
        res["bad"] = dict(kind="spec", what="pybind: ignoring instantiation %s is not equivalent to removing it from the instantiation list" % cpp,
                          input=text, input_deleted=text_del, ignore=[cpp], **d)
        return res
    if full[0] == "ok" and b[0] == "ok":
        fb = set(class_blocks(full[1]))
        for blk in class_blocks(b[1]):
            if blk not in fb:
                res["bad"] = dict(kind="spec", what="pybind: removing instantiation %s changes the binding of another class" % cpp,
                                  input=text, input_deleted=text_del, changed_block=blk[:400])
                return res
    ma = impl_matlab([text], "m", [key], True)
    mb = impl_matlab([text_del], "m", [], True)
    if ma != mb:
        if ma[0] == mb[0] == "ok":
            from props._matlab_common import files_diff
            d = files_diff(mb[1], ma[1])
        else:
            d = dict(expected=str(mb)[:200], got=str(ma)[:200])
        res["bad"] = dict(kind="spec", what="MATLAB: ignoring instantiation %s is not equivalent to removing it from the instantiation list" % key,
                          input=text, input_deleted=text_del, ignore=[key], **d)
    return res


def run(ctx, n, off=0, collect=True):
    first = None
    # second part: the same simple class names in different namespaces
    same_names = dict(homonym=True, max_depth=2, extra_kinds=['ns', 'ns', 'cls', 'cls'])
    # third part: classes with serialize() (the generators keep per-class serialization state)
    serial = dict(p_serialize=0.6, max_decls=5, extra_kinds=['cls', 'cls', 'ns'])
    results = list(fw.run_cases(case, [(ctx.seed + off, None)] * n + [(ctx.seed + off + 7, same_names)] * (n // 2)
                                + [(ctx.seed + off + 9, serial)] * (n // 3)))
    results += list(fw.run_cases(multi_inst_case, [(ctx.seed + off, None)] * (n // 4)))
    results += list(fw.run_cases(same_ns_enum_case, [(ctx.seed + off, None)] * (n // 8)))
    results += list(fw.run_cases(unrelated_decl_case, [(ctx.seed + off, None)] * (n // 3)))
    results += list(fw.run_cases(special_names_case, [(ctx.seed + off, None)] * (n // 4)))
    results += list(fw.run_cases(typedef_victim_case, [(ctx.seed + off, None)] * (n // 8)))
    for r in results:
        if "crash" in r:
            raise RuntimeError(r["crash"])
        if collect:
            ctx.case(r["text"], nontrivial=bool(r["kinds"]), sample=dict(text=r["text"][:400], checks=r["kinds"]))
            for k in r["kinds"]:
                ctx.count("triple_" + k)
        b = r["bad"]
        if b:
            kind = b.pop("kind")
            if kind == "spec":
                first = first or dict(b)
                if collect:
                    ctx.spec_fail(b.pop("what"), **b)
            elif collect:
                ctx.disagree(b.pop("what"), **b)
        elif collect:
            ctx.traces_validated += 1
    return first


def replay_finding(e):
    w = e["witness"]
    if w["gen"] == "pybind":
        a = impl_pybind(w["input"], streams.TPL_MIN, "m", [''], False, w["ignore"], None)
        return a[0] == "ok" and w["bad_fragment"] in a[1]
    a = impl_matlab([w["input"]], "m", w["ignore"], False)
    return a[0] != "ok" if w.get("crash") else (a[0] == "ok" and w["bad_file"] in a[1])


def main(ctx):
    fw.translate_and_build(ctx, ["WrapModel", "wrapmodel"])
    fw.audit(ctx, THEOREM_MODULES)
    run(ctx, ctx.scale(320, 5000))
    for e in ctx.known:
        still = replay_finding(e)
        if e.get("kind") == "fixed":
            if still:
                ctx.spec_fail("a defect recorded as fixed is back: " + e["what"], **e["witness"])
        elif still:
            ctx.known_hit(e)
    ctx.extra["rule"] = ("coherent modules; one class that nothing else refers to (plain, or templated with one instantiation, global or "
                         "namespaced) is chosen; outputs for full / deleted / ignored inputs are compared for both generators")
    return fw.finish(ctx, search=lambda c: run(c, c.scale(300, 2000), off=77, collect=False),
                     assumptions=["hand-written model of the generators, tied byte-exactly on generated inputs"])


def replay(ctx, path):
    print(open(path).read()[:4000])
    return 0
