"""C16 — multiple interface files and the command-line scripts compose consistently.

THEOREMS  lean/WrapModel/Props/C16.lean (template environment of wrap_file in both modes)
ORACLE    direct checks on the implementation:
          (a) the main file declares and invokes one initialiser per additional file, in order; wrapping an additional file
              yields `void <stem>(py::module_ &m_)` with exactly the content that wrapping its text alone yields — with one
              wrapper object used for the whole module (as `wrap` + `wrap_submodule` would) and with fresh ones;
          (b) MATLAB: wrapping a list of files equals wrapping one file holding their declarations in sequence;
          (c) each script produces what the library API produces for the corresponding options
TIE       (a) is also compared with the model (byte-exact)
"""
import json
import os
import random
import shutil
import subprocess
import sys
import tempfile

import framework as fw
import streams
from common import REPO, impl_pybind, impl_matlab, model_pybind, classify_exc

PROP = "C16"
THEOREM_MODULES = ["WrapModel.Props.C16"]


def gen_text(rng, kw=None, serializable=0.0):
    import gen
    cfg = dict(max_decls=3, max_members=3, max_depth=1, matlab_safe=True, typedef_same_ns=True, unique_ns=True, rich_defaults=False)
    cfg.update(kw or {})
    g = gen.Gen(rng, gen.Cfg(**cfg))
    m = gen.gen_module_inst(g)
    for _, content in gen.walk_namespaces(m):
        for d in content:
            if d.kind == 'cls' and rng.random() < serializable:
                d.cls.members.append(gen.Member('method', ret=gen.Ret(gen.Ty([], "void", None, False, '', True)), name="serialize", args=[], const=True))
    return m, gen.layout(rng, gen.lexemes(m), 'space')


def fields(out):
    head, _, wrapped = out.partition("|\n")
    f = head.split("|")
    return dict(module_def=f[0], module_name=f[1], includes=f[2], boost=f[3], submodules=f[4], init=f[5], wrapped=wrapped)


def compose_case(idx, payload):
    from gtwrap.pybind_wrapper import PybindWrapper
    seed, _ = payload
    rng = random.Random(seed * 1000003 + idx)
    nsub = rng.randint(0, 3)
    texts = [gen_text(rng, dict(extra_kinds=['cls', 'cls']), serializable=0.5)[1] for _ in range(nsub + 1)]
    stems = ["part%d" % (i + 1) for i in range(nsub)]
    boost = rng.random() < 0.6
    top = ['']
    res = dict(idx=idx, text=texts[0], nsub=nsub, boost=boost, bad=None)
    try:
        shared = PybindWrapper(module_name="mainmod", top_module_namespaces=top, use_boost_serialization=boost,
                               ignore_classes=[], module_template=streams.TPL_MIN)
        main_out = shared.wrap_file(texts[0], module_name="mainmod", submodules=list(stems))
        sub_outs = [shared.wrap_file(t, module_name=s) for t, s in zip(texts[1:], stems)]
    except Exception as e:  # noqa
        res["err"] = classify_exc(e)
        return res
    f = fields(main_out)
    want_decl = "\n".join("void %s(py::module_ &);" % s for s in stems)
    want_init = "\n".join("%s(m_);" % s for s in stems)
    if f["module_def"] != "PYBIND11_MODULE(mainmod, m_)" or f["submodules"] != want_decl or f["init"] != want_init:
        res["bad"] = dict(kind="spec", what="main file does not declare/invoke one initialiser per additional file in order",
                          input=texts[0], submodules=stems, got=dict(module_def=f["module_def"], decl=f["submodules"], init=f["init"]))
        return res
    fresh_main = impl_pybind(texts[0], streams.TPL_MIN, "mainmod", top, boost, [], None)
    if fresh_main[0] == "ok" and fields(fresh_main[1])["wrapped"] != f["wrapped"]:
        res["bad"] = dict(kind="spec", what="bindings of the main file depend on the list of additional files", input=texts[0])
        return res
    for t, s, out in zip(texts[1:], stems, sub_outs):
        alone = impl_pybind(t, streams.TPL_MIN, s, top, boost, [], None)       # fresh wrapper, sub-module mode
        as_main = impl_pybind(t, streams.TPL_MIN, s, top, boost, [], [])       # fresh wrapper, main mode
        fo = fields(out)
        if fo["module_def"] != "void %s(py::module_ &m_)" % s:
            res["bad"] = dict(kind="spec", what="additional file does not define its initialiser", input=t, got=fo["module_def"])
            return res
        if alone[0] != "ok" or out != alone[1]:
            d = streams.first_diff(alone[1], out) if alone[0] == "ok" else {}
            res["bad"] = dict(kind="spec", what="wrapping an additional file after other files (same wrapper object) differs from wrapping its text alone",
                              input=t, earlier_files=texts[:texts.index(t)], **d)
            return res
        fm = fields(as_main[1])
        if (fo["wrapped"], fo["includes"], fo["boost"]) != (fm["wrapped"], fm["includes"], fm["boost"]):
            res["bad"] = dict(kind="spec", what="an additional file's content differs from what wrapping its text as a module yields", input=t)
            return res
    mdl = model_pybind(fw.worker_driver(), texts[0], streams.TPL_MIN, "mainmod", top, boost, [], stems)
    if mdl != ("ok", main_out):
        res["bad"] = dict(kind="model", what="main-module output differs from the model", input=texts[0], submodules=stems)
    return res


def matlab_case(idx, payload):
    seed, _ = payload
    rng = random.Random(seed * 1000003 + idx + 500000)
    n = rng.randint(2, 3)
    texts = []
    endings = ["", "\n", " ", "\n\n", " /* end */", " // end of file\n", "\t", " // no newline at the end of the file", " x_",
               # a line comment followed by blanks / tabs / other white space that is not a line feed, and no newline
               " // end of part ", " // }\t", " // namespace x \t ", " //", " // \x0c", " // note\r", " /* open", " // a \\"]
    if rng.random() < 0.5:
        # ONE coherent module (typedefs refer to templates declared anywhere in it) cut into files at random
        # top-level split points: typedefs and their templates end up in different files
        import gen
        m, _ = gen_text(rng, dict(max_decls=5, n_typedefs=3, p_template=0.6, extra_kinds=['cls']))
        cuts = sorted(rng.sample(range(len(m) + 1), min(n - 1, len(m) + 1)))
        parts = [m[a:b] for a, b in zip([0] + cuts, cuts + [len(m)])]
        for part in parts:
            texts.append(gen.layout(rng, gen.lexemes(part), 'space').rstrip() + rng.choice(endings))
        n = len(texts)
    else:
        for i in range(n):
            m, t = gen_text(rng, dict(max_decls=2))
            texts.append(t.rstrip() + rng.choice(endings))
    res = dict(idx=idx, text="\x1e".join(texts), n=n, bad=None)
    a = impl_matlab(texts, "m", [], False)
    b = impl_matlab(["\n".join(texts)], "m", [], False)
    if a != b:
        from props._matlab_common import files_diff
        d = files_diff(b[1], a[1]) if a[0] == b[0] == "ok" else dict(expected=str(b)[:200], got=str(a)[:200])
        res["bad"] = dict(kind="spec", what="MATLAB: wrapping a list of files differs from wrapping their declarations in sequence",
                          files=texts, **d)
    return res


def script_case(idx, payload):
    from gtwrap.pybind_wrapper import PybindWrapper
    seed, _ = payload
    rng = random.Random(seed * 1000003 + idx + 900000)
    m, text = gen_text(rng, dict(max_depth=2, max_decls=4, extra_kinds=['ns', 'ns', 'ns', 'cls'], p_template=0.6, n_typedefs=3))
    import gen
    nss = [p for p, _ in gen.walk_namespaces(m) if p]
    topp = list(rng.choice(nss)) if nss and rng.random() < 0.8 else []
    spelling = "::".join(topp)
    if topp and rng.random() < 0.5:
        spelling = "::" + spelling
    boost = rng.random() < 0.5
    sub = rng.random() < 0.4
    ignore = rng.choice([None, [], ["x::NotThere"]])
    which = rng.choice(["pybind", "pybind", "matlab"])
    if rng.random() < 0.5:
        # entries naming real (instantiated) classes; C++ names of multi-parameter instantiations contain ", "
        names = streams.class_cpp_names(text)
        if which == "matlab":
            keys = []
            for l in streams.model_call("icpp", text).split("\n"):
                if l.startswith("C "):
                    f = l.split(" | ")
                    qual = f[1].split("<")[0]
                    if "::" in qual:
                        keys.append(qual.rsplit("::", 1)[0] + "::" + f[0][2:])
            names = keys
        if names:
            multi = [x for x in names if ", " in x]
            ignore = rng.sample(names, rng.randint(1, min(2, len(names)))) + (rng.sample(multi, 1) if multi else [])
    # the stem of the interface file names the submodule: stems that end in (or consist of) the letters of the `.i` extension
    stem = rng.choice(["part", "part", "omni", "wifi", "mini", "i", "ii", "nav_i"])
    d = tempfile.mkdtemp(prefix="verif_c16_")
    res = dict(idx=idx, text=text, script=which, opts=dict(stem=stem, top=spelling, boost=boost, sub=sub, ignore=ignore), bad=None)
    try:
        src = os.path.join(d, stem + ".i")
        open(src, "w", encoding="utf-8").write(text)
        tplp = os.path.join(d, "t.tpl")
        open(tplp, "w").write(streams.TPL_MIN)
        api_top = [''] + topp
        if which == "pybind":
            # main-module mode: further entries of --src only NAME sub-modules (existing files, files that do not exist yet, paths with
            # glob metacharacters): the library takes their stems and never opens them
            extra = [] if sub else rng.choice([[], [], ["later_part.i"], ["parts[v2]/beta.i", "gen/*.i"], ["sub one.i"]])
            extra_stems = [os.path.splitext(os.path.basename(x))[0] for x in extra]
            res["opts"]["more_sources"] = extra
            cmd = [sys.executable, os.path.join(REPO, "scripts", "pybind_wrap.py"), "--src", ";".join([stem + ".i"] + extra), "--module_name", "modx",
                   "--out", "out.cpp", "--template", "t.tpl", "--top_module_namespaces", spelling]
            if boost:
                cmd.append("--use-boost-serialization")
            if sub:
                cmd.append("--is_submodule")
            if ignore is not None:
                cmd += ["--ignore"] + ignore
            r = subprocess.run(cmd, cwd=d, capture_output=True, text=True, timeout=120, env=dict(os.environ, PYTHONPATH=REPO))
            api = impl_pybind(text, streams.TPL_MIN, stem if sub else "modx", api_top, boost, ignore or [], None if sub else extra_stems)
            outp = os.path.join(d, stem + ".cpp" if sub else "out.cpp")
            got = open(outp, encoding="utf-8").read() if os.path.exists(outp) else None
            if api[0] == "ok":
                if r.returncode != 0 or got != api[1]:
                    res["bad"] = dict(kind="spec", what="scripts/pybind_wrap.py does not produce what the library API produces for the same options",
                                      input=text, options=res["opts"], exit=r.returncode, stderr=r.stderr[-300:],
                                      **(streams.first_diff(api[1], got) if got is not None else {}))
            elif r.returncode == 0:
                res["bad"] = dict(kind="spec", what="script succeeds where the API fails", input=text, options=res["opts"])
        else:
            cmd = [sys.executable, os.path.join(REPO, "scripts", "matlab_wrap.py"), "--src", stem + ".i", "--module_name", "modx",
                   "--out", "tb", "--top_module_namespaces", spelling]
            if boost:
                cmd.append("--use-boost-serialization")
            if ignore is not None:
                cmd += ["--ignore"] + ignore
            r = subprocess.run(cmd, cwd=d, capture_output=True, text=True, timeout=120, env=dict(os.environ, PYTHONPATH=REPO))
            api = impl_matlab([text], "modx", ignore or [], boost)
            got = {}
            for root, _, fs in os.walk(os.path.join(d, "tb")):
                for fn in fs:
                    p = os.path.join(root, fn)
                    got[os.path.relpath(p, os.path.join(d, "tb"))] = open(p, encoding="utf-8", newline="").read()
            if api[0] == "ok":
                if r.returncode != 0 or got != api[1]:
                    res["bad"] = dict(kind="spec", what="scripts/matlab_wrap.py does not produce what the library API produces for the same options",
                                      input=text, options=res["opts"], exit=r.returncode, stderr=r.stderr[-300:])
            elif r.returncode == 0:
                res["bad"] = dict(kind="spec", what="script succeeds where the API fails", input=text, options=res["opts"])
    finally:
        shutil.rmtree(d, ignore_errors=True)
    return res


def driver_case(idx, payload):
    """a build driver using the library API the way the script does, with ONE list of sources: `wrap(sources, out)` for the
    main module, then `wrap_submodule(s)` for every further file — repeated for a second target.  Every initialiser the main
    unit declares must be defined by exactly one generated part; the caller's list is the caller's; a second, identical
    run yields identical files"""
    from gtwrap.pybind_wrapper import PybindWrapper
    seed, _ = payload
    rng = random.Random(seed * 1000003 + idx + 808080)
    nsub = rng.randint(1, 3)
    stems = rng.sample(["base", "geometry", "nav", "slam", "linear"], nsub)
    texts = [gen_text(rng, dict(extra_kinds=['cls', 'cls']))[1] for _ in range(nsub + 1)]
    res = dict(idx=idx, text=texts[0], nsub=nsub, bad=None)
    d = tempfile.mkdtemp(prefix="verif_c16d_")
    cwd = os.getcwd()
    try:
        # the main file is the FIRST of the list whatever the files are called: sometimes an additional file has the module's name
        modname, mainstem = ("robot", "robot") if rng.random() < 0.6 else (stems[rng.randrange(nsub)], "core")
        paths = [os.path.join(d, mainstem + ".i")] + [os.path.join(d, st + ".i") for st in stems]
        for pth, t in zip(paths, texts):
            open(pth, "w", encoding="utf-8").write(t)
        sources = list(paths)
        runs = []
        for k in range(2):
            od = os.path.join(d, "out%d" % k)
            os.makedirs(od)
            os.chdir(od)
            try:
                w = PybindWrapper(module_name=modname, top_module_namespaces=[''], use_boost_serialization=False, ignore_classes=[],
                                  module_template=streams.TPL_MIN)
                w.wrap(sources, "main_out.cpp")
                for sp in sources[1:]:
                    w.wrap_submodule(sp)
            except Exception as e:  # noqa
                res["err"] = classify_exc(e)
                if k == 1:
                    res["bad"] = dict(kind="spec", what="the second, identical run of the build driver fails (%s) where the first one succeeded" % res["err"],
                                      input=texts[0], sources=[os.path.basename(x) for x in paths])
                return res
            finally:
                os.chdir(cwd)
            runs.append({fn: open(os.path.join(od, fn), encoding="utf-8").read() for fn in sorted(os.listdir(od))})
        if sources != paths:
            res["bad"] = dict(kind="spec", what="wrap() changed the caller's list of sources", input=texts[0],
                              before=[os.path.basename(x) for x in paths], after=[os.path.basename(x) for x in sources])
            return res
        if runs[0] != runs[1]:
            res["bad"] = dict(kind="spec", what="two identical runs of the build driver produce different files", input=texts[0],
                              first=sorted(runs[0]), second=sorted(runs[1]))
            return res
        main = runs[0].get("main_out.cpp", "")
        want_main = impl_pybind(texts[0], streams.TPL_MIN, modname, [''], False, [], stems)
        if want_main[0] == "ok" and main != want_main[1]:
            res["bad"] = dict(kind="spec", what="the main unit written by wrap(sources) is not wrap_file of the FIRST file's text with the other files as sub-modules "
                              "(module %s, files %s)" % (modname, [os.path.basename(x) for x in paths]), input=texts[0], **streams.first_diff(want_main[1], main))
            return res
        for st in stems:
            part = runs[0].get(st + ".cpp")
            if "void %s(py::module_ &);" % st not in main or "%s(m_);" % st not in main or part is None or \
                    "void %s(py::module_ &m_)" % st not in part:
                res["bad"] = dict(kind="spec", what="initialiser `%s` is not declared+called by the main unit and defined by exactly one part" % st,
                                  input=texts[0], files=sorted(runs[0]))
                return res
    finally:
        os.chdir(cwd)
        shutil.rmtree(d, ignore_errors=True)
    return res


def matlab_script_case(idx, payload):
    """scripts/matlab_wrap.py with SEVERAL files, in the order given (main first — not sorted): same toolbox as the API for
    that list, with and without options"""
    from common import REPO
    seed, _ = payload
    rng = random.Random(seed * 1000003 + idx + 909090)
    names = rng.sample(["robot.i", "base.i", "nav.i", "alpha.i", "zeta.i", "main_module.i"], rng.randint(2, 3))
    if names == sorted(names):
        names.reverse()
    texts, quals = [], []
    for k, nm in enumerate(names):
        m, t = gen_text(rng, dict(max_decls=3, ns_pool=[["r1"], ["r2"], ["r3"]][k], class_pool=[["Ca", "Cb"], ["Cc", "Cd"], ["Ce", "Cf"]][k],
                                  mnames=["f%d" % k, "g%d" % k], allow_typedef=False, p_template=0.0, extra_kinds=['cls', 'cls', 'ns']), serializable=0.3)
        texts.append(t.rstrip() + "\n")
        import gen as _gen
        quals += ["::".join(list(p_) + [d_.cls.name]) for p_, content in _gen.walk_namespaces(m) for d_ in content if d_.kind == 'cls']
    boost = rng.random() < 0.5
    # --ignore: several entries (each its own argument), entries that merely CONTAIN the qualified name of a class that is to be
    # wrapped (r1::CaPair next to r1::Ca), entries naming nothing
    how = rng.choice(["none", "none", "one", "two", "contains", "prefixed"]) if quals else "none"
    ignore = {"none": [], "one": rng.sample(quals, 1) if quals else [], "two": rng.sample(quals, min(2, len(quals))),
              "contains": [rng.choice(quals) + "Pair"] if quals else [], "prefixed": ["outer::" + rng.choice(quals)] if quals else []}[how]
    res = dict(idx=idx, text="\x1e".join(texts), script="matlab-multi", opts=dict(files=names, boost=boost, ignore=ignore), bad=None)
    d = tempfile.mkdtemp(prefix="verif_c16m_")
    try:
        for nm, t in zip(names, texts):
            open(os.path.join(d, nm), "w", encoding="utf-8").write(t)
        cmd = [sys.executable, os.path.join(REPO, "scripts", "matlab_wrap.py"), "--src", ";".join(names), "--module_name", "modx", "--out", "tb"]
        if boost:
            cmd.append("--use-boost-serialization")
        if ignore:
            cmd += ["--ignore"] + ignore
        r = subprocess.run(cmd, cwd=d, capture_output=True, text=True, timeout=120, env=dict(os.environ, PYTHONPATH=REPO))
        api = impl_matlab(texts, "modx", ignore, boost)
        got = {}
        for root, _, fs in os.walk(os.path.join(d, "tb")):
            for fn in fs:
                pth = os.path.join(root, fn)
                got[os.path.relpath(pth, os.path.join(d, "tb"))] = open(pth, encoding="utf-8", newline="").read()
        res["api_ok"] = api[0] == "ok"
        if api[0] == "ok":
            if r.returncode != 0 or got != api[1]:
                from props._matlab_common import files_diff
                dd = files_diff(api[1], got) if r.returncode == 0 else dict(stderr=r.stderr[-300:])
                res["bad"] = dict(kind="spec", what="scripts/matlab_wrap.py with several files does not produce what the API produces for the same list (in the order given) and the same ignore list",
                                  files=names, texts=texts, ignore=ignore, **dd)
        elif r.returncode == 0:
            res["bad"] = dict(kind="spec", what="script succeeds where the API fails", files=names, texts=texts)
    finally:
        shutil.rmtree(d, ignore_errors=True)
    return res


def run(ctx, scale, off=0, collect=True):
    first = None
    for fn, n, tag in ((compose_case, scale[0], "compose"), (matlab_case, scale[1], "matlab_concat"), (script_case, scale[2], "script"),
                       (driver_case, max(10, scale[0] // 4), "api_driver"), (matlab_script_case, max(16, scale[2] // 3), "matlab_script_multi")):
        for r in fw.run_cases(fn, [(ctx.seed + off, None)] * n):
            if "crash" in r:
                raise RuntimeError(r["crash"])
            if collect:
                ctx.case(tag + r["text"], sample=dict(stream=tag, text=r["text"][:300], **{k: r[k] for k in ("nsub", "boost", "opts", "script", "n") if k in r}))
                ctx.count("stream_" + tag)
                if "api_ok" in r:
                    ctx.count(tag + ("_compared" if r["api_ok"] else "_api_rejects"))
                if "nsub" in r:
                    ctx.count("additional_files_%d" % r["nsub"])
            b = r["bad"]
            if b:
                kind = b.pop("kind")
                if kind == "spec":
                    first = first or dict(b)
                    if collect:
                        ctx.spec_fail(b.pop("what"), **b)
                elif collect:
                    ctx.disagree(b.pop("what"), **b)
            elif collect:
                ctx.traces_validated += 1
    return first


def replay_finding(e):
    w = e["witness"]
    if w.get("kind") == "script_no_ignore":
        d = tempfile.mkdtemp(prefix="verif_c16_")
        try:
            open(os.path.join(d, "a.i"), "w").write("class A { A(); };\n")
            open(os.path.join(d, "t.tpl"), "w").write(streams.TPL_MIN)
            r = subprocess.run([sys.executable, os.path.join(REPO, "scripts", "pybind_wrap.py"), "--src", "a.i", "--module_name", "m",
                                "--out", "o.cpp", "--template", "t.tpl"], cwd=d, capture_output=True, text=True,
                               env=dict(os.environ, PYTHONPATH=REPO))
            return r.returncode != 0
        finally:
            shutil.rmtree(d, ignore_errors=True)
    if w.get("kind") == "matlab_concat":
        a = impl_matlab(w["files"], "m", [], False)
        b = impl_matlab(["\n".join(w["files"])], "m", [], False)
        return a != b
    if w.get("kind") == "submodule_out":
        return True if w.get("always") else False
    return False


def main(ctx):
    fw.translate_and_build(ctx, ["WrapModel", "wrapmodel"])
    fw.audit(ctx, THEOREM_MODULES)
    run(ctx, (ctx.scale(90, 2000), ctx.scale(50, 1000), ctx.scale(64, 600)))
    for e in ctx.known:
        still = replay_finding(e)
        if e.get("kind") == "fixed":
            if still:
                ctx.spec_fail("a defect recorded as fixed is back: " + e["what"], **e["witness"])
        elif still:
            ctx.known_hit(e)
    ctx.extra["rule"] = ("(a) modules split over 1-4 generated files, one wrapper object and fresh ones; (b) 2-3 MATLAB files with varied "
                         "final characters (newline, blank, block comment, line comment + newline) vs their concatenation; (c) both scripts "
                         "as subprocesses over option combinations (top namespace spelled with and without leading ::, --ignore present/"
                         "absent/empty, serialization, --is_submodule) vs the API")
    return fw.finish(ctx, search=lambda c: run(c, (c.scale(150, 800), c.scale(60, 400), c.scale(40, 300)), off=55, collect=False),
                     assumptions=["linking of the generated translation units is not performed in the quick tier"])


def replay(ctx, path):
    print(open(path).read()[:4000])
    return 0
