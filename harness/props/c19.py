"""C19 — parsing cost stays polynomial in nesting depth and file size.

THEOREMS  lean/WrapModel/Props/C19.lean: (i) any memoising PEG evaluator with an unbounded table performs at most
          4·R·(n+1) non-memoised evaluations; memoisation does not change results; without memoisation a namespace-like
          grammar needs exponentially many calls (witness family, all depths, by induction)
TIE       the real parser's un-memoised entry point `ParserElement._parseNoCache` is wrapped and calls are counted
          (deterministic, no wall-clock verdict) on scaled families; counts must stay below the proven bound with R
          recomputed from the live grammar, and growth ratios must stay polynomial
PARTIAL   pyparsing's cache is a 128-entry FIFO: the no-eviction premise of the bound is not guaranteed, that the real
          engine stays within the bound is measured, not proved
"""
import json
import os
import subprocess
import sys

import framework as fw

PROP = "C19"
THEOREM_MODULES = ["WrapModel.Props.C19"]
HERE = os.path.join(fw.VERIF, "harness", "c19")


def main(ctx):
    fw.translate_and_build(ctx, ["WrapModel", "wrapmodel"])
    fw.audit(ctx, THEOREM_MODULES)
    r = subprocess.run([sys.executable, os.path.join(HERE, "c19_measure.py"), "--tier", ctx.tier, "--fail-fast"],
                       capture_output=True, text=True, timeout=5000, env=dict(os.environ, VERIF_REPO=fw.REPO))
    try:
        res = json.loads(r.stdout)
    except Exception:
        raise RuntimeError("c19_measure.py produced no JSON: " + (r.stdout + r.stderr)[-1500:])
    n = 0
    for fam, rows in res["families"].items():
        rows = rows if isinstance(rows, list) else rows.get("rows", [])
        for row in rows:
            n += 1
            ctx.evaluations += 1
            ctx.distinct.add("%s/%s" % (fam, row.get("param", row.get("d", row.get("n", n)))))
        ctx.count("family_" + fam, len(rows))
        if rows and len(ctx.samples) < 3:
            ctx.samples.append(dict(family=fam, first_rows=rows[:3]))
    ctx.extra.update(R=res["R"], packrat_enabled=res["packrat_enabled_after_import"], cache=res["cache_type_after_import"],
                     cache_size=res["cache_size_after_import"], thresholds=res["thresholds"], observed=res["observed"],
                     checks=res["checks"], seconds_measure=res["seconds_total"])
    if not res["ok"]:
        ff = res.get("first_failure") or {}
        # the measured cost leaves the polynomial envelope: the failing input is the replay
        ctx.spec_fail("parse cost exceeds the envelope (%s)" % ff.get("check", "?"), **{k: (v if not isinstance(v, str) else v[:4000])
                                                                                         for k, v in ff.items()})
    else:
        ctx.traces_validated = n
    # cost that the call counter cannot see (work around the grammar inside Module.parseString): fresh subprocesses, CPU time
    # judged through very wide margins (timeout 90 s where the unchanged tree needs < 5 s; growth <= 6x per step where it is < 2x)
    if res["ok"]:
        hz = subprocess.run([sys.executable, os.path.join(HERE, "c19_hazard.py"), "--tier", ctx.tier],
                            capture_output=True, text=True, timeout=5000, env=dict(os.environ, VERIF_REPO=fw.REPO))
        try:
            hres = json.loads(hz.stdout)
        except Exception:
            raise RuntimeError("c19_hazard.py produced no JSON: " + (hz.stdout + hz.stderr)[-1500:])
        for row in hres["rows"]:
            ctx.evaluations += 1
            ctx.distinct.add("hazard/%s/%s" % (row["family"], row["param"]))
            ctx.count("hazard_family_" + row["family"])
        ctx.extra["hazard"] = dict(thresholds=hres["thresholds"], rows=hres["rows"])
        if not hres["ok"]:
            ff = hres["first_failure"]
            ctx.spec_fail("parse cost exceeds the envelope (time): " + ff["detail"], family=ff["family"], param=ff["param"],
                          input=ff["text"], cpu_seconds=ff["cpu_seconds"], status=ff["status"])
        else:
            ctx.traces_validated += len(hres["rows"])
    ctx.extra["rule"] = ("scaled families: namespace depth d, template-argument depth d, n declarations, combinations, long "
                         "argument lists / defaults; distinct = distinct (family, parameter); verdict by call counts, plus the hazard families "
                         "(deep namespaces, comment openers and slashes inside string literals, one very long line) judged by CPU time in fresh subprocesses")
    return fw.finish(ctx, assumptions=["the bound is proved for an unbounded memo table; pyparsing's 128-entry FIFO is measured against it",
                                       "call counting wraps ParserElement._parseNoCache in the harness process only",
                                       "the hazard families are judged by CPU time with wide margins (90 s timeout, 6x growth per step): a slowdown inside these margins is not seen"])


def replay(ctx, path):
    print(open(path).read()[:3000])
    return 0
