"""C10 — the MATLAB toolbox contains exactly the declared classes, functions, enums.

THEOREMS  lean/WrapModel/Props/C10.lean
TIE       byte-exact file tree vs the model
ORACLE    file set and per-file structure (classdef base, pointer property, methods, statics, enum numbering) and
          the MEX preamble (one collector per class, RTTI for virtual classes, clean-up loops) of the implementation vs the
          model's; direct check: every collector used is declared and freed
"""
import framework as fw
import projections as pj
from props import _matlab_common as mc
from common import impl_matlab

PROP = "C10"
THEOREM_MODULES = ["WrapModel.Props.C10"]


def project(files):
    return [sorted(pj.matlab_tree_facts(files).items()), pj.preamble_facts(files, "mymod")]


def direct(files, r):
    p = pj.preamble_facts(files, "mymod")
    if sorted(p["collectors"]) != sorted(p["deleted"]):
        return "collectors declared %s but freed %s" % (p["collectors"][:6], p["deleted"][:6])
    missing = [u for u in p["used"] if u not in p["collectors"]]
    if missing:
        return "collector_%s is used but never declared" % missing[0]
    if len(set(p["collectors"])) != len(p["collectors"]):
        return "a collector is declared twice"
    if sum(1 for k in files if k.endswith("_wrapper.cpp")) != 1:
        return "not exactly one MEX source"
    return None


def multifile_case(idx, payload):
    """a toolbox generated from SEVERAL interface files, each with its declarations in a namespace of its own (classes,
    free functions, enums, nested namespaces): the toolbox must contain exactly what the single-file toolboxes contain —
    the same files with the same structure, one collector and clean-up loop per class of any file"""
    from props import c05
    seed, _ = payload
    texts = c05.multifile_texts(seed + 77, idx, extra_kinds=('cls', 'ns', 'func', 'enum'))
    res = dict(idx=idx, text="\x1e".join(texts), bad=None, ran=False)
    singles = [impl_matlab([t], "mymod", [], False) for t in texts]
    if any(s_[0] != "ok" for s_ in singles):
        return res
    st, out = impl_matlab(texts, "mymod", [], False)
    res["ran"] = True
    if st != "ok":
        res["bad"] = "every file is accepted alone but the list of files is rejected (%s)" % out
        return res
    want, coll, rtti = {}, [], []
    for _, o in singles:
        want.update({k: v for k, v in pj.matlab_tree_facts(o).items() if k.endswith(".m")})
        pf = pj.preamble_facts(o, "mymod")
        coll += pf["collectors"]
        rtti += pf["rtti"]
    got = {k: v for k, v in pj.matlab_tree_facts(out).items() if k.endswith(".m")}
    if got != want:
        miss, extra = sorted(set(want) - set(got)), sorted(set(got) - set(want))
        diff = sorted(k for k in set(want) & set(got) if want[k] != got[k])
        res["bad"] = "files of the toolbox are not those of the single files: missing %s, unexpected %s, different structure %s" % (miss[:4], extra[:4], diff[:4])
        return res
    pf = pj.preamble_facts(out, "mymod")
    if sorted(pf["collectors"]) != sorted(coll) or sorted(pf["deleted"]) != sorted(coll):
        res["bad"] = "collectors %s / clean-up loops %s of the toolbox are not those of the single files %s" % (sorted(pf["collectors"])[:6], sorted(pf["deleted"])[:6], sorted(coll)[:6])
    elif sorted(pf["rtti"]) != sorted(rtti):
        res["bad"] = "RTTI entries of the toolbox are not those of the single files"
    else:
        res["bad"] = direct(out, None)
    return res


def multifile_stream(ctx, n, off=0, collect=True):
    first = None
    for r in fw.run_cases(multifile_case, [(ctx.seed + off, None)] * n):
        if "crash" in r:
            raise RuntimeError(r["crash"])
        if collect:
            ctx.case("multifile" + r["text"], nontrivial=r["ran"], sample=None)
            ctx.count("multifile_toolboxes" if r["ran"] else "multifile_skipped")
        if r["bad"]:
            v = dict(what="toolbox generated from several interface files: " + r["bad"], files=r["text"].split("\x1e"))
            first = first or v
            if collect:
                ctx.spec_fail(v["what"], files=v["files"])
        elif collect and r["ran"]:
            ctx.traces_validated += 1
    return first


def main(ctx):
    search = mc.run(ctx, THEOREM_MODULES, project, direct,
                    "file tree / classdef structure / preamble differ from the proved-correct ones",
                    "MEX preamble is inconsistent", cfg_kw=dict(matlab_safe=True, typedef_same_ns=True),
                    # serializable classes followed by method-less ones; one instantiation under two names
                    extra_streams=[(dict(p_serialize=0.5, max_members=2), 0.3),
                                   # many free functions whose overloads are NOT declared next to each other: one file per name, all overloads in it
                                   (dict(extra_kinds=['func'] * 8, max_decls=7, max_members=2), 0.4), (dict(p_dup_typedef=0.7, extra_kinds=['cls']), 0.3),
                                   (dict(matlab_ignore=True, p_template=0.6, unique_ns=True, extra_kinds=['ns', 'ns']), 0.4),
                                   # typedefs of FUNCTION templates in an enclosing scope, before the template's namespace (for class templates
                                   # that placement is the known finding C10-typedef-in-enclosing-scope)
                                   (dict(typedef_enclosing=0.9, typedef_enclosing_kinds=['func'], p_template=0.9, n_typedefs=4,
                                         extra_kinds=['ns', 'ns', 'func', 'func', 'func'], max_depth=3), 0.4)])
    multifile_stream(ctx, ctx.scale(60, 800))
    search0 = search
    search = lambda c: search0(c) or multifile_stream(c, c.scale(60, 400), off=5, collect=False)  # noqa
    for e in ctx.known:
        w = e["witness"]
        st, out = impl_matlab([w["input"]], "mymod", w.get("ignore", []), False)
        if "expect_file" in w:       # fixed crash: generation must succeed and produce the file
            still = not (st == "ok" and w["expect_file"] in out)
        elif "bad_file" in w:
            still = st == "ok" and w["bad_file"] in out
        elif "undeclared_collector" in w:
            pf = pj.preamble_facts(out, "mymod") if st == "ok" else None
            still = pf is not None and w["undeclared_collector"] in pf["used"] and w["undeclared_collector"] not in pf["collectors"]
        else:
            still = st != "ok"
        if e.get("kind") == "fixed":
            if still:
                ctx.spec_fail("a defect recorded as fixed is back: " + e["what"], **w)
        elif still:
            ctx.known_hit(e)
    return fw.finish(ctx, search=search, assumptions=["hand-written model of matlab_wrapper/wrapper.py, tied byte-exactly on generated inputs"])


def replay(ctx, path):
    return mc.replay(ctx, path)
