"""C10 — the MATLAB toolbox contains exactly the declared classes, functions, enums.

THEOREMS  lean/WrapModel/Props/C10.lean
TIE       byte-exact file tree vs the model
ORACLE    file set and per-file structure (classdef base, pointer property, methods, statics, enum numbering) and
          the MEX preamble (one collector per class, RTTI for virtual classes, clean-up loops) of the implementation vs the
          model's; direct check: every collector used is declared and freed
"""
import framework as fw
import projections as pj
from props import _matlab_common as mc
from common import impl_matlab

PROP = "C10"
THEOREM_MODULES = ["WrapModel.Props.C10"]


def project(files):
    return [sorted(pj.matlab_tree_facts(files).items()), pj.preamble_facts(files, "mymod")]


def direct(files, r):
    p = pj.preamble_facts(files, "mymod")
    if sorted(p["collectors"]) != sorted(p["deleted"]):
        return "collectors declared %s but freed %s" % (p["collectors"][:6], p["deleted"][:6])
    missing = [u for u in p["used"] if u not in p["collectors"]]
    if missing:
        return "collector_%s is used but never declared" % missing[0]
    if len(set(p["collectors"])) != len(p["collectors"]):
        return "a collector is declared twice"
    if sum(1 for k in files if k.endswith("_wrapper.cpp")) != 1:
        return "not exactly one MEX source"
    return None


def main(ctx):
    search = mc.run(ctx, THEOREM_MODULES, project, direct,
                    "file tree / classdef structure / preamble differ from the proved-correct ones",
                    "MEX preamble is inconsistent", cfg_kw=dict(matlab_safe=True, typedef_same_ns=True),
                    # serializable classes followed by method-less ones; one instantiation under two names
                    extra_streams=[(dict(p_serialize=0.5, max_members=2), 0.3), (dict(p_dup_typedef=0.7, extra_kinds=['cls']), 0.3),
                                   (dict(matlab_ignore=True, p_template=0.6, unique_ns=True, extra_kinds=['ns', 'ns']), 0.4),
                                   # typedefs of FUNCTION templates in an enclosing scope, before the template's namespace (for class templates
                                   # that placement is the known finding C10-typedef-in-enclosing-scope)
                                   (dict(typedef_enclosing=0.9, typedef_enclosing_kinds=['func'], p_template=0.9, n_typedefs=4,
                                         extra_kinds=['ns', 'ns', 'func', 'func', 'func'], max_depth=3), 0.4)])
    for e in ctx.known:
        w = e["witness"]
        st, out = impl_matlab([w["input"]], "mymod", w.get("ignore", []), False)
        if "expect_file" in w:       # fixed crash: generation must succeed and produce the file
            still = not (st == "ok" and w["expect_file"] in out)
        elif "bad_file" in w:
            still = st == "ok" and w["bad_file"] in out
        elif "undeclared_collector" in w:
            pf = pj.preamble_facts(out, "mymod") if st == "ok" else None
            still = pf is not None and w["undeclared_collector"] in pf["used"] and w["undeclared_collector"] not in pf["collectors"]
        else:
            still = st != "ok"
        if e.get("kind") == "fixed":
            if still:
                ctx.spec_fail("a defect recorded as fixed is back: " + e["what"], **w)
        elif still:
            ctx.known_hit(e)
    return fw.finish(ctx, search=search, assumptions=["hand-written model of matlab_wrapper/wrapper.py, tied byte-exactly on generated inputs"])


def replay(ctx, path):
    return mc.replay(ctx, path)
