"""C06 — MATLAB overload guards, default expansion and C++ marshalling line up.

THEOREMS  lean/WrapModel/Props/C06.lean (expandArgs, guards, unwrapArguments)
TIE       byte-exact toolbox vs the model (default masks of every length, all passing modes and return shapes)
ORACLE    marshalling facts (checkArguments, unwrap lines, call line, out[] lines of every routine; guard lines
          of every .m file) of the implementation vs the model's
"""
import re

import framework as fw
import projections as pj
from props import _matlab_common as mc

PROP = "C06"
THEOREM_MODULES = ["WrapModel.Props.C06"]


def project(files):
    f, g = pj.matlab_marshalling_facts(files, "mymod")
    return [f, g]


def direct(files, r):
    # arities offered by the .m guards of one function must be distinct per overload chain head
    return None


def enum_clash_case(idx, payload):
    """one spelling, several meanings: a class with a NESTED enum `Mode`, an enum `Mode` of the enclosing namespace (used by another
    class), and a CLASS `Mode` in another namespace taken by value — in every order.  Each routine unwraps / wraps its
    parameter and result for the DECLARED type: the nested enum as `hw.Pump.Mode`, the namespace enum as `hw.Mode`, the class
    through its shared pointer.  Compared with the model byte for byte and judged directly on the routine bodies."""
    import random
    from common import impl_matlab, model_matlab
    seed, _ = payload
    rng = random.Random(seed * 1000003 + idx + 949494)
    nm = rng.choice(["Mode", "Kind", "State"])
    qual = rng.random() < 0.5            # spelled with or without the qualification (the unqualified spelling is the same text everywhere)
    pq, hq, nq = ("hw::Pump::", "hw::", "net::") if qual else ("", "", "")
    pump = ("class Pump { enum %s { OFF, ON, AUTO }; Pump(); %s%s mode() const; static %s%s Default(); "
            "void setMode(%s%s m, int level = 1); };" % (nm, pq, nm, pq, nm, pq, nm))
    valve = "class Valve { Valve(); %s%s speed() const; void setSpeed(%s%s s, double rate = 0.5); };" % (hq, nm, hq, nm)
    hw_parts = ["enum %s { SLOW, FAST };" % nm, pump, valve]
    rng.shuffle(hw_parts)
    hw = "namespace hw { %s }" % " ".join(hw_parts)
    net = "namespace net { class %s { %s(); }; class Link { Link(); void send(%s%s m, int retries = 3) const; %s%s current() const; }; }" % (nm, nm, nq, nm, nq, nm)
    blocks = [hw, net]
    rng.shuffle(blocks)
    text = "\n".join(blocks) + "\n"
    res = dict(idx=idx, text=text, bad=None)
    st, out = impl_matlab([text], "mymod", [], False)
    if st != "ok":
        res["bad"] = dict(kind="spec", what="a module that uses one spelling for a nested enum, a namespace enum and a class is rejected (%s)" % out, input=text)
        return res
    cpp = out.get("mymod_wrapper.cpp", "")

    def bodies(prefix):
        return re.findall(r'^void %s_\d+\(int nargout, mxArray \*out\[\], int nargin, const mxArray \*in\[\]\)\n\{(.*?)^\}' % prefix, cpp, re.M | re.S)
    T = r'[\w:]*%s' % nm
    want = [("hwPump_mode", r'wrap_enum\(obj->mode\(\),"hw\.Pump\.%s"\)' % nm, 1),
            ("hwPump_Default", r'wrap_enum\(hw::Pump::Default\(\),"hw\.Pump\.%s"\)' % nm, 1),
            ("hwPump_setMode", r'm = unwrap_enum<\s*%s\s*>\(in\[1\]\);.*obj->setMode\(m,' % T, 2),
            ("hwValve_speed", r'wrap_enum\(obj->speed\(\),"hw\.%s"\)' % nm, 1),
            ("hwValve_setSpeed", r's = unwrap_enum<\s*%s\s*>\(in\[1\]\);.*obj->setSpeed\(s,' % T, 2),
            ("netLink_send", r'm = unwrap_shared_ptr<\s*%s\s*>\(in\[1\], "ptr_%s%s"\);.*obj->send\(\*m,' % (T, "net" if qual else r"\w*", nm), 2),
            ("netLink_current", r'wrap_shared_ptr\(std::make_shared<%s>\(obj->current\(\)\),"%s%s", false\)' % (T, r"net\." if qual else r"[\w.]*", nm), 1)]
    for prefix, rx, count in want:
        bs = bodies(prefix)
        if len(bs) != count or not all(re.search(rx, b, re.S) for b in bs):
            res["bad"] = dict(kind="spec", what="routine %s does not unwrap / wrap for the declared type (expected /%s/ in each of its %d routines; found %d)"
                              % (prefix, rx, count, len(bs)), input=text)
            return res
    files = {"+hw/+Pump/%s.m" % nm: ["OFF(0)", "ON(1)", "AUTO(2)"], "+hw/%s.m" % nm: ["SLOW(0)", "FAST(1)"]}
    for f, ens in files.items():
        if f not in out or any(e not in out[f] for e in ens):
            res["bad"] = dict(kind="spec", what="enumeration file %s is missing or lacks the declared enumerators" % f, input=text)
            return res
    mdl = model_matlab(fw.worker_driver(), text, "mymod", [], False)
    if mdl != (st, out):
        res["bad"] = dict(kind="model", what="model and implementation differ on a module with clashing enum / class spellings", input=text)
    return res


def enum_clash_stream(ctx, n, off=0, collect=True):
    first = None
    for r in fw.run_cases(enum_clash_case, [(ctx.seed + off, None)] * n):
        if "crash" in r:
            raise RuntimeError(r["crash"])
        if collect:
            ctx.case("enumclash" + r["text"], sample=None)
            ctx.count("enum_clash_cases")
        b = r["bad"]
        if b and b["kind"] == "spec":
            first = first or dict(what=b["what"], input=b["input"])
            if collect:
                ctx.spec_fail(b["what"], input=b["input"])
        elif b:
            if collect:
                ctx.disagree(b["what"], input=b["input"])
        elif collect:
            ctx.traces_validated += 1
    return first


def main(ctx):
    search = mc.run(ctx, THEOREM_MODULES, project, direct,
                    "guards / argument counts / unwrap sequence / call parameters / return wrapping differ from the proved-correct ones",
                    "", cfg_kw=dict(p_default=0.7, max_args=5),
                    extra_streams=[
                        # many free functions with non-adjacent overloads and trailing defaults, in nested namespaces
                        (dict(extra_kinds=['func'] * 8, max_decls=7, max_members=2), 0.4),
                        # overloaded static methods and constructors (member names from a small pool)
                        (dict(mnames=["Create", "Count", "f"], extra_member_kinds=['static', 'static', 'ctor'], max_members=6), 0.3)])
    enum_clash_stream(ctx, ctx.scale(24, 300))
    search0 = search
    search = lambda c: search0(c) or enum_clash_stream(c, c.scale(24, 200), off=3, collect=False)  # noqa
    return fw.finish(ctx, search=search, assumptions=["hand-written model of matlab_wrapper/wrapper.py, tied byte-exactly on generated inputs"])


def replay(ctx, path):
    return mc.replay(ctx, path)
