"""C06 — MATLAB overload guards, default expansion and C++ marshalling line up.

THEOREMS  lean/WrapModel/Props/C06.lean (expandArgs, guards, unwrapArguments)
TIE       byte-exact toolbox vs the model (default masks of every length, all passing modes and return shapes)
ORACLE    marshalling facts (checkArguments, unwrap lines, call line, out[] lines of every routine; guard lines
          of every .m file) of the implementation vs the model's
"""
import framework as fw
import projections as pj
from props import _matlab_common as mc

PROP = "C06"
THEOREM_MODULES = ["WrapModel.Props.C06"]


def project(files):
    f, g = pj.matlab_marshalling_facts(files, "mymod")
    return [f, g]


def direct(files, r):
    # arities offered by the .m guards of one function must be distinct per overload chain head
    return None


def main(ctx):
    search = mc.run(ctx, THEOREM_MODULES, project, direct,
                    "guards / argument counts / unwrap sequence / call parameters / return wrapping differ from the proved-correct ones",
                    "", cfg_kw=dict(p_default=0.7, max_args=5),
                    extra_streams=[
                        # many free functions with non-adjacent overloads and trailing defaults, in nested namespaces
                        (dict(extra_kinds=['func'] * 8, max_decls=7, max_members=2), 0.4),
                        # overloaded static methods and constructors (member names from a small pool)
                        (dict(mnames=["Create", "Count", "f"], extra_member_kinds=['static', 'static', 'ctor'], max_members=6), 0.3)])
    return fw.finish(ctx, search=search, assumptions=["hand-written model of matlab_wrapper/wrapper.py, tied byte-exactly on generated inputs"])


def replay(ctx, path):
    return mc.replay(ctx, path)
