"""C08 — exactly the requested instantiations exist, in order, with stable names.

THEOREMS  lean/WrapModel/Props/C08.lean
TIE       instantiated-tree dump == model dump (same stream as C02)
ORACLE    projection (kind, name, scope, C++ reference of every top-level/instantiated declaration, in order)
          of the implementation's result vs the specification's
"""
import json

import framework as fw
import streams

PROP = "C08"
THEOREM_MODULES = ["WrapModel.Props.C08"]


def projection(cpp):
    """which instantiations exist, order, names, C++ references: declaration-level lines, and of the member lines (member-level
    instantiations of constructors, methods, static methods) the name and the C++ reference `name<args>`"""
    out = []
    for l in cpp.split("\n"):
        if not l:
            continue
        if l.startswith("  "):
            if l[2] in "KMS":
                out.append(" | ".join(l.split(" | ")[:2]))
            continue
        f = l.split(" | ")
        out.append(" | ".join(f[:3]) if l[0] in "CFD" else l)
    return out


def case(idx, payload):
    r = streams.inst_case(idx, payload)
    spec = streams.model_call("spec-icpp", r["text"])
    r["proj_eq"] = projection(r["impl_cpp"]) == projection(spec)
    if not r["proj_eq"]:
        r["proj_diff"] = streams.first_diff("\n".join(projection(spec)), "\n".join(projection(r["impl_cpp"])))
    return r


def search(ctx):
    res = fw.run_cases(case, [(ctx.seed + 991, dict(p_template=0.7))] * ctx.scale(300, 2000))
    for r in res:
        if "crash" not in r and not r["proj_eq"]:
            return dict(what="set/order/names of instantiations differ from the specification", input=r["text"], **r["proj_diff"])
    return None


def main(ctx):
    fw.translate_and_build(ctx, ["WrapModel", "wrapmodel"])
    fw.audit(ctx, THEOREM_MODULES)
    res = fw.run_cases(case, [(ctx.seed, dict(p_template=0.6))] * ctx.scale(260, 6000))
    # re-opened namespaces (tiny name pool) holding templates and typedefs of them, nested instantiation arguments
    res += fw.run_cases(case, [(ctx.seed + 17, dict(p_template=0.8, ns_pool=["a", "b"], n_typedefs=4, max_depth=2, max_decls=4,
                                                    extra_kinds=['ns', 'cls']))] * ctx.scale(120, 2500))
    # lower-case type names whose first letter occurs again (state, dd, tt, stats, level): the naming rule capitalises EVERY
    # occurrence of the first letter of the flattened argument name (`name.replace(name[0], name[0].capitalize())`)
    res += fw.run_cases(case, [(ctx.seed + 29, dict(p_template=0.8, class_pool=["state", "dd", "tt", "stats", "level", "aba", "vectorvalues"], p_suffix=0.0,
                                                    max_decls=4, extra_kinds=['cls', 'func']))] * ctx.scale(80, 1500))
    for r in res:
        if "crash" in r:
            raise RuntimeError(r["crash"])
        ctx.case(r["text"], sample=dict(text=r["text"][:500]))
        streams.add_stats(ctx, r["stats"])
        if r["err"]:
            ctx.count("impl_" + r["err"].replace(" ", "_"))
        if not r["model_eq"]:
            ctx.disagree("model instantiation != implementation", input=r["text"], **r["model_diff"])
        else:
            ctx.traces_validated += 1
        if not r["proj_eq"]:
            ctx.spec_fail("set/order/names of instantiations differ from the specification", input=r["text"], **r["proj_diff"])
    for e in ctx.known:
        got = streams.impl_inst(e["witness"]["input"], "icpp")
        still = got.startswith(e["witness"]["defect_output_prefix"])
        if e.get("kind") == "fixed":
            if still:
                ctx.spec_fail("a defect recorded as fixed is back: " + e["what"], **e["witness"])
        elif still:
            ctx.known_hit(e)
    ctx.extra["rule"] = "coherent modules with 1-3 template parameters, lists of length 0-3, member templates, typedefs before/after/in other namespaces"
    return fw.finish(ctx, search=search, assumptions=["hand-written model of instantiate_namespace, tied by differential runs"])


def replay(ctx, path):
    v = json.load(open(path))["violation"]
    if "input" in v:
        print("\n".join(projection(streams.impl_inst(v["input"], "icpp"))))
    return 0
