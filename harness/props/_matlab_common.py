"""shared runner for the properties decided on the MATLAB generator (C05, C06, C10)"""
import json

import framework as fw
import streams
from common import impl_matlab


def first_list_diff(exp, got):
    if isinstance(exp, dict):
        for k in sorted(set(exp) | set(got)):
            if exp.get(k) != got.get(k):
                return dict(key=k, expected=str(exp.get(k))[:400], got=str(got.get(k))[:400])
        return {}
    for i, (x, y) in enumerate(zip(exp, got)):
        if x != y:
            return dict(index=i, expected=str(x)[:400], got=str(y)[:400])
    return dict(index=min(len(exp), len(got)), expected="(%d items)" % len(exp), got="(%d items)" % len(got))


def files_diff(a, b):
    """first differing file between two {path: text} dicts (a = model/expected, b = implementation)"""
    for k in sorted(set(a) | set(b)):
        if k not in a:
            return dict(file=k, expected="<absent>", got=b[k][:200])
        if k not in b:
            return dict(file=k, expected=a[k][:200], got="<absent>")
        if a[k] != b[k]:
            d = streams.first_diff(a[k], b[k])
            d["file"] = k
            return d
    return {}


def make_case(project, direct):
    def case(idx, payload):
        r = streams.matlab_case(idx, payload)
        out = dict(idx=r["idx"], text=r["text"], opts=r["opts"], stats=r["stats"], eq=r["eq"],
                   err=None if r["impl"][0] == "ok" else r["impl"][1], proj_eq=True, direct=None, nfiles=0)
        if r["impl"][0] == "ok":
            out["nfiles"] = len(r["impl"][1])
            d = direct(r["impl"][1], r)
            if d:
                out["direct"] = d
        if not r["eq"]:
            a, b = r["impl"], r["model"]
            if a[0] == "ok" and b[0] == "ok":
                out["diff"] = files_diff(b[1], a[1])
                pa, pb = project(a[1]), project(b[1])
                out["proj_eq"] = pa == pb
                if pa != pb:
                    out["proj_diff"] = first_list_diff(pb, pa)
            else:
                out["diff"] = dict(expected=str(b)[:300], got=str(a)[:300])
                out["proj_eq"] = False
                out["proj_diff"] = out["diff"]
        return out
    return case


def run(ctx, theorem_modules, project, direct, what_proj, what_direct, cfg_kw=None, n=(200, 5000), rule="", extra_streams=None):
    fw.translate_and_build(ctx, ["WrapModel", "wrapmodel"])
    fw.audit(ctx, theorem_modules)
    case = make_case(project, direct)

    def consume(res, collect=True):
        first = None
        for r in res:
            if "crash" in r:
                raise RuntimeError(r["crash"])
            if collect:
                ctx.case(r["text"] + json.dumps(r["opts"]), sample=dict(options=r["opts"], text=r["text"][:400]))
                streams.add_stats(ctx, r["stats"])
                ctx.count("boost_%s" % r["opts"]["boost"])
                ctx.count("generated_files", r["nfiles"])
                if r["err"]:
                    ctx.count("impl_" + r["err"])
            viol = None
            if r["direct"]:
                viol = dict(what=what_direct + ": " + r["direct"], input=r["text"], options=r["opts"])
            elif not r["eq"] and not r["proj_eq"]:
                viol = dict(what=what_proj, input=r["text"], options=r["opts"], **r["proj_diff"])
            if viol:
                first = first or viol
                if collect:
                    v = dict(viol)
                    ctx.spec_fail(v.pop("what"), **v)
            elif not r["eq"]:
                if collect:
                    ctx.disagree("generated MATLAB toolbox differs from the model (property-relevant projection equal)",
                                 input=r["text"], options=r["opts"], **r["diff"])
            elif collect:
                ctx.traces_validated += 1
        return first

    consume(fw.run_cases(case, [(ctx.seed, cfg_kw)] * ctx.scale(*n)))
    for extra_kw, frac in (extra_streams or []):
        kw = dict(cfg_kw or {})
        kw.update(extra_kw)
        consume(fw.run_cases(case, [(ctx.seed + 1009, kw)] * max(8, int(ctx.scale(*n) * frac))))

    def search(c):
        return consume(fw.run_cases(case, [(ctx.seed + 4711, cfg_kw)] * ctx.scale(300, 2000)), collect=False)

    ctx.extra["rule"] = rule or ("coherent modules (classes virtual or not, with and without base, ctors/methods/statics/properties/"
                                 "functions with default masks, namespaces, templates, typedefs) x serialization flag; "
                                 "distinct = distinct (text, options)")
    return search


def replay(ctx, path):
    v = json.load(open(path))["violation"]
    if "input" in v:
        st, out = impl_matlab([v["input"]], "mymod", v.get("options", {}).get("ignore", []), v.get("options", {}).get("boost", False))
        print(st)
        if st == "ok":
            for k in sorted(out):
                print("==", k)
                print(out[k][:1500])
    return 0
