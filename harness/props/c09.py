"""C09 — generated pybind11 code compiles against any conforming C++ library.

THEOREMS  lean/WrapModel/Props/C09.lean (well-formedness judgement on the IR / printer)
TIE       byte-exact generated text vs the model
ORACLE    structural well-formedness of the implementation's text (balanced brackets outside literals, lambda
          parameter count = py::arg count, module variables declared before use, no template parameter left);
          COMPILER: closed-world interface files are generated together with a conforming C++ library header
          (harness/c09_compile.py); the implementation's translation unit must pass `g++ -std=c++17 -fsyntax-only`
          against pybind11 and that header (16 units in the quick tier, 400 in the thorough tier)
PARTIAL   "is well-formed C++" for open-world inputs is a modelled judgement; the compiler decides it on the closed-world stream
"""
import re

import framework as fw
import projections as pj
from props import _pybind_common as pc
from common import impl_pybind
import streams

PROP = "C09"
THEOREM_MODULES = ["WrapModel.Props.C09"]


def direct(text, r):
    if not pj.balanced(text):
        return "unbalanced brackets in the translation unit"
    p = pj.pybind_lambda_problems(text)
    if p:
        return p[0]
    mv = pj.module_vars_ok(text)
    if mv:
        return mv
    # one explicit export per serialising class: a second BOOST_CLASS_EXPORT of a type redefines boost's guid_defined<T>
    exports = re.findall(r'^BOOST_CLASS_EXPORT\((.+?)\)\s*$', text, re.M)
    dup = sorted({e for e in exports if exports.count(e) > 1})
    if dup:
        return "BOOST_CLASS_EXPORT(%s) is emitted %d times in one translation unit" % (dup[0], exports.count(dup[0]))
    return None


def replay_finding(e):
    w = e["witness"]
    st, out = impl_pybind(w["input"], streams.TPL_MIN, "m", [""], False, [], None)
    return st == "ok" and w["bad_fragment"] in out


def deep_parameter_only(r):
    """the unit fails to compile ONLY because a template parameter that stands two or more levels deep in template arguments of the
    interface (`std::vector<std::vector<T>>`) was left unsubstituted: every compiler error names such a parameter as undeclared or is the
    follow-up `template argument N is invalid`"""
    b = r["bad"]
    comp = b.get("compiler", "")
    params = set(re.findall(r'template<\s*(\w+)\s*=', r["text"])) | set(re.findall(r',\s*(\w+)\s*=\s*\{', r["text"]))
    deep = {p_ for p_ in params if re.search(r'<[^<>;()]*<[^<>;()]*\b%s\b' % re.escape(p_), r["text"])}
    if not comp or not deep:
        return False
    errs = [l for l in comp.splitlines() if "error" in l]
    if not errs:
        return False
    for l in errs:
        m = re.search(r"error: \W(\w+)\W was not declared in this scope", l)
        if m and m.group(1) in deep:
            continue
        if re.search(r"error: template argument \d+ is invalid", l):
            continue
        return False
    return True


def compile_stream(ctx, n, off=0, collect=True):
    import c09_compile
    from common import REPO
    first = None
    for r in fw.run_cases(c09_compile.compile_case, [(ctx.seed + off, REPO)] * n):
        if "crash" in r:
            raise RuntimeError(r["crash"])
        if collect:
            ctx.case("compile" + r["text"], sample=dict(stream="compile", text=r["text"][:400]))
            ctx.count("compiled_units" if r["compiled"] else ("compile_generator_rejected" if r["gen_error"] else "compile_failed"))
            for k, v in r["stats"].items():
                ctx.count("compile_" + k, v)
        if r["gen_error"]:
            v = dict(what="generation fails on a closed-world interface file: " + r["gen_error"], input=r["text"])
            first = first or v
            if collect:
                ctx.spec_fail(v["what"], input=r["text"])
        elif r["bad"] and deep_parameter_only(r):
            # the listed finding C09-parameter-two-levels-deep-left-unsubstituted, met on a generated input
            if collect:
                ctx.count("compile_known_deep_parameter")
                e = next((e for e in ctx.known if e["id"] == "C09-parameter-two-levels-deep-left-unsubstituted" and e.get("kind") != "fixed"), None)
                if e is not None:
                    ctx.known_hit(e, detail=r["text"][:200])
                else:
                    b = dict(r["bad"])
                    ctx.spec_fail(b.pop("what"), **b)
            elif not any(e["id"] == "C09-parameter-two-levels-deep-left-unsubstituted" and e.get("kind") != "fixed" for e in ctx.known):
                first = first or dict(r["bad"])
        elif r["bad"]:
            first = first or dict(r["bad"])
            if collect:
                b = dict(r["bad"])
                ctx.spec_fail(b.pop("what"), **b)
        elif collect:
            ctx.traces_validated += 1
    return first


def sources_case(idx, payload):
    """PybindWrapper.wrap(sources, out): the sub-module initialisers declared and called in the main translation unit are
    named after the interface FILES, whatever their extension (.i, .h, .hpp — the README uses .h): they must be C++ identifiers"""
    import os
    import random
    import shutil
    import tempfile
    from common import classify_exc
    from gtwrap.pybind_wrapper import PybindWrapper
    seed, _ = payload
    rng, m, text = streams.gen_coherent(seed + 606, idx, dict(max_decls=3, typedef_same_ns=True, unique_ns=True), style='space')
    stems = rng.sample(["dynamics", "planning", "nav", "geo_metry", "x1", "slam", "basis", "ii"], rng.randint(1, 3))
    exts = [rng.choice([".i", ".h", ".hpp", ".interface", ".i"]) for _ in stems]
    res = dict(idx=idx, text=text, sources=[a + b for a, b in zip(stems, exts)], bad=None, ran=False)
    d = tempfile.mkdtemp(prefix="verif_c09s_")
    cwd = os.getcwd()
    try:
        main_p = os.path.join(d, "main_module" + rng.choice([".i", ".h"]))
        open(main_p, "w", encoding="utf-8").write(text)
        subs = []
        for a, b in zip(stems, exts):
            sp = os.path.join(d, a + b)
            open(sp, "w", encoding="utf-8").write("class Sub_%s { Sub_%s(); };\n" % (a, a))
            subs.append(sp)
        w = PybindWrapper(module_name="m", top_module_namespaces=[''], use_boost_serialization=False, ignore_classes=[],
                          module_template=streams.TPL_MIN)
        os.chdir(d)
        try:
            w.wrap([main_p] + subs, "out.cpp")
        except Exception as e:  # noqa
            res["err"] = classify_exc(e)
            return res
        finally:
            os.chdir(cwd)
        out = open(os.path.join(d, "out.cpp"), encoding="utf-8").read()
        res["ran"] = True
        want = impl_pybind(text, streams.TPL_MIN, "m", [''], False, [], stems)
        for st in stems:
            decl, call = "void %s(py::module_ &);" % st, "%s(m_);" % st
            if decl not in out or call not in out:
                res["bad"] = dict(what="the initialiser of sub-module file `%s` is not declared and called under a C++ identifier" % st,
                                  input=text, sources=res["sources"], fragment=[l for l in out.splitlines() if st in l][:4])
                return res
        if want[0] == "ok" and want[1] != out:
            res["bad"] = dict(what="wrap(sources) does not produce the translation unit of wrap_file(main, submodules = file stems)",
                              input=text, sources=res["sources"], **streams.first_diff(want[1], out))
            return res
        dd = direct(out, None)
        if dd:
            res["bad"] = dict(what="generated translation unit is not well-formed: " + dd, input=text, sources=res["sources"])
    finally:
        os.chdir(cwd)
        shutil.rmtree(d, ignore_errors=True)
    return res


def sources_stream(ctx, n, off=0, collect=True):
    first = None
    for r in fw.run_cases(sources_case, [(ctx.seed + off, None)] * n):
        if "crash" in r:
            raise RuntimeError(r["crash"])
        if collect:
            ctx.case("sources" + r["text"] + str(r["sources"]), nontrivial=r["ran"], sample=None)
            ctx.count("wrap_sources_runs" if r["ran"] else "wrap_sources_rejected")
        if r["bad"]:
            first = first or dict(r["bad"])
            if collect:
                b = dict(r["bad"])
                ctx.spec_fail(b.pop("what"), **b)
        elif collect and r["ran"]:
            ctx.traces_validated += 1
    return first


def main(ctx):
    search = pc.run(ctx, THEOREM_MODULES, pj.normalize_ws, direct,
                    "generated translation unit differs from the well-formed one",
                    "generated translation unit is not well-formed",
                    cfg_kw=dict(typedef_same_ns=True, unique_ns=True, c02_safe=True),
                    extra_streams=[(dict(p_template=0.9, max_members=8, max_decls=3), 0.5),
                                   # serialising classes (some with both hooks, templates instantiated twice under two names)
                                   (dict(p_serialize=0.7, p_dup_typedef=0.6, p_template=0.5, n_typedefs=3, extra_kinds=['cls', 'cls']), 0.4),
                                   # typedefs placed in an enclosing scope, before the namespace of their template
                                   (dict(typedef_enclosing=0.9, p_template=0.7, n_typedefs=3, extra_kinds=['ns', 'ns', 'cls'], max_depth=3), 0.4)])
    compile_stream(ctx, ctx.scale(16, 400))
    sources_stream(ctx, ctx.scale(24, 300))
    for e in ctx.known:
        still = replay_finding(e)
        if e.get("kind") == "fixed":
            if still:
                ctx.spec_fail("a defect recorded as fixed is back: " + e["what"], **e["witness"])
        elif still:
            ctx.known_hit(e)
    return fw.finish(ctx, search=lambda c: search(c) or sources_stream(c, c.scale(24, 200), off=3, collect=False) or compile_stream(c, c.scale(48, 300), off=7, collect=False), assumptions=[
        "for open-world inputs well-formedness is a modelled judgement (WellFormedTU), not the C++ standard; the closed-world "
        "stream is decided by g++ 12 against pybind11 2.13 and a generated conforming header",
        "hand-written model of pybind_wrapper.py, tied byte-exactly on generated inputs"])


def replay(ctx, path):
    return pc.replay(ctx, path, pj.normalize_ws)
