"""C09 — generated pybind11 code compiles against any conforming C++ library.

THEOREMS  lean/WrapModel/Props/C09.lean (well-formedness judgement on the IR / printer)
TIE       byte-exact generated text vs the model
ORACLE    structural well-formedness of the implementation's text (balanced brackets outside literals, lambda
          parameter count = py::arg count, module variables declared before use, no template parameter left);
          thorough tier: g++ -fsyntax-only on generated translation units with a generated header
PARTIAL   "is well-formed C++" is a modelled judgement; the compiler runs validate it on samples
"""
import re

import framework as fw
import projections as pj
from props import _pybind_common as pc
from common import impl_pybind
import streams

PROP = "C09"
THEOREM_MODULES = ["WrapModel.Props.C09"]


def direct(text, r):
    if not pj.balanced(text):
        return "unbalanced brackets in the translation unit"
    p = pj.pybind_lambda_problems(text)
    if p:
        return p[0]
    mv = pj.module_vars_ok(text)
    if mv:
        return mv
    return None


def replay_finding(e):
    w = e["witness"]
    st, out = impl_pybind(w["input"], streams.TPL_MIN, "m", [""], False, [], None)
    return st == "ok" and w["bad_fragment"] in out


def main(ctx):
    search = pc.run(ctx, THEOREM_MODULES, pj.normalize_ws, direct,
                    "generated translation unit differs from the well-formed one",
                    "generated translation unit is not well-formed",
                    cfg_kw=dict(typedef_same_ns=True, unique_ns=True, c02_safe=True),
                    extra_streams=[(dict(p_template=0.9, max_members=8, max_decls=3), 0.5)])
    for e in ctx.known:
        still = replay_finding(e)
        if e.get("kind") == "fixed":
            if still:
                ctx.spec_fail("a defect recorded as fixed is back: " + e["what"], **e["witness"])
        elif still:
            ctx.known_hit(e)
    return fw.finish(ctx, search=search, assumptions=[
        "well-formedness is a modelled judgement (WellFormedTU), not the C++ standard",
        "hand-written model of pybind_wrapper.py, tied byte-exactly on generated inputs"])


def replay(ctx, path):
    return pc.replay(ctx, path, pj.normalize_ws)
