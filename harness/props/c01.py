"""C01 — interface files parse to a tree that mirrors the source exactly.

THEOREMS  lean/WrapModel/Props/C01.lean
TIE       tree dump of gtwrap.interface_parser.Module.parseString(text) == dump of the model's
          parse of the same text, on generated well-formed files with random layouts + fixtures
ORACLE    (SEARCH) the generator's own tree (the tree the text was rendered from) vs the
          implementation's dump
"""
import glob
import json
import os
import random

import framework as fw
from common import REPO, classify_exc

PROP = "C01"
THEOREM_MODULES = ["WrapModel.Props.C01"]
STYLES = ['min', 'space', 'ws', 'comments', 'lines']


def impl_parse_dump(text):
    import pydump
    from gtwrap.interface_parser import Module
    try:
        return pydump.module(Module.parseString(text))
    except Exception as e:  # noqa
        return "ERR " + classify_exc(e)


def scope_problem(text):
    """every declaration knows the scope it was written in: `namespaces()` / `full_namespaces()` of each parsed class, enum,
    forward declaration and namespace is the path of enclosing namespace blocks, read off the nesting of the tree itself"""
    from gtwrap.interface_parser import Module
    from gtwrap.interface_parser.namespace import Namespace
    try:
        tree = Module.parseString(text)
    except Exception:  # noqa
        return None

    def walk(ns, path):
        for el in ns.content:
            if isinstance(el, Namespace):
                here = path + [el.name]
                if el.full_namespaces() != here:
                    return "namespace block %s reports the path %s" % ("::".join(here[1:]), "::".join(el.full_namespaces()[1:]))
                r = walk(el, here)
                if r:
                    return r
            elif hasattr(el, "namespaces") and callable(el.namespaces) and hasattr(el, "parent") and not hasattr(el, "typename"):
                if el.namespaces() != path:
                    return "%s %s declared in %s reports the scope %s" % (type(el).__name__, getattr(el, "name", "?"), "::".join(path[1:]) or "(global)",
                                                                          "::".join(el.namespaces()[1:]) or "(global)")
        return None
    return walk(tree, [''])


def impl_parse_dump_after_use(text):
    """the same text parsed AGAIN after the first tree was used the way both generators use it (instantiated in place):
    parsing is a function of the text"""
    import pydump
    from gtwrap.interface_parser import Module
    import gtwrap.template_instantiator as instantiator
    try:
        tree = Module.parseString(text)
        try:
            instantiator.instantiate_namespace(tree)
        except Exception:  # noqa
            pass
        return pydump.module(Module.parseString(text))
    except Exception as e:  # noqa
        return "ERR " + classify_exc(e)


def model_parse_dump(text):
    st, out = fw.worker_driver().call("parse", text)
    return out if st == "ok" else "ERR " + out


def gen_case(seed, idx, cfg_kw=None):
    import gen
    rng = random.Random(seed * 1000003 + idx)
    g = gen.Gen(rng, gen.Cfg(**(cfg_kw or {})))
    m = g.gen_module()
    style = rng.choice(STYLES)
    text = gen.layout(rng, gen.lexemes(m), style)
    return m, style, text


def stats_of(m):
    import gen
    st = {}

    def walk(ds, depth):
        st["max_ns_depth"] = max(st.get("max_ns_depth", 0), depth)
        for d in ds:
            st["decl_" + d.kind] = st.get("decl_" + d.kind, 0) + 1
            if d.kind == 'ns':
                walk(d.content, depth + 1)
            if d.kind == 'cls':
                for mem in d.cls.members:
                    st["member_" + mem.kind] = st.get("member_" + mem.kind, 0) + 1
                if d.cls.tmpl:
                    st["templated_class"] = st.get("templated_class", 0) + 1
    walk(m, 0)
    return st


def case(idx, payload):
    import gen
    seed, cfg_kw = payload
    m, style, text = gen_case(seed, idx, cfg_kw)
    want = gen.dump_module(m)
    impl = impl_parse_dump(text)
    impl_again = impl_parse_dump_after_use(text) if idx % 3 == 0 else impl
    scope = scope_problem(text)
    model = model_parse_dump(text)
    # the Lean printer `Spec.lexemes` of the parsed tree vs the lexemes the text was rendered from, and whether the model
    # parser reads those lexemes back (the instance of theorem C01_module_roundtrip_lexemes for this tree)
    st, out = fw.worker_driver().call("lexrt", text)
    lex_eq, rt = None, None
    if st == "ok":
        flag, _, toks = out.partition("\x1e")
        rt = flag == "1"
        lean = norm_tokens([t[1:] for t in toks.split("\x1f")] if toks else [])
        mine = norm_tokens([t for _, t in gen.lexemes(m)])
        lex_eq = lean == mine
    return dict(idx=idx, style=style, text=text, want=want, impl=impl, impl_again=impl_again, scope=scope, model=model, stats=stats_of(m),
                nlex=len(gen.lexemes(m)), lex_eq=lex_eq, rt=rt)


def norm_tokens(toks):
    out = []
    for t in toks:
        out += ["std", "::", "pair"] if t == "std::pair" else [t]
    return out


def first_diff(a, b):
    la, lb = a.split("\n"), b.split("\n")
    for x, y in zip(la, lb):
        if x != y:
            return dict(expected=x[:400], got=y[:400])
    return dict(expected="(%d lines)" % len(la), got="(%d lines)" % len(lb))


def run_stream(ctx, n, cfg_kw=None, tag="valid"):
    res = fw.run_cases(case, [(ctx.seed, cfg_kw)] * n)
    for r in res:
        if "crash" in r:
            raise RuntimeError("harness crash in case: " + r["crash"])
        ctx.case(r["text"], nontrivial=r["nlex"] > 0,
                 sample=dict(stream=tag, style=r["style"], text=r["text"][:600]))
        ctx.count("style_" + r["style"])
        for k, v in r["stats"].items():
            if k == "max_ns_depth":
                ctx.count("ns_depth_%d" % v)
            else:
                ctx.count(k, v)
        if r.get("rt") is not None:
            ctx.count("roundtrip_theorem_instance_" + ("holds" if r["rt"] else "outside_proved_dialect"))
            if not r["rt"] and len(ctx.extra.setdefault("outside_proved_dialect_samples", [])) < 3:
                ctx.extra["outside_proved_dialect_samples"].append(r["text"][:300])
        if r.get("lex_eq") is False and r["model"] == r["want"]:
            ctx.disagree("Spec.lexemes (Lean printer) of the tree differs from the lexemes the text was rendered from",
                         input=r["text"], case=r["idx"], stream=tag)
        if r.get("scope"):
            ctx.spec_fail("a parsed declaration reports another scope than the one it is written in: " + r["scope"], input=r["text"], case=r["idx"], stream=tag)
        elif r["impl"] == r["want"] and r.get("impl_again", r["impl"]) != r["impl"]:
            ctx.spec_fail("parsing the same text a second time (after the first tree was instantiated) gives another tree",
                          input=r["text"], case=r["idx"], stream=tag, **first_diff(r["impl"], r["impl_again"]))
        elif r["impl"] != r["want"]:
            # the property's own oracle fails on the implementation
            ctx.spec_fail("parse tree of the implementation differs from the tree the text was rendered from",
                          input=r["text"], case=r["idx"], stream=tag, **first_diff(r["want"], r["impl"]))
        elif r["model"] != r["impl"]:
            ctx.disagree("model parse != implementation parse", input=r["text"], case=r["idx"], stream=tag,
                         **first_diff(r["impl"], r["model"]))
        else:
            ctx.traces_validated += 1


def run_corpus(ctx):
    files = sorted(glob.glob(os.path.join(REPO, "tests", "fixtures", "*.i")))
    corpus = sorted(glob.glob(os.path.join(fw.VERIF, "corpus", "parse", "*.i")))
    for f in files + corpus:
        text = open(f, encoding="utf-8").read()
        impl = impl_parse_dump(text)
        model = model_parse_dump(text)
        ctx.case(text, sample=None)
        ctx.count("corpus_files")
        if impl != model:
            ctx.disagree("model parse != implementation parse on corpus file", file=f, **first_diff(impl, model))
        else:
            ctx.traces_validated += 1


def search(ctx):
    """spec (generator tree) vs implementation on a fresh targeted stream"""
    res = fw.run_cases(case, [(ctx.seed + 7919, None)] * ctx.scale(200, 1500))
    res += fw.run_cases(case, [(ctx.seed + 7921, dict(p_underscore=0.35))] * ctx.scale(100, 800))
    res += fw.run_cases(case, [(ctx.seed + 7920, dict(p_kwlike=0.4, p_fwd_twin=0.6, extra_kinds=['enum', 'enum', 'fwd', 'fwd', 'fwd']))] * ctx.scale(200, 1500))
    for r in res:
        if "crash" not in r and r["impl"] != r["want"]:
            return dict(what="parse tree differs from the tree the text was rendered from", input=r["text"],
                        **first_diff(r["want"], r["impl"]))
    return None


def replay_finding(ctx, entry):
    """True if the listed witness still fails the spec on the implementation"""
    w = entry["witness"]
    got = impl_parse_dump(w["input"])
    return w["expect_contains"] not in got


def main(ctx):
    fw.translate_and_build(ctx, ["WrapModel", "wrapmodel"])
    fw.audit(ctx, THEOREM_MODULES)
    ctx.extra["rule"] = ("well-formed trees drawn by harness/gen.py (all declaration kinds, nesting, qualifiers, "
                         "templates, defaults), rendered with one of 5 layout styles; distinct = distinct texts; "
                         "non-trivial = at least one lexeme")
    run_corpus(ctx)
    run_stream(ctx, ctx.scale(240, 6000))
    run_stream(ctx, ctx.scale(40, 800), dict(max_depth=ctx.scale(6, 30), max_decls=2, max_members=2), tag="deep")
    # identifiers that begin with / contain keywords of the dialect (`enum classification`, `structure_type`, `constant`)
    run_stream(ctx, ctx.scale(80, 1500), dict(p_underscore=0.35), tag="leading underscores")
    run_stream(ctx, ctx.scale(60, 1000), dict(ns_pool=["a", "b", "robot"], max_depth=4, max_decls=3, extra_kinds=['ns', 'ns', 'cls', 'enum', 'fwd']), tag="namespace names repeated on a path")
    run_stream(ctx, ctx.scale(120, 2500), dict(p_kwlike=0.4, p_fwd_twin=0.6, extra_kinds=['enum', 'enum', 'fwd', 'fwd', 'fwd']), tag="keyword-like names")
    for e in ctx.known:
        still = replay_finding(ctx, e)
        if e.get("kind") == "fixed":
            if still:
                ctx.spec_fail("a defect recorded as fixed is back: " + e["what"], **e["witness"])
        elif still:
            ctx.known_hit(e)
    return fw.finish(ctx, search=search,
                     assumptions=["hand-written Lean model of the parser, tied by differential runs (DESIGN.md §4)",
                                  "pyparsing engine is modelled, not verified"])


def replay(ctx, path):
    doc = json.load(open(path, encoding="utf-8"))
    v = doc["violation"]
    text = v.get("input")
    if text is None:
        print("replay file names no input:", json.dumps(v)[:500])
        return 1
    print("implementation:", impl_parse_dump(text)[:2000])
    print("model        :", model_parse_dump(text)[:2000])
    return 0
