"""C05 — MATLAB call-site ids and the MEX dispatch table always agree.

THEOREMS  lean/WrapModel/Props/C05.lean (id allocator + mexCases/routines of Model/Matlab)
TIE       byte-exact .m files and <module>_wrapper.cpp vs the model
ORACLE    DispatchOK evaluated directly on the implementation's files: ids in .m files, `case` table, routine
          definitions (contiguous ids, one case per id, one definition per routine, one case per routine, role agreement)
"""
import framework as fw
import projections as pj
from props import _matlab_common as mc
from common import impl_matlab

PROP = "C05"
THEOREM_MODULES = ["WrapModel.Props.C05"]


def project(files):
    s, c, r = pj.matlab_dispatch_facts(files, "mymod")
    return [sorted(s), c, r]


def direct(files, r):
    p = pj.dispatch_problems(files, "mymod")
    return p[0] if p else None


def main(ctx):
    search = mc.run(ctx, THEOREM_MODULES, project, direct,
                    "call-site ids / case table / routine names differ from the proved-correct ones",
                    "dispatch table is inconsistent", cfg_kw=dict(matlab_safe=True, typedef_same_ns=True), n=(160, 4000),
                    extra_streams=[
                        # same class names in different namespaces, mostly virtual (id arithmetic of virtual classes)
                        (dict(class_pool=["Shape", "Node", "Base"], p_virtual=0.75, p_suffix=0.0, max_decls=4, max_depth=2,
                              extra_kinds=['cls', 'cls', 'ns']), 0.4),
                        # many free functions with non-adjacent overloads, in nested namespaces
                        (dict(extra_kinds=['func'] * 8, max_decls=7, max_members=2), 0.4)])
    for e in ctx.known:
        w = e["witness"]
        st, out = impl_matlab([w["input"]], "mymod", [], False)
        still = st == "ok" and bool(pj.dispatch_problems(out, "mymod")) if "bad_fragment" not in w else \
            (st == "ok" and w["bad_fragment"] in out.get("mymod_wrapper.cpp", ""))
        if e.get("kind") == "fixed":
            if still:
                ctx.spec_fail("a defect recorded as fixed is back: " + e["what"], **w)
        elif still:
            ctx.known_hit(e)
    return fw.finish(ctx, search=search, assumptions=["hand-written model of matlab_wrapper/wrapper.py, tied byte-exactly on generated inputs"])


def replay(ctx, path):
    return mc.replay(ctx, path)
