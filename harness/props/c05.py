"""C05 — MATLAB call-site ids and the MEX dispatch table always agree.

THEOREMS  lean/WrapModel/Props/C05.lean (id allocator + mexCases/routines of Model/Matlab)
TIE       byte-exact .m files and <module>_wrapper.cpp vs the model
ORACLE    DispatchOK evaluated directly on the implementation's files: ids in .m files, `case` table, routine
          definitions (contiguous ids, one case per id, one definition per routine, one case per routine, role agreement)
"""
import framework as fw
import projections as pj
from props import _matlab_common as mc
from common import impl_matlab

PROP = "C05"
THEOREM_MODULES = ["WrapModel.Props.C05"]


def project(files):
    s, c, r = pj.matlab_dispatch_facts(files, "mymod")
    return [sorted(s), c, r]


def direct(files, r):
    p = pj.dispatch_problems(files, "mymod")
    return p[0] if p else None


def reuse_case(idx, payload):
    """one MatlabWrapper object used for a second module whose names are disjoint from the first one's: the second toolbox
    (which at HEAD also contains the first module's entities — the object accumulates) must still be dispatch-consistent"""
    import os
    import shutil
    import tempfile
    import streams
    from common import ensure_matlab_tpl, classify_exc
    ensure_matlab_tpl()
    from gtwrap.matlab_wrapper import MatlabWrapper
    seed, _ = payload
    kw = dict(matlab_safe=True, typedef_same_ns=True, p_virtual=0.6)
    _, _, t1 = streams.gen_coherent(seed + 11, idx, dict(kw, class_pool=["Aa", "Bb", "Cc", "Dd"], ns_pool=["n1", "n2"], mnames=["f1", "g1", "h1"]), style='space')
    _, _, t2 = streams.gen_coherent(seed + 12, idx, dict(kw, class_pool=["Ee", "Ff", "Gg", "Hh"], ns_pool=["m1", "m2"], mnames=["f2", "g2", "h2"]), style='space')
    res = dict(idx=idx, text=t2, first=t1, bad=None, ran=False)
    d = tempfile.mkdtemp(prefix="verif_c05r_")
    try:
        w = MatlabWrapper(module_name="mymod", ignore_classes=[], use_boost_serialization=False)
        outs = []
        for k, t in enumerate((t1, t2)):
            p = os.path.join(d, "s%d.i" % k)
            open(p, "w", encoding="utf-8").write(t)
            o = os.path.join(d, "o%d" % k)
            os.makedirs(o)
            try:
                w.wrap([p], path=o)
            except Exception as e:  # noqa
                res["err"] = classify_exc(e)
                return res
            outs.append(o)
        files = {}
        for root, _, fs in os.walk(outs[1]):
            for fn in fs:
                files[os.path.relpath(os.path.join(root, fn), outs[1])] = open(os.path.join(root, fn), encoding="utf-8").read()
        res["ran"] = True
        p = pj.dispatch_problems(files, "mymod")
        if p:
            res["bad"] = p[0]
    finally:
        shutil.rmtree(d, ignore_errors=True)
    return res


def multifile_texts(seed, idx, extra_kinds=('cls', 'cls', 'ns')):
    import random
    import streams
    rng = random.Random(seed * 1000003 + idx + 424242)
    kw = dict(matlab_safe=True, typedef_same_ns=True, p_virtual=0.4, class_pool=["Pose", "Node"], p_suffix=0.0,
              extra_kinds=list(extra_kinds), max_decls=3)
    pools = [["geometry", "sensors"], ["nav", "sensors2"], ["lin", "geo2"]]
    texts = []
    for k in range(rng.randint(2, 3)):
        _, _, t = streams.gen_coherent(seed + 31 + k, idx, dict(kw, ns_pool=pools[k], mnames=["f%d" % k, "g%d" % k, "h%d" % k]), style='space')
        # every file keeps its declarations in a namespace of its own, so that equal simple names never denote the same entity
        texts.append("namespace %s {\n%s\n}\n" % (["alpha", "beta", "gamma"][k], t.rstrip()))
    return texts


def multifile_case(idx, payload):
    """a toolbox generated from SEVERAL interface files (each with its own namespaces; class names repeat across files in
    different namespaces): the dispatch table must be consistent for the union"""
    seed, _ = payload
    texts = multifile_texts(seed, idx)
    res = dict(idx=idx, text="\x1e".join(texts), bad=None, ran=False)
    st, out = impl_matlab(texts, "mymod", [], False)
    if st != "ok":
        # the files live in disjoint namespaces: if each of them is accepted alone, the list must be accepted too
        if all(impl_matlab([t], "mymod", [], False)[0] == "ok" for t in texts):
            res["ran"] = True
            res["bad"] = "every file is accepted alone but the list of files is rejected (%s)" % out
        return res
    res["ran"] = True
    p = pj.dispatch_problems(out, "mymod")
    if p:
        res["bad"] = p[0]
        return res
    # every call site lives in a .m file: the toolbox of the list has exactly the .m files of the single-file toolboxes
    singles = [impl_matlab([t], "mymod", [], False) for t in texts]
    if all(s_[0] == "ok" for s_ in singles):
        want = set()
        for s_ in singles:
            want |= {k for k in s_[1] if k.endswith(".m")}
        got = {k for k in out if k.endswith(".m")}
        if got != want:
            res["bad"] = "the .m files of the toolbox are not those of the single files: missing %s, unexpected %s" % (
                sorted(want - got)[:4], sorted(got - want)[:4])
    return res


def shared_dir_case(idx, payload):
    """TWO modules (different module names, disjoint entity names, one fresh MatlabWrapper each) generated one after the other
    into ONE toolbox directory — how a project with several wrapped libraries is installed: afterwards each gateway must
    still be dispatch-consistent with the .m files of the directory (no case left without a call site), and the directory
    must hold exactly the files of the two separately generated toolboxes"""
    import os
    import shutil
    import tempfile
    import streams
    from common import ensure_matlab_tpl, classify_exc
    ensure_matlab_tpl()
    from gtwrap.matlab_wrapper import MatlabWrapper
    seed, _ = payload
    kw = dict(matlab_safe=True, typedef_same_ns=True, p_virtual=0.5)
    _, _, t1 = streams.gen_coherent(seed + 51, idx, dict(kw, class_pool=["Aa", "Bb", "Cc", "Dd"], ns_pool=["n1", "n2"], mnames=["f1", "g1", "h1"]), style='space')
    _, _, t2 = streams.gen_coherent(seed + 52, idx, dict(kw, class_pool=["Ee", "Ff", "Gg", "Hh"], ns_pool=["m1", "m2"], mnames=["f2", "g2", "h2"]), style='space')
    mods = [("firstmod", t1), ("secondmod", t2)]
    res = dict(idx=idx, text=t1 + "\x1e" + t2, bad=None, ran=False)
    singles = [impl_matlab([t], m, [], False) for m, t in mods]
    if any(s_[0] != "ok" for s_ in singles):
        return res
    if set(singles[0][1]) & set(singles[1][1]):
        return res          # the generator gave both modules an entity of the same name: not the situation studied here
    d = tempfile.mkdtemp(prefix="verif_c05s_")
    try:
        o = os.path.join(d, "toolbox")
        os.makedirs(o)
        for k, (m, t) in enumerate(mods):
            p = os.path.join(d, "s%d.i" % k)
            open(p, "w", encoding="utf-8").write(t)
            try:
                MatlabWrapper(module_name=m, ignore_classes=[], use_boost_serialization=False).wrap([p], path=o)
            except Exception as e:  # noqa
                res["ran"] = True
                res["bad"] = "module %s is accepted alone but rejected when the toolbox directory already holds another module (%s)" % (m, classify_exc(e))
                return res
        files = {}
        for root, _, fs in os.walk(o):
            for fn in fs:
                files[os.path.relpath(os.path.join(root, fn), o)] = open(os.path.join(root, fn), encoding="utf-8").read()
        res["ran"] = True
        for m, _ in mods:
            p = pj.dispatch_problems(files, m)
            if p:
                res["bad"] = "module %s: %s" % (m, p[0])
                return res
        want = dict(singles[0][1])
        want.update(singles[1][1])
        if files != want:
            miss = sorted(set(want) - set(files))
            extra = sorted(set(files) - set(want))
            diff = sorted(k for k in set(want) & set(files) if want[k] != files[k])
            res["bad"] = "the shared toolbox is not the union of the two toolboxes: missing %s, unexpected %s, different %s" % (miss[:4], extra[:4], diff[:4])
    finally:
        shutil.rmtree(d, ignore_errors=True)
    return res


def shared_dir_stream(ctx, n, off=0, collect=True):
    first = None
    for r in fw.run_cases(shared_dir_case, [(ctx.seed + off, None)] * n):
        if "crash" in r:
            raise RuntimeError(r["crash"])
        if collect:
            ctx.case("shareddir" + r["text"], nontrivial=r["ran"], sample=None)
            ctx.count("shared_dir_toolboxes" if r["ran"] else "shared_dir_skipped")
        if r["bad"]:
            v = dict(what="two modules generated into one toolbox directory: " + r["bad"], modules=r["text"].split("\x1e"))
            first = first or v
            if collect:
                ctx.spec_fail(v["what"], modules=v["modules"])
        elif collect and r["ran"]:
            ctx.traces_validated += 1
    return first


def script_case(idx, payload):
    """the toolbox written by scripts/matlab_wrap.py for a LIST of interface files (`--src "a.i;b.i;c.i"`, as MatlabWrap.cmake
    calls it): ids, cases and routines of the one gateway it leaves behind agree with all the .m files"""
    import os
    import shutil
    import subprocess
    import sys
    import tempfile
    from common import REPO
    seed, _ = payload
    texts = multifile_texts(seed + 13, idx)
    res = dict(idx=idx, text="\x1e".join(texts), bad=None, ran=False)
    if impl_matlab(texts, "mymod", [], False)[0] != "ok":
        return res
    d = tempfile.mkdtemp(prefix="verif_c05x_")
    try:
        names = []
        for k, t in enumerate(texts):
            names.append("part%d.i" % k)
            open(os.path.join(d, names[-1]), "w", encoding="utf-8").write(t)
        r = subprocess.run([sys.executable, os.path.join(REPO, "scripts", "matlab_wrap.py"), "--src", ";".join(names), "--module_name", "mymod", "--out", "tb"],
                           cwd=d, capture_output=True, text=True, timeout=180, env=dict(os.environ, PYTHONPATH=REPO))
        res["ran"] = True
        if r.returncode != 0:
            res["bad"] = "the API accepts the list of files, the script fails: " + r.stderr[-200:]
            return res
        files = {}
        for root, _, fs in os.walk(os.path.join(d, "tb")):
            for fn in fs:
                files[os.path.relpath(os.path.join(root, fn), os.path.join(d, "tb"))] = open(os.path.join(root, fn), encoding="utf-8").read()
        p = pj.dispatch_problems(files, "mymod")
        if p:
            res["bad"] = p[0]
    finally:
        shutil.rmtree(d, ignore_errors=True)
    return res


def typedef_ns_case(idx, payload):
    """typedef instantiations written in OTHER namespaces than their template (nested namespaces after it), the same new
    name in several of them: every instantiation keeps its own classdef file, ids, cases and routines"""
    import random
    seed, _ = payload
    rng = random.Random(seed * 1000003 + idx + 929292)
    tname = rng.choice(["Cam", "Box", "Filter"])
    virt = "virtual " if rng.random() < 0.5 else ""
    mem = ["%s();" % tname] + rng.sample(["%s(int n);" % tname, "C cal() const;", "void set(const C& c);", "static This Make(int seed);", "double error(double tol = 1e-9) const;", "int level;"],
                                        rng.randint(1, 4))
    subs = rng.sample(["mono", "stereo", "wide"], rng.randint(2, 3))
    alias = rng.choice(["Camera", "Model"])
    same = rng.random() < 0.7
    args = ["double", "int", "geometry::Cal"]
    blocks = []
    for k, sn in enumerate(subs):
        extra = rng.choice(["", "class Rig%d { Rig%d(); void add(int n); };" % (k, k), "double span%d(double x);" % k])
        first = rng.random() < 0.7
        td = "typedef geometry::%s<%s> %s;" % (tname, args[k % 3], alias if same else alias + str(k))
        blocks.append("namespace %s { %s }" % (sn, (td + " " + extra) if first else (extra + " " + td)))
    text = "namespace geometry {\nclass Cal { Cal(); };\ntemplate<C>\n%sclass %s { %s };\n%s\n}\n" % (virt, tname, " ".join(mem), "\n".join(blocks))
    res = dict(idx=idx, text=text, bad=None, ran=False)
    st, out = impl_matlab([text], "mymod", [], False)
    if st != "ok":
        res["ran"] = True
        res["bad"] = "typedef instantiations in nested namespaces are rejected (%s)" % out
        return res
    res["ran"] = True
    p = pj.dispatch_problems(out, "mymod")
    if p:
        res["bad"] = p[0]
        return res
    want = {"+geometry/+%s/%s.m" % (sn, alias if same else alias + str(k)) for k, sn in enumerate(subs)}
    missing = sorted(want - set(out))
    if missing:
        res["bad"] = "classdef file(s) %s of typedef instantiations are missing; files: %s" % (missing, sorted(k for k in out if k.endswith(".m"))[:8])
    return res


def regen_case(idx, payload):
    """a toolbox REGENERATED into the directory of an earlier revision of the same module (one method added to / removed from an
    early class, so every later id shifts by one while most files keep their length): the directory then holds the toolbox
    of the new revision — same bytes as generating it into a fresh directory — and its dispatch table is consistent"""
    import copy
    import os
    import random
    import shutil
    import tempfile
    import gen
    import streams
    from common import ensure_matlab_tpl
    ensure_matlab_tpl()
    from gtwrap.matlab_wrapper import MatlabWrapper
    seed, _ = payload
    rng = random.Random(seed * 1000003 + idx + 939393)
    g = gen.Gen(rng, gen.Cfg(max_decls=5, max_members=4, max_depth=1, matlab_safe=True, typedef_same_ns=True, p_template=0.0, p_virtual=0.3,
                             extra_kinds=['cls', 'cls', 'cls', 'func'], rich_defaults=False))
    m = gen.gen_module_inst(g)
    classes = [d.cls for _, content in gen.walk_namespaces(m) for d in content if d.kind == 'cls']
    res = dict(idx=idx, text="", bad=None, ran=False)
    if len(classes) < 2:
        return res
    m2 = copy.deepcopy(m)
    c2 = [d.cls for _, content in gen.walk_namespaces(m2) for d in content if d.kind == 'cls'][0]
    c2.members.append(gen.Member('method', ret=gen.Ret(gen.Ty([], "double", None, False, '', True)), name="addedq9", args=[], const=True))
    t1, t2 = gen.layout(rng, gen.lexemes(m), 'space'), gen.layout(rng, gen.lexemes(m2), 'space')
    if rng.random() < 0.5:
        t1, t2 = t2, t1          # the new revision is the SHORTER one
    res["text"] = t1 + "\x1e" + t2
    fresh = impl_matlab([t2], "mymod", [], False)
    if fresh[0] != "ok" or impl_matlab([t1], "mymod", [], False)[0] != "ok":
        return res
    d = tempfile.mkdtemp(prefix="verif_c05g_")
    try:
        out = os.path.join(d, "tb")
        os.makedirs(out)
        for k, t in enumerate((t1, t2)):
            p = os.path.join(d, "rev%d.i" % k)
            open(p, "w", encoding="utf-8").write(t)
            MatlabWrapper(module_name="mymod", ignore_classes=[], use_boost_serialization=False).wrap([p], path=out)
        files = {}
        for root, _, fs in os.walk(out):
            for fn in fs:
                files[os.path.relpath(os.path.join(root, fn), out)] = open(os.path.join(root, fn), encoding="utf-8", newline="").read()
        res["ran"] = True
        stale = sorted(k for k in fresh[1] if files.get(k) != fresh[1][k])
        if stale:
            k = stale[0]
            res["bad"] = "after regenerating into the directory of the earlier revision, %s is not the file of the new revision (%s)" % (
                k, streams.first_diff(fresh[1][k], files.get(k, "<missing>")))
            return res
        p = pj.dispatch_problems({k: v for k, v in files.items() if k in fresh[1]}, "mymod")
        if p:
            res["bad"] = p[0]
    finally:
        shutil.rmtree(d, ignore_errors=True)
    return res


def extra_stream(ctx, fn, tag, what, n, off=0, collect=True):
    first = None
    for r in fw.run_cases(fn, [(ctx.seed + off, None)] * n):
        if "crash" in r:
            raise RuntimeError(r["crash"])
        if collect:
            ctx.case(tag + r["text"], nontrivial=r["ran"], sample=None)
            ctx.count(tag + ("_toolboxes" if r["ran"] else "_skipped"))
        if r["bad"]:
            v = dict(what=what + r["bad"], files=r["text"].split("\x1e"))
            first = first or v
            if collect:
                ctx.spec_fail(v["what"], files=v["files"])
        elif collect and r["ran"]:
            ctx.traces_validated += 1
    return first


def multifile_stream(ctx, n, off=0, collect=True):
    first = None
    for r in fw.run_cases(multifile_case, [(ctx.seed + off, None)] * n):
        if "crash" in r:
            raise RuntimeError(r["crash"])
        if collect:
            ctx.case("multifile" + r["text"], nontrivial=r["ran"], sample=None)
            ctx.count("multifile_toolboxes" if r["ran"] else "multifile_rejected")
        if r["bad"]:
            v = dict(what="dispatch table of a toolbox generated from several interface files is inconsistent: " + r["bad"],
                     files=r["text"].split("\x1e"))
            first = first or v
            if collect:
                ctx.spec_fail(v["what"], files=v["files"])
        elif collect and r["ran"]:
            ctx.traces_validated += 1
    return first


def reuse_stream(ctx, n, off=0, collect=True):
    first = None
    for r in fw.run_cases(reuse_case, [(ctx.seed + off, None)] * n):
        if "crash" in r:
            raise RuntimeError(r["crash"])
        if collect:
            ctx.case("reuse" + r["first"] + r["text"], nontrivial=r["ran"], sample=None)
            ctx.count("reuse_histories" if r["ran"] else "reuse_first_or_second_module_rejected")
        if r["bad"]:
            v = dict(what="dispatch table of a toolbox generated by a re-used wrapper object is inconsistent: " + r["bad"],
                     first_module=r["first"], input=r["text"])
            first = first or v
            if collect:
                ctx.spec_fail(v["what"], first_module=r["first"], input=r["text"])
        elif collect and r["ran"]:
            ctx.traces_validated += 1
    return first


def main(ctx):
    search = mc.run(ctx, THEOREM_MODULES, project, direct,
                    "call-site ids / case table / routine names differ from the proved-correct ones",
                    "dispatch table is inconsistent", cfg_kw=dict(matlab_safe=True, typedef_same_ns=True), n=(160, 4000),
                    extra_streams=[
                        # same class names in different namespaces, mostly virtual (id arithmetic of virtual classes)
                        (dict(class_pool=["Shape", "Node", "Base"], p_virtual=0.75, p_suffix=0.0, max_decls=4, max_depth=2,
                              extra_kinds=['cls', 'cls', 'ns']), 0.4),
                        # many free functions with non-adjacent overloads, in nested namespaces
                        (dict(extra_kinds=['func'] * 8, max_decls=7, max_members=2), 0.4),
                        # ignore-list entries naming namespaced classes: ids must stay contiguous and every case keep its call site
                        (dict(matlab_ignore=True, p_template=0.5, unique_ns=True, extra_kinds=['ns', 'ns', 'cls']), 0.3),
                        # overloaded static methods (same name, several signatures / trailing defaults)
                        (dict(mnames=["Create", "Count", "f"], extra_member_kinds=['static', 'static'], max_members=6, p_default=0.6), 0.3)])
    reuse_stream(ctx, ctx.scale(50, 600))
    multifile_stream(ctx, ctx.scale(60, 800))
    shared_dir_stream(ctx, ctx.scale(40, 500))
    extra_stream(ctx, script_case, "script", "toolbox written by scripts/matlab_wrap.py for a list of files: ", ctx.scale(16, 200))
    extra_stream(ctx, typedef_ns_case, "typedef_ns", "typedef instantiations in nested namespaces: ", ctx.scale(40, 500))
    extra_stream(ctx, regen_case, "regen", "toolbox regenerated into the directory of an earlier revision: ", ctx.scale(40, 400))
    for e in ctx.known:
        w = e["witness"]
        st, out = impl_matlab([w["input"]], "mymod", [], False)
        still = st == "ok" and bool(pj.dispatch_problems(out, "mymod")) if "bad_fragment" not in w else \
            (st == "ok" and w["bad_fragment"] in out.get("mymod_wrapper.cpp", ""))
        if e.get("kind") == "fixed":
            if still:
                ctx.spec_fail("a defect recorded as fixed is back: " + e["what"], **w)
        elif still:
            ctx.known_hit(e)
    return fw.finish(ctx, search=lambda c: search(c) or reuse_stream(c, c.scale(100, 600), off=3, collect=False) or multifile_stream(c, c.scale(60, 400), off=5, collect=False) or shared_dir_stream(c, c.scale(40, 300), off=7, collect=False) or extra_stream(c, script_case, 'script', 'toolbox written by scripts/matlab_wrap.py for a list of files: ', c.scale(16, 100), off=9, collect=False) or extra_stream(c, typedef_ns_case, 'typedef_ns', 'typedef instantiations in nested namespaces: ', c.scale(40, 300), off=9, collect=False) or extra_stream(c, regen_case, 'regen', 'toolbox regenerated into the directory of an earlier revision: ', c.scale(40, 300), off=9, collect=False), assumptions=["hand-written model of matlab_wrapper/wrapper.py, tied byte-exactly on generated inputs"])


def replay(ctx, path):
    return mc.replay(ctx, path)
