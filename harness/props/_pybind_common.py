"""shared runner for the properties decided on the pybind11 generator (C03, C04, C09)"""
import json

import framework as fw
import streams
from common import impl_pybind


def make_case(project, direct):
    def case(idx, payload):
        r = streams.pybind_case(idx, payload)
        out = dict(idx=r["idx"], text=r["text"], opts=r["opts"], tpl_kind=r["tpl_kind"], stats=r["stats"], eq=r["eq"],
                   err=None if r["impl"][0] == "ok" else r["impl"][1], proj_eq=True, direct=None)
        if r["impl"][0] == "ok":
            d = direct(r["impl"][1], r)
            if d:
                out["direct"] = d
        if not r["eq"]:
            a, b = r["impl"], r["model"]
            if a[0] == "ok" and b[0] == "ok":
                out["diff"] = streams.first_diff(b[1], a[1])
                pa, pb = project(a[1]), project(b[1])
                out["proj_eq"] = pa == pb
                if pa != pb:
                    out["proj_diff"] = first_list_diff(pb, pa)
            else:
                out["diff"] = dict(expected=str(b)[:300], got=str(a)[:300])
                out["proj_eq"] = False
                out["proj_diff"] = out["diff"]
        return out
    return case


def first_list_diff(exp, got):
    if isinstance(exp, str):
        return streams.first_diff(exp, got)
    for i, (x, y) in enumerate(zip(exp, got)):
        if x != y:
            return dict(index=i, expected=str(x)[:300], got=str(y)[:300])
    return dict(index=min(len(exp), len(got)), expected="(%d items)" % len(exp), got="(%d items)" % len(got))


def run(ctx, theorem_modules, project, direct, what_proj, what_direct, cfg_kw=None, n=(220, 5000), rule="", assumptions=None,
        extra_streams=None):
    fw.translate_and_build(ctx, ["WrapModel", "wrapmodel"])
    fw.audit(ctx, theorem_modules)
    case = make_case(project, direct)
    state = {}

    def consume(res, collect=True):
        first = None
        for r in res:
            if "crash" in r:
                raise RuntimeError(r["crash"])
            if collect:
                ctx.case(r["text"] + json.dumps(r["opts"]), sample=dict(options=r["opts"], template=r["tpl_kind"], text=r["text"][:400]))
                streams.add_stats(ctx, r["stats"])
                ctx.count("top_depth_%d" % (len(r["opts"]["top"]) - 1))
                ctx.count("boost_%s" % r["opts"]["boost"])
                ctx.count("submodules_" + ("none" if r["opts"]["subs"] is None else str(len(r["opts"]["subs"]))))
                if r["err"]:
                    ctx.count("impl_" + r["err"])
            viol = None
            if r["direct"]:
                viol = dict(what=what_direct + ": " + r["direct"], input=r["text"], options=r["opts"])
            elif not r["eq"] and not r["proj_eq"]:
                viol = dict(what=what_proj, input=r["text"], options=r["opts"], **r["proj_diff"])
            if viol:
                first = first or viol
                if collect:
                    ctx.spec_fail(viol.pop("what"), **viol)
            elif not r["eq"]:
                if collect:
                    ctx.disagree("generated pybind text differs from the model (property-relevant projection equal)",
                                 input=r["text"], options=r["opts"], **r["diff"])
            elif collect:
                ctx.traces_validated += 1
        return first

    consume(fw.run_cases(case, [(ctx.seed, cfg_kw)] * ctx.scale(*n)))
    for extra_kw, frac in (extra_streams or []):
        kw = dict(cfg_kw or {})
        kw.update(extra_kw)
        consume(fw.run_cases(case, [(ctx.seed + 2003, kw)] * max(8, int(ctx.scale(*n) * frac))))

    def search(c):
        return consume(fw.run_cases(case, [(ctx.seed + 31337, cfg_kw)] * ctx.scale(300, 2000)), collect=False)

    state["search"] = search
    ctx.extra["rule"] = rule or ("coherent modules x random options (top namespace at any existing depth, serialization flag, "
                                 "main/sub-module mode, two templates); distinct = distinct (text, options)")
    return search


def replay(ctx, path, project):
    v = json.load(open(path))["violation"]
    if "input" in v and "options" in v:
        o = v["options"]
        st, out = impl_pybind(v["input"], streams.TPL_MIN, o.get("module_name", "m"), o["top"], o["boost"], o.get("ignore", []), o["subs"])
        print(st)
        print(out[:3000])
    return 0
