"""C13 — instantiations are independent of each other and of parameter spelling.

THEOREMS  lean/WrapModel/Props/C13.lean
ORACLE    metamorphic runs on the implementation: (a) the instantiation for one argument tuple from the full lists
          equals the one from singleton lists; (b) reversing the lists permutes the results only; (c) the original
          template declarations are unchanged by instantiation and a fresh parse gives the same result; (d) renaming
          a template parameter to an unused identifier changes nothing.  TIE: all runs are also compared with the model.
"""
import copy
import json
import random

import framework as fw
import streams

PROP = "C13"
THEOREM_MODULES = ["WrapModel.Props.C13"]


def class_blocks(cpp, orig):
    """blocks of the icpp dump that belong to instantiations of class template `orig` (not typedef'd ones)"""
    out, cur = [], None
    for l in cpp.split("\n"):
        if l.startswith("  "):
            if cur is not None:
                cur.append(l)
            continue
        cur = None
        if l.startswith("C "):
            f = l.split(" | ")
            if len(f) > 1 and (f[1].endswith(orig) or ("::" + orig + "<") in ("::" + f[1])) and "Td" not in f[0]:
                cur = [l]
                out.append(cur)
    return ["\n".join(b) for b in out]


def find_templates(m, path=()):
    import gen
    for p, content in gen.walk_namespaces(m):
        for i, d in enumerate(content):
            if d.kind == 'cls' and d.cls.tmpl and all(tp.insts for tp in d.cls.tmpl):
                yield content, i, d.cls


def rename_ty(t, old, new):
    if t is None:
        return
    if t.params is None:
        if t.ns == [] and t.name == old:
            t.name = new
    if t.ns and t.ns[0] == old:
        t.ns = [new] + t.ns[1:]
    for p in (t.params or []):
        rename_ty(p, old, new)


def rename_param(cls, old, new):
    for tp in cls.tmpl:
        if tp.name == old:
            tp.name = new
    if cls.parent is not None:
        rename_ty(cls.parent, old, new)
    for mem in cls.members:
        if mem.ret is not None:
            rename_ty(mem.ret.t1, old, new)
            rename_ty(mem.ret.t2, old, new)
        for a in mem.args:
            rename_ty(a.ty, old, new)
        if mem.var is not None:
            rename_ty(mem.var.ty, old, new)


def render(m):
    import gen
    return gen.layout(random.Random(1), gen.lexemes(m), 'space')


def originals_snapshot(text):
    """dump of every original class declaration before and after instantiate_namespace on the same tree"""
    import pydump
    from gtwrap.interface_parser import Module
    import gtwrap.interface_parser as ip
    import gtwrap.template_instantiator as ti
    tree = Module.parseString(text)
    originals = []

    def walk(ns):
        for d in ns.content:
            if isinstance(d, ip.Namespace):
                walk(d)
            elif isinstance(d, ip.Class):
                originals.append(d)
    walk(tree)
    # parent links are not part of the declaration's content (dunder methods and enums are shared between a template
    # and its instantiations by design and get re-parented): compare everything else
    saved = pydump.path
    pydump.path = lambda o: 'P'
    try:
        before = [pydump.class_d(c) for c in originals]
        ti.instantiate_namespace(tree)
        after = [pydump.class_d(c) for c in originals]
    finally:
        pydump.path = saved
    return before == after, before, after


def case(idx, payload):
    import gen
    seed, cfg_kw = payload
    rng = random.Random(seed * 1000003 + idx)
    kw = dict(max_decls=4, max_members=5, max_depth=2, c02_safe=True, p_template=0.7)
    kw.update(cfg_kw or {})
    g = gen.Gen(rng, gen.Cfg(**kw))
    m = gen.gen_module_inst(g)
    text = render(m)
    res = dict(idx=idx, text=text, bad=None, kinds=[])
    full = streams.impl_inst(text, "icpp")
    model = streams.model_call("icpp", text)
    if full.startswith("ERR"):
        res["kinds"].append("impl_error")
        if model != full:
            res["bad"] = dict(kind="model", what="instantiation fails (%s) where the model succeeds" % full[:60], input=text)
        return res
    if model != full:
        # keep going: the metamorphic oracles below decide whether the property itself fails on this input
        res["bad"] = dict(kind="model", what="model instantiation != implementation", input=text, **streams.first_diff(full, model))
    b = metamorphic(rng, m, text, full, res)
    if b:
        res["bad"] = b
    return res


def member_lines(cpp):
    return [l for l in cpp.split("\n") if l.startswith("  ")]


def is_subsequence(a, b):
    it = iter(b)
    return all(any(x == y for y in it) for x in a)


def metamorphic(rng, m, text, full, res):
    import gen
    # (e) deleting one templated member of a class leaves the instantiations of all other members as they were
    cands = []
    for p, content in gen.walk_namespaces(m):
        for d in content:
            if d.kind == 'cls':
                idxs = [j for j, mb in enumerate(d.cls.members) if mb.tmpl and mb.kind in ('ctor', 'method', 'static')]
                if idxs and len(d.cls.members) >= 2:
                    cands.append((p, d.cls.name, idxs))
    trials = [(p, cname, j) for p, cname, idxs in cands for j in idxs]
    rng.shuffle(trials)
    for p, cname, j in trials[:6]:
        m4 = copy.deepcopy(m)
        for p4, content4 in gen.walk_namespaces(m4):
            if p4 == p:
                for d4 in content4:
                    if d4.kind == 'cls' and d4.cls.name == cname:
                        del d4.cls.members[j]
                        break
                break
        t4 = render(m4)
        less = streams.impl_inst(t4, "icpp")
        res["kinds"].append("sibling_removed")
        if less.startswith("ERR") or not is_subsequence(member_lines(less), member_lines(full)):
            d = {}
            if not less.startswith("ERR"):
                fl = member_lines(full)
                d = dict(changed_line=next((l for l in member_lines(less) if l not in fl), ""))
            return dict(kind="spec", what="removing one templated member of class %s changes the instantiation of another member" % cname,
                        input=text, input_without_member=t4, **d)
    # (c) originals untouched, fresh parse repeatable
    same, before, after = originals_snapshot(text)
    res["kinds"].append("snapshot")
    if not same:
        i = next(k for k in range(len(before)) if before[k] != after[k])
        return dict(kind="spec", what="instantiation modified the original template declaration", input=text,
                          **streams.first_diff(before[i], after[i]))
    if streams.impl_inst(text, "icpp") != full:
        return dict(kind="spec", what="a second fresh parse + instantiation gives a different result", input=text)
    temps = list(find_templates(m))
    if not temps:
        return None
    content, i, cls = rng.choice(temps)
    blocks_full = class_blocks(full, cls.name)
    sizes = [len(tp.insts) for tp in cls.tmpl]
    n = 1
    for s in sizes:
        n *= s
    if len(blocks_full) < n:
        return dict(kind="spec", what="class template %s: %d argument tuples requested, only %d instantiations exist" % (cls.name, n, len(blocks_full)),
                    input=text)
    if len(blocks_full) != n:
        return None    # same-named declarations elsewhere: ambiguous block attribution, skip
    # (a) singleton lists
    k = rng.randrange(n)
    digits, r = [], k
    for s in reversed(sizes):
        digits.append(r % s)
        r //= s
    digits.reverse()
    m1 = copy.deepcopy(m)
    cls1 = next(c for _, _, c in find_templates(m1) if c.name == cls.name)
    for tp, dgt in zip(cls1.tmpl, digits):
        tp.insts = [tp.insts[dgt]]
    t1 = render(m1)
    single = streams.impl_inst(t1, "icpp")
    b1 = class_blocks(single, cls.name)
    res["kinds"].append("singleton")
    if len(b1) != 1 or b1[0] != blocks_full[k]:
        return dict(kind="spec", what="the instantiation for one argument tuple depends on the other requested instantiations",
                          input=text, input_singleton=t1, tuple_index=k,
                          **streams.first_diff(blocks_full[k], b1[0] if b1 else "<none>"))
    # (a') the same at the level of the generated Python module: every class and enum statement generated when the tuple is
    # requested alone is generated, verbatim, when it is requested together with the others
    from props import c15
    from common import impl_pybind
    pf, p1 = impl_pybind(text, streams.TPL_MIN, "m", [''], False, [], None), impl_pybind(t1, streams.TPL_MIN, "m", [''], False, [], None)
    res["kinds"].append("singleton_pybind")
    if pf[0] == "ok" and p1[0] == "ok":
        fullset = set(c15.class_blocks(pf[1])) | set(c15.class_blocks(pf[1], r'py::enum_<'))
        for blk in c15.class_blocks(p1[1]) + c15.class_blocks(p1[1], r'py::enum_<'):
            if blk not in fullset:
                return dict(kind="spec", what="the binding of one instantiation (classes, nested enums) depends on the other requested instantiations",
                            input=text, input_singleton=t1, tuple_index=k, statement=blk[:400])
    elif pf[0] != p1[0]:
        return dict(kind="spec", what="generation succeeds for one argument tuple alone but not together with the others (or vice versa)",
                    input=text, input_singleton=t1, full=str(pf)[:200], single=str(p1)[:200])
    # (b) reversed lists
    m2 = copy.deepcopy(m)
    cls2 = next(c for _, _, c in find_templates(m2) if c.name == cls.name)
    for tp in cls2.tmpl:
        tp.insts = list(reversed(tp.insts))
    t2 = render(m2)
    rev = class_blocks(streams.impl_inst(t2, "icpp"), cls.name)
    res["kinds"].append("permutation")
    if sorted(rev) != sorted(blocks_full):
        return dict(kind="spec", what="reordering the instantiation lists changes an instantiation", input=text, input_reversed=t2)
    # (d) alpha renaming
    m3 = copy.deepcopy(m)
    cls3 = next(c for _, _, c in find_templates(m3) if c.name == cls.name)
    old = rng.choice([tp.name for tp in cls3.tmpl])
    # (spellings that merely BEGIN or END with a word of the dialect are ordinary identifiers)
    new = rng.choice(["ZZQ", "Wv9", "R", "PARAM_X", "ThisT", "ArgOfThis", "TThis", "classT", "typenameT", "class_type", "typename_pose",
                      "classifier", "templateT", "constT", "enumT", "virtualT", "staticT", "operatorT", "namespaceT", "structT", "typedefT"])
    rename_param(cls3, old, new)
    t3 = render(m3)
    ren = streams.impl_inst(t3, "icpp")
    res["kinds"].append("renaming")
    if ren != full:
        return dict(kind="spec", what="renaming template parameter %s to %s changes the result" % (old, new), input=text,
                          input_renamed=t3, **streams.first_diff(full, ren))
    return None


def fwd_typedef_case(idx, payload):
    """several typedef instantiations of ONE forward-declared (foreign) template: each instantiation is what it is when it is
    requested alone, in any order"""
    seed, _ = payload
    rng = random.Random(seed * 1000003 + idx + 131313)
    args = ["gtsam::Pose2", "gtsam::Pose3", "double", "gtsam::Point3", "size_t"]
    k = rng.randint(2, 4)
    ns = rng.choice(["", "ext"])
    qual = (ns + "::" if ns else "") + "F"
    tds = []
    for i in range(k):
        a = rng.sample(args, rng.randint(1, 2))
        tds.append("typedef %s<%s> FT%d;" % (qual, ", ".join(a), i))
    head = "namespace gtsam { class Pose2 { Pose2(); }; class Pose3 { Pose3(); }; class Point3 { Point3(); }; }\n"

    def mk(lst):
        body = "class %s; %s" % (qual, " ".join(lst))
        return head + (("namespace %s { %s }" % (ns, body)) if ns else body) + "\n"

    def decls(text):
        return {l.split(" | ")[0]: l for l in streams.impl_inst(text, "icpp").split("\n") if l.strip().startswith("D ")}
    order = list(range(k))
    rng.shuffle(order)
    text = mk([tds[i] for i in order])
    res = dict(idx=idx, text=text, kinds=["fwd_typedefs"], bad=None)
    full = decls(text)
    for i in range(k):
        single = decls(mk([tds[i]]))
        for name, line in single.items():
            if full.get(name) != line:
                res["bad"] = dict(kind="spec", what="a typedef instantiation of a forward-declared template depends on the other typedefs of that template",
                                  input=text, input_singleton=mk([tds[i]]), expected=line, got=full.get(name))
                return res
    return res


def this_collision_case(idx, payload):
    """classes and instantiations whose GENERATED (unqualified) names collide — the same class name in several namespaces,
    instantiations whose arguments differ only in their namespace — with `This` in argument position: in every class the
    `This` of an argument is that very class, whatever else exists in the module and whatever was instantiated before in the
    process (two of the files are instantiated one after the other)"""
    import re
    seed, _ = payload
    rng = random.Random(seed * 1000003 + idx + 272727)
    cname = rng.choice(["Foo", "Node", "Key"])
    nss = rng.sample(["a", "b", "c", "geo::in", "nav"], rng.randint(2, 3))

    def members(nm):
        out = []
        if rng.random() < 0.8:
            out.append("%s(const This& o);" % nm)
        if rng.random() < 0.7:
            out.append("%s(int n, This* p);" % nm)
        if rng.random() < 0.8:
            out.append("bool eq(const This& t, double tol) const;")
        if rng.random() < 0.6:
            out.append("static This Make(const This& x, This y);")
        if rng.random() < 0.5:
            out.append("void take(This* p);")
        if rng.random() < 0.4:
            out.append("template<K = {int, double}> void put(const This& t, K k);")
        return " ".join(out) or "%s(const This& o);" % nm

    def ns_block(ns, body):
        return " ".join("namespace %s {" % x for x in ns.split("::")) + " " + body + " " + "}" * len(ns.split("::"))
    blocks = [ns_block(ns, "class P {}; class %s { %s };" % (cname, members(cname))) for ns in nss]
    box = "template<T = {%s}> class Box { %s T get() const; };" % (", ".join(ns + "::P" for ns in nss), members("Box"))
    texts = [b + "\n" for b in blocks] + ["\n".join(blocks) + "\n" + box + "\n"]
    rng.shuffle(texts)
    res = dict(idx=idx, text="\x1e".join(texts), kinds=["this_collision"], bad=None)
    basic = {"int", "double", "bool", "void"}
    for t in texts:
        full = streams.impl_inst(t, "icpp")
        if full.startswith("ERR"):
            res["bad"] = dict(kind="spec", what="instantiation of classes with `This` arguments fails (%s)" % full[:80], input=t, files_before=texts[:texts.index(t)])
            return res
        own = None
        for line in full.split("\n"):
            cm = re.match(r'C (\w+) \| ([^|]+?) \|', line)
            if cm:
                own = cm.group(2).strip()
                continue
            if not line.startswith("  ") or own is None:
                continue
            am = re.search(r'\(([^()]*)\)[^()]*$', line)
            for a in (am.group(1).split(",") if am and am.group(1) else []):
                ty = re.sub(r'\s+\w+$', '', a.strip())
                ty = re.sub(r'^const\s+', '', ty).rstrip("&*").strip()
                sm = re.match(r'std::shared_ptr<(.*)>$', ty)
                ty = sm.group(1) if sm else ty
                if ty in basic or (own.startswith("Box<") and ty == own[4:-1]):
                    continue
                if ty != own:
                    res["bad"] = dict(kind="spec", what="`This` in an argument of class %s stands for %s" % (own, ty), input=t,
                                      files_instantiated_before=texts[:texts.index(t)], line=line.strip())
                    return res
        model = streams.model_call("icpp", t)
        if model != full:
            res["bad"] = dict(kind="model", what="model instantiation != implementation (This collision stream)", input=t, **streams.first_diff(full, model))
            return res
    return res


def default_spelling_case(idx, payload):
    """default-value texts are opaque: an identifier inside a default that merely CONTAINS the spelling of a template
    parameter (kMaxTrackIter for T, kUnitN for U) is not a use of the parameter.  The same declarations with the
    parameter spelled differently (defaults untouched) give the same instantiations and the same bindings."""
    from common import impl_pybind
    seed, _ = payload
    rng = random.Random(seed * 1000003 + idx + 383838)
    P = rng.choice(["T", "U", "POSE", "K", "V"])
    Q = rng.choice(["ZZQ", "Wv9", "ARG0"])
    M = rng.choice(["N", "D", "X"])
    insts = rng.sample(["ns::A", "double", "ns::B", "int"], rng.randint(1, 3))
    dflt = ["kMax%srackIter" % P, "Defaults::%s_MAX" % P, "make%s()" % P, "k%sLimit" % P.lower().capitalize() + P, "ns::k%s%s" % (M, P), "%s%s::zero" % (P, P),
            "\"%s\"" % P, "'%s'" % P[0]]

    def mk(p, m):
        d = list(dflt)
        rng2 = random.Random(seed * 7 + idx)
        rng2.shuffle(d)
        return ("namespace ns { class A { A(); }; class B { B(); }; }\n"
                "template<%s = {%s}>\nclass Tracker {\n  Tracker(const %s& t, int n = %s);\n  void run(size_t iters = %s, double tol = %s) const;\n"
                "  static %s Make(int seed = %s);\n  template<%s = {int, double}>\n  void put(const %s& t, %s k = %s);\n  int limit = %s;\n};\n"
                "template<%s = {%s}>\n%s pick(const %s& x, int which = %s);\n") % (
                    p, ", ".join(insts), p, d[0], d[1], d[2], p, d[3], m, p, m, d[4], d[5], p, ", ".join(insts), p, p, d[6])
    a_text, b_text = mk(P, M), mk(Q, M + "9")
    res = dict(idx=idx, text=a_text, kinds=["default_spelling"], bad=None)
    a, b = streams.impl_inst(a_text, "icpp"), streams.impl_inst(b_text, "icpp")
    pa, pb = (impl_pybind(t, streams.TPL_MIN, "m", [''], False, [], None) for t in (a_text, b_text))
    if a != b or pa != pb:
        d = streams.first_diff(b, a) if a != b else (streams.first_diff(pb[1], pa[1]) if pa[0] == pb[0] == "ok" else dict(expected=str(pb)[:200], got=str(pa)[:200]))
        res["bad"] = dict(kind="spec", what="renaming template parameter %s to %s (default texts untouched) changes the result" % (P, Q),
                          input=a_text, input_renamed=b_text, **d)
    return res


def xml_inst_case(idx, payload):
    """with Doxygen documentation: the binding of one instantiation (docstrings included) is what it is when that
    instantiation is requested alone — the metamorphic triple of props/c15.multi_inst_case, read for this property"""
    from props import c15
    r = c15.multi_inst_case(idx, (payload[0] + 5, None))
    res = dict(idx=idx, text=r["text"], kinds=["xml_inst"], bad=None)
    b = r["bad"]
    if b and "pybind" in b["what"]:
        res["bad"] = dict(b, what="the binding of one instantiation depends on the other requested instantiations (%s)" % b["what"])
    return res


def run(ctx, n, off=0, collect=True):
    first = None
    # second half: classes with many templated members (member-level templates next to each other)
    for r in (fw.run_cases(case, [(ctx.seed + off, None)] * n + [(ctx.seed + off + 1, dict(p_template=0.3, p_member_template=0.8, max_members=7, max_decls=3))] * (n // 2))
              + fw.run_cases(fwd_typedef_case, [(ctx.seed + off, None)] * max(10, n // 8))
              + fw.run_cases(this_collision_case, [(ctx.seed + off, None)] * max(16, n // 8))
              + fw.run_cases(default_spelling_case, [(ctx.seed + off, None)] * max(16, n // 8))
              + fw.run_cases(xml_inst_case, [(ctx.seed + off, None)] * max(16, n // 8))):
        if "crash" in r:
            raise RuntimeError(r["crash"])
        if collect:
            ctx.case(r["text"], nontrivial=bool(r["kinds"]), sample=dict(text=r["text"][:400], checks=r["kinds"]))
            for k in r["kinds"]:
                ctx.count("check_" + k)
        b = r["bad"]
        if b:
            kind = b.pop("kind")
            if kind == "spec":
                first = first or dict(b)
                if collect:
                    ctx.spec_fail(b.pop("what"), **b)
            elif collect:
                ctx.disagree(b.pop("what"), **b)
        elif collect:
            ctx.traces_validated += 1
    return first


def main(ctx):
    fw.translate_and_build(ctx, ["WrapModel", "wrapmodel"])
    fw.audit(ctx, THEOREM_MODULES)
    run(ctx, ctx.scale(200, 4000))
    ctx.extra["rule"] = ("coherent modules with templated classes (all parameters with lists); per module one template is chosen and "
                         "re-run with singleton lists / reversed lists / a renamed parameter; plus snapshot of the original declarations")
    return fw.finish(ctx, search=lambda c: run(c, c.scale(300, 2000), off=999, collect=False),
                     assumptions=["alpha-renaming shares the known findings of C02 (spelling collisions in scoped names): the stream stays inside C02's guard"])


def replay(ctx, path):
    v = json.load(open(path))["violation"]
    for k in ("input", "input_singleton", "input_reversed", "input_renamed"):
        if k in v:
            print("==", k)
            print(streams.impl_inst(v[k], "icpp")[:2500])
    return 0
