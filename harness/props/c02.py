"""C02 — template instantiation is exact, capture-free substitution.

THEOREMS  lean/WrapModel/Props/C02.lean  (model Inst.instType vs spec Spec.substType)
TIE       full instantiated-tree dump of instantiate_namespace(parse(text)) == model dump
ORACLE    C++ spellings (to_cpp) of every instantiated member type vs the specification's
          (`spec-icpp` of the driver) on inputs inside the guard of the partial theorem
"""
import json

import framework as fw
import streams

PROP = "C02"
THEOREM_MODULES = ["WrapModel.Props.C02"]


def run_stream(ctx, n, cfg_kw, tag, check_spec):
    res = fw.run_cases(streams.inst_case, [(ctx.seed + (0 if check_spec else 5000) + len(tag), cfg_kw)] * n)
    for r in res:
        if "crash" in r:
            raise RuntimeError(r["crash"])
        ctx.case(r["text"], sample=dict(stream=tag, text=r["text"][:500]))
        streams.add_stats(ctx, r["stats"])
        ctx.count("stream_" + tag)
        if r["err"]:
            ctx.count("impl_" + r["err"].replace(" ", "_"))
        if not r["model_eq"]:
            ctx.disagree("model instantiation != implementation", stream=tag, input=r["text"], **r["model_diff"])
        else:
            ctx.traces_validated += 1
        if check_spec and not r["spec_eq"] and not (r["err"] or "").startswith("ERR"):
            ctx.spec_fail("an instantiated type is not the capture-free substitution of its declaration",
                          stream=tag, input=r["text"], **r["spec_diff"])
        if check_spec:
            # how many of the type-level instantiation calls of this input lie inside the region where the agreement of
            # code and specification is a THEOREM (C02_inst_eq_subst_partial / C02_scoped_param_cpp / C02_this_scope_partial)
            g = streams.model_call("c02guard", r["text"])
            for kv in g.split():
                k, _, v = kv.partition("=")
                if v.isdigit():
                    ctx.count("type_calls_" + {"exact": "inside_proved_tree_equality", "scoped": "inside_proved_cpp_equality_scoped",
                                               "thisscope": "inside_proved_this_scope", "outside": "outside_proved_region"}.get(k, k), int(v))


def search(ctx):
    res = fw.run_cases(streams.inst_case, [(ctx.seed + 77, dict(c02_safe=True, p_param_named_inst=0.4, p_template=0.5))] * ctx.scale(300, 2000))
    for r in res:
        if "crash" not in r and not r["spec_eq"] and not r["err"]:
            return dict(what="an instantiated type is not the capture-free substitution of its declaration",
                        input=r["text"], **r["spec_diff"])
    return None


def replay_finding(e):
    w = e["witness"]
    got = streams.impl_inst(w["input"], "icpp")
    return w["wrong_spelling"] in got


def main(ctx):
    fw.translate_and_build(ctx, ["WrapModel", "wrapmodel"])
    fw.audit(ctx, THEOREM_MODULES)
    run_stream(ctx, ctx.scale(220, 5000), dict(c02_safe=True, p_param_named_inst=0.4, p_template=0.5), "guarded", True)
    run_stream(ctx, ctx.scale(90, 1500), dict(c02_safe=True, p_param_named_inst=0.9, p_template=0.95, max_decls=3),
               "guarded, instantiations spelled like other parameters", True)
    run_stream(ctx, ctx.scale(90, 1500), dict(c02_safe=True, p_twin_arg=0.6, p_template=0.8, max_args=5, max_decls=3),
               "guarded, argument lists repeating a container with other inner qualifiers", True)
    run_stream(ctx, ctx.scale(120, 2500), dict(), "unguarded(quirks tied to the model only)", False)
    run_stream(ctx, ctx.scale(100, 1500), dict(c02_safe=True, p_this_args=1.0, p_template=0.6, max_decls=3, extra_kinds=['cls', 'cls']),
               "guarded, several This::X template arguments in one type", True)
    run_stream(ctx, ctx.scale(100, 1500), dict(c02_safe=True, p_scoped_deep=0.7, p_template=0.8, max_decls=3),
               "guarded, scoped uses of a parameter several levels deep (T::traits::value_type)", True)
    for e in ctx.known:
        still = replay_finding(e)
        if e.get("kind") == "fixed":
            if still:
                ctx.spec_fail("a defect recorded as fixed is back: " + e["what"], **e["witness"])
        elif still:
            ctx.known_hit(e)
    ctx.extra["rule"] = ("coherent modules from harness/gen.py (templated classes/functions/members, typedefs, This, scoped T::X, "
                         "qualifiers everywhere); stream 'guarded' stays inside the guard of C02_inst_eq_subst_partial and is checked "
                         "against the specification, stream 'unguarded' ties the model to the code on everything else")
    return fw.finish(ctx, search=search, assumptions=["hand-written model of instantiate_type & co, tied by differential runs"])


def replay(ctx, path):
    v = json.load(open(path))["violation"]
    if "input" in v:
        print("implementation:\n" + streams.impl_inst(v["input"], "icpp"))
        print("specification :\n" + streams.model_call("spec-icpp", v["input"]))
    return 0
