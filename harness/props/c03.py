"""C03 — the generated Python module exposes exactly the declared API.

THEOREMS  lean/WrapModel/Props/C03.lean (IR of Model/Pybind.lean)
TIE       byte-exact PybindWrapper.wrap_file output vs the model for random option sets
ORACLE    API facts (what is registered, under which name, on which module variable, in order) extracted from
          the implementation's text vs the same extraction from the model's text; plus a direct check that every
          module variable is created exactly once before anything is placed in it
"""
import re

import framework as fw
import projections as pj
from props import _pybind_common as pc
from common import impl_pybind
import streams

PROP = "C03"
THEOREM_MODULES = ["WrapModel.Props.C03"]


METHOD_RE = re.compile(r'\.def\("(\w+)",\[\]\([^{]*?\)\{[^;]*?self->(\w+)\s*(?:<[^;]*?>)?\(')
STATIC_RE = re.compile(r'\.def_static\("(\w+)",\[\]\([^{]*?\)\{\s*(?:return\s+)?[^;(]*?::(\w+)\s*(?:<[^;]*?>)?\(')
FUNC_RE = re.compile(r'\bm_\w*\.def\("(\w+)",\[\]\([^{]*?\)\{\s*(?:return\s+)?[^;(]*?::(\w+)\s*(?:<[^;]*?>)?\(')


def naming_ok(text):
    """the declared name IS the Python name, except that exactly the keywords of Python (`keyword.kwlist`; for free functions
    also `print`) get one trailing underscore: judged on every binding whose Python name is the C++ name it calls, with or
    without one trailing underscore (instantiation suffixes, `__repr__`, `_repr_x_`, `insert_<name>` are other rules)"""
    import keyword
    for kind, rx in (("method", METHOD_RE), ("static method", STATIC_RE), ("function", FUNC_RE)):
        for m in rx.finditer(text):
            py, cpp = m.group(1), m.group(2)
            reserved = cpp in keyword.kwlist or (kind == "function" and cpp == "print")
            if py == cpp + "_" and not reserved:
                return "the %s declared as `%s` is exposed as `%s` although `%s` is not a Python keyword" % (kind, cpp, py, cpp)
            if py == cpp and reserved:
                return "the %s declared as `%s` is exposed under that name although it is a Python keyword" % (kind, cpp)
    return None


def direct(text, r):
    return pj.module_vars_ok(text) or naming_ok(text)


def replay_finding(e):
    w = e["witness"]
    st, out = impl_pybind(w["input"], streams.TPL_MIN, "m", w.get("top", [""]), False, w.get("ignore", []), None)
    if st != "ok":
        return False
    if "bad_fragment" in w:
        return w["bad_fragment"] in out
    return pj.module_vars_ok(out) is not None


def main(ctx):
    search = pc.run(ctx, THEOREM_MODULES, pj.pybind_api, direct,
                    "set/order/names/placement of registered bindings differs from the declared API",
                    "sub-module variable discipline violated", cfg_kw=dict(typedef_same_ns=True, unique_ns=True),
                    # sibling namespaces whose names are string prefixes of each other (gtsam / gtsam_unstable / gtsam2):
                    # only whole path components may decide what belongs to the top module
                    extra_streams=[(dict(ns_pool=["gtsam", "gtsam_unstable", "gtsam2", "gt", "a", "ab"], max_depth=3,
                                         extra_kinds=['ns', 'ns', 'ns', 'cls'], max_decls=5), 0.4),
                                   # `…Values` containers with insert(size_t, X): only gtsam::Values gets the extra
                                   # `insert_<name>` bindings
                                   (dict(p_values_insert=0.6, ns_pool=["gtsam", "other", "gtsam"], extra_kinds=['ns', 'cls', 'cls']), 0.3),
                                   # members and functions named like Python's soft keywords, builtins and near-keywords: ordinary
                                   # identifiers, exposed under exactly their names
                                   (dict(mnames=["match", "type", "case", "print", "exec", "self", "async", "None", "id", "await"],
                                         extra_kinds=['func', 'func', 'cls'], max_members=5), 0.3)])
    for e in ctx.known:
        still = replay_finding(e)
        if e.get("kind") == "fixed":
            if still:
                ctx.spec_fail("a defect recorded as fixed is back: " + e["what"], **e["witness"])
        elif still:
            ctx.known_hit(e)
    return fw.finish(ctx, search=search, assumptions=["hand-written model of pybind_wrapper.py, tied byte-exactly on generated inputs"])


def replay(ctx, path):
    return pc.replay(ctx, path, pj.pybind_api)
