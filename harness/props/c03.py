"""C03 — the generated Python module exposes exactly the declared API.

THEOREMS  lean/WrapModel/Props/C03.lean (IR of Model/Pybind.lean)
TIE       byte-exact PybindWrapper.wrap_file output vs the model for random option sets
ORACLE    API facts (what is registered, under which name, on which module variable, in order) extracted from
          the implementation's text vs the same extraction from the model's text; plus a direct check that every
          module variable is created exactly once before anything is placed in it
"""
import framework as fw
import projections as pj
from props import _pybind_common as pc
from common import impl_pybind
import streams

PROP = "C03"
THEOREM_MODULES = ["WrapModel.Props.C03"]


def direct(text, r):
    return pj.module_vars_ok(text)


def replay_finding(e):
    w = e["witness"]
    st, out = impl_pybind(w["input"], streams.TPL_MIN, "m", w.get("top", [""]), False, w.get("ignore", []), None)
    if st != "ok":
        return False
    if "bad_fragment" in w:
        return w["bad_fragment"] in out
    return pj.module_vars_ok(out) is not None


def main(ctx):
    search = pc.run(ctx, THEOREM_MODULES, pj.pybind_api, direct,
                    "set/order/names/placement of registered bindings differs from the declared API",
                    "sub-module variable discipline violated", cfg_kw=dict(typedef_same_ns=True, unique_ns=True),
                    # sibling namespaces whose names are string prefixes of each other (gtsam / gtsam_unstable / gtsam2):
                    # only whole path components may decide what belongs to the top module
                    extra_streams=[(dict(ns_pool=["gtsam", "gtsam_unstable", "gtsam2", "gt", "a", "ab"], max_depth=3,
                                         extra_kinds=['ns', 'ns', 'ns', 'cls'], max_decls=5), 0.4),
                                   # `…Values` containers with insert(size_t, X): only gtsam::Values gets the extra
                                   # `insert_<name>` bindings
                                   (dict(p_values_insert=0.6, ns_pool=["gtsam", "other", "gtsam"], extra_kinds=['ns', 'cls', 'cls']), 0.3)])
    for e in ctx.known:
        still = replay_finding(e)
        if e.get("kind") == "fixed":
            if still:
                ctx.spec_fail("a defect recorded as fixed is back: " + e["what"], **e["witness"])
        elif still:
            ctx.known_hit(e)
    return fw.finish(ctx, search=search, assumptions=["hand-written model of pybind_wrapper.py, tied byte-exactly on generated inputs"])


def replay(ctx, path):
    return pc.replay(ctx, path, pj.pybind_api)
