"""Property-relevant projections and direct (model-independent) oracles over generated text."""
import re


# ------------------------------------------------------------------ pybind11 text
def match_bracket(s, i, open_c, close_c):
    """index just after the bracket that closes s[i] == open_c (quotes respected); -1 if unbalanced"""
    depth = 0
    j = i
    n = len(s)
    while j < n:
        c = s[j]
        if c == '"':
            j += 1
            while j < n and s[j] != '"':
                if s[j] == '\\':
                    j += 1
                j += 1
        elif c == "'" and j + 2 < n and s[j + 2] == "'":
            j += 2
        elif c == "'" and j + 3 < n and s[j + 1] == '\\' and s[j + 3] == "'":
            j += 3
        elif c == open_c:
            depth += 1
        elif c == close_c:
            depth -= 1
            if depth == 0:
                return j + 1
        j += 1
    return -1


TOKEN = re.compile(
    r'pybind11::module (?P<sm_var>\w+) = (?P<sm_parent>\w+)\.def_submodule\("(?P<sm_name>[^"]*)"'
    r'|py::class_<'
    r'|py::enum_<'
    r'|\.value\("(?P<val>[^"]*)", (?P<val_cpp>[^)]*)\)'
    r'|\.def_static\("(?P<sdef>[^"]*)"'
    r'|\.def_readwrite\("(?P<rw>[^"]*)"'
    r'|\.def_readonly\("(?P<ro>[^"]*)"'
    r'|\.def\(py::init<'
    r'|\.def\(py::pickle\('
    r'|\.def\((?P<op>[^"()\[\]]*py::self[^)]*)\)'
    r'|(?P<fvar>\bm_\w*)\.def\("(?P<fdef>[^"]*)"'
    r'|(?P<avar>\bm_\w*)\.attr\("(?P<attr>[^"]*)"\)'
    r'|\.def\("(?P<mdef>[^"]*)"')


def pybind_api(text):
    """ordered list of API facts: what is registered, under which name, on which module variable / class"""
    out = []
    cur = None
    for m in TOKEN.finditer(text):
        g = m.group(0)
        if m.group('sm_var'):
            out.append(('submodule', m.group('sm_var'), m.group('sm_parent'), m.group('sm_name')))
        elif g == 'py::class_<':
            e = match_bracket(text, m.end() - 1, '<', '>')
            targs = text[m.end():e - 1] if e > 0 else '?'
            rest = text[e:e + 400] if e > 0 else ''
            mm = re.match(r'\s*(\w+)?\((\w+), "([^"]*)"\)', rest)
            cur = targs.split(',')[0].strip()
            out.append(('class', cur, targs, mm.group(2) if mm else '?', mm.group(3) if mm else '?', mm.group(1) if mm else None))
        elif g == 'py::enum_<':
            e = match_bracket(text, m.end() - 1, '<', '>')
            cpp = text[m.end():e - 1] if e > 0 else '?'
            mm = re.match(r'\((\w+), "([^"]*)"', text[e:e + 300] if e > 0 else '')
            cur = 'enum ' + cpp
            out.append(('enum', cpp, mm.group(1) if mm else '?', mm.group(2) if mm else '?'))
        elif m.group('val') is not None:
            out.append(('value', cur, m.group('val'), m.group('val_cpp')))
        elif m.group('sdef') is not None:
            out.append(('def_static', cur, m.group('sdef')))
        elif m.group('rw') is not None:
            out.append(('readwrite', cur, m.group('rw')))
        elif m.group('ro') is not None:
            out.append(('readonly', cur, m.group('ro')))
        elif g == '.def(py::init<':
            e = match_bracket(text, m.end() - 1, '<', '>')
            out.append(('init', cur, text[m.end():e - 1] if e > 0 else '?'))
        elif g == '.def(py::pickle(':
            out.append(('pickle', cur))
        elif m.group('op') is not None:
            out.append(('operator', cur, re.sub(r'\s+', ' ', m.group('op').strip())))
        elif m.group('fdef') is not None:
            out.append(('function', m.group('fvar'), m.group('fdef')))
        elif m.group('attr') is not None:
            out.append(('attr', m.group('avar'), m.group('attr')))
        elif m.group('mdef') is not None:
            out.append(('def', cur, m.group('mdef')))
    return out


def module_vars_ok(text):
    """every module variable is declared exactly once and before its first use; returns a problem string or None"""
    declared = {'m_': 0}
    for m in re.finditer(r'pybind11::module (\w+) = (\w+)\.def_submodule', text):
        v, parent = m.group(1), m.group(2)
        if v in declared:
            return "module variable %s declared twice" % v
        if parent not in declared:
            return "submodule %s created in undeclared module %s" % (v, parent)
        declared[v] = m.start()
    for m in re.finditer(r'(?:py::class_<[^;]*?>>\s*\w*\(|py::enum_<[^;]*?>\()(m_\w*),|\b(m_\w+)\.(?:def|attr)\(', text):
        v = m.group(1) or m.group(2)
        if v not in declared:
            return "module variable %s used but never declared" % v
        if declared[v] > m.start():
            return "module variable %s used before it is declared" % v
    return None


def normalize_ws(text):
    return re.sub(r'\s+', ' ', text)


def normalize_ws_keep_literals(text):
    """white space outside string / character literals is layout (runs collapse to one blank); inside a literal every
    character counts"""
    out, i, n = [], 0, len(text)
    while i < n:
        c = text[i]
        if c in '"\'':
            j = i + 1
            while j < n and text[j] != c:
                j += 2 if text[j] == '\\' else 1
            out.append(text[i:j + 1])
            i = j + 1
        elif c.isspace():
            while i < n and text[i].isspace():
                i += 1
            out.append(' ')
        else:
            out.append(c)
            i += 1
    return ''.join(out)


def split_top_level(s, sep=','):
    """split on sep at bracket depth 0 (quotes respected)"""
    out, depth, cur, i, n = [], 0, [], 0, len(s)
    while i < n:
        c = s[i]
        if c == '"' or c == "'":
            q = c
            cur.append(c)
            i += 1
            while i < n and s[i] != q:
                if s[i] == '\\' and i + 1 < n:
                    cur.append(s[i])
                    i += 1
                cur.append(s[i])
                i += 1
            if i < n:
                cur.append(s[i])
        elif c in '([{<':
            depth += 1
            cur.append(c)
        elif c in ')]}>':
            depth -= 1
            cur.append(c)
        elif c == sep and depth == 0:
            out.append(''.join(cur))
            cur = []
        else:
            cur.append(c)
        i += 1
    if cur or out:
        out.append(''.join(cur))
    return out


LAMBDA = re.compile(r'\[\]\(')


def pybind_lambda_problems(text):
    """C09/C04 structural oracle on the emitted text itself: for every wrapper lambda the number of parameters
    (minus self) equals the number of py::arg entries; returns list of problem strings"""
    probs = []
    for m in LAMBDA.finditer(text):
        e = match_bracket(text, m.end() - 1, '(', ')')
        if e < 0:
            probs.append("unbalanced lambda parameter list at %d" % m.start())
            continue
        params = text[m.end():e - 1].strip()
        nparams = len(split_top_level(params)) if params else 0
        has_self = bool(re.match(r'(const )?[\w:<>, ]+[*&] self\b', params))
        if has_self:
            nparams -= 1
        if e >= len(text) or text[e] != '{':
            continue
        b = match_bracket(text, e, '{', '}')
        if b < 0:
            probs.append("unbalanced lambda body at %d" % e)
            continue
        # the .def( ... ) call this lambda belongs to ends at the matching ')'
        start = text.rfind('.def', 0, m.start())
        o = text.find('(', start)
        close = match_bracket(text, o, '(', ')')
        if close < 0:
            probs.append("unbalanced .def( at %d" % start)
            continue
        tail = text[b:close - 1]
        nargs = len(re.findall(r'py::arg\("', tail))
        if '__repr__' in text[start:m.start()] or 'py::pickle' in text[start:m.start()] or 'make_tuple' in text[e:b]:
            continue
        if nparams != nargs:
            probs.append("lambda with %d parameters but %d py::arg: %s" % (nparams, nargs, text[start:close][:200]))
    return probs


def balanced(text):
    """brackets balanced outside string/char literals and comments"""
    stack = []
    pairs = {')': '(', ']': '[', '}': '{'}
    i, n = 0, len(text)
    while i < n:
        c = text[i]
        if c == '"':
            i += 1
            while i < n and text[i] != '"':
                if text[i] == '\\':
                    i += 1
                i += 1
        elif c == "'" and i + 2 < n and (text[i + 2] == "'" or (text[i + 1] == '\\' and i + 3 < n and text[i + 3] == "'")):
            i += 3 if text[i + 2] == "'" else 4
            continue
        elif text.startswith('/*', i):
            j = text.find('*/', i + 2)
            i = n if j < 0 else j + 1
        elif text.startswith('//', i):
            j = text.find('\n', i)
            i = n if j < 0 else j
        elif c in '([{':
            stack.append(c)
        elif c in ')]}':
            if not stack or stack[-1] != pairs[c]:
                return False
            stack.pop()
        i += 1
    return not stack


# ------------------------------------------------------------------ MATLAB toolbox
def matlab_dispatch_facts(files, module):
    """call sites (file, id, enclosing function), cases (id -> routine), routine definitions"""
    wrapper = module + "_wrapper"
    sites = []
    for path, text in files.items():
        if not path.endswith(".m"):
            continue
        func = None
        for line in text.split("\n"):
            fm = re.match(r'\s*function\s+(?:[\w\[\], {}]+=\s*)?([\w.]+)\s*\(', line)
            if fm:
                func = fm.group(1)
            for cm in re.finditer(re.escape(wrapper) + r'\((\d+)', line):
                sites.append((path, int(cm.group(1)), func))
    cpp = files.get(wrapper + ".cpp", "")
    cases = [(int(a), b) for a, b in re.findall(r'case (\d+):\s*\n\s*([\w ]+)\(nargout, out, nargin-1, in\+1\);', cpp)]
    routines = re.findall(r'^void ([\w ]+)\(int nargout, mxArray \*out\[\], int nargin, const mxArray \*in\[\]\)', cpp, re.M)
    return sites, cases, routines


def dispatch_problems(files, module):
    """DispatchOK (C05) evaluated directly on generated files; returns list of problem strings"""
    sites, cases, routines = matlab_dispatch_facts(files, module)
    probs = []
    ids = [c for c, _ in cases]
    if ids != list(range(len(ids))):
        probs.append("case ids are not 0..n-1 contiguous: %s" % ids[:40])
    if len(set(routines)) != len(routines):
        dup = sorted({r for r in routines if routines.count(r) > 1})
        probs.append("routine defined more than once: %s" % dup[:5])
    rset = set(routines)
    targets = [r for _, r in cases]
    for cid, r in cases:
        if r not in rset:
            probs.append("case %d calls undefined routine %s" % (cid, r))
    for r in routines:
        if r in ("mexFunction",) or r.startswith("_"):
            continue
        k = targets.count(r)
        if k != 1:
            probs.append("routine %s is reached from %d cases" % (r, k))
    site_ids = {}
    for path, sid, func in sites:
        site_ids.setdefault(sid, []).append((path, func))
    cmap = dict(cases)
    for sid, where in site_ids.items():
        if sid not in cmap:
            probs.append("id %d used in %s has no case" % (sid, where[0][0]))
            continue
        r = cmap[sid]
        # role agreement: the routine name carries class and role; the call site's file and function must agree
        path, func = where[0]
        stem = path.split("/")[-1][:-2]
        pkg = "".join(p[1:] for p in path.split("/")[:-1] if p.startswith("+"))
        m = re.match(r'(.*)_(\d+)$', r)
        base = m.group(1) if m else r
        if func is None:
            continue
        f = func.split(".")[-1]
        if f == stem and 'function obj = ' + stem in files[path]:
            ok = base.endswith(("_collectorInsertAndMakeBase", "_constructor", "_upcastFromVoid")) and stem in base
        elif f == "delete":
            ok = base.endswith("_deconstructor") and stem in base
        elif func.startswith("get."):
            ok = ("_get_" + f) in base
            body = routine_body(files, module, r)
            if ok and body is not None and not (re.search(r'->%s\b' % re.escape(f), body) and "out[0]" in body):
                probs.append("id %d: routine %s, reached from %s/%s, does not return the member %s" % (sid, r, path, func, f))
        elif func.startswith("set."):
            ok = ("_set_" + f) in base
            body = routine_body(files, module, r)
            if ok and body is not None and not re.search(r'->%s\s*=' % re.escape(f), body):
                probs.append("id %d: routine %s, reached from %s/%s, does not assign the member %s" % (sid, r, path, func, f))
        elif f in ("string_serialize", "string_deserialize"):
            ok = base.endswith(f)
        elif 'classdef' in files[path]:
            # templated members: the .m function carries the instantiated name, the routine the original one
            ok = any(base.endswith("_" + f[:k]) for k in range(1, len(f) + 1))
        else:
            ok = base == f
        if not ok:
            probs.append("id %d: call site %s/%s is dispatched to routine %s" % (sid, path, func, r))
    for cid, r in cases:
        if cid not in site_ids:
            probs.append("case %d (%s) has no call site in any .m file" % (cid, r))
    probs += arity_problems(files, module, cmap)
    # serialization routines belong to the class in their name: string_serialize unwraps that class's own pointer property,
    # string_deserialize wraps its result as that class's MATLAB class
    cpp_all = files.get(module + "_wrapper.cpp", "")
    for m_ in re.finditer(r'^void (\w+?)_string_(serialize|deserialize)_\d+\(int nargout, mxArray \*out\[\], int nargin, const mxArray \*in\[\]\)\n\{(.*?)^\}', cpp_all, re.M | re.S):
        flat, which, body = m_.group(1), m_.group(2), m_.group(3)
        if which == "serialize":
            pm = re.search(r'unwrap_shared_ptr<.*?>\(in\[0\], "(\w+)"\)', body)
            if pm and pm.group(1) != "ptr_" + flat:
                probs.append("routine %s_string_serialize reads the pointer property %s instead of ptr_%s" % (flat, pm.group(1), flat))
        else:
            wm = re.search(r'wrap_shared_ptr\(output,"([\w.]+)"', body)
            if wm and wm.group(1).replace(".", "") != flat:
                probs.append("routine %s_string_deserialize wraps its result as MATLAB class %s" % (flat, wm.group(1)))
    return probs


def routine_body(files, module, name):
    cpp = files.get(module + "_wrapper.cpp", "")
    m = re.search(r'^void %s\(int nargout, mxArray \*out\[\], int nargin, const mxArray \*in\[\]\)\n\{(.*?)^\}' % re.escape(name), cpp, re.M | re.S)
    return m.group(1) if m else None


def arity_problems(files, module, cmap):
    """overload agreement: a call site guarded by `length(varargin) == N` must reach a routine that checks for N arguments
    (methods, static methods, free functions; `checkArguments(name, nargout, nargin[-1], N)`)"""
    cpp = files.get(module + "_wrapper.cpp", "")
    expected = {}
    for m in re.finditer(r'^void (\w+)\(int nargout, mxArray \*out\[\], int nargin, const mxArray \*in\[\]\)\n\{(.*?)^\}', cpp, re.M | re.S):
        k = re.search(r'checkArguments\("[^"]*",nargout,nargin(?:-1)?,(\d+)\);', m.group(2))
        if k:
            expected[m.group(1)] = int(k.group(1))
    probs = []
    for path, text in sorted(files.items()):
        if not path.endswith(".m"):
            continue
        lines = text.split("\n")
        for i, l in enumerate(lines):
            g = re.match(r'\s*(?:if|elseif) length\(varargin\) == (\d+)', l)
            if not g:
                continue
            for nxt in lines[i + 1:i + 3]:
                c = re.search(r'%s_wrapper\((\d+), (?:this, )?varargin\{:\}\)' % re.escape(module), nxt)
                if c:
                    sid = int(c.group(1))
                    r = cmap.get(sid)
                    if r in expected and expected[r] != int(g.group(1)):
                        probs.append("id %d: call site in %s passes %s arguments, routine %s checks for %d"
                                     % (sid, path, g.group(1), r, expected[r]))
                    break
    return probs


def matlab_marshalling_facts(files, module):
    """C06 projection: per routine (name without id) the checkArguments line, unwrap lines, call line, out[] lines;
    per .m guard line the count and isa tests"""
    cpp = files.get(module + "_wrapper.cpp", "")
    facts = []
    for m in re.finditer(r'^void (\w+)\(int nargout, mxArray \*out\[\], int nargin, const mxArray \*in\[\]\)\n\{(.*?)^\}', cpp, re.M | re.S):
        body = [l.strip() for l in m.group(2).split("\n") if l.strip()]
        keep = [l for l in body if l.startswith(("checkArguments", "out[")) or "unwrap" in l or "pairResult" in l
                or re.search(r'\w\(.*\);$', l)]
        facts.append((m.group(1), tuple(keep)))
    guards = []
    for path, text in sorted(files.items()):
        if path.endswith(".m"):
            for l in text.split("\n"):
                s = l.strip()
                if s.startswith(("if length(varargin)", "elseif length(varargin)", "elseif nargin ==", "if nargin ==")) or "_wrapper(" in s:
                    guards.append((path, s))
    return facts, guards


def matlab_tree_facts(files):
    """C10 projection: file set; per classdef: base, method names, static names, properties; enum numbering"""
    out = {}
    for path, text in files.items():
        if not path.endswith(".m"):
            out[path] = ("other",)
            continue
        m = re.search(r'^classdef (\w+) < ([\w.]+)', text, re.M)
        if not m:
            # the function's name and how many overloads (call sites of the gateway) its file dispatches to
            out[path] = ("function", re.findall(r'^function .*?(\w+)\(varargin\)', text, re.M), len(re.findall(r'\w+_wrapper\(\d+', text)))
            continue
        if "enumeration" in text:
            out[path] = ("enum", m.group(1), re.findall(r'^\s+(\w+)\((\d+)\)', text, re.M))
            continue
        head, _, static = text.partition("methods(Static = true)")
        out[path] = ("class", m.group(1), m.group(2),
                     tuple(re.findall(r'^\s+ptr_(\w+) = 0', text, re.M)),
                     tuple(re.findall(r'^\s+function (?:\w+ = |varargout = )?([\w.]+)\(', head, re.M)),
                     tuple(re.findall(r'^\s+function (?:\w+ = |varargout = )?([\w.]+)\(', static, re.M)))
    return out


def preamble_facts(files, module):
    cpp = files.get(module + "_wrapper.cpp", "")
    return dict(collectors=re.findall(r'^static Collector_(\w+) collector_\1;', cpp, re.M),
                deleted=re.findall(r'for\(Collector_(\w+)::iterator iter', cpp),
                rtti=re.findall(r'types\.insert\(std::make_pair\(typeid\((.+?)\)\.name\(\), "(\w+)"\)\);', cpp),
                used=sorted(set(re.findall(r'\bcollector_(\w+)\.', cpp))))
