"""Token-level corruption of lexeme lists (C07): deletion, duplication, adjacent swap, truncation, stray token,
bracket unbalancing; the kinds are chosen from the random source passed in."""
KINDS = ["delete", "duplicate", "swap", "truncate", "stray", "unbalance"]
STRAY = [('sym', ';'), ('sym', '}'), ('sym', '{'), ('sym', ')'), ('sym', '('), ('sym', ','), ('sym', '>'), ('sym', '<'),
         ('word', 'class'), ('word', 'const'), ('word', 'static'), ('word', 'foo'), ('sym', '*'), ('sym', '='), ('sym', ':'),
         ('word', 'template'), ('sym', '::'), ('word', 'virtual'), ('word', '7')]


def corrupt(rng, lx):
    lx = list(lx)
    if not lx:
        return "stray", [rng.choice(STRAY)]
    kind = rng.choice(KINDS)
    i = rng.randrange(len(lx))
    if kind == "delete":
        del lx[i]
    elif kind == "duplicate":
        lx.insert(i, lx[i])
    elif kind == "swap" and len(lx) > 1:
        i = rng.randrange(len(lx) - 1)
        lx[i], lx[i + 1] = lx[i + 1], lx[i]
    elif kind == "truncate":
        lx = lx[:i]
    elif kind == "stray":
        lx.insert(i, rng.choice(STRAY))
    else:
        kind = "unbalance"
        idx = [j for j, (k, t) in enumerate(lx) if k == 'sym' and t in "(){}<>"]
        if idx:
            j = rng.choice(idx)
            if rng.random() < 0.5:
                del lx[j]
            else:
                lx.insert(j, lx[j])
        else:
            lx.insert(i, ('sym', rng.choice("(){}<>")))
    # a header lexeme must stay between '<' and '>' for the renderer's glue rules; drop orphaned ones
    out = []
    for j, (k, t) in enumerate(lx):
        if k == 'header' and not (j > 0 and lx[j - 1] == ('sym', '<')):
            continue
        out.append((k, t))
    return kind, out
