"""Check framework: build + audit of the Lean project, correspondence streams, verdict logic,
known findings, evidence files.  See DESIGN.md §5.

A property module `props/cXX.py` provides

    PROP = "CXX"
    def run(ctx): ...            # uses ctx.stream(...), ctx.disagree(...), ctx.spec_fail(...)
    def replay_finding(ctx, entry) -> bool     # True if the listed witness still fails the spec
"""
import fcntl
import hashlib
import json
import multiprocessing as mp
import os
import random
import re
import subprocess
import sys
import time
import traceback

from common import VERIF, REPO, LEAN_DIR, DRIVER

EVID = os.path.join(VERIF, "evidence")
REPLAYS = os.path.join(EVID, "replays")
KNOWN = os.path.join(VERIF, "KNOWN_FINDINGS.json")
STD_AXIOMS = {"propext", "Classical.choice", "Quot.sound"}
FORBIDDEN = re.compile(r"\b(sorry|admit|native_decide|bv_decide|implemented_by|unsafe)\b|^\s*axiom\s|maxHeartbeats\s+0")


def strip_lean_comments(src: str) -> str:
    out = []
    i, n, depth = 0, len(src), 0
    in_str = False
    while i < n:
        if depth == 0 and not in_str and src.startswith("--", i):
            j = src.find("\n", i)
            i = n if j < 0 else j
            continue
        if not in_str and src.startswith("/-", i):
            depth += 1
            i += 2
            continue
        if depth > 0 and src.startswith("-/", i):
            depth -= 1
            i += 2
            continue
        if depth == 0:
            c = src[i]
            if c == '"' and (i == 0 or src[i - 1] != '\\'):
                in_str = not in_str
            out.append(c if not in_str or c == '"' else ' ')
        elif src[i] == "\n":
            out.append("\n")
        i += 1
    return "".join(out)


class Ctx:
    def __init__(self, prop, tier, seed):
        self.prop = prop
        self.tier = tier
        self.seed = seed
        self.t0 = time.time()
        self.rng = random.Random((seed * 1000003) ^ int(hashlib.sha1(prop.encode()).hexdigest()[:8], 16))
        self.evaluations = 0
        self.distinct = set()
        self.samples = []
        self.distribution = {}
        self.disagreements = []   # model vs implementation differences (not yet violations)
        self.spec_failures = []   # inputs on which the implementation fails the property's spec
        self.known_hits = []
        self.notes = []
        self.traces_validated = 0
        self.build_ok = True
        self.build_failures = []
        self.theorems = []
        self.axioms = {}
        self.audit_problems = []
        self.extra = {}
        self.known = load_known(prop)

    # ---------------------------------------------------------------- bookkeeping
    def count(self, key, n=1):
        self.distribution[key] = self.distribution.get(key, 0) + n

    def case(self, text_key: str, nontrivial=True, sample=None):
        self.evaluations += 1
        if nontrivial:
            self.distinct.add(hashlib.sha1(text_key.encode("utf-8", "replace")).hexdigest())
        if sample is not None and len(self.samples) < 3:
            self.samples.append(sample)

    def disagree(self, what, **replay):
        self.disagreements.append(dict(what=what, **replay))

    def spec_fail(self, what, **replay):
        self.spec_failures.append(dict(what=what, **replay))

    def known_hit(self, entry, detail=""):
        self.known_hits.append((entry, detail))

    def note(self, s):
        self.notes.append(s)

    def elapsed(self):
        return time.time() - self.t0

    def scale(self, quick, thorough):
        return thorough if self.tier == "thorough" else quick


def load_known(prop):
    try:
        with open(KNOWN, encoding="utf-8") as f:
            doc = json.load(f)
    except FileNotFoundError:
        return []
    return [e for e in doc.get("findings", []) if e.get("property") == prop]


# -------------------------------------------------------------------- lean build & audit
def translate_and_build(ctx, targets):
    """translate tables, then `lake build` the given targets under an exclusive lock"""
    os.makedirs(os.path.join(LEAN_DIR, ".lake"), exist_ok=True)
    lock = open(os.path.join(LEAN_DIR, ".lake", "verif.lock"), "w")
    fcntl.flock(lock, fcntl.LOCK_EX)
    try:
        r = subprocess.run([sys.executable, os.path.join(VERIF, "harness", "translate_tables.py")],
                           capture_output=True, text=True, cwd=VERIF)
        if r.returncode != 0:
            ctx.build_ok = False
            ctx.build_failures.append("translate_tables: " + (r.stderr.strip().splitlines() or ["failed"])[-1])
            ctx.extra["translate_log"] = r.stderr[-2000:]
            # keep going: the previous Gen files (if any) still allow the driver to build
        r = subprocess.run(["lake", "build"] + targets, capture_output=True, text=True, cwd=LEAN_DIR)
        log = r.stdout + r.stderr
        if r.returncode != 0:
            ctx.build_ok = False
            for m in re.finditer(r"^error: (\S+?):(\d+):(\d+): (.*)$", log, re.M):
                ctx.build_failures.append("%s:%s: %s" % (m.group(1), m.group(2), m.group(4)[:200]))
            for m in re.finditer(r"^- (\S+)$", log, re.M):
                ctx.build_failures.append("failed target " + m.group(1))
            if not ctx.build_failures:
                ctx.build_failures.append("lake build failed: " + log[-500:])
            ctx.extra["build_log_tail"] = log[-3000:]
            # the driver does not depend on Props/Lemmas: try to keep it available for SEARCH
            subprocess.run(["lake", "build", "wrapmodel"], capture_output=True, text=True, cwd=LEAN_DIR)
    finally:
        fcntl.flock(lock, fcntl.LOCK_UN)
        lock.close()


def theorem_names(path):
    try:
        src = strip_lean_comments(open(path, encoding="utf-8").read())
    except FileNotFoundError:
        return []
    return re.findall(r"^\s*theorem\s+([^\s({\[:]+)", src, re.M)


def audit(ctx, prop_modules):
    """forbidden tokens in lean/ outside comments; `#print axioms` of every theorem of the property"""
    for root, dirs, files in os.walk(LEAN_DIR):
        if ".lake" in dirs:
            dirs.remove(".lake")
        for fn in files:
            if not fn.endswith(".lean"):
                continue
            p = os.path.join(root, fn)
            code = strip_lean_comments(open(p, encoding="utf-8").read())
            for ln, line in enumerate(code.splitlines(), 1):
                if FORBIDDEN.search(line):
                    ctx.audit_problems.append("%s:%d: forbidden token: %s" % (os.path.relpath(p, LEAN_DIR), ln, line.strip()[:80]))
    names = []
    imports = []
    for mod in prop_modules:
        path = os.path.join(LEAN_DIR, mod.replace(".", "/") + ".lean")
        ns = theorem_names(path)
        if not ns:
            ctx.audit_problems.append("no theorems found in " + mod)
        imports.append(mod)
        names += [(mod, n) for n in ns]
    ctx.theorems = [n for _, n in names]
    if not ctx.build_ok or not names:
        return
    tmp = os.path.join(LEAN_DIR, ".lake", "audit_%s_%d.lean" % (ctx.prop, os.getpid()))
    with open(tmp, "w") as f:
        for m in imports:
            f.write("import %s\n" % m)
        f.write("open WrapModel\n")
        for m in imports:
            src = strip_lean_comments(open(os.path.join(LEAN_DIR, m.replace(".", "/") + ".lean"), encoding="utf-8").read())
            for ns in dict.fromkeys(re.findall(r"^namespace\s+(\S+)", src, re.M)):
                f.write("open %s\n" % ns)
        for _, n in names:
            f.write("#print axioms %s\n" % n)
    r = subprocess.run(["lake", "env", "lean", tmp], capture_output=True, text=True, cwd=LEAN_DIR)
    os.unlink(tmp)
    out = r.stdout + r.stderr
    # "'name' depends on axioms: [a, b]"  |  "'name' does not depend on any axioms"
    seen = {}
    for m in re.finditer(r"'(\S+)' (depends on axioms: \[([^\]]*)\]|does not depend on any axioms)", out, re.S):
        ax = [a.strip() for a in (m.group(3) or "").replace("\n", " ").split(",") if a.strip()]
        seen[m.group(1).split(".")[-1]] = ax
    for _, n in names:
        short = n.split(".")[-1]
        if short not in seen:
            ctx.audit_problems.append("no axiom report for theorem %s (%s)" % (n, out.strip()[-200:]))
            continue
        ctx.axioms[n] = seen[short]
        bad = [a for a in seen[short] if a not in STD_AXIOMS]
        if bad:
            ctx.audit_problems.append("theorem %s depends on non-standard axioms %s" % (n, bad))
    if ctx.tier == "thorough":
        # second opinion: the toolchain's independent re-checker replays the compiled declarations of the property modules
        # (and of everything they import) through the kernel
        r = subprocess.run(["lake", "env", "leanchecker"] + list(imports), capture_output=True, text=True, cwd=LEAN_DIR, timeout=1800)
        ctx.extra["leanchecker"] = dict(modules=list(imports), exit=r.returncode, output=(r.stdout + r.stderr)[-300:])
        if r.returncode != 0:
            ctx.audit_problems.append("leanchecker rejects %s: %s" % (imports, (r.stdout + r.stderr)[-300:]))


# -------------------------------------------------------------------- parallel case execution
_WORKER = {}


def _worker_call(args):
    idx, payload = args
    try:
        return _WORKER["fn"](idx, payload)
    except Exception:
        return {"crash": traceback.format_exc()}


def run_cases(fn, payloads, workers=None):
    """fn(idx, payload) -> dict, executed in forked workers (each may lazily create its own Driver).
    fn may be a closure: it is handed to the children through fork, not through pickling."""
    workers = workers or min(14, os.cpu_count() or 4)
    jobs = [(i, p) for i, p in enumerate(payloads)]
    _WORKER["fn"] = fn
    if workers <= 1 or len(jobs) < 8:
        return [_worker_call(j) for j in jobs]
    with mp.get_context("fork").Pool(workers) as pool:
        return pool.map(_worker_call, jobs, chunksize=max(1, len(jobs) // (workers * 4)))


def worker_driver():
    from common import Driver
    d = _WORKER.get("driver")
    if d is None or d.p.poll() is not None:
        d = Driver()
        _WORKER["driver"] = d
    return d


# -------------------------------------------------------------------- verdict & evidence
def finish(ctx, level_note="", assumptions=None, checker_cmd=None, search=None):
    """decide, print VIOLATION / KNOWN-FINDING lines, write evidence, return exit code"""
    os.makedirs(REPLAYS, exist_ok=True)
    violations = []
    proof_broken = (not ctx.build_ok) or bool(ctx.audit_problems)
    # 1. direct spec failures on the implementation
    for sf in ctx.spec_failures:
        violations.append(("input", sf))
    # 2. broken proof / broken correspondence without a concrete failing input yet -> SEARCH
    if not violations and (proof_broken or ctx.disagreements):
        found = None
        if search is not None:
            try:
                found = search(ctx)
            except Exception:
                ctx.note("search crashed: " + traceback.format_exc()[-500:])
        if found:
            violations.append(("input", found))
        else:
            why = {}
            if not ctx.build_ok:
                why["broken_build"] = ctx.build_failures[:10]
            if ctx.audit_problems:
                why["audit"] = ctx.audit_problems[:10]
            if ctx.disagreements:
                why["correspondence_disagreements"] = ctx.disagreements[:3]
            violations.append(("none", dict(what="proof or correspondence no longer checks; no failing input found", **why)))
    code = 0
    for ent, det in ctx.known_hits:
        print("KNOWN-FINDING: property=%s %s" % (ctx.prop, ent.get("what", ent.get("id", "")) + ((" [" + det + "]") if det else "")))
    if violations:
        kind, v = violations[0]
        rp = os.path.join(REPLAYS, "%s-%s-%d.json" % (ctx.prop, ctx.tier, ctx.seed))
        with open(rp, "w", encoding="utf-8") as f:
            json.dump(dict(property=ctx.prop, seed=ctx.seed, tier=ctx.tier, kind=kind, violation=v,
                           further=[x[1] for x in violations[1:5]]), f, indent=1, ensure_ascii=False, default=str)
        rel = os.path.relpath(rp, VERIF)
        print("VIOLATION property=%s replay=%s%s" % (ctx.prop, rel, " no-failing-input-found" if kind == "none" else ""))
        code = 1
    n_thm = len(ctx.theorems)
    discharged = n_thm if (ctx.build_ok and not ctx.audit_problems) else 0
    used_axioms = sorted({a for ax in ctx.axioms.values() for a in ax})
    cov = dict(
        obligations=max(n_thm, 1), discharged=discharged if n_thm else 0,
        checker_cmd=checker_cmd or "cd lean && lake build && lake env lean <#print axioms of every theorem in Props/%s.lean>" % ctx.prop,
        trusted_base=["Lean 4.33.0 kernel", "axioms used: " + (", ".join(used_axioms) if used_axioms else "none")] + (assumptions or []),
        theorems=ctx.theorems, axioms_per_theorem=ctx.axioms,
        evaluations=ctx.evaluations, distinct_nontrivial=len(ctx.distinct),
        rule=ctx.extra.pop("rule", "see DESIGN.md §6 for this property's generator; distinct = distinct input texts, non-trivial = exercises at least one construct the property talks about"),
        samples=ctx.samples[:3] or ["(no correspondence cases in this run)"],
        traces_validated_against_impl=ctx.traces_validated,
        distribution=ctx.distribution,
        disagreements=len(ctx.disagreements), spec_failures=len(ctx.spec_failures),
        known_findings_reported=[e.get("id") for e, _ in ctx.known_hits],
        build_ok=ctx.build_ok, audit_problems=ctx.audit_problems, notes=ctx.notes,
    )
    cov.update(ctx.extra)
    if discharged < 1 or discharged != cov["obligations"]:
        # proof link broken on this tree: report the counts under other names so that the
        # file still validates through the schema's generic fallback (evaluations/distinct)
        cov["obligations_total"] = cov.pop("obligations")
        cov["obligations_discharged"] = cov.pop("discharged")
    ev = dict(property_id=ctx.prop, tier=ctx.tier, seed=ctx.seed, level="proof", coverage=cov,
              assumptions=(assumptions or []) + ([level_note] if level_note else []),
              wall_s=round(ctx.elapsed(), 2), violations=len(violations))
    os.makedirs(EVID, exist_ok=True)
    with open(os.path.join(EVID, ctx.prop + ".json"), "w", encoding="utf-8") as f:
        json.dump(ev, f, indent=1, ensure_ascii=False, default=str)
    print("%s %s tier=%s seed=%d theorems=%d cases=%d distinct=%d disagreements=%d spec_failures=%d known=%d wall=%.1fs" % (
        ctx.prop, "FAIL" if code else "ok", ctx.tier, ctx.seed, n_thm, ctx.evaluations, len(ctx.distinct),
        len(ctx.disagreements), len(ctx.spec_failures), len(ctx.known_hits), ctx.elapsed()))
    return code
