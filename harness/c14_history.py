"""helper of the C14 check: wraps the interface texts given in a JSON file, in order, in ONE fresh process (a new
PybindWrapper and a new MatlabWrapper per text, each with its own ignore list) and prints {index: {"pybind": ..., "matlab": ...}} for the indices asked."""
import json
import os
import sys

sys.path.insert(0, os.path.dirname(os.path.abspath(__file__)))
import streams  # noqa: E402
from common import impl_pybind, impl_matlab  # noqa: E402

job = json.load(open(sys.argv[1], encoding="utf-8"))
out = {}
ignores = job.get("ignores") or [[] for _ in job["texts"]]
for i, text in enumerate(job["texts"]):
    r = dict(pybind=impl_pybind(text, streams.TPL_MIN, "m", [''], True, ignores[i], None), matlab=impl_matlab([text], "m", ignores[i], True))
    if i in job["report"]:
        out[str(i)] = r
json.dump(out, sys.stdout)
