#!/bin/sh
# Usage: build.sh <outdir>   — compiles the C18 implementation-side driver to <outdir>/c18_impl.
# The REAL header is picked up from the repository working tree via -I$REPO (default /repo), so
# every run compiles the current matlab.h.
set -eu
OUT="${1:?usage: build.sh <outdir>}"
HERE="$(cd "$(dirname "$0")" && pwd)"
REPO="${REPO:-/repo}"
mkdir -p "$OUT"
# -I$HERE first: mock <mex.h> and stand-in <gtsam/...> headers; then -I$REPO for <matlab.h>.
# -O1 keeps the build fast; -fno-strict-aliasing because matlab.h type-puns through casts;
# -fwrapv/-fno-delete-null-pointer-checks keep mutated headers from being "optimised" by UB.
exec "${CXX:-g++}" -std=c++17 -O1 -fno-strict-aliasing -fwrapv -w \
  -I"$HERE" -I"$REPO" "$HERE/main.cpp" -o "$OUT/c18_impl"
