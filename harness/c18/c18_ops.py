"""C18 op-line generator for the matlab.h correspondence check.

`gen_ops(rng, n)` returns `n` op lines (TAB-separated fields, no trailing newline) in the protocol
documented in NOTES.md.  The same lines are fed to the C++ driver (real /repo/matlab.h over a mock
mex.h) and to the Lean model (`WrapModel.Mx.handleLine`); their outputs must be byte-identical.

The generator is structured: the first ops are a fixed list of extremes/corner cases (every scalar
type at its limits, empty and degenerate shapes, every error path, every `myGetScalar` class
branch), the rest is random but steered so that realistic one-line mutations of matlab.h are
exposed (non-square matrices with pairwise distinct entries, m×1 vs 1×n vectors, values ≥ 2^32
for size_t, negative ints/chars, int64/uint64 payloads above 2^53, forged handle properties …).

Only inputs on which the C++ has DEFINED behaviour are generated:
  * double→integer casts (the `default:` branch of myGetScalar) only for values whose truncation
    is representable in the target type (otherwise the cast is undefined behaviour in C++);
  * float(single)→double only for non-NaN inputs when the result is observed as a double
    (Lean's `Float.toBits` canonicalises NaNs, the hardware merely quiets them);
  * handle ops respect the guards of the model (the driver enforces them as well).
Strings containing NUL are generated only with `include_nul=True` (they do not round-trip: see
theorem C18_string_rt_counterexample).
"""

from __future__ import annotations

import math
import random
import struct
from collections import Counter

# mxClassID numeric values
UNKNOWN, CELL, STRUCT, LOGICAL, CHAR, VOID, DOUBLE, SINGLE = range(8)
INT8, UINT8, INT16, UINT16, INT32, UINT32, INT64, UINT64 = range(8, 16)
FUNCTION, OPAQUE, OBJECT = 16, 17, 18

ELEM_SIZE = {LOGICAL: 1, CHAR: 2, DOUBLE: 8, SINGLE: 4, INT8: 1, UINT8: 1, INT16: 2, UINT16: 2,
             INT32: 4, UINT32: 4, INT64: 8, UINT64: 8}
NUMERIC = sorted(ELEM_SIZE)
NO_PAYLOAD = [UNKNOWN, CELL, STRUCT, FUNCTION]

SCALARS = ["bool", "char", "uchar", "int", "size_t", "double"]
ALL_TYPES = SCALARS + ["string", "vector", "point2", "point3", "matrix"]

INT_RANGE = {"char": (-128, 127), "uchar": (0, 255), "int": (-2**31, 2**31 - 1),
             "size_t": (0, 2**64 - 1)}
CLASS_RANGE = {LOGICAL: (0, 1), CHAR: (0, 65535), INT8: (-128, 127), UINT8: (0, 255),
               INT16: (-2**15, 2**15 - 1), UINT16: (0, 2**16 - 1), INT32: (-2**31, 2**31 - 1),
               UINT32: (0, 2**32 - 1), INT64: (-2**63, 2**63 - 1), UINT64: (0, 2**64 - 1)}

SPECIAL_DOUBLES = [
    0x0000000000000000, 0x8000000000000000,  # +0, -0
    0x3ff0000000000000, 0xbff0000000000000,  # +1, -1
    0x7ff0000000000000, 0xfff0000000000000,  # +inf, -inf
    0x7ff8000000000000, 0x7ff0000000000001, 0xfff8000000000001, 0x7ff4000000abcdef,  # NaNs (q/s)
    0x7fffffffffffffff, 0xffffffffffffffff,
    0x0000000000000001, 0x000fffffffffffff, 0x8000000000000001,  # denormals
    0x0010000000000000, 0x7fefffffffffffff, 0xffefffffffffffff,  # min normal, ±max finite
    0x400921fb54442d18, 0x3ff0000000000001, 0x4340000000000000, 0x43e0000000000000,
    0x0102030405060708, 0xf1f2f3f4f5f6f7f8,  # byte-order tell-tales
]


# ------------------------------------------------------------------------------------------------
# encoding helpers
# ------------------------------------------------------------------------------------------------

def hexbytes(b: bytes) -> str:
    return b.hex() if b else "-"


def hex64s(xs) -> str:
    return "".join("%016x" % x for x in xs) if xs else "-"


def le(value: int, size: int) -> bytes:
    return (value % (1 << (8 * size))).to_bytes(size, "little")


def dbits(x: float) -> int:
    return struct.unpack("<Q", struct.pack("<d", x))[0]


def bits_to_double(b: int) -> float:
    return struct.unpack("<d", struct.pack("<Q", b))[0]


def line(*fields) -> str:
    return "\t".join(str(f) for f in fields)


def rand_double_bits(rng: random.Random) -> int:
    r = rng.random()
    if r < 0.3:
        return rng.choice(SPECIAL_DOUBLES)
    if r < 0.6:
        return rng.getrandbits(64)
    if r < 0.8:
        return dbits(rng.uniform(-1e6, 1e6))
    return dbits(float(rng.randint(-1000, 1000)))


def distinct_doubles(rng: random.Random, k: int):
    """k pairwise distinct 64-bit patterns (so that any permutation of a matrix is visible)."""
    base = rng.getrandbits(48) << 12
    out = [((base + i * 0x0101) ^ (rng.getrandbits(8) << 56)) & (2**64 - 1) for i in range(k)]
    if rng.random() < 0.5:
        for _ in range(min(k, 3)):
            out[rng.randrange(k)] = rand_double_bits(rng)
    return out


# ------------------------------------------------------------------------------------------------
# scalar values
# ------------------------------------------------------------------------------------------------

EXTREMES = {
    "bool": [0, 1],
    "char": [0, 1, -1, 127, -128, 65, -2, 100],
    "uchar": [0, 1, 255, 128, 127, 254, 65],
    "int": [0, 1, -1, 2**31 - 1, -2**31, 255, 256, -256, 65535, 65536, -65537, 2**24, 0x01020304,
            -0x01020304, 2**30],
    "size_t": [0, 1, 255, 256, 2**16, 2**31 - 1, 2**31, 2**32 - 1, 2**32, 2**32 + 1, 2**53,
               2**53 + 1, 2**63 - 1, 2**63, 2**64 - 1, 0x0102030405060708, 0xf1f2f3f4f5f6f7f8],
    "double": SPECIAL_DOUBLES,
}


def rand_scalar(rng: random.Random, ty: str):
    if ty == "bool":
        return rng.randint(0, 1)
    if ty == "double":
        return "%016x" % rand_double_bits(rng)
    lo, hi = INT_RANGE[ty]
    r = rng.random()
    if r < 0.25:
        return rng.choice(EXTREMES[ty])
    if r < 0.5 and ty in ("int", "size_t"):
        # a random bit-length, so that every byte position is exercised
        bits = rng.randint(1, 31 if ty == "int" else 64)
        v = rng.getrandbits(bits)
        if ty == "int" and rng.random() < 0.5:
            v = -v
        return max(lo, min(hi, v))
    return rng.randint(lo, hi)


def scalar_arg(ty: str, v) -> str:
    return "%016x" % v if (ty == "double" and isinstance(v, int)) else str(v)


# ------------------------------------------------------------------------------------------------
# strings, vectors, matrices
# ------------------------------------------------------------------------------------------------

def rand_string(rng: random.Random, include_nul: bool) -> bytes:
    r = rng.random()
    if r < 0.08:
        s = b""
    elif r < 0.35:
        s = bytes(rng.choice(b"abcdefghijklmnopqrstuvwxyzABCDEFGHIJKLMNOPQRSTUVWXYZ0123456789 _-.")
                  for _ in range(rng.randint(1, 40)))
    elif r < 0.55:
        s = bytes(rng.choice(b"\"'\\\t\n\r%{}$`ab ") for _ in range(rng.randint(1, 30)))
    elif r < 0.8:
        s = bytes(rng.randint(1, 255) for _ in range(rng.randint(1, 60)))
    elif r < 0.9:
        s = bytes(rng.randint(1, 255) for _ in range(rng.randint(200, 3000)))
    else:
        s = "π ≈ 3.14159 – ünïcödé ✓".encode("utf-8") * rng.randint(1, 3)
    if include_nul and rng.random() < 0.5:
        k = rng.randint(0, len(s))
        s = s[:k] + b"\0" + s[k:]
    return s


def rand_vector_len(rng: random.Random) -> int:
    r = rng.random()
    if r < 0.12:
        return 0
    if r < 0.25:
        return 1
    if r < 0.9:
        return rng.randint(2, 12)
    return rng.randint(13, 64)


def rand_shape(rng: random.Random):
    r = rng.random()
    if r < 0.08:
        return (0, rng.randint(0, 5))
    if r < 0.16:
        return (rng.randint(1, 5), 0)
    if r < 0.22:
        return (1, 1)
    if r < 0.32:
        return (1, rng.randint(2, 9))
    if r < 0.42:
        return (rng.randint(2, 9), 1)
    if r < 0.52:
        k = rng.randint(2, 6)
        return (k, k)
    while True:
        m, n = rng.randint(2, 9), rng.randint(2, 9)
        if m != n:
            return (m, n)


# ------------------------------------------------------------------------------------------------
# unwrap of hand-made arrays
# ------------------------------------------------------------------------------------------------

def zero_payload(cid: int, m: int, n: int) -> bytes:
    return bytes(m * n * ELEM_SIZE.get(cid, 0))


def rand_payload(rng: random.Random, cid: int, m: int, n: int) -> bytes:
    k = m * n * ELEM_SIZE.get(cid, 0)
    return bytes(rng.getrandbits(8) for _ in range(k))


NON_SCALAR_SHAPES = [(0, 0), (1, 0), (0, 1), (1, 2), (2, 1), (2, 2), (3, 1), (1, 3), (0, 3), (2, 3)]


def fits(ty: str, value: float) -> bool:
    """Is `(T) value` defined in C++ for the double `value`?"""
    if ty in ("bool", "double"):
        return True
    if math.isnan(value) or math.isinf(value):
        return False
    lo, hi = INT_RANGE[ty]
    return lo <= math.trunc(value) <= hi


def gen_unwrap_scalar_ok(rng: random.Random) -> str:
    """1×1 array of some numeric class → scalar of some type, only where the cast is defined."""
    for _ in range(1000):
        ty = rng.choice(SCALARS)
        cid = rng.choice(NUMERIC + [INT64, UINT64, DOUBLE, DOUBLE])
        if cid in (INT64, UINT64):
            # the `case mxINT64_CLASS / mxUINT64_CLASS` branches: plain C casts, always defined
            v = rng.choice([rng.getrandbits(64), rng.getrandbits(64) | (1 << 63), 2**53 + 1,
                            2**64 - 1, 2**63, 2**32, 2**32 - 1, 2**31, 256, 255, 128, 0, 1,
                            rng.getrandbits(rng.randint(1, 64))])
            return line("unwrap", ty, cid, 1, 1, hexbytes(le(v, 8)))
        if cid == DOUBLE:
            r = rng.random()
            if r < 0.35:
                bits = rand_double_bits(rng)
            elif r < 0.7 and ty in INT_RANGE:
                lo, hi = INT_RANGE[ty]
                bits = dbits(rng.choice([float(lo), float(min(hi, 2**63)), lo + 0.5, -0.5, 0.999,
                                         rng.uniform(lo, min(hi, 2.0**62)), 2.5, -2.5 if lo < 0 else 3.5]))
            else:
                bits = dbits(rng.uniform(-300, 300))
            if ty == "size_t" and bits_to_double(bits) >= 2.0**64:
                continue
            if not fits(ty, bits_to_double(bits)):
                continue
            return line("unwrap", ty, cid, 1, 1, hexbytes(le(bits, 8)))
        if cid == SINGLE:
            f = rng.choice([0.0, -0.0, 1.5, -1.5, 100.25, -100.75, 3.0e9, 1e-40, 65504.0,
                            rng.uniform(-200, 200), float("inf"), float("-inf")])
            bits = struct.unpack("<I", struct.pack("<f", f))[0]
            val = struct.unpack("<f", struct.pack("<I", bits))[0]
            if not fits(ty, val):
                continue
            return line("unwrap", ty, cid, 1, 1, hexbytes(le(bits, 4)))
        lo, hi = CLASS_RANGE[cid]
        v = rng.choice([lo, hi, 0, 1, rng.randint(lo, hi), rng.randint(lo, hi)])
        v = max(lo, min(hi, v))
        if not fits(ty, float(v)):
            continue
        return line("unwrap", ty, cid, 1, 1, hexbytes(le(v, ELEM_SIZE[cid])))
    raise AssertionError("unreachable")


def gen_unwrap_scalar_err(rng: random.Random) -> str:
    ty = rng.choice(SCALARS)
    cid = rng.choice(NUMERIC + NO_PAYLOAD + [UINT64, DOUBLE])
    m, n = rng.choice(NON_SCALAR_SHAPES)
    return line("unwrap", ty, cid, m, n, hexbytes(rand_payload(rng, cid, m, n)))


def gen_unwrap_scalar_nopayload(rng: random.Random) -> str:
    """1×1 cell/struct/…: mxGetScalar returns 0.0."""
    return line("unwrap", rng.choice(SCALARS), rng.choice(NO_PAYLOAD), 1, 1, "-")


def gen_unwrap_vector(rng: random.Random) -> str:
    ty = rng.choice(["vector", "vector", "vector", "point2", "point3"])
    r = rng.random()
    if r < 0.45:  # a proper column vector
        m = rand_vector_len(rng) if ty == "vector" else rng.choice([2, 3, 2, 3, 0, 1, 4])
        return line("unwrap", ty, DOUBLE, m, 1, hexbytes(b"".join(le(x, 8) for x in distinct_doubles(rng, m))))
    if r < 0.75:  # double, but n != 1 (row vector, matrix, 0×0)
        m, n = rng.choice([(1, 3), (1, 2), (2, 2), (3, 2), (0, 0), (1, 0), (3, 0), (2, 3), (1, 4)])
        return line("unwrap", ty, DOUBLE, m, n, hexbytes(rand_payload(rng, DOUBLE, m, n)))
    # n == 1 but not a double array
    cid = rng.choice([c for c in NUMERIC if c != DOUBLE] + NO_PAYLOAD)
    m = rng.choice([0, 1, 2, 3, 5])
    return line("unwrap", ty, cid, m, 1, hexbytes(rand_payload(rng, cid, m, 1)))


def gen_unwrap_matrix(rng: random.Random) -> str:
    if rng.random() < 0.6:
        m, n = rand_shape(rng)
        return line("unwrap", "matrix", DOUBLE, m, n,
                    hexbytes(b"".join(le(x, 8) for x in distinct_doubles(rng, m * n))))
    cid = rng.choice([c for c in NUMERIC if c != DOUBLE] + NO_PAYLOAD)
    m, n = rand_shape(rng)
    return line("unwrap", "matrix", cid, m, n, hexbytes(rand_payload(rng, cid, m, n)))


def gen_unwrap_string(rng: random.Random) -> str:
    r = rng.random()
    if r < 0.6:  # char arrays, also multi-row (column-major order) and with NUL / wide code units
        m, n = rng.choice([(1, rng.randint(0, 20)), (0, 0), (2, 3), (3, 2), (rng.randint(1, 4), 1)])
        units = []
        for _ in range(m * n):
            q = rng.random()
            if q < 0.85:
                units.append(rng.randint(1, 255))
            elif q < 0.95:
                units.append(rng.randint(256, 65535))
            else:
                units.append(0)
        return line("unwrap", "string", CHAR, m, n, hexbytes(b"".join(le(u, 2) for u in units)))
    cid = rng.choice([c for c in NUMERIC if c != CHAR] + NO_PAYLOAD)
    m, n = rng.choice([(1, 1), (1, 4), (0, 0), (2, 2)])
    return line("unwrap", "string", cid, m, n, hexbytes(rand_payload(rng, cid, m, n)))


# ------------------------------------------------------------------------------------------------
# handle histories
# ------------------------------------------------------------------------------------------------

FORGERIES = [
    (UINT64, 1, 1, 1),   # complex
    (UINT64, 1, 2, 0), (UINT64, 2, 1, 0), (UINT64, 0, 0, 0), (UINT64, 2, 2, 0),   # not 1×1
    (DOUBLE, 1, 1, 0), (INT64, 1, 1, 0), (UINT32, 1, 1, 0), (CHAR, 1, 1, 0), (CELL, 1, 1, 0),
    (UINT64, 1, 1, 0),   # rejected by the guard "forged" (would dereference 0)
]


def gen_handles(rng: random.Random, max_ops: int = 40) -> str:
    nops = rng.randint(1, max_ops)
    nobj = 0
    nh = 0
    ext = []          # external refs per object (generator's view, to steer towards valid ops)
    live = []         # live wrapped handle ids
    fakes = []
    ops = []
    for _ in range(nops):
        r = rng.random()
        wild = rng.random() < 0.08   # deliberately invalid id, to hit the guards
        if nobj == 0 or r < 0.12:
            if nobj < 5 or rng.random() < 0.2:
                ops.append("new")
                nobj += 1
                ext.append(1)
                continue
        if r < 0.40:
            o = rng.randrange(nobj + 2) if wild else rng.randrange(max(nobj, 1))
            ops.append(f"wrap:{o}")
            if o < nobj and ext[o] > 0:
                live.append(nh)
                nh += 1
        elif r < 0.60:
            h = rng.randrange(nh + 2) if (wild or not live) else rng.choice(live + fakes if rng.random() < 0.2 and fakes else live)
            ops.append(f"unwrap:{h}")
        elif r < 0.68:
            h = rng.randrange(nh + 2) if (wild or not live) else rng.choice(live)
            ops.append(f"ptr:{h}")
        elif r < 0.84:
            h = rng.randrange(nh + 2) if (wild or not live) else rng.choice(live)
            ops.append(f"release:{h}")
            if h in live:
                live.remove(h)
        elif r < 0.94:
            o = rng.randrange(nobj + 2) if wild else rng.randrange(max(nobj, 1))
            ops.append(f"drop:{o}")
            if o < nobj and ext[o] > 0:
                ext[o] -= 1
        else:
            cid, m, n, c = rng.choice(FORGERIES)
            ops.append(f"fake:{cid}:{m}:{n}:{c}")
            if not (cid == UINT64 and m == 1 and n == 1 and c == 0):
                fakes.append(nh)
                nh += 1
    return line("handles", " ".join(ops))


# ------------------------------------------------------------------------------------------------
# the fixed corner-case block
# ------------------------------------------------------------------------------------------------

def fixed_block(include_nul: bool):
    ops = []
    for ty in SCALARS:
        for v in EXTREMES[ty]:
            ops.append(line("rt", ty, scalar_arg(ty, v)))
    for ty, v in [("int", -5), ("size_t", 2**40 + 7), ("char", -7), ("uchar", 200), ("bool", 1)]:
        ops.append(line("wrap", ty, v))
    # strings
    for s in [b"", b"a", b"hello world", b"\"quoted\" \\back\\slash\\ 'single'", b"%s %d %n",
              bytes(range(1, 256)), b"x" * 5000, "Grüße ✓".encode()]:
        ops.append(line("rt", "string", hexbytes(s)))
    if include_nul:
        for s in [b"\0", b"ab\0cd", b"\0abc", b"abc\0"]:
            ops.append(line("rt", "string", hexbytes(s)))
    # vectors: every length 0..8 and 64, with tell-tale contents
    for k in list(range(0, 9)) + [64]:
        ops.append(line("rt", "vector", k, hex64s([0x0102030405060708 + 0x1111111111111111 * i & (2**64 - 1)
                                                  for i in range(k)])))
    ops.append(line("rt", "vector", len(SPECIAL_DOUBLES), hex64s(SPECIAL_DOUBLES)))
    ops.append(line("rt", "point2", 2, hex64s([dbits(1.5), dbits(-2.25)])))
    ops.append(line("rt", "point3", 3, hex64s([dbits(1.5), dbits(-2.25), 0x7ff0000000000001])))
    # matrices: all shapes up to 4×4 (incl. 0×k, k×0) with pairwise distinct entries
    for m in range(0, 5):
        for n in range(0, 5):
            ops.append(line("rt", "matrix", m, n, hex64s([(i + 1) * 0x100 + (j + 1) for i in range(m) for j in range(n)])))
    ops.append(line("rt", "matrix", 2, 12, hex64s(SPECIAL_DOUBLES)))
    ops.append(line("wrap", "matrix", 3, 2, hex64s([1, 2, 3, 4, 5, 6])))
    # scalar unwrap: every type × (every non-scalar shape) and × every class at 1×1 with value 1 / 0
    for ty in SCALARS:
        for (m, n) in NON_SCALAR_SHAPES:
            ops.append(line("unwrap", ty, UINT64, m, n, hexbytes(zero_payload(UINT64, m, n))))
        ops.append(line("unwrap", ty, DOUBLE, 2, 1, hexbytes(le(dbits(1.0), 8) * 2)))
        for cid in NUMERIC:
            one = dbits(1.0) if cid == DOUBLE else (0x3f800000 if cid == SINGLE else 1)
            ops.append(line("unwrap", ty, cid, 1, 1, hexbytes(le(one, ELEM_SIZE[cid]))))
        for cid in NO_PAYLOAD:
            ops.append(line("unwrap", ty, cid, 1, 1, "-"))
        # the int64/uint64 branches with values that do not survive a detour through double
        for cid in (INT64, UINT64):
            for v in (2**53 + 1, 2**64 - 1, 2**63, 0x0102030405060708, 2**32 + 5, 2**31, 0x1ff, 0x180):
                ops.append(line("unwrap", ty, cid, 1, 1, hexbytes(le(v, 8))))
    # negative values through the signed classes
    for cid, size in ((INT8, 1), (INT16, 2), (INT32, 4)):
        for ty in ("char", "int", "double", "bool"):
            ops.append(line("unwrap", ty, cid, 1, 1, hexbytes(le(-3, size))))
    ops.append(line("unwrap", "int", DOUBLE, 1, 1, hexbytes(le(dbits(-2.5), 8))))
    ops.append(line("unwrap", "int", DOUBLE, 1, 1, hexbytes(le(dbits(2147483647.0), 8))))
    ops.append(line("unwrap", "int", DOUBLE, 1, 1, hexbytes(le(dbits(-2147483648.0), 8))))
    ops.append(line("unwrap", "size_t", DOUBLE, 1, 1, hexbytes(le(dbits(2.0**63), 8))))
    ops.append(line("unwrap", "size_t", DOUBLE, 1, 1, hexbytes(le(dbits(2.0**64 - 2048), 8))))
    ops.append(line("unwrap", "bool", DOUBLE, 1, 1, hexbytes(le(0x7ff8000000000000, 8))))
    ops.append(line("unwrap", "bool", DOUBLE, 1, 1, hexbytes(le(0x8000000000000000, 8))))
    ops.append(line("unwrap", "bool", UINT64, 1, 1, hexbytes(le(0x100, 8))))
    ops.append(line("unwrap", "bool", UINT64, 1, 1, hexbytes(le(2**63, 8))))
    # vector / point unwrap
    three = hexbytes(b"".join(le(dbits(x), 8) for x in (1.0, 2.0, 3.0)))
    ops.append(line("unwrap", "vector", DOUBLE, 3, 1, three))
    ops.append(line("unwrap", "vector", DOUBLE, 1, 3, three))
    ops.append(line("unwrap", "vector", DOUBLE, 0, 1, "-"))
    ops.append(line("unwrap", "vector", DOUBLE, 0, 0, "-"))
    ops.append(line("unwrap", "vector", DOUBLE, 1, 1, hexbytes(le(dbits(7.0), 8))))
    ops.append(line("unwrap", "vector", SINGLE, 3, 1, hexbytes(bytes(12))))
    ops.append(line("unwrap", "vector", INT64, 3, 1, hexbytes(bytes(24))))
    ops.append(line("unwrap", "vector", CELL, 3, 1, "-"))
    ops.append(line("unwrap", "point2", DOUBLE, 2, 1, hexbytes(bytes(range(16)))))
    ops.append(line("unwrap", "point2", DOUBLE, 3, 1, three))
    ops.append(line("unwrap", "point2", DOUBLE, 1, 2, hexbytes(bytes(16))))
    ops.append(line("unwrap", "point3", DOUBLE, 3, 1, three))
    ops.append(line("unwrap", "point3", DOUBLE, 2, 1, hexbytes(bytes(16))))
    ops.append(line("unwrap", "point3", UINT64, 3, 1, hexbytes(bytes(24))))
    # matrix unwrap
    six = hexbytes(b"".join(le(x, 8) for x in (1, 2, 3, 4, 5, 6)))
    for (m, n) in ((2, 3), (3, 2), (1, 6), (6, 1)):
        ops.append(line("unwrap", "matrix", DOUBLE, m, n, six))
    ops.append(line("unwrap", "matrix", DOUBLE, 0, 0, "-"))
    ops.append(line("unwrap", "matrix", DOUBLE, 0, 4, "-"))
    ops.append(line("unwrap", "matrix", DOUBLE, 4, 0, "-"))
    ops.append(line("unwrap", "matrix", INT64, 2, 3, six))
    ops.append(line("unwrap", "matrix", SINGLE, 1, 1, hexbytes(bytes(4))))
    ops.append(line("unwrap", "matrix", LOGICAL, 2, 2, hexbytes(bytes(4))))
    ops.append(line("unwrap", "matrix", STRUCT, 1, 1, "-"))
    # string unwrap
    ops.append(line("unwrap", "string", CHAR, 1, 3, hexbytes(b"a\0b\0c\0")))
    ops.append(line("unwrap", "string", CHAR, 2, 3, hexbytes(b"a\0b\0c\0d\0e\0f\0")))
    ops.append(line("unwrap", "string", CHAR, 1, 3, hexbytes(b"a\0\0\0c\0")))       # embedded NUL unit
    ops.append(line("unwrap", "string", CHAR, 1, 2, hexbytes(b"\x34\x12\xff\x00")))  # wide unit
    ops.append(line("unwrap", "string", CHAR, 0, 0, "-"))
    ops.append(line("unwrap", "string", DOUBLE, 1, 1, hexbytes(bytes(8))))
    ops.append(line("unwrap", "string", UINT8, 1, 3, hexbytes(b"abc")))
    ops.append(line("unwrap", "string", UINT16, 1, 3, hexbytes(b"a\0b\0c\0")))
    ops.append(line("unwrap", "string", CELL, 1, 1, "-"))
    # handles
    ops.append(line("handles", "new wrap:0 unwrap:0 ptr:0 drop:0 unwrap:0 release:0 release:0 unwrap:0"))
    ops.append(line("handles", "new wrap:0 wrap:0 wrap:0 drop:0 release:1 unwrap:0 unwrap:2 release:0 release:2"))
    ops.append(line("handles", "new new wrap:1 wrap:0 unwrap:0 unwrap:1 drop:1 drop:1 release:0 release:1"))
    ops.append(line("handles", "new drop:0 wrap:0 drop:0 wrap:5 release:3 unwrap:9 ptr:4"))
    ops.append(line("handles", " ".join(f"fake:{c}:{m}:{n}:{x}" for (c, m, n, x) in FORGERIES)
                    + " " + " ".join(f"unwrap:{i}" for i in range(len(FORGERIES)))
                    + " release:0 ptr:0"))
    return ops


# ------------------------------------------------------------------------------------------------
# public API
# ------------------------------------------------------------------------------------------------

def gen_random_op(rng: random.Random, include_nul: bool) -> str:
    r = rng.random()
    if r < 0.22:
        ty = rng.choice(SCALARS)
        return line("rt", ty, rand_scalar(rng, ty))
    if r < 0.26:
        ty = rng.choice(SCALARS)
        return line("wrap", ty, rand_scalar(rng, ty))
    if r < 0.34:
        return line(rng.choice(["rt", "rt", "rt", "wrap"]), "string", hexbytes(rand_string(rng, include_nul)))
    if r < 0.44:
        k = rand_vector_len(rng)
        return line(rng.choice(["rt", "rt", "rt", "wrap"]), "vector", k, hex64s(distinct_doubles(rng, k)))
    if r < 0.47:
        ty, k = rng.choice([("point2", 2), ("point3", 3)])
        return line("rt", ty, k, hex64s(distinct_doubles(rng, k)))
    if r < 0.60:
        m, n = rand_shape(rng)
        return line(rng.choice(["rt", "rt", "rt", "wrap"]), "matrix", m, n, hex64s(distinct_doubles(rng, m * n)))
    if r < 0.72:
        return gen_unwrap_scalar_ok(rng)
    if r < 0.78:
        return gen_unwrap_scalar_err(rng)
    if r < 0.80:
        return gen_unwrap_scalar_nopayload(rng)
    if r < 0.85:
        return gen_unwrap_vector(rng)
    if r < 0.89:
        return gen_unwrap_matrix(rng)
    if r < 0.92:
        return gen_unwrap_string(rng)
    return gen_handles(rng)


INT_OVERFLOW_WITNESSES = [
    # dimensions that do not fit the C `int` matlab.h stores them in (findings F2-F4 of NOTES.md);
    # model and code agree on all of these, but the results violate the property statement
    line("wrap", "matrix", 2**31, 0, "-"),            # becomes (2^64-2^31) x 0
    line("rt", "matrix", 2**31, 0, "-"),
    line("rt", "matrix", 2**32 + 1, 0, "-"),          # comes back as 1 x 0
    line("rt", "matrix", 0, 2**32 + 1, "-"),          # comes back as 0 x 1
    line("unwrap", "vector", DOUBLE, 0, 2**32 + 1, "-"),   # accepted although n != 1
    line("unwrap", "matrix", DOUBLE, 2**32 + 1, 0, "-"),
    line("unwrap", "int", CELL, 2**32 + 1, 2**32 + 1, "-"),    # accepted as a scalar
    line("unwrap", "double", STRUCT, 2**32 + 1, 1, "-"),
    line("unwrap", "bool", CELL, 2**33 + 1, 2**32 + 1, "-"),
]


def gen_ops(rng: random.Random, n: int, include_nul: bool = False,
            include_int_overflow: bool = False) -> list[str]:
    """`n` op lines: the fixed corner-case block first (truncated to `n`), then random ops.
    `include_int_overflow=True` prepends inputs whose dimensions exceed `int` (known findings)."""
    ops = (INT_OVERFLOW_WITNESSES if include_int_overflow else []) + fixed_block(include_nul)
    ops = ops[:n]
    while len(ops) < n:
        ops.append(gen_random_op(rng, include_nul))
    return ops


def _shape_class(m: int, n: int) -> str:
    if m == 0 or n == 0:
        return "empty"
    if m == 1 and n == 1:
        return "1x1"
    if n == 1:
        return "column"
    if m == 1:
        return "row"
    return "square" if m == n else "nonsquare"


def distribution(ops) -> dict:
    """Counts per op kind, type, expected outcome (computed from the op line alone: which check of
    the *specification* the input violates — not from either implementation) and shape class."""
    c = Counter()
    for op in ops:
        f = op.split("\t")
        kind = f[0]
        c["kind:" + kind] += 1
        if kind in ("rt", "wrap"):
            ty = f[1]
            c["type:" + ty] += 1
            c["expect:ok"] += 1
            if ty == "matrix":
                c["shape:" + _shape_class(int(f[2]), int(f[3]))] += 1
            elif ty in ("vector", "point2", "point3"):
                k = int(f[2])
                c["shape:" + ("empty" if k == 0 else "1x1" if k == 1 else "column")] += 1
            elif ty == "string":
                s = bytes.fromhex("" if f[2] == "-" else f[2])
                c["string:" + ("empty" if not s else "nul" if 0 in s else "long" if len(s) >= 200
                               else "ascii" if all(32 <= b < 127 for b in s) else "bytes")] += 1
            elif ty == "double":
                b = int(f[2], 16)
                e, mant = (b >> 52) & 0x7ff, b & ((1 << 52) - 1)
                c["double:" + ("nan" if e == 0x7ff and mant else "inf" if e == 0x7ff else
                               "zero" if e == 0 and mant == 0 else "denormal" if e == 0 else "normal")] += 1
            elif ty in ("int", "char"):
                c["sign:" + ("neg" if int(f[2]) < 0 else "nonneg")] += 1
            elif ty == "size_t":
                c["size_t:" + (">=2^32" if int(f[2]) >= 2**32 else "<2^32")] += 1
        elif kind == "unwrap":
            ty, cid, m, n = f[1], int(f[2]), int(f[3]), int(f[4])
            c["type:" + ty] += 1
            c["class:%d" % cid] += 1
            c["shape:" + _shape_class(m, n)] += 1
            if ty in SCALARS:
                ok = (m, n) == (1, 1)
                if ok:
                    c["scalarpath:" + ("int64" if cid == INT64 else "uint64" if cid == UINT64 else "mxGetScalar")] += 1
            elif ty == "vector":
                ok = cid == DOUBLE and n == 1
            elif ty == "point2":
                ok = cid == DOUBLE and n == 1 and m == 2
            elif ty == "point3":
                ok = cid == DOUBLE and n == 1 and m == 3
            elif ty == "matrix":
                ok = cid == DOUBLE
            else:
                ok = cid == CHAR
            c["expect:" + ("ok" if ok else "err")] += 1
        elif kind == "handles":
            toks = f[1].split(" ")
            c["handles:ops"] += len(toks)
            for t in toks:
                c["hop:" + t.split(":")[0]] += 1
    return dict(sorted(c.items()))


if __name__ == "__main__":
    import argparse
    import json
    import sys

    ap = argparse.ArgumentParser(description="emit C18 op lines")
    ap.add_argument("-n", type=int, default=3000)
    ap.add_argument("--seed", type=int, default=18)
    ap.add_argument("--include-nul", action="store_true")
    ap.add_argument("--include-int-overflow", action="store_true")
    ap.add_argument("--distribution", action="store_true", help="print the distribution to stderr")
    a = ap.parse_args()
    ops_ = gen_ops(random.Random(a.seed), a.n, include_nul=a.include_nul,
                   include_int_overflow=a.include_int_overflow)
    sys.stdout.write("".join(o + "\n" for o in ops_))
    if a.distribution:
        json.dump(distribution(ops_), sys.stderr, indent=1)
        sys.stderr.write("\n")
