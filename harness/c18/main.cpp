// C18 correspondence driver: compiles the REAL /repo/matlab.h (found via -I/repo) against the
// mock mex.h and the stand-in gtsam headers in this directory, reads op lines on stdin and prints
// one result line per op in exactly the format of the Lean model's `handleLine`
// (WrapModel/Model/Runtime/Mx.lean).  Protocol: see NOTES.md.
//
// Part of the trusted base: the mock mx/mex functions below, the emulation of the generated
// MATLAB proxy constructor / collector / destructor, and the guards of the handle ops.

#include <matlab.h>  // the header under test (current working tree of /repo)

#include <cstdarg>
#include <iostream>
#include <map>

// ---------------------------------------------------------------------------------------------
// mock mx / mex implementation
// ---------------------------------------------------------------------------------------------

struct MexError {
  std::string id, msg;
};

static size_t elemSize(mxClassID c) {
  switch (c) {
    case mxLOGICAL_CLASS: return 1;
    case mxCHAR_CLASS: return 2;
    case mxDOUBLE_CLASS: return 8;
    case mxSINGLE_CLASS: return 4;
    case mxINT8_CLASS: case mxUINT8_CLASS: return 1;
    case mxINT16_CLASS: case mxUINT16_CLASS: return 2;
    case mxINT32_CLASS: case mxUINT32_CLASS: return 4;
    case mxINT64_CLASS: case mxUINT64_CLASS: return 8;
    default: return 0;  // cell, struct, function handle, ...: no numeric payload in the mock
  }
}

static mxArray* newArray(mxClassID c, size_t m, size_t n) {
  mxArray* a = static_cast<mxArray*>(calloc(1, sizeof(mxArray)));
  a->classid = c;
  a->m = m;
  a->n = n;
  a->is_complex = 0;
  a->nbytes = m * n * elemSize(c);
  a->data = a->nbytes ? calloc(a->nbytes, 1) : NULL;  // zero-initialised
  return a;
}

extern "C" {

mxArray* mxCreateNumericArray(mwSize ndim, const mwSize* dims, mxClassID classid, mxComplexity) {
  // fewer than 2 dimensions are padded with 1; mxGetN is the product of dimensions 2..ndim
  size_t m = ndim >= 1 ? dims[0] : 1, n = 1;
  for (mwSize k = 1; k < ndim; k++) n *= dims[k];
  return newArray(classid, m, n);
}
mxArray* mxCreateNumericMatrix(mwSize m, mwSize n, mxClassID classid, mxComplexity) {
  return newArray(classid, m, n);
}
mxArray* mxCreateDoubleMatrix(mwSize m, mwSize n, mxComplexity) {
  return newArray(mxDOUBLE_CLASS, m, n);
}
mxArray* mxCreateDoubleScalar(double value) {
  mxArray* a = newArray(mxDOUBLE_CLASS, 1, 1);
  memcpy(a->data, &value, 8);
  return a;
}
mxArray* mxCreateString(const char* str) {
  size_t len = strlen(str);
  mxArray* a = newArray(mxCHAR_CLASS, len == 0 ? 0 : 1, len);   // the empty string is MATLAB's '' : a 0-by-0 char array
  mxChar* d = static_cast<mxChar*>(a->data);
  for (size_t i = 0; i < len; i++) d[i] = static_cast<mxChar>(static_cast<unsigned char>(str[i]));
  return a;
}
mxArray* mxDuplicateArray(const mxArray* in) {
  mxArray* a = newArray(in->classid, in->m, in->n);
  a->is_complex = in->is_complex;
  if (in->nbytes) memcpy(a->data, in->data, in->nbytes);
  memcpy(a->classname, in->classname, sizeof(a->classname));
  a->nprops = in->nprops;
  for (int i = 0; i < in->nprops; i++) {
    memcpy(a->props[i].name, in->props[i].name, sizeof(a->props[i].name));
    a->props[i].value = mxDuplicateArray(in->props[i].value);
  }
  return a;
}
void mxDestroyArray(mxArray* pm) {
  if (!pm) return;
  for (int i = 0; i < pm->nprops; i++) mxDestroyArray(pm->props[i].value);
  free(pm->data);
  free(pm);
}
void mxFree(void* ptr) { free(ptr); }

void* mxGetData(const mxArray* pm) { return pm->data; }
double* mxGetPr(const mxArray* pm) {
  return pm->classid == mxDOUBLE_CLASS ? static_cast<double*>(pm->data) : NULL;
}
size_t mxGetM(const mxArray* pm) { return pm->m; }
size_t mxGetN(const mxArray* pm) { return pm->n; }
mxClassID mxGetClassID(const mxArray* pm) { return pm->classid; }
bool mxIsDouble(const mxArray* pm) { return pm->classid == mxDOUBLE_CLASS; }
bool mxIsComplex(const mxArray* pm) { return pm->is_complex != 0; }
bool mxIsEmpty(const mxArray* pm) { return pm->m == 0 || pm->n == 0; }
size_t mxGetNumberOfElements(const mxArray* pm) { return pm->m * pm->n; }
mwSize mxGetNumberOfDimensions(const mxArray*) { return 2; }
size_t mxGetElementSize(const mxArray* pm) {
  switch (pm->classid) {
    case mxLOGICAL_CLASS: case mxINT8_CLASS: case mxUINT8_CLASS: return 1;
    case mxCHAR_CLASS: case mxINT16_CLASS: case mxUINT16_CLASS: return 2;
    case mxSINGLE_CLASS: case mxINT32_CLASS: case mxUINT32_CLASS: return 4;
    case mxDOUBLE_CLASS: case mxINT64_CLASS: case mxUINT64_CLASS: return 8;
    default: return sizeof(void*);
  }
}
bool mxIsNumeric(const mxArray* pm) { return pm->classid >= mxDOUBLE_CLASS && pm->classid <= mxUINT64_CLASS; }
bool mxIsChar(const mxArray* pm) { return pm->classid == mxCHAR_CLASS; }
bool mxIsLogical(const mxArray* pm) { return pm->classid == mxLOGICAL_CLASS; }
bool mxIsCell(const mxArray* pm) { return pm->classid == mxCELL_CLASS; }
bool mxIsStruct(const mxArray* pm) { return pm->classid == mxSTRUCT_CLASS; }
bool mxIsSingle(const mxArray* pm) { return pm->classid == mxSINGLE_CLASS; }
bool mxIsInt8(const mxArray* pm) { return pm->classid == mxINT8_CLASS; }
bool mxIsUint8(const mxArray* pm) { return pm->classid == mxUINT8_CLASS; }
bool mxIsInt16(const mxArray* pm) { return pm->classid == mxINT16_CLASS; }
bool mxIsUint16(const mxArray* pm) { return pm->classid == mxUINT16_CLASS; }
bool mxIsInt32(const mxArray* pm) { return pm->classid == mxINT32_CLASS; }
bool mxIsUint32(const mxArray* pm) { return pm->classid == mxUINT32_CLASS; }
bool mxIsInt64(const mxArray* pm) { return pm->classid == mxINT64_CLASS; }
bool mxIsUint64(const mxArray* pm) { return pm->classid == mxUINT64_CLASS; }
bool mxIsClass(const mxArray* pm, const char* classname) {
  return pm->classid == mxOBJECT_CLASS ? std::strcmp(pm->classname, classname) == 0
       : (pm->classid == mxDOUBLE_CLASS && std::strcmp(classname, "double") == 0);
}
bool mxIsSparse(const mxArray*) { return false; }
bool mxIsScalar(const mxArray* pm) { return pm->m == 1 && pm->n == 1; }
mxChar* mxGetChars(const mxArray* pm) { return pm->classid == mxCHAR_CLASS ? static_cast<mxChar*>(pm->data) : nullptr; }

double mxGetScalar(const mxArray* pm) {
  // first element converted to double; 0.0 for cell/struct (documented) and other non-numerics.
  // (unspecified for empty arrays: matlab.h only calls it after checkScalar)
  const void* p = pm->data;
  if (!p) return 0.0;
  switch (pm->classid) {
    case mxDOUBLE_CLASS: { double v; memcpy(&v, p, 8); return v; }
    case mxSINGLE_CLASS: { float v; memcpy(&v, p, 4); return v; }
    case mxLOGICAL_CLASS: { uint8_t v; memcpy(&v, p, 1); return v; }
    case mxCHAR_CLASS: { uint16_t v; memcpy(&v, p, 2); return v; }
    case mxINT8_CLASS: { int8_t v; memcpy(&v, p, 1); return v; }
    case mxUINT8_CLASS: { uint8_t v; memcpy(&v, p, 1); return v; }
    case mxINT16_CLASS: { int16_t v; memcpy(&v, p, 2); return v; }
    case mxUINT16_CLASS: { uint16_t v; memcpy(&v, p, 2); return v; }
    case mxINT32_CLASS: { int32_t v; memcpy(&v, p, 4); return v; }
    case mxUINT32_CLASS: { uint32_t v; memcpy(&v, p, 4); return v; }
    case mxINT64_CLASS: { int64_t v; memcpy(&v, p, 8); return static_cast<double>(v); }
    case mxUINT64_CLASS: { uint64_t v; memcpy(&v, p, 8); return static_cast<double>(v); }
    default: return 0.0;
  }
}

char* mxArrayToString(const mxArray* pm) {
  if (pm->classid != mxCHAR_CLASS) return NULL;
  size_t len = pm->m * pm->n;
  char* s = static_cast<char*>(malloc(len + 1));
  const mxChar* d = static_cast<const mxChar*>(pm->data);
  for (size_t i = 0; i < len; i++) s[i] = static_cast<char>(d[i] & 0xff);  // byte-transparent locale
  s[len] = 0;
  return s;
}
int mxGetString(const mxArray* pm, char* str, mwSize strlen_) {
  if (pm->classid != mxCHAR_CLASS) return 1;
  size_t len = pm->m * pm->n;
  if (len + 1 > strlen_) return 1;
  const mxChar* d = static_cast<const mxChar*>(pm->data);
  for (size_t i = 0; i < len; i++) str[i] = static_cast<char>(d[i] & 0xff);
  str[len] = 0;
  return 0;
}
mxArray* mxGetField(const mxArray*, mwIndex, const char*) { return NULL; }

mxArray* mxGetProperty(const mxArray* pa, mwIndex, const char* propname) {
  // documented: returns a COPY of the property value
  for (int i = 0; i < pa->nprops; i++)
    if (strcmp(pa->props[i].name, propname) == 0) return mxDuplicateArray(pa->props[i].value);
  return NULL;
}

void mexErrMsgIdAndTxt(const char* errorid, const char* errormsg, ...) {
  char buf[1024];
  va_list ap;
  va_start(ap, errormsg);
  vsnprintf(buf, sizeof buf, errormsg, ap);
  va_end(ap);
  throw MexError{errorid, buf};  // MATLAB: aborts the MEX function, control returns to the prompt
}
void mexErrMsgTxt(const char* errormsg) { throw MexError{"", errormsg}; }
int mexPrintf(const char*, ...) { return 0; }
int mexAtExit(void (*)(void)) { return 0; }
const mxArray* mexGetVariablePtr(const char*, const char*) { return NULL; }

}  // extern "C"

// ---------------------------------------------------------------------------------------------
// The wrapped C++ class and the code the MATLAB wrapper generator emits for it
// (pattern of tests/expected/matlab/class_wrapper.cpp and FunRange.m)
// ---------------------------------------------------------------------------------------------

static std::vector<char> g_alive;  // per object: destructor not yet run

struct Obj {
  int id;
  explicit Obj(int i) : id(i) {}
  ~Obj() { g_alive[static_cast<size_t>(id)] = 0; }
};

typedef std::set<std::shared_ptr<Obj>*> Collector_Obj;
static Collector_Obj collector_Obj;

// Obj_collectorInsertAndMakeBase_0
static void Obj_collectorInsertAndMakeBase_0(int, mxArray*[], int, const mxArray* in[]) {
  typedef std::shared_ptr<Obj> Shared;
  Shared* self = *reinterpret_cast<Shared**>(mxGetData(in[0]));
  collector_Obj.insert(self);
}

// Obj_deconstructor_2
static void Obj_deconstructor_2(int nargout, mxArray*[], int nargin, const mxArray* in[]) {
  typedef std::shared_ptr<Obj> Shared;
  checkArguments("delete_Obj", nargout, nargin, 1);
  Shared* self = *reinterpret_cast<Shared**>(mxGetData(in[0]));
  Collector_Obj::iterator item;
  item = collector_Obj.find(self);
  if (item != collector_Obj.end()) {
    collector_Obj.erase(item);
  }
  delete self;
}

extern "C" int mexCallMATLAB(int nlhs, mxArray* plhs[], int nrhs, mxArray* prhs[], const char* functionName) {
  // Emulates the generated proxy constructor (Obj.m):
  //   if nargin == 2 && isa(varargin{1}, 'uint64') && varargin{1} == uint64(5139824614673773682)
  //     my_ptr = varargin{2};
  //     class_wrapper(0, my_ptr);
  //   ...
  //   obj.ptr_Obj = my_ptr;
  if (strcmp(functionName, "Obj") != 0 || nlhs != 1) throw MexError{"mock:callMATLAB", functionName};
  if (nrhs == 2 && prhs[0]->classid == mxUINT64_CLASS && prhs[0]->m * prhs[0]->n == 1 &&
      *static_cast<uint64_t*>(prhs[0]->data) == 5139824614673773682ULL) {
    const mxArray* in[1] = {prhs[1]};
    Obj_collectorInsertAndMakeBase_0(0, NULL, 1, in);
    mxArray* obj = newArray(mxOBJECT_CLASS, 1, 1);
    snprintf(obj->classname, sizeof obj->classname, "%s", functionName);
    obj->nprops = 1;
    snprintf(obj->props[0].name, sizeof obj->props[0].name, "ptr_Obj");
    obj->props[0].value = mxDuplicateArray(prhs[1]);  // MATLAB value semantics
    plhs[0] = obj;
    return 0;
  }
  throw MexError{"mock:callMATLAB", "Arguments do not match any overload of Obj constructor"};
}

// ---------------------------------------------------------------------------------------------
// protocol helpers
// ---------------------------------------------------------------------------------------------

static std::vector<std::string> split(const std::string& s, char sep) {
  std::vector<std::string> out;
  size_t start = 0;
  for (;;) {
    size_t p = s.find(sep, start);
    if (p == std::string::npos) { out.push_back(s.substr(start)); break; }
    out.push_back(s.substr(start, p - start));
    start = p + 1;
  }
  return out;
}

struct Bad {};

static int hexVal(char c) {
  if (c >= '0' && c <= '9') return c - '0';
  if (c >= 'a' && c <= 'f') return c - 'a' + 10;
  throw Bad();
}
static std::string parseHexBytes(const std::string& s) {
  if (s == "-") return std::string();
  if (s.size() % 2) throw Bad();
  std::string out;
  for (size_t i = 0; i < s.size(); i += 2) out.push_back(static_cast<char>(hexVal(s[i]) * 16 + hexVal(s[i + 1])));
  return out;
}
static std::vector<uint64_t> parseHex64s(const std::string& s) {
  std::string b = parseHexBytes(s);
  if (b.size() % 8) throw Bad();
  std::vector<uint64_t> out;
  for (size_t i = 0; i < b.size(); i += 8) {
    uint64_t x = 0;
    for (int k = 0; k < 8; k++) x = (x << 8) | static_cast<unsigned char>(b[i + k]);
    out.push_back(x);
  }
  return out;
}
static unsigned long long parseNat(const std::string& s) {
  if (s.empty() || s.size() > 20) throw Bad();
  unsigned __int128 x = 0;
  for (char c : s) {
    if (c < '0' || c > '9') throw Bad();
    x = x * 10 + static_cast<unsigned>(c - '0');
  }
  if (x > ~0ULL) throw Bad();
  return static_cast<unsigned long long>(x);
}
static long long parseInt(const std::string& s) {
  if (!s.empty() && s[0] == '-') {
    unsigned long long v = parseNat(s.substr(1));
    if (v > (1ULL << 63)) throw Bad();
    return static_cast<long long>(0ULL - v);
  }
  unsigned long long v = parseNat(s);
  if (v >= (1ULL << 63)) throw Bad();
  return static_cast<long long>(v);
}
static std::string hexBytes(const void* p, size_t n) {
  if (n == 0) return "-";
  static const char* dig = "0123456789abcdef";
  std::string out;
  const unsigned char* b = static_cast<const unsigned char*>(p);
  for (size_t i = 0; i < n; i++) { out.push_back(dig[b[i] >> 4]); out.push_back(dig[b[i] & 15]); }
  return out;
}
static std::string hex64(uint64_t x) {
  char buf[17];
  snprintf(buf, sizeof buf, "%016llx", static_cast<unsigned long long>(x));
  return buf;
}
static double bitsToDouble(uint64_t b) { double d; memcpy(&d, &b, 8); return d; }
static uint64_t doubleToBits(double d) { uint64_t b; memcpy(&b, &d, 8); return b; }

static std::string showMx(const mxArray* a) {
  std::ostringstream os;
  os << "mx " << static_cast<int>(a->classid) << " " << a->m << " " << a->n << " " << hexBytes(a->data, a->nbytes);
  return os.str();
}
static std::string showVec(const gtsam::Vector& v) {
  std::ostringstream os;
  os << v.size() << " ";
  if (v.size() == 0) os << "-";
  for (long i = 0; i < v.size(); i++) os << hex64(doubleToBits(v(i)));
  return os.str();
}
static std::string showMat(const gtsam::Matrix& A) {
  std::ostringstream os;
  os << A.rows() << " " << A.cols() << " ";
  if (A.rows() * A.cols() == 0) os << "-";
  for (long i = 0; i < A.rows(); i++)
    for (long j = 0; j < A.cols(); j++) os << hex64(doubleToBits(A(i, j)));
  return os.str();
}

static gtsam::Vector makeVec(const std::string& len, const std::string& hex) {
  unsigned long long n = parseNat(len);
  std::vector<uint64_t> ds = parseHex64s(hex);
  if (ds.size() != n) throw Bad();
  gtsam::Vector v(static_cast<long>(n));
  for (size_t i = 0; i < ds.size(); i++) v(static_cast<long>(i)) = bitsToDouble(ds[i]);
  return v;
}

// `wrap <ty> <args…>`: returns the wrapped array
static mxArray* doWrap(const std::string& ty, const std::vector<std::string>& f, size_t k) {
  size_t nargs = f.size() - k;
  if (ty == "bool" && nargs == 1) {
    if (f[k] != "0" && f[k] != "1") throw Bad();
    return wrap<bool>(f[k] == "1");
  } else if (ty == "char" && nargs == 1) {
    long long v = parseInt(f[k]);
    if (v < -128 || v > 127) throw Bad();
    return wrap<char>(static_cast<char>(v));
  } else if (ty == "uchar" && nargs == 1) {
    unsigned long long v = parseNat(f[k]);
    if (v > 255) throw Bad();
    return wrap<unsigned char>(static_cast<unsigned char>(v));
  } else if (ty == "int" && nargs == 1) {
    long long v = parseInt(f[k]);
    if (v < -2147483648LL || v > 2147483647LL) throw Bad();
    return wrap<int>(static_cast<int>(v));
  } else if (ty == "size_t" && nargs == 1) {
    return wrap<size_t>(static_cast<size_t>(parseNat(f[k])));
  } else if (ty == "double" && nargs == 1) {
    std::vector<uint64_t> ds = parseHex64s(f[k]);
    if (ds.size() != 1) throw Bad();
    return wrap<double>(bitsToDouble(ds[0]));
  } else if (ty == "string" && nargs == 1) {
    return wrap<string>(parseHexBytes(f[k]));
  } else if (ty == "vector" && nargs == 2) {
    return wrap<gtsam::Vector>(makeVec(f[k], f[k + 1]));
  } else if (ty == "point2" && nargs == 2) {
    gtsam::Vector v = makeVec(f[k], f[k + 1]);
    if (v.size() != 2) throw Bad();
    return wrap<gtsam::Point2>(gtsam::Point2(v));
  } else if (ty == "point3" && nargs == 2) {
    gtsam::Vector v = makeVec(f[k], f[k + 1]);
    if (v.size() != 3) throw Bad();
    return wrap<gtsam::Point3>(gtsam::Point3(v));
  } else if (ty == "matrix" && nargs == 3) {
    unsigned long long r = parseNat(f[k]), c = parseNat(f[k + 1]);
    std::vector<uint64_t> ds = parseHex64s(f[k + 2]);
    if (ds.size() != r * c) throw Bad();
    gtsam::Matrix A(static_cast<long>(r), static_cast<long>(c));
    for (unsigned long long i = 0; i < r; i++)
      for (unsigned long long j = 0; j < c; j++)
        A(static_cast<long>(i), static_cast<long>(j)) = bitsToDouble(ds[i * c + j]);
    return wrap<gtsam::Matrix>(A);
  }
  throw Bad();
}

// `unwrap<ty>(a)` rendered as `ok <value>` / `err <id>|<msg>`
static std::string doUnwrap(const std::string& ty, const mxArray* a) {
  std::ostringstream os;
  try {
    if (ty == "bool") os << "ok " << (unwrap<bool>(a) ? 1 : 0);
    else if (ty == "char") os << "ok " << static_cast<int>(static_cast<signed char>(unwrap<char>(a)));
    else if (ty == "uchar") os << "ok " << static_cast<int>(unwrap<unsigned char>(a));
    else if (ty == "int") os << "ok " << unwrap<int>(a);
    else if (ty == "size_t") os << "ok " << unwrap<size_t>(a);
    else if (ty == "double") os << "ok " << hex64(doubleToBits(unwrap<double>(a)));
    else if (ty == "string") { std::string s = unwrap<string>(a); os << "ok " << hexBytes(s.data(), s.size()); }
    else if (ty == "vector") os << "ok " << showVec(unwrap<gtsam::Vector>(a));
    else if (ty == "point2") os << "ok " << showVec(unwrap<gtsam::Point2>(a));
    else if (ty == "point3") os << "ok " << showVec(unwrap<gtsam::Point3>(a));
    else if (ty == "matrix") os << "ok " << showMat(unwrap<gtsam::Matrix>(a));
    else throw Bad();
  } catch (const MexError& e) {
    return "err " + e.id + "|" + e.msg;
  } catch (const gtsam::StandinError& e) {
    return "err standin:size|" + e.what_;
  }
  return os.str();
}

// ---------------------------------------------------------------------------------------------
// handle histories
// ---------------------------------------------------------------------------------------------

struct HandleWorld {
  typedef std::shared_ptr<Obj> Shared;
  std::vector<std::weak_ptr<Obj> > weak;
  std::vector<Obj*> addr;
  std::vector<std::vector<Shared> > ext;   // references the C++ side itself holds
  std::map<unsigned long long, mxArray*> handles;
  std::map<unsigned long long, bool> isFake;
  unsigned long long nextHandle = 0;

  std::string state() const {
    std::ostringstream os;
    if (weak.empty()) os << "-/-";
    else {
      for (size_t i = 0; i < weak.size(); i++) os << (g_alive[i] ? '1' : '0');
      os << "/";
      for (size_t i = 0; i < weak.size(); i++) os << (i ? "," : "") << weak[i].use_count();
    }
    os << "/" << collector_Obj.size();
    return os.str();
  }

  std::string step(const std::string& tok) {
    std::vector<std::string> p = split(tok, ':');
    try {
      if (p[0] == "new" && p.size() == 1) {
        int id = static_cast<int>(weak.size());
        g_alive.push_back(1);
        Shared sp = std::make_shared<Obj>(id);
        weak.push_back(sp);
        addr.push_back(sp.get());
        ext.push_back(std::vector<Shared>(1, sp));
        return "o" + std::to_string(id);
      } else if (p[0] == "wrap" && p.size() == 2) {
        unsigned long long o = parseNat(p[1]);
        if (o >= ext.size() || ext[o].empty()) return "guard:noext";
        mxArray* h = wrap_shared_ptr<Obj>(ext[o][0], "Obj", false);
        handles[nextHandle] = h;
        isFake[nextHandle] = false;
        return "h" + std::to_string(nextHandle++);
      } else if (p[0] == "unwrap" && p.size() == 2) {
        unsigned long long h = parseNat(p[1]);
        if (!handles.count(h)) return "guard:nohandle";
        int id;
        {
          Shared sp = unwrap_shared_ptr<Obj>(handles[h], "ptr_Obj");
          id = sp->id;
        }  // the temporary dies here
        return "o" + std::to_string(id);
      } else if (p[0] == "ptr" && p.size() == 2) {
        unsigned long long h = parseNat(p[1]);
        if (!handles.count(h)) return "guard:nohandle";
        if (isFake[h]) return "guard:fake";
        Obj* x = unwrap_ptr<Obj>(handles[h], "ptr_Obj");
        for (size_t i = 0; i < addr.size(); i++)
          if (g_alive[i] && x == addr[i]) return "object";
        if (collector_Obj.count(reinterpret_cast<Shared*>(x))) return "heapcell";
        // x is the payload of a 1x1 uint64 array here: does it hold the address of a live cell?
        Shared* inside;
        memcpy(&inside, x, sizeof inside);
        if (collector_Obj.count(inside)) return "mxdata";
        return "other";
      } else if (p[0] == "release" && p.size() == 2) {
        unsigned long long h = parseNat(p[1]);
        if (!handles.count(h)) return "guard:nohandle";
        if (isFake[h]) return "guard:fake";
        // MATLAB: delete(obj) -> class_wrapper(2, obj.ptr_Obj)
        mxArray* prop = mxGetProperty(handles[h], 0, "ptr_Obj");
        const mxArray* in[1] = {prop};
        Obj_deconstructor_2(0, NULL, 1, in);
        mxDestroyArray(prop);
        mxDestroyArray(handles[h]);
        handles.erase(h);
        isFake.erase(h);
        return "ok";
      } else if (p[0] == "drop" && p.size() == 2) {
        unsigned long long o = parseNat(p[1]);
        if (o >= ext.size() || ext[o].empty()) return "guard:noext";
        ext[o].pop_back();
        return "ok";
      } else if (p[0] == "fake" && p.size() == 5) {
        unsigned long long cid = parseNat(p[1]), m = parseNat(p[2]), n = parseNat(p[3]);
        if (cid > 18 || m > 16 || n > 16 || (p[4] != "0" && p[4] != "1")) throw Bad();
        bool c = p[4] == "1";
        if (cid == mxUINT64_CLASS && m == 1 && n == 1 && !c) return "guard:forged";
        mxArray* obj = newArray(mxOBJECT_CLASS, 1, 1);
        snprintf(obj->classname, sizeof obj->classname, "Obj");
        obj->nprops = 1;
        snprintf(obj->props[0].name, sizeof obj->props[0].name, "ptr_Obj");
        obj->props[0].value = newArray(static_cast<mxClassID>(cid), m, n);
        obj->props[0].value->is_complex = c;
        handles[nextHandle] = obj;
        isFake[nextHandle] = true;
        return "h" + std::to_string(nextHandle++);
      }
    } catch (const MexError& e) {
      return "err:" + e.id + "|" + e.msg;
    }
    throw Bad();
  }

  void reset() {
    // end of a history: MATLAB deletes all remaining handle objects, the C++ side drops its refs
    for (auto& kv : handles) {
      if (!isFake[kv.first]) {
        mxArray* prop = mxGetProperty(kv.second, 0, "ptr_Obj");
        const mxArray* in[1] = {prop};
        Obj_deconstructor_2(0, NULL, 1, in);
        mxDestroyArray(prop);
      }
      mxDestroyArray(kv.second);
    }
    handles.clear();
    isFake.clear();
    ext.clear();
    weak.clear();
    addr.clear();
    g_alive.clear();
    nextHandle = 0;
  }
};

static std::string doHandles(const std::string& ops) {
  // validate the whole line first (the model answers `bad` without running anything)
  std::vector<std::string> toks = split(ops, ' ');
  HandleWorld w;
  std::string out;
  try {
    for (size_t i = 0; i < toks.size(); i++) {
      std::string r = w.step(toks[i]);
      if (i) out += ";";
      out += r + "/" + w.state();
    }
  } catch (const Bad&) {
    w.reset();
    return "bad";
  }
  w.reset();
  if (!collector_Obj.empty()) return "harness-error: collector not empty after reset";
  return out;
}

static std::string handleLine(const std::vector<std::string>& f) {
  try {
    if (f.size() >= 3 && f[0] == "wrap") {
      mxArray* a = doWrap(f[1], f, 2);
      std::string s = showMx(a);
      mxDestroyArray(a);
      return s;
    } else if (f.size() >= 3 && f[0] == "rt") {
      mxArray* a = doWrap(f[1], f, 2);
      std::string s = showMx(a) + " => " + doUnwrap(f[1], a);
      mxDestroyArray(a);
      return s;
    } else if (f.size() == 6 && f[0] == "unwrap") {
      unsigned long long cid = parseNat(f[2]), m = parseNat(f[3]), n = parseNat(f[4]);
      if (cid > 18) throw Bad();
      std::string payload = parseHexBytes(f[5]);
      if (m > (1ULL << 40) || n > (1ULL << 40)) throw Bad();
      if (static_cast<unsigned __int128>(payload.size()) !=
          static_cast<unsigned __int128>(m) * n * elemSize(static_cast<mxClassID>(cid))) throw Bad();
      mxArray* a = newArray(static_cast<mxClassID>(cid), m, n);
      if (!payload.empty()) memcpy(a->data, payload.data(), payload.size());
      std::string s = doUnwrap(f[1], a);
      mxDestroyArray(a);
      return s;
    } else if (f.size() == 2 && f[0] == "handles") {
      return doHandles(f[1]);
    }
  } catch (const Bad&) {
    return "bad";
  } catch (const MexError& e) {
    return "err " + e.id + "|" + e.msg;
  } catch (const gtsam::StandinError& e) {
    return "err standin:size|" + e.what_;
  }
  return "bad";
}

int main() {
  std::ios::sync_with_stdio(false);
  std::string line;
  while (std::getline(std::cin, line)) {
    std::cout << handleLine(split(line, '\t')) << "\n";
  }
  return 0;
}
