/*
 * Mock of MATLAB's <mex.h> for the C18 correspondence harness.
 *
 * This file is part of the TRUSTED BASE: it is meant to behave like the documented MEX/mx API
 * for exactly the calls /repo/matlab.h makes.  Assumptions are listed in NOTES.md ("Mock mex.h").
 *
 * It is included by matlab.h inside `extern "C" { ... }`, so it only contains C declarations.
 * The definitions live in main.cpp.
 */
#ifndef C18_MOCK_MEX_H
#define C18_MOCK_MEX_H

#include <stddef.h>
#include <stdint.h>
#include <stdbool.h>

typedef size_t mwSize;
typedef size_t mwIndex;
typedef uint16_t mxChar;          /* MATLAB: 16-bit code units */
typedef bool mxLogical;
typedef int32_t int32_T;
typedef int64_t int64_T;
typedef uint64_t uint64_T;

/* numeric values as in MATLAB's matrix.h */
typedef enum {
  mxUNKNOWN_CLASS = 0,
  mxCELL_CLASS,
  mxSTRUCT_CLASS,
  mxLOGICAL_CLASS,
  mxCHAR_CLASS,
  mxVOID_CLASS,
  mxDOUBLE_CLASS,
  mxSINGLE_CLASS,
  mxINT8_CLASS,
  mxUINT8_CLASS,
  mxINT16_CLASS,
  mxUINT16_CLASS,
  mxINT32_CLASS,
  mxUINT32_CLASS,
  mxINT64_CLASS,
  mxUINT64_CLASS,
  mxFUNCTION_CLASS,
  mxOPAQUE_CLASS,
  mxOBJECT_CLASS
} mxClassID;

typedef enum { mxREAL = 0, mxCOMPLEX } mxComplexity;

#define C18_MAX_PROPS 4
struct mxArray_tag;
typedef struct mxArray_tag mxArray;

struct c18_prop {
  char name[64];
  mxArray *value;
};

struct mxArray_tag {
  mxClassID classid;
  mwSize m;              /* mxGetM */
  mwSize n;              /* mxGetN (product of the trailing dimensions) */
  int is_complex;
  void *data;            /* NULL for empty arrays and for non-numeric classes */
  size_t nbytes;
  /* handle-object part (classid == mxOBJECT_CLASS) */
  char classname[64];
  int nprops;
  struct c18_prop props[C18_MAX_PROPS];
};

/* creation */
mxArray *mxCreateNumericArray(mwSize ndim, const mwSize *dims, mxClassID classid, mxComplexity flag);
mxArray *mxCreateNumericMatrix(mwSize m, mwSize n, mxClassID classid, mxComplexity flag);
mxArray *mxCreateDoubleMatrix(mwSize m, mwSize n, mxComplexity flag);
mxArray *mxCreateDoubleScalar(double value);
mxArray *mxCreateString(const char *str);
mxArray *mxDuplicateArray(const mxArray *in);
void mxDestroyArray(mxArray *pm);
void mxFree(void *ptr);

/* access */
void *mxGetData(const mxArray *pm);
double *mxGetPr(const mxArray *pm);
size_t mxGetM(const mxArray *pm);
size_t mxGetN(const mxArray *pm);
mxClassID mxGetClassID(const mxArray *pm);
double mxGetScalar(const mxArray *pm);
bool mxIsDouble(const mxArray *pm);
bool mxIsComplex(const mxArray *pm);
/* further documented queries (not called by the unchanged matlab.h; present so that edits of it still build) */
bool mxIsEmpty(const mxArray *pm);
size_t mxGetNumberOfElements(const mxArray *pm);
mwSize mxGetNumberOfDimensions(const mxArray *pm);
size_t mxGetElementSize(const mxArray *pm);
bool mxIsNumeric(const mxArray *pm);
bool mxIsChar(const mxArray *pm);
bool mxIsLogical(const mxArray *pm);
bool mxIsCell(const mxArray *pm);
bool mxIsStruct(const mxArray *pm);
bool mxIsSingle(const mxArray *pm);
bool mxIsInt8(const mxArray *pm);
bool mxIsUint8(const mxArray *pm);
bool mxIsInt16(const mxArray *pm);
bool mxIsUint16(const mxArray *pm);
bool mxIsInt32(const mxArray *pm);
bool mxIsUint32(const mxArray *pm);
bool mxIsInt64(const mxArray *pm);
bool mxIsUint64(const mxArray *pm);
bool mxIsClass(const mxArray *pm, const char *classname);
bool mxIsSparse(const mxArray *pm);
bool mxIsScalar(const mxArray *pm);
mxChar *mxGetChars(const mxArray *pm);
char *mxArrayToString(const mxArray *pm);
int mxGetString(const mxArray *pm, char *str, mwSize strlen);
mxArray *mxGetField(const mxArray *pm, mwIndex index, const char *fieldname);
mxArray *mxGetProperty(const mxArray *pa, mwIndex index, const char *propname);

/* mex */
void mexErrMsgIdAndTxt(const char *errorid, const char *errormsg, ...);
void mexErrMsgTxt(const char *errormsg);
int mexPrintf(const char *message, ...);
int mexAtExit(void (*exitFcn)(void));
int mexCallMATLAB(int nlhs, mxArray *plhs[], int nrhs, mxArray *prhs[], const char *functionName);
const mxArray *mexGetVariablePtr(const char *workspace, const char *varname);

#endif
