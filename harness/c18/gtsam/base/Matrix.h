// Stand-in for <gtsam/base/Matrix.h>: dynamic matrix of double with Matrix(int,int), rows(),
// cols(), operator()(i,j).  Storage is ROW-major on purpose (differs from MATLAB's layout).
#pragma once
#include <gtsam/base/Vector.h>

namespace gtsam {

class Matrix {
 public:
  Matrix() : r_(0), c_(0) {}
  Matrix(long m, long n) : r_(m), c_(n) {
    if (m < 0 || n < 0) throw StandinError("negative size");
    d_.assign(static_cast<size_t>(m) * static_cast<size_t>(n), 0.0);
  }
  long rows() const { return r_; }
  long cols() const { return c_; }
  double& operator()(long i, long j) {
    if (i < 0 || i >= r_ || j < 0 || j >= c_) throw StandinError("index");
    return d_[static_cast<size_t>(i * c_ + j)];
  }
  const double& operator()(long i, long j) const {
    if (i < 0 || i >= r_ || j < 0 || j >= c_) throw StandinError("index");
    return d_[static_cast<size_t>(i * c_ + j)];
  }

 private:
  long r_, c_;
  std::vector<double> d_;
};

}  // namespace gtsam
