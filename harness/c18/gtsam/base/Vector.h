// Stand-in for <gtsam/base/Vector.h>: a tiny dynamic vector of double with the part of the
// Eigen interface matlab.h uses: Vector(int), size(), operator()(i).  No Eigen is installed.
#pragma once
#include <cstddef>
#include <cstdint>
#include <cstdio>
#include <cstdlib>
#include <cstring>
#include <memory>
#include <stdexcept>
#include <string>
#include <vector>

namespace gtsam {

// thrown where Eigen would hit an assertion (bad index / bad fixed size)
struct StandinError : std::runtime_error {
  std::string what_;
  explicit StandinError(const std::string& w) : std::runtime_error(w), what_(w) {}
};

class Vector {
 public:
  Vector() {}
  explicit Vector(long m) {
    if (m < 0) throw StandinError("negative size");
    d_.assign(static_cast<size_t>(m), 0.0);
  }
  long size() const { return static_cast<long>(d_.size()); }   // Eigen::Index is ptrdiff_t
  double& operator()(long i) {
    if (i < 0 || i >= size()) throw StandinError("index");
    return d_[static_cast<size_t>(i)];
  }
  const double& operator()(long i) const {
    if (i < 0 || i >= size()) throw StandinError("index");
    return d_[static_cast<size_t>(i)];
  }

 private:
  std::vector<double> d_;
};

}  // namespace gtsam
