// Stand-in for <gtsam/base/utilities.h>: matlab.h needs nothing from it.
#pragma once
