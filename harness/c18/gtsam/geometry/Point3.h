// Stand-in for <gtsam/geometry/Point3.h>: a fixed-size (3) vector convertible from Vector.
#pragma once
#include <gtsam/base/Vector.h>

namespace gtsam {

struct Point3 : public Vector {
  Point3() : Vector(3) {}
  Point3(const Vector& v) : Vector(v) {
    if (v.size() != 3) throw StandinError("Point3");
  }
};

}  // namespace gtsam
