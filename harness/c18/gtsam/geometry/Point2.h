// Stand-in for <gtsam/geometry/Point2.h>: a fixed-size (2) vector convertible from Vector.
#pragma once
#include <gtsam/base/Vector.h>

namespace gtsam {

struct Point2 : public Vector {
  Point2() : Vector(2) {}
  Point2(const Vector& v) : Vector(v) {   // like Eigen: assigning a dynamic vector of wrong size asserts
    if (v.size() != 2) throw StandinError("Point2");
  }
};

}  // namespace gtsam
