"""Canonical text of the implementation's parse tree (mirror of lean/WrapModel/Model/Dump.lean)."""
import gtwrap.interface_parser as ip
from gtwrap.interface_parser.template import Template


def q(s):
    return '"' + str(s).replace('\\', '\\\\').replace('"', '\\"').replace('\n', '\\n') + '"'


def L(xs):
    return '[' + ','.join(xs) + ']'


def opt(f, x):
    return 'None' if x is None else f(x)


def tn(t):
    return 'T(' + L([q(n) for n in t.namespaces]) + ',' + q(t.name) + ',[' + ','.join(tn(i) for i in t.instantiations) + '])'


def quals(t):
    c = 'c' if t.is_const else '-'
    if t.is_shared_ptr:
        s = '*'
    elif t.is_ptr:
        s = '@'
    elif t.is_ref:
        s = '&'
    else:
        s = '-'
    return c + s


def ty(t):
    if isinstance(t, ip.TemplatedType):
        return 'X(' + tn(t.typename) + ',[' + ','.join(ty(p) for p in t.template_params) + '],' + quals(t) + ')'
    if isinstance(t, ip.Type):
        return 'S(' + tn(t.typename) + ',' + quals(t) + ',' + ('b' if t.is_basic else '-') + ')'
    raise TypeError('not a type: %r' % (t,))


def arg(a):
    return 'A(' + ty(a.ctype) + ',' + q(a.name) + ',' + opt(q, a.default) + ')'


def args(al):
    return L([arg(a) for a in al.list()])


def ret(r):
    return 'R(' + ty(r.type1) + ',' + (ty(r.type2) if r.type2 else 'None') + ')'


def tmpl(t):
    if not isinstance(t, Template):
        return 'None'
    return 'TP(' + L([q(n) for n in t.typenames]) + ',' + L([L([tn(i) for i in il]) for il in t.instantiations]) + ')'


def path(o):
    p = getattr(o, 'parent', '')
    if isinstance(p, str) or p is None:
        return 'None'
    names = []
    while not (isinstance(p, str) or p is None):
        names.insert(0, p.name)
        p = getattr(p, 'parent', '')
    return L([q(n) for n in names])


def enum_d(e):
    return 'Enum(' + q(e.name) + ',' + L([q(x.name) for x in e.enumerators]) + ',' + path(e) + ')'


def var_d(v):
    return 'Var(' + ty(v.ctype) + ',' + q(v.name) + ',' + opt(q, v.default) + ',' + path(v) + ')'


def flag(x, s):
    return s if x else '-'


def ctor_d(c):
    return 'Ctor(' + tmpl(c.template) + ',' + q(c.name) + ',' + args(c.args) + ',' + path(c) + ')'


def method_d(m):
    return ('Method(' + tmpl(m.template) + ',' + ret(m.return_type) + ',' + q(m.name) + ',' + args(m.args) + ','
            + flag(m.is_const, 'c') + ',' + path(m) + ')')


def static_d(m):
    return 'Static(' + tmpl(m.template) + ',' + ret(m.return_type) + ',' + q(m.name) + ',' + args(m.args) + ',' + path(m) + ')'


def op_d(o):
    return 'Op(' + ret(o.return_type) + ',' + q(o.operator) + ',' + args(o.args) + ',' + path(o) + ')'


def dunder_d(d):
    return 'Dunder(' + q(d.name) + ',' + args(d.args) + ',' + path(d) + ')'


def parent_d(p):
    if not p:
        return 'None'
    if isinstance(p, ip.TemplatedType):
        return ty(p)
    if isinstance(p, ip.Typename):
        return 'PT(' + tn(p) + ')'
    raise TypeError('parent_class %r' % (p,))


def class_d(c):
    return ('Class(' + tmpl(c.template) + ',' + flag(c.is_virtual, 'v') + ',' + q(c.name) + ',' + parent_d(c.parent_class) + ','
            + L([ctor_d(x) for x in c.ctors]) + ',' + L([method_d(x) for x in c.methods]) + ','
            + L([static_d(x) for x in c.static_methods]) + ',' + L([dunder_d(x) for x in c.dunder_methods]) + ','
            + L([var_d(x) for x in c.properties]) + ',' + L([op_d(x) for x in c.operators]) + ','
            + L([enum_d(x) for x in c.enums]) + ',' + path(c) + ')')


def decl(d):
    if isinstance(d, ip.ForwardDeclaration):
        return ('Fwd(' + flag(d.is_virtual, 'v') + ',' + tn(d.typename) + ',' + (tn(d.parent_type) if d.parent_type else 'None')
                + ',' + path(d) + ')')
    if isinstance(d, ip.Include):
        return 'Include(' + q(d.header) + ',' + path(d) + ')'
    if isinstance(d, ip.Class):
        return class_d(d)
    if isinstance(d, ip.TypedefTemplateInstantiation):
        return 'Typedef(' + tn(d.typename) + ',' + q(d.new_name) + ',' + path(d) + ')'
    if isinstance(d, ip.GlobalFunction):
        return 'Func(' + tmpl(d.template) + ',' + ret(d.return_type) + ',' + q(d.name) + ',' + args(d.args) + ',' + path(d) + ')'
    if isinstance(d, ip.Enum):
        return enum_d(d)
    if isinstance(d, ip.Variable):
        return var_d(d)
    if isinstance(d, ip.Namespace):
        return 'Ns(' + q(d.name) + ',[' + ',\n'.join(decl(x) for x in d.content) + '],' + path(d) + ')'
    raise TypeError('unknown declaration %r' % (d,))


def module(m):
    return 'Ns("",[' + ',\n'.join(decl(x) for x in m.content) + '],None)'


# ---------------------------------------------------------------- instantiated trees
def iarg(a):
    return 'A(' + ty(a.ctype) + ',' + q(a.ctype.to_cpp()) + ',' + q(a.name) + ',' + opt(q, a.default) + ')'


def iargs(al):
    return L([iarg(a) for a in al.list()])


def iret(r):
    return ('R(' + ty(r.type1) + ',' + (ty(r.type2) if r.type2 else 'None') + ',' + q(r.to_cpp()) + ','
            + ('void' if r.is_void() else '-') + ')')


def ictor(c):
    return 'ICtor(' + q(c.name) + ',' + q(c.to_cpp()) + ',' + iargs(c.args) + ')'


def imethod(m):
    return 'IMethod(' + q(m.name) + ',' + q(m.to_cpp()) + ',' + iret(m.return_type) + ',' + iargs(m.args) + ',' + flag(m.is_const, 'c') + ')'


def istatic(m):
    return 'IStatic(' + q(m.name) + ',' + q(m.to_cpp()) + ',' + iret(m.return_type) + ',' + iargs(m.args) + ')'


def ivar(v):
    return 'Var(' + ty(v.ctype) + ',' + q(v.ctype.to_cpp()) + ',' + q(v.name) + ',' + opt(q, v.default) + ')'


def iop(o):
    return 'Op(' + q(o.operator) + ',' + iret(o.return_type) + ',' + iargs(o.args) + ')'


def ienum(e):
    return 'Enum(' + q(e.name) + ',' + L([q(x.name) for x in e.enumerators]) + ')'


def iclass(c):
    return ('IClass(' + q(c.name) + ',' + q(c.to_cpp()) + ',' + L([q(n) for n in c.namespaces()]) + ',' + flag(c.is_virtual, 'v') + ','
            + (q(str(c.parent_class)) if c.parent_class else 'None') + ',' + L([tn(i) for i in c.instantiations]) + ','
            + L([ictor(x) for x in c.ctors]) + ',' + L([imethod(x) for x in c.methods]) + ','
            + L([istatic(x) for x in c.static_methods]) + ','
            + L(['Dunder(' + q(d.name) + ',' + iargs(d.args) + ')' for d in c.dunder_methods]) + ','
            + L([ivar(x) for x in c.properties]) + ',' + L([iop(x) for x in c.operators]) + ','
            + L([ienum(x) for x in c.enums]) + ')')


def idecl(d):
    import gtwrap.template_instantiator as inst
    if isinstance(d, inst.InstantiatedClass):
        return iclass(d)
    if isinstance(d, inst.InstantiatedGlobalFunction):
        return 'IFunc(' + q(d.name) + ',' + q(d.to_cpp()) + ',' + path(d) + ',' + iret(d.return_type) + ',' + iargs(d.args) + ')'
    if isinstance(d, inst.InstantiatedDeclaration):
        return 'IDecl(' + q(d.name) + ',' + q(d.to_cpp()) + ',' + L([q(n) for n in d.namespaces()]) + ')'
    if isinstance(d, ip.Namespace):
        return 'Ns(' + q(d.name) + ',[' + ',\n'.join(idecl(x) for x in d.content) + '])'
    if isinstance(d, (ip.Class, ip.GlobalFunction, ip.TypedefTemplateInstantiation)):
        raise TypeError('uninstantiated element in instantiated tree: %r' % (d,))
    return decl(d)


def imodule(m):
    return 'Ns("",[' + ',\n'.join(idecl(x) for x in m.content) + '])'


# ---------------------------------------------------------------- C++-spelling dump (mirror of IDump.cppModule)
def c_args(al):
    return ",".join(a.ctype.to_cpp() + " " + a.name + ("=" + a.default if a.default is not None else "") for a in al.list())


def c_method(tag, m, is_const):
    return ("  " + tag + " " + m.name + " | " + m.to_cpp() + " | " + m.return_type.to_cpp() + " | (" + c_args(m.args) + ")"
            + (" const" if is_const else "") + "\n")


def c_class(c):
    out = ("C " + c.name + " | " + c.to_cpp() + " | " + "::".join(c.namespaces()) + " | "
           + (str(c.parent_class) if c.parent_class else "-") + (" | virtual" if c.is_virtual else "") + "\n")
    for k in c.ctors:
        out += "  K " + k.name + " | " + k.to_cpp() + " | (" + c_args(k.args) + ")\n"
    for m in c.methods:
        out += c_method("M", m, bool(m.is_const))
    for m in c.static_methods:
        out += c_method("S", m, False)
    for p in c.properties:
        out += "  P " + p.name + " | " + p.ctype.to_cpp() + ((" = " + p.default) if getattr(p, "default", None) else "") + "\n"
    for o in c.operators:
        out += "  O " + o.operator + " | " + o.return_type.to_cpp() + " | (" + c_args(o.args) + ")\n"
    for e in c.enums:
        out += "  E " + e.name + "\n"
    for d in c.dunder_methods:
        out += "  U " + d.name + " | (" + c_args(d.args) + ")\n"
    return out


def ns_path(o):
    p = getattr(o, 'parent', '')
    names = []
    while not (isinstance(p, str) or p is None):
        names.insert(0, p.name)
        p = getattr(p, 'parent', '')
    return "::".join(names)


def c_decl(d):
    import gtwrap.template_instantiator as inst
    if isinstance(d, inst.InstantiatedClass):
        return c_class(d)
    if isinstance(d, inst.InstantiatedGlobalFunction):
        return ("F " + d.name + " | " + d.to_cpp() + " | " + ns_path(d) + " | " + d.return_type.to_cpp()
                + " | (" + c_args(d.args) + ")\n")
    if isinstance(d, inst.InstantiatedDeclaration):
        return "D " + d.name + " | " + d.to_cpp() + " | " + "::".join(d.namespaces()) + "\n"
    if isinstance(d, ip.Namespace):
        return "N " + d.name + " {\n" + "".join(c_decl(x) for x in d.content) + "}\n"
    if isinstance(d, ip.ForwardDeclaration):
        return "W " + d.typename.to_cpp() + "\n"
    if isinstance(d, ip.Include):
        return "I " + d.header + "\n"
    if isinstance(d, ip.Enum):
        return "E " + d.name + "\n"
    if isinstance(d, ip.Variable):
        return "V " + d.name + " | " + d.ctype.to_cpp() + "\n"
    raise TypeError('unexpected element %r' % (d,))


def cpp_module(m):
    return "".join(c_decl(x) for x in m.content)
