#!/usr/bin/env python3
"""C11 harness: generate a runnable gateway universe.

From a seed this module builds
  * an interface file  <module>.i      (input of the real gtwrap MatlabWrapper),
  * an instrumented C++ library header `c11lib_<module>.h` that implements every declared
    entity (each call appends `qualified::name(arg values)` to a global trace; constructors and
    destructors maintain per-class live-object counters and a global object serial),
  * `universe.json`: the same universe as data (classes, entities, result constants), used by
    run_c11.py to generate histories and to talk to the Lean model.

Universe: 1-3 inheritance chains of depth 0-3, each class `virtual` or not (the generator
accepts any mixture inside a chain: `is_virtual` is a per-class flag that only adds the
`'void'` constructor branch, the `upcastFromVoid` routine and the RTTI entry), optionally one
chain inside `namespace ns`.  Members: constructors with int/double/string arguments and
trailing defaults, scalar methods (with an overloaded pair), methods taking objects by
reference and by shared pointer (`T*`), returning objects by shared pointer (same object, fresh
object, possibly of a more derived dynamic class), by value, as `pair<T*,U*>`, static methods,
scalar and object-typed properties, free functions (including a keeper that stores and hands
back shared pointers: external owners).

Result formula shared with the Lean model (`resultOf`): `k + sum_i (i+1) * value(arg_i)` where
`value` of a number is the number, of a string its length, of an object its serial; for
methods the receiver is argument 0.
"""
import json
import os
import random
import sys

ARRAYS = ('Vector', 'Matrix')     # parameters only: passed as double arrays, guarded by size() tests in the .m files
SCALARS = ('int', 'double', 'string', 'size_t') + ARRAYS


def scalar_ret(r):
    """scalar results are strings: a SCALARS name, or 'enum:<k>' (k-th entry of U['enums'], returned through wrap_enum);
    object results are tuples"""
    return isinstance(r, str)


def ptype_iface(t, classes):
    if t in SCALARS:
        return t
    kind, k = t
    name = classes[k]['cpp']
    return {'ptr': name + '*', 'ref': 'const ' + name + '&'}[kind]


def ptype_cpp(t, classes):
    if t == 'string':
        return 'const std::string&'
    if t in ARRAYS:
        return 'const gtsam::%s&' % t
    if t in SCALARS:
        return t
    kind, k = t
    name = '::' + classes[k]['cpp']
    return {'ptr': 'std::shared_ptr<%s>' % name, 'ref': 'const %s&' % name}[kind]


def make_universe(seed, module, void_static=False):
    rng = random.Random(seed)
    classes = []
    nchains = rng.choice([1, 2, 2, 3])
    use_ns = rng.random() < 0.5
    # the namespaced chain lives one or TWO levels deep (separate random stream: the rest of the universe is what it was)
    rng3 = random.Random(seed * 104729 + 11)
    NS = rng3.choice(['ns', 'robot::arm', 'robot::arm'])
    use_ns = use_ns or rng3.random() < 0.6
    if nchains == 1 and rng3.random() < 0.5:
        nchains = 2
    letters = 'ABCD'
    for ci in range(nchains):
        depth = rng.choice([0, 1, 1, 2, 2, 3]) if ci == 0 else rng.choice([0, 0, 1, 2])
        ns = NS if (use_ns and ci == nchains - 1 and nchains > 1) else ''
        allvirt = rng.choice([True, False, None])  # None: mixed
        if ci == 0:
            # three consecutive gateway seeds cover: an all-virtual chain, a chain of NON-virtual derived classes, a mixed one
            # (the first chain always has a derived class)
            depth = max(depth, 1)
            allvirt = [True, False, None][seed % 3]
        prev = None
        for d in range(depth + 1):
            virt = allvirt if allvirt is not None else rng.random() < 0.5
            name = '%s%d' % (letters[ci], d)
            classes.append({
                'name': name, 'ns': ns, 'base': prev, 'virtual': bool(virt),
                'cpp': (ns + '::' if ns else '') + name,
                'matlab': (ns.replace('::', '.') + '.' if ns else '') + name,
                'flat': ns.replace('::', '') + name,
            })
            prev = len(classes) - 1
    # a plain class used as object-typed property (never has object properties itself)
    classes.append({'name': 'Part', 'ns': '', 'base': None, 'virtual': False,
                    'cpp': 'Part', 'matlab': 'Part', 'flat': 'Part'})
    plain = len(classes) - 1
    n = len(classes)

    def chain(k):
        out = []
        while k is not None:
            out.append(k)
            k = classes[k]['base']
        return out

    def descendants(k):
        return [j for j in range(n) if k in chain(j)]

    entities = []
    kcount = [11]

    def add(ent):
        ent['id'] = len(entities)
        if ent['kind'] == 'prop' and ent['ptype'] in SCALARS:
            ent['slot'] = ent['id']     # globally unique slot: initial value 100*serial + slot
        ent['k'] = kcount[0]
        kcount[0] += 13
        entities.append(ent)
        return ent

    def anyclass():
        return rng.randrange(n)

    ctor_shapes = [
        [],
        [('int', 'a', None)],
        [('int', 'a', None), ('double', 'b', None)],
        [('string', 's', None)],
        [('double', 'a', None), ('double', 'b', None), ('string', 's', None)],
        [('string', 's', '"hi"'), ('int', 'k', '3')],       # expands to arity 2, 1, 0
        [('int', 'a', None), ('string', 's', '"dflt"')],    # expands to arity 2, 1
    ]

    def sig_set(shape):
        """set of (arity, first-arg kind) the expanded overloads of a shape answer to"""
        out = set()
        nd = 0
        for p in reversed(shape):
            if p[2] is None:
                break
            nd += 1
        for cut in range(nd + 1):
            ps = shape[:len(shape) - cut]
            kinds = tuple('char' if p[0] == 'string' else 'num' for p in ps)
            out.add((len(ps), kinds))
        return out

    for k in range(n):
        c = classes[k]
        # constructors: pick shapes whose expanded signatures do not collide (by arity + kinds,
        # where a 'num' guard also accepts nothing else we generate)
        chosen, used = [], set()
        for shape in rng.sample(ctor_shapes, len(ctor_shapes)):
            s = sig_set(shape)
            # collision if same arity and kinds equal
            if s & used:
                continue
            chosen.append(shape)
            used |= s
            if len(chosen) >= rng.choice([1, 2, 3]):
                break
        for shape in chosen:
            add({'kind': 'ctor', 'cls': k, 'name': c['name'], 'params': shape, 'ret': None})
        if k == plain:
            add({'kind': 'method', 'cls': k, 'name': 'sum', 'params': [('int', 'a', None)],
                 'ret': 'int', 'const': True})
            add({'kind': 'prop', 'cls': k, 'name': 'x%d' % k, 'ptype': 'int', 'slot': 0})
            continue
        T = lambda: anyclass()
        if rng.random() < 0.8:
            add({'kind': 'method', 'cls': k, 'name': 'sum', 'const': True,
                 'params': [('int', 'a', None), ('double', 'b', None)], 'ret': 'int'})
        if rng.random() < 0.6:
            add({'kind': 'method', 'cls': k, 'name': 'mix', 'const': True,
                 'params': [('string', 's', None), ('int', 'a', '7')], 'ret': 'double'})
        if rng.random() < 0.5:
            add({'kind': 'method', 'cls': k, 'name': 'ov', 'const': True,
                 'params': [('int', 'a', None)], 'ret': 'int'})
            add({'kind': 'method', 'cls': k, 'name': 'ov', 'const': True,
                 'params': [('string', 's', None)], 'ret': 'int'})
        if rng.random() < 0.7:
            add({'kind': 'method', 'cls': k, 'name': 'peek', 'const': True,
                 'params': [(('ref', T()), 'r', None)], 'ret': 'int'})
        if rng.random() < 0.8:
            add({'kind': 'method', 'cls': k, 'name': 'hold', 'const': False,
                 'params': [(('ptr', T()), 'p', None)], 'ret': None, 'effect': ('hold', 0)})
        if rng.random() < 0.8:
            t = T()
            add({'kind': 'method', 'cls': k, 'name': 'ident', 'const': True,
                 'params': [(('ptr', t), 'p', None)], 'ret': ('same', t, 0)})
        if rng.random() < 0.8:
            t = T()
            add({'kind': 'method', 'cls': k, 'name': 'make', 'const': True,
                 'params': [('int', 'a', None)], 'ret': ('fresh', t, rng.choice(descendants(t)))})
        if rng.random() < 0.6:
            t = T()
            add({'kind': 'method', 'cls': k, 'name': 'copy', 'const': True,
                 'params': [(('ref', t), 'r', None)], 'ret': ('copy', t, 0)})
        if rng.random() < 0.5:
            t, u = T(), T()
            add({'kind': 'method', 'cls': k, 'name': 'both', 'const': True,
                 'params': [(('ptr', t), 'p', None), (('ptr', u), 'q', None)],
                 'ret': ('pair', ('same', t, 0), ('same', u, 1))})
        if rng.random() < 0.5:
            t, u = T(), T()
            if rng.random() < 0.5:
                u = t
            add({'kind': 'method', 'cls': k, 'name': 'twins', 'const': True,
                 'params': [(('ref', t), 'r', None), (('ref', u), 'q', None)],
                 'ret': ('pair', ('copy', t, 0), ('copy', u, 1))})
        if rng.random() < 0.6:
            # 64-bit keys: in, and out again (result = k + serial + 2*n, kept below 2^63 by the history generator)
            add({'kind': 'method', 'cls': k, 'name': 'key', 'const': True,
                 'params': [('size_t', 'n', None)], 'ret': 'size_t'})
        if rng.random() < 0.6:
            add({'kind': 'static', 'cls': k, 'name': 'Create',
                 'params': [('int', 'a', None)], 'ret': ('fresh', k, rng.choice(descendants(k)))})
        if rng.random() < 0.5:
            # an overloaded static method (same arity, told apart by the argument class) and one with a trailing default
            add({'kind': 'static', 'cls': k, 'name': 'Code', 'params': [('string', 's', None)], 'ret': 'int'})
            add({'kind': 'static', 'cls': k, 'name': 'Code', 'params': [('int', 'a', None), ('int', 'b', '4')], 'ret': 'int'})
        if rng.random() < 0.5:
            add({'kind': 'static', 'cls': k, 'name': 'Count',
                 'params': [('int', 'a', None), ('int', 'b', None)], 'ret': 'int'})
        slot = 0
        if rng.random() < 0.7:
            add({'kind': 'prop', 'cls': k, 'name': 'x%d' % k, 'ptype': 'int', 'slot': slot})
            slot += 1
        if rng.random() < 0.4:
            add({'kind': 'prop', 'cls': k, 'name': 'y%d' % k, 'ptype': 'double', 'slot': slot})
            slot += 1
        if rng.random() < 0.5:
            add({'kind': 'prop', 'cls': k, 'name': 'part%d' % k, 'ptype': ('obj', plain), 'slot': None})
    if void_static:
        # witness switch (off by default): the generated .m of a static method always assigns
        # `varargout{1} = <wrapper>(id, ...)`, also when the method returns void
        add({'kind': 'static', 'cls': 0, 'name': 'Touch', 'params': [('int', 'a', None)], 'ret': None})
    # free functions
    for t in rng.sample(range(n), min(n, rng.choice([1, 2, 3]))):
        add({'kind': 'func', 'cls': None, 'name': 'fetch_' + classes[t]['flat'],
             'params': [('int', 'serial', None)], 'ret': ('fetch', t)})
    add({'kind': 'func', 'cls': None, 'name': 'release_one',
         'params': [('int', 'serial', None)], 'ret': None, 'effect': ('release',)})
    add({'kind': 'func', 'cls': None, 'name': 'gsum',
         'params': [('int', 'a', None), ('int', 'b', None)], 'ret': 'int'})
    t = anyclass()
    add({'kind': 'func', 'cls': None, 'name': 'gmake',
         'params': [('int', 'a', None)], 'ret': ('fresh', t, rng.choice(descendants(t)))})
    t, u = anyclass(), anyclass()
    add({'kind': 'func', 'cls': None, 'name': 'gtake',
         'params': [(('ref', t), 'r', None), (('ptr', u), 'p', None)], 'ret': None})
    # array-valued parameters (Vector / Matrix), from a separate random stream so that the rest of the universe is
    # what it was before they were added.  A Vector is a double column, a Matrix any double array: overloads that
    # differ in Vector vs Matrix at one position are told apart by the size() guards of the generated .m files only.
    rng2 = random.Random(seed * 7919 + 5)
    for k in range(n):
        if k == plain:
            continue
        if rng2.random() < 0.5:
            tail = [('int', 'a', None), ('int', 'b', None), ('int', 'c', None)]     # arity 4: no other constructor has it
            add({'kind': 'ctor', 'cls': k, 'name': classes[k]['name'], 'params': [('Vector', 'v', None)] + tail, 'ret': None})
            add({'kind': 'ctor', 'cls': k, 'name': classes[k]['name'], 'params': [('Matrix', 'm', None)] + tail, 'ret': None})
        if rng2.random() < 0.5:
            add({'kind': 'method', 'cls': k, 'name': 'vm', 'const': True,
                 'params': [('Vector', 'v', None), ('Matrix', 'm', None)], 'ret': 'int'})
        if rng2.random() < 0.3:
            add({'kind': 'static', 'cls': k, 'name': 'Vs', 'params': [('Matrix', 'm', None), ('string', 's', None)], 'ret': 'int'})
    if rng2.random() < 0.8:
        add({'kind': 'func', 'cls': None, 'name': 'vtotal', 'params': [('Vector', 'v', None)], 'ret': 'int'})
        add({'kind': 'func', 'cls': None, 'name': 'vtotal', 'params': [('Matrix', 'm', None)], 'ret': 'int'})
    if rng2.random() < 0.7:
        # an overload of a free function that is NOT declared next to the other one (gsum(int, int) is declared further up)
        add({'kind': 'func', 'cls': None, 'name': 'gsum', 'params': [('string', 's', None)], 'ret': 'int'})
    if rng2.random() < 0.5:
        add({'kind': 'func', 'cls': None, 'name': 'vdot', 'params': [('Vector', 'v', None), ('Vector', 'w', None)], 'ret': 'int'})
    # enumerations (results only: `out[0] = wrap_enum(value, "<MATLAB class of the enumeration>")` must name the generated
    # enumeration file): one in the global namespace, one in the namespace of the namespaced chain, one inside a class
    enums = [{'name': 'Tone', 'ns': '', 'cls': None, 'cpp': 'Tone', 'matlab': 'Tone', 'members': ['T0', 'T1', 'T2']}]
    ns_classes = [k for k in range(n) if classes[k]['ns']]
    if ns_classes:
        ns_ = classes[ns_classes[0]]['ns']
        enums.append({'name': 'Mode', 'ns': ns_, 'cls': None, 'cpp': ns_ + '::Mode', 'matlab': ns_.replace('::', '.') + '.Mode',
                      'members': ['M0', 'M1']})
    kc = rng3.choice([k for k in range(n) if k != plain])
    enums.append({'name': 'Kind', 'ns': classes[kc]['ns'], 'cls': kc, 'cpp': classes[kc]['cpp'] + '::Kind',
                  'matlab': classes[kc]['matlab'] + '.Kind', 'members': ['K0', 'K1', 'K2']})
    for k in range(n):
        if k == plain:
            continue
        for ei, en in enumerate(enums):
            visible = (en['cls'] == k) if en['cls'] is not None else (en['ns'] == classes[k]['ns'])
            if not visible or rng3.random() < 0.3:
                continue
            add({'kind': 'method', 'cls': k, 'name': 'e%s' % en['name'], 'const': True,
                 'params': [('int', 'a', None)], 'ret': 'enum:%d' % ei})
            if rng3.random() < 0.5:
                add({'kind': 'static', 'cls': k, 'name': 'E%s' % en['name'], 'params': [('int', 'a', None), ('int', 'b', None)],
                     'ret': 'enum:%d' % ei})
    # free functions in namespaces, one of them two levels deep; an unrelated top-level namespace has the name of the inner one
    # and declares a function of the same name and signature
    if rng3.random() < 0.8:
        add({'kind': 'func', 'cls': None, 'fns': 'imperial::units', 'name': 'toSI', 'params': [('int', 'a', None)], 'ret': 'int'})
        if rng3.random() < 0.6:
            add({'kind': 'func', 'cls': None, 'fns': 'units', 'name': 'toSI', 'params': [('int', 'a', None)], 'ret': 'int'})
        if rng3.random() < 0.5:
            t = anyclass()
            add({'kind': 'func', 'cls': None, 'fns': 'imperial::units', 'name': 'build',
                 'params': [('int', 'a', None)], 'ret': ('fresh', t, rng3.choice(descendants(t)))})
        if rng3.random() < 0.5:
            add({'kind': 'func', 'cls': None, 'fns': 'imperial', 'name': 'feet', 'params': [('int', 'a', None), ('string', 's', None)], 'ret': 'int'})
    for e in entities:
        if e['kind'] == 'func' and e.get('fns'):
            e['qname'] = e['fns'].replace('::', '.') + '.' + e['name']
            continue
        if e['kind'] == 'ctor' or (e['kind'] in ('method', 'static', 'prop')):
            e['qname'] = classes[e['cls']]['cpp'].replace('::', '.') + '.' + e['name']
        else:
            e['qname'] = e['name']
    return {'module': module, 'seed': seed, 'classes': classes, 'entities': entities,
            'plain': plain, 'enums': enums}


# ---------------------------------------------------------------------------------------------
# interface file


def default_iface(d):
    return d


def iface_text(U):
    classes, ents = U['classes'], U['entities']
    out = ['#include <c11lib_%s.h>' % U['module'], '']

    def ret_iface(r):
        if r is None:
            return 'void'
        if scalar_ret(r) and r.startswith('enum:'):
            return U['enums'][int(r[5:])]['cpp']
        if r in SCALARS:
            return r
        if r[0] in ('same', 'fresh', 'fetch'):
            return classes[r[1]]['cpp'] + '*'
        if r[0] == 'copy':
            return classes[r[1]]['cpp']
        if r[0] == 'pair':
            return 'pair<%s, %s>' % (ret_iface(r[1]), ret_iface(r[2]))
        raise ValueError(r)

    def params_iface(ps):
        return ', '.join('%s %s%s' % (ptype_iface(t, classes), nm,
                                      '' if d is None else ' = ' + d) for t, nm, d in ps)

    def open_ns(ns):
        return ' '.join('namespace %s {' % x for x in ns.split('::'))

    def close_ns(ns):
        return '}' * len(ns.split('::'))

    def enum_decl(en, ind=''):
        return '%senum %s { %s };' % (ind, en['name'], ', '.join(en['members']))

    for en in U.get('enums', []):
        if en['cls'] is None and not en['ns']:
            out.append(enum_decl(en))
    cur_ns = ''
    for k, c in enumerate(classes):
        if c['ns'] != cur_ns:
            if cur_ns:
                out.append(close_ns(cur_ns))
            if c['ns']:
                out.append(open_ns(c['ns']))
                for en in U.get('enums', []):
                    if en['cls'] is None and en['ns'] == c['ns']:
                        out.append(enum_decl(en))
            cur_ns = c['ns']
        head = ('virtual ' if c['virtual'] else '') + 'class ' + c['name']
        if c['base'] is not None:
            head += ' : ' + classes[c['base']]['cpp']
        out.append(head + ' {')
        for en in U.get('enums', []):
            if en['cls'] == k:
                out.append(enum_decl(en, '  '))
        for e in ents:
            if e.get('cls') != k:
                continue
            if e['kind'] == 'ctor':
                out.append('  %s(%s);' % (c['name'], params_iface(e['params'])))
            elif e['kind'] == 'method':
                out.append('  %s %s(%s)%s;' % (ret_iface(e['ret']), e['name'],
                                               params_iface(e['params']),
                                               ' const' if e.get('const') else ''))
            elif e['kind'] == 'static':
                out.append('  static %s %s(%s);' % (ret_iface(e['ret']), e['name'],
                                                    params_iface(e['params'])))
            elif e['kind'] == 'prop':
                pt = e['ptype']
                out.append('  %s %s;' % (pt if pt in SCALARS else classes[pt[1]]['cpp'], e['name']))
        out.append('};')
        out.append('')
    if cur_ns:
        out.append(close_ns(cur_ns))
        out.append('')
    for e in ents:
        if e['kind'] == 'func':
            decl = '%s %s(%s);' % (ret_iface(e['ret']), e['name'], params_iface(e['params']))
            out.append('%s %s %s' % (open_ns(e['fns']), decl, close_ns(e['fns'])) if e.get('fns') else decl)
    out.append('')
    return '\n'.join(out)


# ---------------------------------------------------------------------------------------------
# instrumented library

LIB_PRELUDE = r'''// generated by gen_iface.py -- instrumented stub library for gateway "%(module)s"
#pragma once
#include <map>
#include <memory>
#include <sstream>
#include <string>
#include <utility>
#include <vector>
#include <gtsam/base/Vector.h>
#include <gtsam/base/Matrix.h>

namespace c11 {
struct Fresh {};      // tag: untraced constructor used by factory entities
struct Untracked {};  // tag: member sub-object, not counted, no serial
struct Dyn { int idx; };

inline std::vector<std::string>& trace() { static std::vector<std::string> t; return t; }
inline int& nextSerial() { static int s = 0; return s; }
inline std::vector<long>& live() { static std::vector<long> v(%(nclasses)d, 0); return v; }
inline long& destroyedTotal() { static long d = 0; return d; }

// (new serial, serial of the object it is - transitively - a copy of), in creation order
inline std::vector<std::pair<int, int>>& copies() { static std::vector<std::pair<int, int>> c; return c; }

struct Tracked {
  int serial;
  int dyn;
  bool counted;
  int origin;
  explicit Tracked(int d) : serial(nextSerial()++), dyn(d), counted(true), origin(serial) { live()[dyn]++; }
  explicit Tracked(Untracked) : serial(-1), dyn(-1), counted(false), origin(-1) {}
  void copiedFrom(const Tracked& o) { if (o.origin < 0) return; origin = o.origin; copies().push_back({serial, origin}); }
  Tracked(const Tracked&) = delete;
  Tracked& operator=(const Tracked&) { return *this; }
  virtual ~Tracked() { if (counted) { live()[dyn]--; destroyedTotal()++; } }
};

inline std::map<int, std::vector<std::shared_ptr<Tracked>>>& keeper() {
  static std::map<int, std::vector<std::shared_ptr<Tracked>>> k; return k;
}

inline std::string show(int v) { return std::to_string(v); }
inline std::string show(size_t v) { return std::to_string(v); }
inline std::string show(double v) { std::ostringstream o; o << (long long)v; return o.str(); }
inline std::string show(const std::string& v) { return "'" + v + "'"; }
inline std::string show(const Tracked& v) { return "@" + std::to_string(v.serial); }
inline std::string show(const Tracked* v) { return "@" + std::to_string(v->serial); }
template <class T> std::string show(const std::shared_ptr<T>& v) { return show(static_cast<const Tracked&>(*v)); }

inline long val(int v) { return v; }
inline long val(size_t v) { return (long)v; }
inline long val(double v) { return (long)v; }
inline long val(const std::string& v) { return (long)v.size(); }
// arrays are observed through one number that fixes shape and the position of every element:
//   Vector: 1000*size + sum (i+1)*v(i);  Matrix: 100000*cols + 1000*rows + sum (j*rows+i+1)*M(i,j)
inline long val(const gtsam::Vector& v) { long r = 1000L * v.size(); for (int i = 0; i < v.size(); ++i) r += (i + 1) * (long)v(i); return r; }
inline long val(const gtsam::Matrix& m) {
  long r = 100000L * m.cols() + 1000L * m.rows();
  for (int j = 0; j < m.cols(); ++j) for (int i = 0; i < m.rows(); ++i) r += (j * m.rows() + i + 1) * (long)m(i, j);
  return r;
}
inline std::string show(const gtsam::Vector& v) { return std::to_string(val(v)); }
inline std::string show(const gtsam::Matrix& m) { return std::to_string(val(m)); }
inline long val(const Tracked& v) { return v.serial; }
inline long val(const Tracked* v) { return v->serial; }
template <class T> long val(const std::shared_ptr<T>& v) { return v->serial; }

inline void joinArgs(std::ostringstream&, long&, int) {}
template <class A, class... R>
void joinArgs(std::ostringstream& o, long& acc, int pos, const A& a, const R&... r) {
  if (pos > 1) o << ",";
  o << show(a);
  acc += pos * val(a);
  joinArgs(o, acc, pos + 1, r...);
}
// records `name(args)` and returns k + sum (i+1)*value(arg_i)
template <class... A> long call(const char* name, long k, const A&... a) {
  std::ostringstream o; long acc = k;
  o << name << "(";
  joinArgs(o, acc, 1, a...);
  o << ")";
  trace().push_back(o.str());
  return acc;
}
}  // namespace c11
'''


def lib_text(U):
    classes, ents = U['classes'], U['entities']
    out = [LIB_PRELUDE % {'module': U['module'], 'nclasses': len(classes)}]

    def ret_cpp(r):
        if r is None:
            return 'void'
        if scalar_ret(r) and r.startswith('enum:'):
            return '::' + U['enums'][int(r[5:])]['cpp']
        if r in SCALARS:
            return 'std::string' if r == 'string' else r
        if r[0] in ('same', 'fresh', 'fetch'):
            return 'std::shared_ptr<::%s>' % classes[r[1]]['cpp']
        if r[0] == 'copy':
            return '::' + classes[r[1]]['cpp']
        if r[0] == 'pair':
            return 'std::pair<%s, %s>' % (ret_cpp(r[1]), ret_cpp(r[2]))
        raise ValueError(r)

    def params_cpp(ps):
        return ', '.join('%s %s' % (ptype_cpp(t, classes), nm) for t, nm, _ in ps)

    # forward declarations
    for c in classes:
        if c['ns']:
            out.append('namespace %s { class %s; }' % (c['ns'], c['name']))
        else:
            out.append('class %s;' % c['name'])
    # enumerations outside classes have a fixed underlying type, so that every int is a value of them
    for en in U.get('enums', []):
        if en['cls'] is None:
            decl = 'enum %s : int { %s };' % (en['name'], ', '.join(en['members']))
            out.append(('namespace %s { %s }' % (en['ns'], decl)) if en['ns'] else decl)
    out.append('')
    bodies = []
    order = [U['plain']] + [k for k in range(len(classes)) if k != U['plain']]
    for k in order:
        c = classes[k]
        if c['ns']:
            out.append('namespace %s {' % c['ns'])
        base = classes[c['base']]['cpp'] if c['base'] is not None else None
        init_k = ('::%s(c11::Dyn{%d})' % (base, k)) if base else ('c11::Tracked(%d)' % k)
        init_d = ('::%s(d)' % base) if base else 'c11::Tracked(d.idx)'
        out.append('class %s : public %s {' % (c['name'], ('::' + base) if base else 'c11::Tracked'))
        out.append(' public:')
        for en in U.get('enums', []):
            if en['cls'] == k:
                out.append('  enum %s : int { %s };' % (en['name'], ', '.join(en['members'])))
        # property members
        for e in ents:
            if e.get('cls') == k and e['kind'] == 'prop':
                pt = e['ptype']
                if pt in SCALARS:
                    out.append('  %s %s;' % (pt, e['name']))
                else:
                    out.append('  ::%s %s{c11::Untracked{}};' % (classes[pt[1]]['cpp'], e['name']))
        scalar_props = [e for e in ents if e.get('cls') == k and e['kind'] == 'prop'
                        and e['ptype'] in SCALARS]
        init_props = ''.join(' %s = 100 * serial + %d;' % (e['name'], e['slot'])
                             for e in scalar_props)
        # wrapped constructors
        for e in ents:
            if e.get('cls') == k and e['kind'] == 'ctor':
                args = ''.join(', ' + nm for _, nm, _ in e['params'])
                out.append('  %s(%s) : %s { c11::call("%s::%s", %d%s);%s }'
                           % (c['name'], params_cpp(e['params']), init_k,
                              c['cpp'], c['name'], e['k'], args, init_props))
        # factory / untracked / copy constructors (not wrapped, not traced)
        out.append('  explicit %s(c11::Fresh) : %s {%s }' % (c['name'], init_k, init_props))
        out.append('  explicit %s(c11::Untracked u) : %s {}' %
                   (c['name'], ('::%s(u)' % base) if base else 'c11::Tracked(u)'))
        out.append('  %s(const %s& o_) : %s { copiedFrom(o_);%s }' % (c['name'], c['name'], init_k, init_props))
        out.append('  %s& operator=(const %s&) { return *this; }' % (c['name'], c['name']))
        out.append(' protected:')
        out.append('  explicit %s(c11::Dyn d) : %s {%s }' % (c['name'], init_d, init_props))
        out.append(' public:')
        for e in ents:
            if e.get('cls') != k or e['kind'] not in ('method', 'static'):
                continue
            st = 'static ' if e['kind'] == 'static' else ''
            cst = ' const' if e.get('const') else ''
            out.append('  %s%s %s(%s)%s;' % (st, ret_cpp(e['ret']), e['name'],
                                            params_cpp(e['params']), cst))
            bodies.append((e, '%s (::%s::%s)(%s)%s' % (ret_cpp(e['ret']), c['cpp'], e['name'],
                                                      params_cpp(e['params']), cst)))
        out.append('};')
        if c['ns']:
            out.append('}')
        out.append('')
    for e in ents:
        if e['kind'] == 'func':
            bodies.append((e, '%sinline %s %s(%s)' % (('namespace %s {\n' % e['fns']) if e.get('fns') else '', ret_cpp(e['ret']), e['name'],
                                                      params_cpp(e['params']))))

    def ret_expr(r, e):
        if r[0] == 'same':
            return e['params'][r[2]][1]
        if r[0] == 'fresh':
            return 'std::shared_ptr<::%s>(std::make_shared<::%s>(c11::Fresh{}))' % (
                classes[r[1]]['cpp'], classes[r[2]]['cpp'])
        if r[0] == 'copy':
            return '::%s(%s)' % (classes[r[1]]['cpp'], e['params'][r[2]][1])
        if r[0] == 'fetch':
            return 'std::static_pointer_cast<::%s>(c11::keeper()[serial].back())' % \
                classes[r[1]]['cpp']
        raise ValueError(r)

    for e, head in bodies:
        if e['kind'] != 'func':
            head = 'inline ' + head
        qn = e['qname'].replace('.', '::')
        args = ''.join(', ' + nm for _, nm, _ in e['params'])
        selfarg = ', static_cast<const c11::Tracked&>(*this)' if e['kind'] == 'method' else ''
        lines = ['  long r_ = c11::call("%s", %d%s%s); (void)r_;' % (qn, e['k'], selfarg, args)]
        eff = e.get('effect')
        if eff and eff[0] == 'hold':
            nm = e['params'][eff[1]][1]
            lines.append('  c11::keeper()[%s->serial].push_back(%s);' % (nm, nm))
        if eff and eff[0] == 'release':
            lines.append('  c11::keeper()[serial].pop_back();')
            lines.append('  if (c11::keeper()[serial].empty()) c11::keeper().erase(serial);')
        r = e['ret']
        if r is None:
            pass
        elif scalar_ret(r) and r.startswith('enum:'):
            lines.append('  return static_cast<%s>(r_);' % ret_cpp(r))
        elif r in SCALARS:
            lines.append('  return (%s)r_;' % r)
        elif r[0] == 'pair' and r[1][0] == 'copy':
            # prvalue pair: members copy-constructed from the parameters, first then second, no temporaries
            lines.append('  return std::pair<::%s, ::%s>(%s, %s);' % (
                classes[r[1][1]]['cpp'], classes[r[2][1]]['cpp'], e['params'][r[1][2]][1], e['params'][r[2][2]][1]))
        elif r[0] == 'pair':
            lines.append('  return std::make_pair(%s, %s);' % (ret_expr(r[1], e), ret_expr(r[2], e)))
        else:
            lines.append('  return %s;' % ret_expr(r, e))
        out.append(head + ' {\n' + '\n'.join(lines) + '\n}' + ('\n}' if e.get('fns') else ''))
    out.append('')
    return '\n'.join(out)


def glue_text(U, wrapper_cpp_text):
    """C++ glue between the driver and one generated gateway: collector access by class index.
    The collector variable names are read from the generated file (in emission order, which is
    the class order of the interface file)."""
    import re
    classes = U['classes']
    colls = re.findall(r'^static Collector_(\w+) collector_(\w+);', wrapper_cpp_text, re.M)
    if len(colls) != len(classes):
        raise ValueError('expected %d collectors, found %d' % (len(classes), len(colls)))
    out = ['// generated by gen_iface.glue_text for gateway "%s"' % U['module'],
           'static const int kNumClasses = %d;' % len(classes),
           'static const char* kMatlabNames[] = {%s};' % ', '.join('"%s"' % c['matlab'] for c in classes),
           'static size_t glueCollSize(int k) {', '  switch (k) {']
    for k, (_, v) in enumerate(colls):
        out.append('    case %d: return collector_%s.size();' % (k, v))
    out += ['  }', '  return 0;', '}',
            'template <class F> static void glueForEachCell(F f) {']
    for k, (_, v) in enumerate(colls):
        out.append('  for (auto* cell : collector_%s) f((*cell)->serial, (*cell)->dyn, cell->use_count());' % v)
    out += ['}', 'static long glueSerialOf(const std::string& cls, std::uint64_t p) {']
    for k, c in enumerate(classes):
        out.append('  if (cls == "%s") return (*reinterpret_cast<std::shared_ptr<::%s>*>(p))->serial;'
                   % (c['matlab'], c['cpp']))
    out += ['  return -1;', '}',
            '// header API with isVirtual = true (never emitted by the generator)',
            'static mxArray* glueWrapVoid(const std::string& cls, int serial) {',
            '  auto& sp = c11::keeper().at(serial).back();']
    for k, c in enumerate(classes):
        out.append('  if (cls == "%s") return wrap_shared_ptr(std::static_pointer_cast<::%s>(sp), "%s", true);'
                   % (c['matlab'], c['cpp'], c['matlab']))
    out += ['  return nullptr;', '}', '(void)kMatlabNames;' if False else '']
    return '\n'.join(out) + '\n'


def write_universe(U, outdir):
    os.makedirs(outdir, exist_ok=True)
    with open(os.path.join(outdir, U['module'] + '.i'), 'w') as f:
        f.write(iface_text(U))
    with open(os.path.join(outdir, 'c11lib_%s.h' % U['module']), 'w') as f:
        f.write(lib_text(U))
    with open(os.path.join(outdir, 'universe.json'), 'w') as f:
        json.dump(U, f, indent=1)


if __name__ == '__main__':
    seed = int(sys.argv[1]) if len(sys.argv) > 1 else 1
    outdir = sys.argv[2] if len(sys.argv) > 2 else 'c11_universe'
    U = make_universe(seed, 'gw%d' % seed)
    write_universe(U, outdir)
    print('wrote', outdir, 'classes:', [c['matlab'] for c in U['classes']],
          'entities:', len(U['entities']))
