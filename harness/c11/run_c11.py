#!/usr/bin/env python3
"""C11 correspondence: generated MEX gateway (real code, compiled) vs. the Lean model.

For every gateway universe:
  gen_iface -> <module>.i + instrumented library -> real gtwrap MatlabWrapper (/repo) ->
  player.py table from the .m files -> driver binary (generated .cpp + real matlab.h + mock MEX)
and for every random history (seeded):
  driver ops -> observation lines        (implementation)
  model request -> `handleLine` answer    (Lean, `lake env lean --run Main_c11.lean`)
and both are compared line by line.

Exit code 0 iff every history agrees, every driver run is clean (ASan/UBSan/valgrind when
requested) and the model reports every generated history as a `ValidSession`.
"""
import argparse
import collections
import concurrent.futures
import json
import os
import random
import re
import shutil
import subprocess
import sys
import time

HERE = os.path.dirname(os.path.abspath(__file__))
sys.path.insert(0, HERE)
import gen_iface  # noqa: E402
import player  # noqa: E402

REPO = os.environ.get('WRAP_REPO', '/repo')
LEAN_DIR = os.environ.get('C11_LEAN_DIR', os.path.normpath(os.path.join(HERE, '..', '..', 'lean')))
DRIVER = os.path.join(LEAN_DIR, '.lake', 'build', 'bin', 'wrapmodel')
PYTHON = sys.executable


# ---------------------------------------------------------------------------------------------
# building one gateway


def run_wrapper(U, gdir):
    """Run the real generator in a fresh interpreter (its class attributes are mutable)."""
    out = os.path.join(gdir, 'out')
    shutil.rmtree(out, ignore_errors=True)
    code = (
        "import sys; sys.path.insert(0, %r)\n"
        "from gtwrap.matlab_wrapper import MatlabWrapper\n"
        "w = MatlabWrapper(module_name=%r, top_module_namespace='', ignore_classes=[''])\n"
        "w.wrap([%r], path=%r)\n" % (REPO, U['module'], os.path.join(gdir, U['module'] + '.i'), out))
    subprocess.run([PYTHON, '-c', code], check=True)
    return out


def build_gateway(seed, workdir, asan=False, repo_matlab_h=None, void_static=False):
    module = 'gw%d' % seed
    gdir = os.path.join(workdir, module)
    os.makedirs(gdir, exist_ok=True)
    U = gen_iface.make_universe(seed, module, void_static)
    gen_iface.write_universe(U, gdir)
    out = run_wrapper(U, gdir)
    wrapper = module + '_wrapper'
    cpp = os.path.join(out, wrapper + '.cpp')
    player.write_table(out, wrapper, os.path.join(gdir, 'calls.tsv'))
    with open(cpp) as f:
        glue = gen_iface.glue_text(U, f.read())
    with open(os.path.join(gdir, 'c11_glue.inc'), 'w') as f:
        f.write(glue)
    inc = os.path.join(gdir, 'inc', 'gtwrap')
    os.makedirs(inc, exist_ok=True)
    link = os.path.join(inc, 'matlab.h')
    if os.path.lexists(link):
        os.remove(link)
    os.symlink(repo_matlab_h or os.path.join(REPO, 'matlab.h'), link)   # the REAL header
    exe = os.path.join(gdir, 'driver_asan' if asan else 'driver')
    cmd = ['g++', '-std=c++17', '-g', '-O0', '-w',
           '-DWRAPPER_CPP="%s"' % cpp, '-DGLUE_INC="%s"' % os.path.join(gdir, 'c11_glue.inc'),
           '-I' + os.path.join(gdir, 'inc'), '-I' + os.path.join(HERE, 'mock'), '-I' + gdir,
           os.path.join(HERE, 'driver.cpp'), os.path.join(HERE, 'mock', 'mock_mex.cpp'), '-o', exe]
    if asan:
        cmd[1:1] = ['-fsanitize=address,undefined', '-fno-omit-frame-pointer',
                    '-fno-sanitize-recover=undefined']
    r = subprocess.run(cmd, capture_output=True, text=True)
    if r.returncode != 0:
        # the generated gateway for a valid interface file is not valid C++: reported with the interface as the input
        errs = [l for l in r.stderr.splitlines() if 'error' in l][:6]
        raise GatewayDoesNotCompile('generated gateway does not compile for interface:\n%s\ncompiler: %s' % (
            open(os.path.join(gdir, module + '.i')).read(), '\n'.join(errs)))
    return U, gdir, exe


class GatewayDoesNotCompile(Exception):
    pass


# ---------------------------------------------------------------------------------------------
# history generation (a small simulation, only used to pick operations that are valid)


class Sim:
    def __init__(self, U, rng, void_path=True, void_ns=False):
        self.U, self.rng, self.void_path, self.void_ns = U, rng, void_path, void_ns
        self.classes, self.ents = U['classes'], U['entities']
        self.handles = []     # dict(cls, obj, alive, stale)
        self.objs = []        # dict(dyn, refs, ext)
        self.keeper = collections.defaultdict(int)   # serial -> stacked entries
        self.props = {}
        # protocol entity table: scalar properties become a get and a set entry
        self.pents, self.pidx = [], {}
        for e in self.ents:
            qn = e['qname']
            if e['kind'] == 'prop':
                if e['ptype'] in gen_iface.SCALARS:
                    self.pidx[(e['id'], 'get')] = len(self.pents)
                    self.pents.append('%s:%d:get%d' % (qn, e['k'], e['slot']))
                    self.pidx[(e['id'], 'set')] = len(self.pents)
                    self.pents.append('%s:%d:set%d' % (qn, e['k'], e['slot']))
                else:
                    self.pidx[(e['id'], 'get')] = self.pidx[(e['id'], 'set')] = len(self.pents)
                    self.pents.append('%s:%d:pobj' % (qn, e['k']))
                continue
            r = e['ret']
            kind = 'ctor' if e['kind'] == 'ctor' else 'void' if r is None else \
                'fn' if gen_iface.scalar_ret(r) else 'obj'
            self.pidx[(e['id'], 'call')] = len(self.pents)
            self.pents.append('%s:%d:%s' % (qn, e['k'], kind))
        # pseudo entity for the header-API call wrap_shared_ptr(.., true) issued by the driver itself
        self.void_idx = len(self.pents)
        self.pents.append('__wrap_shared_ptr_void__:0:pobj')
        self.stats = collections.Counter()
        self.depths = collections.Counter()
        self.copies, self.copy_log = [], {}      # copies made by the current step; step index -> [(new, origin)]
        self.last_reject, self.reject_idx = False, set()    # driver lines that must be refused (not model commands)

    # -- class helpers
    def chain(self, k):
        out = []
        while k is not None:
            out.append(k)
            k = self.classes[k]['base']
        return out

    def owner_of(self, cls, name, kinds):
        """first class up the chain of `cls` declaring a member `name` (MATLAB dispatch)"""
        for k in self.chain(cls):
            if any(e.get('cls') == k and e['name'] == name and e['kind'] in kinds for e in self.ents):
                return k
        return None

    def usable(self, T):
        return [i for i, h in enumerate(self.handles)
                if h['alive'] and not h['stale'] and T in self.chain(h['cls'])]

    def obj_alive(self, o):
        return self.objs[o]['refs'] > 0 or self.objs[o]['ext'] > 0

    # -- effects
    def new_obj(self, dyn, ext, copy_of=None):
        o = len(self.objs)
        self.objs.append({'dyn': dyn, 'refs': 0, 'ext': ext, 'origin': o if copy_of is None else self.objs[copy_of]['origin']})
        if copy_of is not None:
            self.copies.append((o, self.objs[o]['origin']))
        return o

    def new_handle(self, cls, o):
        self.handles.append({'cls': cls, 'obj': o, 'alive': True, 'stale': False})
        self.objs[o]['refs'] += 1
        self.stats['returned_or_constructed_handles'] += 1
        return len(self.handles) - 1

    def has_sibling(self, e):
        return any(o is not e and o['kind'] == e['kind'] and o.get('cls') == e.get('cls') and o['name'] == e['name'] and o.get('fns') == e.get('fns') for o in self.ents)

    # -- argument generation
    def scalar(self, t, overloaded=False):
        if t == 'string':
            w = ''.join(self.rng.choice('abcxyz') for _ in range(self.rng.randint(1, 4)))
            if self.rng.random() < 0.15:
                self.stats['string_arg_as_char_column'] += 1
                return 'S' + w, 's' + w           # s(:) -- an N-by-1 char array holds the same string
            return 's' + w, 's' + w
        if t in gen_iface.ARRAYS:
            # a Vector is a double column; a Matrix any double array (with >= 2 columns when a Vector overload of the
            # same entity is declared before it, so that exactly one overload accepts the call)
            if t == 'Vector':
                rows, cols = self.rng.randint(1, 4), 1
            else:
                rows, cols = self.rng.randint(1, 3), self.rng.randint(2 if overloaded else 1, 3)
            vals = [self.rng.randint(0, 9) for _ in range(rows * cols)]
            enc = sum((i + 1) * v for i, v in enumerate(vals))
            enc += 1000 * rows if t == 'Vector' else 100000 * cols + 1000 * rows
            self.stats['%s_arg_%dx%d' % (t, rows, cols)] += 1
            return 'm%dx%d:%s' % (rows, cols, ','.join(map(str, vals))), 'i%d' % enc
        if t == 'size_t':
            v = self.rng.choice([0, 7, 2**31, 2**32 + 5, 2**53 + 1, 2**56 + 3, 0x7800000000000001 >> 1, 2**61 - 1,
                                 self.rng.randrange(2**53, 2**61)])
            kind = self.rng.choice('ul' if v >= 2**53 else 'iul')
            self.stats['size_t_arg_' + ('above_2^53' if v >= 2**53 else 'small')] += 1
            return '%s%d' % (kind, v), 'i%d' % v
        v = self.rng.randint(0, 9)
        if t == 'int' and self.rng.random() < 0.15:
            self.stats['int_arg_as_int64'] += 1
            return 'l%d' % v, 'i%d' % v       # int64(v) where an int is expected
        return 'i%d' % v, 'i%d' % v

    def gen_args(self, params, allow_defaults=True, overloaded=False):
        """returns (driver tokens, model tokens, handle ids per param) or None"""
        nd = 0
        for p in reversed(params):
            if p[2] is None:
                break
            nd += 1
        omit = self.rng.randint(0, nd) if allow_defaults else 0
        dtok, mtok, hs = [], [], []
        for i, (t, _, d) in enumerate(params):
            explicit = i < len(params) - omit
            if t in gen_iface.SCALARS:
                if explicit:
                    a, b = self.scalar(t, overloaded)
                    dtok.append(a)
                    mtok.append(b)
                else:
                    mtok.append(('s' + d.strip('"')) if t == 'string' else 'i' + d)
                hs.append(None)
            else:
                T = t[1]
                cands = self.usable(T)
                if not cands:
                    return None
                h = self.rng.choice(cands)
                dtok.append('h%d' % h)
                mtok.append('h%d.%d' % (h, T))
                hs.append(h)
        return dtok, mtok, hs

    def ret_micros(self, r, e, hs, new_handles):
        ms = []
        if r[0] == 'same':
            h = hs[r[2]]
            o = self.handles[h]['obj']
            ms.append('ret%d.%d' % (o, r[1]))
            new_handles.append((r[1], o))
        elif r[0] == 'fresh':
            o = self.new_obj(r[2], 1)
            ms += ['alloc%d' % r[2], 'ret%d.%d' % (o, r[1]), 'drop%d' % o]
            new_handles.append((r[1], o))
            self.objs[o]['ext'] = 0
            if r[2] != r[1]:
                self.stats['derived_returned_as_base'] += 1
        elif r[0] == 'copy':
            src = self.handles[hs[r[2]]]['obj']
            tmp = self.new_obj(r[1], 0, copy_of=src)
            o = self.new_obj(r[1], 0, copy_of=tmp)
            ms += ['alloc%d' % r[1], 'alloc%d' % r[1], 'ret%d.%d' % (o, r[1]),
                   'drop%d' % o, 'drop%d' % tmp]
            new_handles.append((r[1], o))
        elif r[0] == 'fetch':
            raise AssertionError
        return ms

    # -- one random operation; returns (driver lines, model cmds) or None
    def step(self):
        rng = self.rng
        kind = rng.choices(
            ['new', 'scalar', 'objarg', 'hold', 'ret', 'fetch', 'release', 'prop', 'del', 'unload', 'void', 'badscalar'],
            [18, 10, 8, 8, 20, 6, 6, 8, 15, 1, 3 if self.void_path else 0, 3])[0]
        self.last_reject = False
        if kind == 'badscalar':
            # a row or column ARRAY where the C++ signature takes a scalar: the generated .m guards test only the class of the
            # argument, so the call reaches the gateway, which must refuse it (matlab.h: checkScalar) — no C++ entity runs, no
            # state changes.  Not a model command: the observation is judged directly (main loop).
            cands = [e for e in self.ents if e['kind'] in ('method', 'static', 'func') and not e.get('effect') and not self.has_sibling(e)
                     and (e.get('ret') is None or gen_iface.scalar_ret(e['ret'])) and e['params']
                     and all(p[0] in ('int', 'double', 'size_t', 'string') for p in e['params'])
                     and any(p[0] in ('int', 'double', 'size_t') for p in e['params'])]
            rng.shuffle(cands)
            for e in cands:
                dself = []
                if e['kind'] == 'method':
                    hs = [h for h in self.usable(e['cls']) if self.owner_of(self.handles[h]['cls'], e['name'], ('method',)) == e['cls']]
                    if not hs:
                        continue
                    dself = ['h%d' % rng.choice(hs)]
                g = self.gen_args(e['params'], allow_defaults=False)
                if g is None:
                    continue
                dtok = list(g[0])
                j = rng.choice([i for i, p_ in enumerate(e['params']) if p_[0] in ('int', 'double', 'size_t')])
                dtok[j] = rng.choice(['m1x3:4,5,6', 'm3x1:7,8,9', 'm1x2:1,2', 'm2x1:3,4'])
                if e['kind'] == 'method':
                    dline = 'call %s %s' % (e['name'], ' '.join(dself + dtok))
                elif e['kind'] == 'static':
                    dline = 'static %s %s %s' % (self.classes[e['cls']]['matlab'], e['name'], ' '.join(dtok))
                else:
                    dline = 'func %s %s' % (e['qname'], ' '.join(dtok))
                self.last_reject = True
                self.stats['array_for_scalar_parameter'] += 1
                return ([dline], [])
            return None
        if kind == 'new':
            e = rng.choice([e for e in self.ents if e['kind'] == 'ctor'])
            g = self.gen_args(e['params'], overloaded=self.has_sibling(e))
            dtok, mtok, _ = g
            K = e['cls']
            o = self.new_obj(K, 0)
            self.new_handle(K, o)
            self.stats['construct'] += 1
            self.depths[len(self.chain(K)) - 1] += 1
            return ([('new %s %s' % (self.classes[K]['matlab'], ' '.join(dtok))).rstrip()],
                    [('new %d %d %s' % (K, self.pidx[(e['id'], 'call')], ' '.join(mtok))).rstrip()])
        if kind in ('scalar', 'objarg', 'hold', 'ret'):
            def want(e):
                if e['kind'] not in ('method', 'static', 'func'):
                    return False
                r, has_obj = e.get('ret'), any(p[0] not in gen_iface.SCALARS for p in e['params'])
                if e.get('effect', (None,))[0] == 'release' or (r and r[0] == 'fetch'):
                    return False
                if kind == 'hold':
                    return e.get('effect', (None,))[0] == 'hold'
                if e.get('effect'):
                    return False
                if kind == 'ret':
                    return r is not None and not gen_iface.scalar_ret(r)
                if r is not None and not gen_iface.scalar_ret(r):
                    return False
                return has_obj == (kind == 'objarg')
            cands = [e for e in self.ents if want(e)]
            rng.shuffle(cands)
            for e in cands:
                res = self.call_entity(e)
                if res:
                    self.stats[kind + '_call'] += 1
                    self.stats['kind_' + e['kind']] += 1
                    return res
            return None
        if kind == 'fetch':
            es = [e for e in self.ents if e['kind'] == 'func' and e.get('ret') and e['ret'][0] == 'fetch']
            rng.shuffle(es)
            for e in es:
                T = e['ret'][1]
                os_ = [o for o, c in self.keeper.items() if c > 0 and T in self.chain(self.objs[o]['dyn'])]
                if not os_:
                    continue
                o = rng.choice(os_)
                self.new_handle(T, o)
                self.stats['fetch'] += 1
                return (['func %s i%d' % (e['qname'], o)],
                        ['call %d i%d / ret%d.%d' % (self.pidx[(e['id'], 'call')], o, o, T)])
            return None
        if kind == 'void':
            # matlab.h API with isVirtual=true: handle of the *dynamic* class via RTTI registry,
            # 3-argument constructor and <D>_upcastFromVoid (ids taken from the .m files)
            os_ = [o for o, c in self.keeper.items()
                   if c > 0 and self.classes[self.objs[o]['dyn']]['virtual']
                   and (self.void_ns or not self.classes[self.objs[o]['dyn']]['ns'])]
            if not os_:
                return None
            o = rng.choice(os_)
            D = self.objs[o]['dyn']
            self.new_handle(D, o)
            self.stats['void_path_return'] += 1
            return (['void %s %d' % (self.classes[D]['matlab'], o)],
                    ['call %d i%d / void%d' % (self.void_idx, o, o)])
        if kind == 'release':
            os_ = [o for o, c in self.keeper.items() if c > 0]
            if not os_:
                return None
            o = rng.choice(os_)
            e = [e for e in self.ents if e.get('effect', (None,))[0] == 'release'][0]
            self.keeper[o] -= 1
            self.objs[o]['ext'] -= 1
            self.stats['release'] += 1
            if not self.obj_alive(o):
                self.stats['object_destroyed_by_library_release'] += 1
            return (['func %s i%d' % (e['qname'], o)],
                    ['call %d i%d / drop%d' % (self.pidx[(e['id'], 'call')], o, o)])
        if kind == 'prop':
            es = [e for e in self.ents if e['kind'] == 'prop']
            rng.shuffle(es)
            for e in es:
                K = e['cls']
                hsu = self.usable(K)
                if not hsu:
                    continue
                h = rng.choice(hsu)
                o = self.handles[h]['obj']
                scalar = e['ptype'] in gen_iface.SCALARS
                if rng.random() < 0.5:      # get (the generated get.<p> also assigns this.<p>)
                    self.stats['prop_get'] += 1
                    if scalar:
                        v = self.props.get((o, e['slot']), 100 * o + e['slot'])
                        return (['get h%d %s' % (h, e['name'])],
                                ['call %d h%d.%d' % (self.pidx[(e['id'], 'get')], h, K),
                                 'call %d h%d.%d i%d' % (self.pidx[(e['id'], 'set')], h, K, v)])
                    P = e['ptype'][1]
                    n = self.new_obj(P, 0)
                    nh = self.new_handle(P, n)
                    pi = self.pidx[(e['id'], 'get')]
                    return (['get h%d %s' % (h, e['name'])],
                            ['call %d h%d.%d / alloc%d ret%d.%d drop%d' % (pi, h, K, P, n, P, n),
                             'call %d h%d.%d h%d.%d' % (pi, h, K, nh, P)])
                self.stats['prop_set'] += 1
                if scalar:
                    v = rng.randint(0, 50)
                    self.props[(o, e['slot'])] = v
                    return (['set h%d %s i%d' % (h, e['name'], v)],
                            ['call %d h%d.%d i%d' % (self.pidx[(e['id'], 'set')], h, K, v)])
                P = e['ptype'][1]
                hp = self.usable(P)
                if not hp:
                    continue
                h2 = rng.choice(hp)
                return (['set h%d %s h%d' % (h, e['name'], h2)],
                        ['call %d h%d.%d h%d.%d' % (self.pidx[(e['id'], 'set')], h, K, h2, P)])
            return None
        if kind == 'del':
            hs = [i for i, h in enumerate(self.handles) if h['alive'] and not h['stale']]
            if not hs:
                return None
            h = rng.choice(hs)
            hd = self.handles[h]
            hd['alive'] = False
            self.objs[hd['obj']]['refs'] -= 1
            self.stats['delete'] += 1
            self.stats['delete_depth_%d' % (len(self.chain(hd['cls'])) - 1)] += 1
            if self.objs[hd['obj']]['dyn'] != hd['cls']:
                self.stats['delete_base_typed_handle_of_derived_object'] += 1
            if self.objs[hd['obj']]['refs'] > 0:
                self.stats['delete_while_other_handles_share_object'] += 1
            return (['del %d' % h], ['del %d' % h])
        if kind == 'unload':
            return self.unload()
        return None

    def unload(self):
        for h in self.handles:
            if h['alive']:
                h['stale'] = True
        for o in self.objs:
            o['refs'] = 0
        self.stats['unload'] += 1
        return (['unload'], ['unload'])

    def call_entity(self, e):
        rng = self.rng
        K = e['cls']
        dself, mself = [], []
        if e['kind'] == 'method':
            hs = [h for h in self.usable(K)
                  if self.owner_of(self.handles[h]['cls'], e['name'], ('method',)) == K]
            if not hs:
                return None
            h = rng.choice(hs)
            dself, mself = ['h%d' % h], ['h%d.%d' % (h, K)]
        g = self.gen_args(e['params'], overloaded=self.has_sibling(e))
        if g is None:
            return None
        dtok, mtok, hs_ = g
        micros, newh = [], []
        eff = e.get('effect')
        if eff and eff[0] == 'hold':
            o = self.handles[hs_[eff[1]]]['obj']
            micros.append('hold%d' % o)
            self.keeper[o] += 1
            self.objs[o]['ext'] += 1
            self.stats['hold'] += 1
        r = e['ret']
        if r is not None and not gen_iface.scalar_ret(r) and r[0] == 'pair' and r[1][0] == 'copy':
            # pair<T, U> by value: the library builds the pair (two copies, first then second), the wrapper copies
            # each member into a fresh shared_ptr, then the pair dies
            (_, t, i), (_, u, j) = r[1], r[2]
            a = self.new_obj(t, 0, copy_of=self.handles[hs_[i]]['obj'])
            b = self.new_obj(u, 0, copy_of=self.handles[hs_[j]]['obj'])
            x = self.new_obj(t, 0, copy_of=a)
            y = self.new_obj(u, 0, copy_of=b)
            micros += ['alloc%d' % t, 'alloc%d' % u, 'alloc%d' % t, 'ret%d.%d' % (x, t), 'drop%d' % x,
                       'alloc%d' % u, 'ret%d.%d' % (y, u), 'drop%d' % y, 'drop%d' % b, 'drop%d' % a]
            newh += [(t, x), (u, y)]
            self.stats['pair_by_value_return'] += 1
        elif r is not None and not gen_iface.scalar_ret(r):
            parts = [r[1], r[2]] if r[0] == 'pair' else [r]
            for p in parts:
                micros += self.ret_micros(p, e, hs_, newh)
            if r[0] == 'pair':
                self.stats['pair_return'] += 1
        for T, o in newh:
            self.new_handle(T, o)
        pi = self.pidx[(e['id'], 'call')]
        mline = 'call %d %s' % (pi, ' '.join(mself + mtok))
        if micros:
            mline += ' / ' + ' '.join(micros)
        if e['kind'] == 'method':
            dline = 'call %s %s' % (e['name'], ' '.join(dself + dtok))
        elif e['kind'] == 'static':
            dline = 'static %s %s %s' % (self.classes[K]['matlab'], e['name'], ' '.join(dtok))
        else:
            dline = 'func %s %s' % (e['qname'], ' '.join(dtok))
        return ([dline.rstrip()], [mline.rstrip()])


def gen_history(U, seed, nops, void_path=True, void_ns=False):
    rng = random.Random(seed)
    sim = Sim(U, rng, void_path, void_ns)
    dlines, mcmds = [], []
    target = rng.randint(max(3, nops // 3), nops)
    tries = 0
    while len(dlines) < target and tries < 20 * nops:
        tries += 1
        r = sim.step()
        if r:
            dlines += r[0]
            mcmds += r[1]
            if sim.last_reject:
                sim.reject_idx.add(len(dlines) - 1)
        if sim.copies:
            if r:
                sim.copy_log[len(dlines) - 1] = list(sim.copies)
            del sim.copies[:]
    final_unload = rng.random() < 0.6
    if final_unload:
        r = sim.unload()
        dlines += r[0]
        mcmds += r[1]
    sim.stats['histories_with_unload'] += 1 if sim.stats['unload'] else 0
    return sim, dlines, mcmds


def model_request(U, sim, mcmds):
    cls = ','.join('%s:%s:%d' % (c['matlab'], '-' if c['base'] is None else c['base'],
                                 1 if c['virtual'] else 0) for c in U['classes'])
    return '\t'.join(['c11', cls, ','.join(sim.pents)] + mcmds)


# ---------------------------------------------------------------------------------------------
# running


def run_driver(exe, gdir, dlines, asan=False, valgrind=False):
    cmd = [exe, os.path.join(gdir, 'calls.tsv')]
    env = dict(os.environ)
    if asan:
        env['ASAN_OPTIONS'] = 'detect_leaks=1:halt_on_error=1:abort_on_error=0'
        env['UBSAN_OPTIONS'] = 'halt_on_error=1:print_stacktrace=1'
    if valgrind:
        cmd = ['valgrind', '-q', '--leak-check=full', '--errors-for-leak-kinds=definite,indirect',
               '--error-exitcode=97'] + cmd
    p = subprocess.run(cmd, input='\n'.join(dlines) + '\n', capture_output=True, text=True, env=env)
    return p.returncode, p.stdout.splitlines(), p.stderr


def run_model(requests):
    # the compiled model driver dispatches lines starting with "gw" to WrapModel.Gateway.handleLine
    p = subprocess.run([DRIVER], cwd=LEAN_DIR,
                       input='\n'.join('gw\t' + r for r in requests) + '\n', capture_output=True, text=True)
    if p.returncode != 0:
        raise RuntimeError('model failed: ' + p.stderr[-2000:])
    return p.stdout.splitlines()


def main():
    ap = argparse.ArgumentParser(description=__doc__, formatter_class=argparse.RawTextHelpFormatter)
    ap.add_argument('--seed', type=int, default=1)
    ap.add_argument('--n', type=int, default=40, help='histories per gateway')
    ap.add_argument('--gateways', type=int, default=2)
    ap.add_argument('--ops', type=int, default=60, help='max operations per history')
    ap.add_argument('--asan', action='store_true', help='build with -fsanitize=address,undefined')
    ap.add_argument('--valgrind', action='store_true', help='leak check at exit (definitely lost = 0)')
    ap.add_argument('--workdir', default='/tmp/c11_work')
    ap.add_argument('--keep', action='store_true')
    ap.add_argument('--jobs', type=int, default=os.cpu_count() or 4)
    ap.add_argument('--finding', action='store_true',
                    help='also replay the unload-then-delete witness (expected: ASan double free)')
    ap.add_argument('--no-void-path', action='store_true',
                    help='do not issue wrap_shared_ptr(.., true) calls (header API the generator never emits)')
    ap.add_argument('--void-static', action='store_true',
                    help='witness switch: add a `static void Touch(int)` to class 0 (its .m assigns '
                         'varargout{1} from a call that has no output: expected to FAIL)')
    ap.add_argument('--void-ns', action='store_true',
                    help='witness switch: also use wrap_shared_ptr(.., true) on virtual classes inside a '
                         'namespace (RTTI registry holds "nsC" instead of "ns.C": expected to FAIL)')
    ap.add_argument('--matlab-h', default=None, help='alternative matlab.h (mutation experiments)')
    ap.add_argument('--json-out', default=None, help='write a machine-readable result here')
    args = ap.parse_args()
    t0 = time.time()
    # (the check framework has built the Lean project before calling this script)
    os.makedirs(args.workdir, exist_ok=True)
    failures = []
    total = collections.Counter()
    depths = collections.Counter()
    steps = 0
    samples = []
    for g in range(args.gateways):
        gseed = args.seed * 1000 + g
        try:
            U, gdir, exe = build_gateway(gseed, args.workdir, asan=args.asan, repo_matlab_h=args.matlab_h,
                                         void_static=args.void_static)
        except GatewayDoesNotCompile as ex:
            failures.append(('gw%d' % gseed, str(ex)))
            continue
        print('[c11] gateway %s: classes %s, %d entities (build %.1fs)' % (
            U['module'], ' '.join('%s%s%s' % (c['matlab'], '<' + U['classes'][c['base']]['matlab']
                                              if c['base'] is not None else '',
                                              '(v)' if c['virtual'] else '')
                                  for c in U['classes']), len(U['entities']), time.time() - t0))
        hist = []
        for i in range(args.n):
            sim, dl, mc = gen_history(U, gseed * 100000 + i, args.ops, not args.no_void_path, args.void_ns)
            hist.append((sim, dl, mc))
            if len(samples) < 3 and i == 0:
                samples.append(dict(gateway=U['module'], classes=[c['matlab'] for c in U['classes']], ops=dl[:25]))
            total.update(sim.stats)
            depths.update(sim.depths)
        answers = run_model([model_request(U, s, mc) for s, _, mc in hist])
        with concurrent.futures.ThreadPoolExecutor(args.jobs) as ex:
            results = list(ex.map(lambda h: run_driver(exe, gdir, h[1], args.asan, args.valgrind), hist))
        for i, ((sim, dl, mc), ans, (rc, out, err)) in enumerate(zip(hist, answers, results)):
            tag = '%s/h%d' % (U['module'], i)
            if not ans.startswith('ok '):
                failures.append((tag, 'model: ' + ans[:300]))
                continue
            head, *obs = ans.split(' | ')
            if 'valid=1' not in head or 'df=0' not in head:
                failures.append((tag, 'generated history is not a ValidSession: ' + head))
            got_copies, impl, first_obs = {}, [], []
            for l in out:
                if l == 'op':
                    first_obs.append(len(impl))
                elif l.startswith('copies '):
                    got_copies[len(impl)] = [tuple(int(x) for x in c.split('<')) for c in l[7:].split(',') if c]
                elif not l.startswith('end '):
                    impl.append(l)
            # operations that must be refused: exactly one `error=` observation, nothing reached C++; they are not model commands
            rejected_ok = True
            dl_all = dl
            if sim.reject_idx:
                keep, new_first, new_dl = [], [], []
                for k in range(len(first_obs)):
                    lo, hi = first_obs[k], first_obs[k + 1] if k + 1 < len(first_obs) else len(impl)
                    if k in sim.reject_idx:
                        if not (hi - lo >= 1 and all(o.startswith('error=') for o in impl[lo:hi])):
                            rejected_ok = False
                            failures.append((tag, 'a row/column array passed for a SCALAR parameter was accepted (the C++ entity did not receive the supplied '
                                                  'argument values): operation `%s` observed as %s' % (dl[k], impl[lo:hi])))
                    else:
                        new_first.append(len(keep))
                        keep += impl[lo:hi]
                        new_dl.append(dl[k])
                new_dl += [l for k, l in enumerate(dl) if k >= len(first_obs) and k not in sim.reject_idx]
                dl, impl, first_obs = new_dl, keep, new_first
            bad = supplied_values_oracle(dl, impl, first_obs)
            if bad:
                failures.append((tag, bad))
            got_flat = [c for k in sorted(got_copies) for c in got_copies[k]]
            want_flat = [c for k in sorted(sim.copy_log) for c in sim.copy_log[k]]
            if got_flat != want_flat:
                j = next((i for i in range(min(len(got_flat), len(want_flat))) if got_flat[i] != want_flat[i]),
                         min(len(got_flat), len(want_flat)))
                k = next((k for k in sorted(sim.copy_log) if j < sum(len(sim.copy_log[q]) for q in sim.copy_log if q <= k)), None)
                failures.append((tag, 'a returned copy is not a copy of the declared source (serial<origin): call %s made copies %s, declared %s'
                                 % (dl_all[k] if k is not None and k < len(dl_all) else '?', got_flat[j:j + 4], want_flat[j:j + 4])))
            endl = [l for l in out if l.startswith('end ')]
            steps += len(obs)
            if impl != obs:
                k = next((j for j in range(min(len(impl), len(obs))) if impl[j] != obs[j]),
                         min(len(impl), len(obs)))
                failures.append((tag, 'step %d differs\n   impl : %s\n   model: %s\n   op   : %s' % (
                    k, impl[k] if k < len(impl) else '<missing>', obs[k] if k < len(obs) else '<missing>',
                    mc[k] if k < len(mc) else '?')))
            if rc != 0 and not (rc == 3 and sim.reject_idx and rejected_ok and not any(o.startswith('error=') for o in impl)):
                failures.append((tag, 'driver exit code %d: %s' % (rc, err[-1500:])))
            elif args.asan and ('AddressSanitizer' in err or 'runtime error' in err or 'LeakSanitizer' in err):
                failures.append((tag, 'sanitizer report: ' + err[-1500:]))
            if not endl or not re.match(r'end live=0 arrays=0$', endl[-1]):
                failures.append((tag, 'leftovers at exit: %s' % (endl[-1] if endl else '<no end line>')))
        if args.finding:
            replay_finding(U, gdir, exe, args)
        if not args.keep and not failures:
            shutil.rmtree(gdir, ignore_errors=True)
    print('[c11] distribution: gateways=%d histories=%d observed steps=%d' % (
        args.gateways, args.gateways * args.n, steps))
    for k in sorted(total):
        print('        %-48s %d' % (k, total[k]))
    print('        constructed handles by chain depth        %s' % dict(sorted(depths.items())))
    if args.json_out:
        with open(args.json_out, 'w') as f:
            json.dump(dict(failures=[dict(tag=t, msg=m) for t, m in failures[:20]], n_failures=len(failures),
                           gateways=args.gateways, histories=args.gateways * args.n, steps=steps,
                           distribution=dict(total), depths={str(k): v for k, v in depths.items()},
                           samples=samples[:3]), f, indent=1)
    if failures:
        print('[c11] FAIL: %d problem(s)' % len(failures))
        for tag, msg in failures[:20]:
            print('  - %s: %s' % (tag, msg))
        sys.exit(1)
    print('[c11] PASS: implementation and model agree on every step (%.1fs)%s%s' % (
        time.time() - t0, ', ASan/UBSan clean' if args.asan else '',
        ', valgrind: no definite leak' if args.valgrind else ''))


def supplied_values_oracle(dl, impl, first_obs):
    """The property's own observation, independent of the model: the C++ entity reached by a call / static / func /
    new operation received the scalar values the session supplied (the library records `name(values)`)."""
    for k, line in enumerate(dl):
        tok = line.split(' ')
        skip = {'call': 3, 'static': 3, 'func': 2, 'new': 2}.get(tok[0])
        if skip is None or k >= len(first_obs):
            continue
        lo, hi = first_obs[k], first_obs[k + 1] if k + 1 < len(first_obs) else len(impl)
        supplied = tok[skip:]
        if tok[0] == 'call':
            name = tok[1]
        elif tok[0] == 'static':
            name = tok[2]
        elif tok[0] == 'func':
            name = tok[1]
        else:
            name = tok[1].split('.')[-1]
        want = []
        for t in supplied:
            if t[0] == 'm':        # the number the library shows for an array: shape and element positions
                shape, _, vs = t[1:].partition(':')
                rows, cols = map(int, shape.split('x'))
                vals = [int(v) for v in vs.split(',')] if vs else []
                lin = sum((i + 1) * v for i, v in enumerate(vals))
                # (a Vector shows 1000*size + lin, a Matrix 100000*cols + 1000*rows + lin; either is the supplied value)
                want.append((str(1000 * rows + lin), str(100000 * cols + 1000 * rows + lin)) if cols == 1 else str(100000 * cols + 1000 * rows + lin))
                continue
            want.append(str(int(t[1:])) if t[0] in 'iul' else "'%s'" % t[1:] if t[0] in 'sS' else None)
        if not any(w is not None for w in want):
            continue
        found = False
        for obs in impl[lo:hi]:
            if obs.startswith('error='):
                found = True      # rejected calls are the model's business
                continue
            m = re.match(r'call=([^;]*);', obs)
            for entry in (m.group(1).split('|') if m else []):
                m2 = re.match(r'((?:\w+::)*)(\w+)\((.*)\)$', entry)
                if not m2:
                    continue
                if tok[0] == 'func':
                    # a free function is one C++ entity: the one with the fully qualified name of the MATLAB function
                    if m2.group(1) + m2.group(2) != name.replace('.', '::'):
                        continue
                elif m2.group(2) != name:
                    continue
                m2 = re.match(r'(?:\w+::)*(\w+)\((.*)\)$', entry)
                got = m2.group(2).split(',') if m2.group(2) else []
                if tok[0] == 'call':
                    got = got[1:]          # the receiver
                if len(got) >= len(want) and all(w is None or g == w or (isinstance(w, tuple) and g in w) for g, w in zip(got, want)):
                    found = True
        if not found and hi > lo:
            return 'the C++ entity did not receive the supplied argument values: operation `%s` observed as %s' % (line, impl[lo:hi])
    return None


def replay_finding(U, gdir, exe, args):
    """`a = C(); clear mex; clear a` : the deconstructor runs `delete self` on a cell that
    `_deleteAllObjects` already released."""
    e = next(e for e in U['entities'] if e['kind'] == 'ctor')
    c = U['classes'][e['cls']]
    ctor_args = ' '.join('sab' if t == 'string' else 'i1' for t, _, _ in e['params'])
    dl = [('new %s %s' % (c['matlab'], ctor_args)).rstrip(), 'unload', 'del 0']
    rc, out, err = run_driver(exe, gdir, dl, args.asan, args.valgrind)
    bad = rc != 0 or 'AddressSanitizer' in err or 'Invalid free' in err
    print('[c11] finding replay (%s: construct, unload, delete): %s' % (
        c['matlab'], 'double free reported' if bad else
        ('clean, no report' if (args.asan or args.valgrind) else 'no report (needs --asan or --valgrind)')))
    for l in err.splitlines():
        if 'ERROR' in l or 'Invalid free' in l or 'attempting double-free' in l:
            print('        ' + l.strip())
            break


if __name__ == '__main__':
    main()
