#!/usr/bin/env python3
"""C11 harness: read the generated MATLAB files just enough to play them.

No MATLAB exists in the sandbox, so the `.m` files cannot be executed.  This module scans the
text of every generated classdef / function file and extracts, per class and member, the
gateway call sites `<module>_wrapper(<id>, ...)` together with the `nargin` / `isa` guards in
front of them, the magic-key branch of the constructor, the base-constructor call and the
`delete` body.  The result is a flat table (`calls.tsv`) that the C++ driver loads; the driver
issues every gateway call *by the id found here* -- ids are never recomputed, so a mismatch
between the `.m` files and `<module>_wrapper.cpp` shows up as a wrong call trace.

Record formats (TAB separated):
  C <class> <parent|handle>
  K <class> <voidGuard 0|1> <upcastId|-1> <collectorId> <hasBasePtr 0|1> <key>
  N <class> <nargin> <guards> <id> <nout> <npassed>          constructor branch (in file order)
  B <class> <parentClass> <key>                              obj = obj@Parent(uint64(key), base_ptr)
  P <class> <ptrProperty>                                    obj.ptr_X = my_ptr
  D <class> <id> <ptrProperty>                               delete(obj)
  M <class> <method> <nargs> <guards> <id> <nout>            method overload (in file order)
  S <class> <method> <nargs> <guards> <id> <nout>            static method overload
  F <function> <nargs> <guards> <id> <nout>                  global function overload
  G <class> <property> <id> <assignsThis 0|1>                get.<property>
  T <class> <property> <id>                                  set.<property>
  E <enumeration class>                                      generated enumeration file
<guards> is `-` or `i:type,...,i#d=n,...` (1-based varargin index; MATLAB class name, or size(varargin{i},d)==n).
"""
import os
import re
import sys

GUARD_RE = re.compile(r"isa\(varargin\{(\d+)\},'([^']+)'\)")
SIZE_RE = re.compile(r"size\(varargin\{(\d+)\},(\d)\)==(\d+)")


def guards_of(cond):
    g = ['%s:%s' % (i, t) for i, t in GUARD_RE.findall(cond)]
    g += ['%s#%s=%s' % (i, d, n) for i, d, n in SIZE_RE.findall(cond)]     # size(varargin{i},d)==n
    return ','.join(g) if g else '-'


def matlab_name(root, path):
    rel = os.path.relpath(path, root)
    parts = rel.split(os.sep)
    pk = [p[1:] for p in parts[:-1] if p.startswith('+')]
    return '.'.join(pk + [parts[-1][:-2]])


def parse_classdef(name, text, wrapper):
    recs = []
    W = re.escape(wrapper)
    call_re = re.compile(r'(?:(\[[^\]]*\]|[A-Za-z_][\w{}]*)\s*=\s*)?' + W + r'\((\d+)(.*?)\);')
    m = re.search(r'^classdef\s+(\S+)\s*<\s*(\S+)', text, re.M)
    if not m:
        raise ValueError('no classdef in ' + name)
    recs.append(('C', name, m.group(2)))
    lines = text.splitlines()
    i = 0
    section = None            # 'methods' | 'static'
    while i < len(lines):
        ln = lines[i].strip()
        if ln.startswith('methods(Static = true)'):
            section = 'static'
        elif ln == 'methods':
            section = 'methods'
        fm = re.match(r'function\s+(?:(\w+)\s*=\s*)?([\w.]+)\((.*?)\)', ln)
        if fm and section:
            fname = fm.group(2)
            # function body: until the matching column-aligned 'end' -- the generated code keeps
            # one function per block, so scan to the next 'function' or section end.
            j = i + 1
            body = []
            while j < len(lines) and not re.match(r'\s*function\s', lines[j]) \
                    and not lines[j].strip().startswith('methods'):
                body.append(lines[j])
                j += 1
            btxt = '\n'.join(body)
            short = name.split('.')[-1]
            if section == 'methods' and fname == short:
                recs += parse_ctor(name, body, call_re)
            elif section == 'methods' and fname == 'delete':
                cm = call_re.search(btxt)
                pm = re.search(r'obj\.(ptr_\w+)', cm.group(3))
                recs.append(('D', name, cm.group(2), pm.group(1)))
            elif section == 'methods' and fname.startswith('get.'):
                cm = call_re.search(btxt)
                assigns = 1 if re.search(r'this\.%s\s*=' % re.escape(fname[4:]), btxt) else 0
                recs.append(('G', name, fname[4:], cm.group(2), str(assigns)))
            elif section == 'methods' and fname.startswith('set.'):
                cm = call_re.search(btxt)
                recs.append(('T', name, fname[4:], cm.group(2)))
            elif fname in ('display', 'disp'):
                pass
            else:
                recs += parse_overloads('M' if section == 'methods' else 'S', name, fname, body,
                                        call_re)
            i = j
            continue
        i += 1
    return recs


def nout_of(lhs):
    if not lhs:
        return 0
    if lhs.startswith('['):
        return len([t for t in re.split(r'[\s,]+', lhs.strip('[] ')) if t])
    return 1


def parse_overloads(tag, cls, fname, body, call_re):
    recs = []
    cond = None
    for ln in body:
        s = ln.strip()
        cm = re.match(r'(?:if|elseif)\s+length\(varargin\)\s*==\s*(\d+)(.*)$', s)
        if cm:
            cond = (cm.group(1), guards_of(cm.group(2)))
            continue
        km = call_re.search(s)
        if km and cond is not None:
            head = (tag, cls, fname) if tag != 'F' else (tag, fname)
            recs.append(head + (cond[0], cond[1], km.group(2), str(nout_of(km.group(1)))))
            cond = None
    return recs


def parse_ctor(cls, body, call_re):
    recs = []
    txt = '\n'.join(body)
    key = re.search(r'varargin\{1\}\s*==\s*uint64\((\d+)\)', txt).group(1)
    void_guard = 1 if "strcmp(varargin{3}, 'void')" in txt else 0
    state = None
    upcast, collector, hasbase = '-1', None, 0
    for ln in body:
        s = ln.strip()
        if s.startswith('if ') and 'uint64(' in s:
            state = 'key'
            continue
        em = re.match(r'elseif\s+nargin\s*==\s*(\d+)(.*)$', s)
        if em:
            state = ('ctor', em.group(1), guards_of(em.group(2)))
            continue
        if s.startswith('else') and state != 'key-inner':
            if state == 'key' and s == 'else':
                # inner `else` of the virtual `if nargin == 2 ... else ... end`
                state = 'key-else'
                continue
            if s == 'else' and state not in ('key', 'key-else'):
                state = 'error'
            continue
        km = call_re.search(s)
        if km and state == 'key-else':
            upcast = km.group(2)
            state = 'key'
            continue
        if km and state == 'key':
            collector = km.group(2)
            hasbase = 1 if (km.group(1) or '').strip() == 'base_ptr' else 0
            continue
        if km and isinstance(state, tuple):
            npassed = len(re.findall(r'varargin\{\d+\}', km.group(3)))
            recs.append(('N', cls, state[1], state[2], km.group(2), str(nout_of(km.group(1))),
                         str(npassed)))
            state = None
            continue
        bm = re.match(r'obj\s*=\s*obj@([\w.]+)\(uint64\((\d+)\),\s*base_ptr\);', s)
        if bm:
            recs.append(('B', cls, bm.group(1), bm.group(2)))
        pm = re.match(r'obj\.(ptr_\w+)\s*=\s*my_ptr;', s)
        if pm:
            recs.append(('P', cls, pm.group(1)))
    recs.insert(0, ('K', cls, str(void_guard), upcast, collector, str(hasbase), key))
    return recs


def parse_function_file(name, text, wrapper):
    W = re.escape(wrapper)
    call_re = re.compile(r'(?:(\[[^\]]*\]|[A-Za-z_][\w{}]*)\s*=\s*)?' + W + r'\((\d+)(.*?)\);')
    return parse_overloads('F', None, name, text.splitlines(), call_re)


def build_table(root, wrapper):
    recs = []
    for dp, _, files in sorted(os.walk(root)):
        for fn in sorted(files):
            if not fn.endswith('.m'):
                continue
            path = os.path.join(dp, fn)
            with open(path) as f:
                text = f.read()
            name = matlab_name(root, path)
            if re.search(r'^classdef\s', text, re.M):
                if re.search(r'^\s*enumeration\s*$', text, re.M):
                    recs.append(('E', name))      # an enumeration class: <name>(value) converts a number to it
                    continue
                recs += parse_classdef(name, text, wrapper)
            else:
                recs += parse_function_file(name, text, wrapper)
    return recs


def write_table(root, wrapper, out):
    recs = build_table(root, wrapper)
    with open(out, 'w') as f:
        for r in recs:
            f.write('\t'.join(r) + '\n')
    return recs


if __name__ == '__main__':
    root, wrapper, out = sys.argv[1], sys.argv[2], sys.argv[3]
    rs = write_table(root, wrapper, out)
    print('player: %d records from %s' % (len(rs), root))
