#!/usr/bin/env python3
"""C11 harness self-test: does the correspondence notice realistic one-line defects?

/repo is never touched: `gtwrap/` and `matlab.h` are copied to a scratch directory, one textual
mutation is applied to the copy, and run_c11.py is run against the copy (WRAP_REPO).  A mutant
is *caught* when run_c11.py exits non-zero (trace/observation difference, crash, sanitizer
report, leftovers at exit) or the build fails.

usage: mutants_c11.py [--asan] [--only NAME]
"""
import argparse
import os
import shutil
import subprocess
import sys

HERE = os.path.dirname(os.path.abspath(__file__))
REPO = '/repo'

W = 'gtwrap/matlab_wrapper/wrapper.py'
T = 'gtwrap/matlab_wrapper/templates.py'
H = 'matlab.h'

MUTANTS = [
    ('erase_without_delete', W,
     "                    }}\n                    delete self;\n", "                    }}\n",
     'deconstructor: `collector.erase` but no `delete self` (cell and object leak)'),
    ('delete_inside_if', W,
     "                      collector_{class_name}.erase(item);\n                    }}\n                    delete self;\n",
     "                      collector_{class_name}.erase(item);\n                      delete self;\n                    }}\n",
     'deconstructor: `delete self` only when found in the collector (this is the FIX of the finding)'),
    ('base_ptr_aliases_self', W,
     "*reinterpret_cast<SharedBase**>(mxGetData(out[0])) = new SharedBase(*self);",
     "*reinterpret_cast<SharedBase**>(mxGetData(out[0])) = reinterpret_cast<SharedBase*>(self);",
     'collectorInsertAndMakeBase: `new SharedBase(*self)` dropped, base level aliases the derived cell'),
    ('ctor_base_ptr_aliases_self', W,
     "*reinterpret_cast<SharedBase**>(mxGetData(out[1])) = new SharedBase(*self);",
     "*reinterpret_cast<SharedBase**>(mxGetData(out[1])) = reinterpret_cast<SharedBase*>(self);",
     'constructor: `new SharedBase(*self)` dropped'),
    ('no_mexAtExit', W,
     "mexAtExit(&_deleteAllObjects);", "",
     '`mexAtExit` registration removed from constructor and collectorInsertAndMakeBase'),
    ('deleteAll_skips_erase', T,
     "                  delete *iter;\n", "",
     '_deleteAllObjects: erase without `delete *iter`'),
    ('ctor_no_collector_insert', W,
     "                      collector_{class_name}.insert(self);\n                      out[0] = mxCreateNumericMatrix",
     "                      out[0] = mxCreateNumericMatrix",
     'constructor: `collector.insert(self)` dropped'),
    ('wrong_delete_id_in_m', W,
     "        \"\"\").format(num=self._update_wrapper_id(\n            (namespace_name, inst_class, 'deconstructor', None)),",
     "        \"\"\").format(num=1 + self._update_wrapper_id(\n            (namespace_name, inst_class, 'deconstructor', None)),",
     '.m `delete` calls id+1 instead of the deconstructor id'),
    ('m_passes_my_ptr_to_base', W,
     "obj = obj@{parent_name}(uint64(5139824614673773682), base_ptr);",
     "obj = obj@{parent_name}(uint64(5139824614673773682), my_ptr);",
     '.m constructor hands `my_ptr` (not `base_ptr`) to the base class constructor'),
    ('method_id_off_by_one', W,
     "                        num=self._update_wrapper_id(\n                            (namespace_name, inst_class,\n                             overload.original.name, overload)),",
     "                        num=self._update_wrapper_id(\n                            (namespace_name, inst_class,\n                             overload.original.name, overload)) ^ 1,",
     '.m method call sites use id xor 1'),
    ('args_swapped', W,
     "        for arg in args.backup.list():\n            if params != '':",
     "        for arg in reversed(args.backup.list()):\n            if params != '':",
     'routine passes the arguments to the C++ entity in reverse order'),
    ('wrap_shared_ptr_stack_cell', H,
     "    std::shared_ptr<Class> *heapPtr = new std::shared_ptr<Class>(shared_ptr);\n    result = create_object(matlabName, heapPtr, isVirtual, \"\");",
     "    std::shared_ptr<Class> *heapPtr = &shared_ptr;\n    result = create_object(matlabName, heapPtr, isVirtual, \"\");",
     'matlab.h wrap_shared_ptr: no heap copy, the address of the by-value parameter is handed out'),
    ('unwrap_shared_ptr_leaks_copy', H,
     "  std::shared_ptr<Class>* spp = *reinterpret_cast<std::shared_ptr<Class>**> (mxGetData(mxh));\n  return *spp;",
     "  std::shared_ptr<Class>* spp = *reinterpret_cast<std::shared_ptr<Class>**> (mxGetData(mxh));\n  return *(new std::shared_ptr<Class>(*spp));",
     'matlab.h unwrap_shared_ptr: leaks one shared_ptr copy per call'),
]


def main():
    ap = argparse.ArgumentParser()
    ap.add_argument('--asan', action='store_true')
    ap.add_argument('--only', default=None)
    ap.add_argument('--work', default='/tmp/c11_mutants')
    ap.add_argument('--n', type=int, default=12)
    args = ap.parse_args()
    results = []
    for name, rel, old, new, descr in MUTANTS:
        if args.only and args.only != name:
            continue
        root = os.path.join(args.work, name)
        shutil.rmtree(root, ignore_errors=True)
        os.makedirs(root)
        shutil.copytree(os.path.join(REPO, 'gtwrap'), os.path.join(root, 'gtwrap'))
        shutil.copy(os.path.join(REPO, 'matlab.h'), os.path.join(root, 'matlab.h'))
        path = os.path.join(root, rel)
        with open(path) as f:
            src = f.read()
        if old not in src:
            results.append((name, 'NOT APPLICABLE (pattern not found)', descr))
            continue
        with open(path, 'w') as f:
            f.write(src.replace(old, new))
        env = dict(os.environ, WRAP_REPO=root)
        cmd = [sys.executable, os.path.join(HERE, 'run_c11.py'), '--seed', '7', '--n', str(args.n),
               '--gateways', '2', '--ops', '40', '--workdir', os.path.join(root, 'work')]
        if args.asan:
            cmd.append('--asan')
        p = subprocess.run(cmd, env=env, capture_output=True, text=True)
        tail = [l for l in p.stdout.splitlines() if l.startswith('  - ')][:1]
        verdict = 'caught' if p.returncode != 0 else 'NOT caught'
        why = tail[0][4:160] if tail else (p.stderr.strip().splitlines()[-1][:160] if p.returncode != 0 and p.stderr.strip() else '')
        results.append((name, verdict + (' -- ' + why if why else ''), descr))
        shutil.rmtree(os.path.join(root, 'work'), ignore_errors=True)
    for name, verdict, descr in results:
        print('%-30s %s\n%30s (%s)' % (name, verdict, '', descr))


if __name__ == '__main__':
    main()
