// C11 harness driver: a stand-in for a MATLAB session that uses only the generated .m files.
//
// Build (done by run_c11.py):
//   g++ -std=c++17 -DWRAPPER_CPP='"<out>/<module>_wrapper.cpp"' -DGLUE_INC='"<dir>/c11_glue.inc"'
//       -I<incdir with gtwrap/matlab.h -> /repo/matlab.h> -I<mock> -I<universe dir>
//       driver.cpp mock/mock_mex.cpp
// The generated gateway is *included* so that its `static` collectors are visible; the real
// /repo/matlab.h is the one it includes.
//
// Usage: driver <calls.tsv> < ops
// One MATLAB-level operation per input line (see NOTES.md); one observation line per gateway
// step on stdout, in the format of the Lean model's `observe`.

#include WRAPPER_CPP   // brings <gtwrap/matlab.h>, the instrumented library and mexFunction

#include <cinttypes>
#include <cstdio>
#include <fstream>
#include <iostream>
#include <map>
#include <set>
#include <sstream>
#include <string>
#include <vector>

#include "mock_mex.hpp"

#include GLUE_INC      // kNumClasses, kMatlabNames, glueCollSize, glueForEachCell, glueSerialOf

namespace {

// ----------------------------------------------------------------------------------------------
// the table extracted from the .m files by player.py

struct Guard { int idx; std::string type; int dim = 0; size_t extent = 0; };   // dim != 0: size(varargin{idx},dim)==extent
struct Overload { int nargs; std::vector<Guard> guards; int id; int nout; };
struct ClassDef {
  std::string name, parent;            // parent == "handle" for roots
  bool hasKey = false, voidGuard = false, hasBasePtr = false;
  int upcastId = -1, collectorId = -1;
  std::uint64_t key = 0;
  std::vector<Overload> ctors;
  std::string baseCallClass; std::uint64_t baseCallKey = 0;
  std::string ptrProp;
  int deleteId = -1; std::string deleteProp;
  std::map<std::string, std::vector<Overload>> methods, statics;
  std::map<std::string, std::pair<int, bool>> getters;   // id, assigns this.<prop>
  std::map<std::string, int> setters;
};
std::map<std::string, ClassDef> g_classes;
std::map<std::string, std::vector<Overload>> g_functions;

std::vector<std::string> split(const std::string& s, char sep) {
  std::vector<std::string> out; std::string cur;
  for (char c : s) { if (c == sep) { out.push_back(cur); cur.clear(); } else cur += c; }
  out.push_back(cur);
  return out;
}

std::vector<Guard> parseGuards(const std::string& g) {
  std::vector<Guard> out;
  if (g == "-") return out;
  for (auto& t : split(g, ',')) {
    auto h = t.find('#');
    if (h != std::string::npos) {
      auto e = t.find('=');
      Guard g; g.idx = std::stoi(t.substr(0, h)); g.dim = std::stoi(t.substr(h + 1, e - h - 1)); g.extent = std::stoull(t.substr(e + 1));
      out.push_back(g);
      continue;
    }
    auto p = t.find(':');
    Guard g; g.idx = std::stoi(t.substr(0, p)); g.type = t.substr(p + 1);
    out.push_back(g);
  }
  return out;
}

std::set<std::string> g_enums;    // MATLAB names of the generated enumeration classes

void loadTable(const char* path) {
  std::ifstream in(path);
  if (!in) { std::fprintf(stderr, "cannot open %s\n", path); std::exit(2); }
  std::string line;
  while (std::getline(in, line)) {
    if (line.empty()) continue;
    auto f = split(line, '\t');
    const std::string& tag = f[0];
    if (tag == "C") { g_classes[f[1]].name = f[1]; g_classes[f[1]].parent = f[2]; }
    else if (tag == "K") {
      ClassDef& c = g_classes[f[1]];
      c.hasKey = true; c.voidGuard = f[2] == "1"; c.upcastId = std::stoi(f[3]);
      c.collectorId = std::stoi(f[4]); c.hasBasePtr = f[5] == "1"; c.key = std::stoull(f[6]);
    } else if (tag == "N") {
      g_classes[f[1]].ctors.push_back({std::stoi(f[2]), parseGuards(f[3]), std::stoi(f[4]), std::stoi(f[5])});
    } else if (tag == "B") { g_classes[f[1]].baseCallClass = f[2]; g_classes[f[1]].baseCallKey = std::stoull(f[3]); }
    else if (tag == "P") g_classes[f[1]].ptrProp = f[2];
    else if (tag == "D") { g_classes[f[1]].deleteId = std::stoi(f[2]); g_classes[f[1]].deleteProp = f[3]; }
    else if (tag == "M") g_classes[f[1]].methods[f[2]].push_back({std::stoi(f[3]), parseGuards(f[4]), std::stoi(f[5]), std::stoi(f[6])});
    else if (tag == "S") g_classes[f[1]].statics[f[2]].push_back({std::stoi(f[3]), parseGuards(f[4]), std::stoi(f[5]), std::stoi(f[6])});
    else if (tag == "F") g_functions[f[1]].push_back({std::stoi(f[2]), parseGuards(f[3]), std::stoi(f[4]), std::stoi(f[5])});
    else if (tag == "G") g_classes[f[1]].getters[f[2]] = {std::stoi(f[3]), f[4] == "1"};
    else if (tag == "T") g_classes[f[1]].setters[f[2]] = std::stoi(f[3]);
    else if (tag == "E") g_enums.insert(f[1]);
  }
}

// ----------------------------------------------------------------------------------------------
// MATLAB handle objects

struct MObj {
  std::string cls;
  std::map<std::string, std::uint64_t> props;   // ptr_<Class> properties that have been assigned
  bool valid = true;
};
std::vector<MObj> g_objs;
std::vector<int> g_newHandles;                  // handles created during the current operation

struct MatlabError : std::runtime_error { using std::runtime_error::runtime_error; };

bool isaClass(const std::string& cls, const std::string& type) {
  std::string c = cls;
  while (true) {
    if (c == type) return true;
    auto it = g_classes.find(c);
    if (it == g_classes.end() || it->second.parent == "handle") return false;
    c = it->second.parent;
  }
}

bool isa(const mxArray* v, const std::string& type) {
  mxClassID id = mxGetClassID(v);
  if (type == "numeric")
    return id == mxDOUBLE_CLASS || id == mxSINGLE_CLASS || (id >= mxINT8_CLASS && id <= mxUINT64_CLASS);
  if (type == "double") return id == mxDOUBLE_CLASS;
  if (type == "char") return id == mxCHAR_CLASS;
  if (type == "uint64") return id == mxUINT64_CLASS;
  if (type == "logical") return id == mxLOGICAL_CLASS;
  if (mock::isObject(v)) return isaClass(g_objs[mock::objectId(v)].cls, type);
  return false;
}

bool matches(const Overload& o, const std::vector<mxArray*>& args) {
  if ((int)args.size() != o.nargs) return false;
  for (auto& g : o.guards) {
    if (g.idx < 1 || g.idx > (int)args.size()) return false;
    const mxArray* a = args[g.idx - 1];
    if (g.dim != 0) {
      if (mock::isObject(a)) { if (g.extent != 1) return false; continue; }    // a handle object is 1-by-1
      size_t ext = g.dim == 1 ? mxGetM(a) : g.dim == 2 ? mxGetN(a) : 1;
      if (ext != g.extent) return false;
    } else if (!isa(a, g.type)) return false;
  }
  return true;
}

std::streambuf* g_coutBuf = nullptr;

// <module>_wrapper(id, args...) with `nout` requested outputs
std::vector<mxArray*> gateway(int id, int nout, const std::vector<mxArray*>& args) {
  std::vector<const mxArray*> rhs;
  rhs.push_back(mxCreateDoubleScalar(id));
  for (mxArray* a : args) rhs.push_back(a);
  std::vector<mxArray*> lhs(nout > 0 ? nout : 1, nullptr);
  try {
    mexFunction(nout, lhs.data(), (int)rhs.size(), rhs.data());
  } catch (...) {
    std::cout.rdbuf(g_coutBuf);   // the gateway leaves cout redirected to a dead buffer on error
    throw;
  }
  for (int i = 0; i < nout; ++i)
    if (!lhs[i]) throw MatlabError("One or more output arguments not assigned (gateway id " + std::to_string(id) + ")");
  lhs.resize(nout);
  return lhs;
}

mxArray* uint64Scalar(std::uint64_t v) {
  mxArray* a = mxCreateNumericMatrix(1, 1, mxUINT64_CLASS, mxREAL);
  *reinterpret_cast<std::uint64_t*>(mxGetData(a)) = v;
  return a;
}

// The generated classdef constructor `obj = <cls>(varargin)` running on object `objId`
// (MATLAB runs the sub-class constructor body first, which calls obj@Base(...) explicitly).
void runConstructor(const std::string& cls, int objId, const std::vector<mxArray*>& varargin) {
  auto it = g_classes.find(cls);
  if (it == g_classes.end()) throw MatlabError("Undefined function or class '" + cls + "'");
  const ClassDef& c = it->second;
  const int nargin = (int)varargin.size();
  mxArray* myPtr = nullptr; mxArray* basePtr = nullptr;
  bool keyBranch = c.hasKey &&
      (nargin == 2 || (c.voidGuard && nargin == 3 && mxIsChar(varargin[2]) && mock::charValue(varargin[2]) == "void")) &&
      isa(varargin[0], "uint64") && *reinterpret_cast<std::uint64_t*>(mxGetData(varargin[0])) == c.key;
  if (keyBranch) {
    if (nargin == 2) myPtr = varargin[1];
    else myPtr = gateway(c.upcastId, 1, {varargin[1]})[0];
    if (c.hasBasePtr) basePtr = gateway(c.collectorId, 1, {myPtr})[0];
    else gateway(c.collectorId, 0, {myPtr});
  } else {
    const Overload* hit = nullptr;
    for (auto& o : c.ctors) if (matches(o, varargin)) { hit = &o; break; }
    if (!hit) throw MatlabError("Arguments do not match any overload of " + cls + " constructor");
    auto out = gateway(hit->id, hit->nout, varargin);
    myPtr = out[0];
    if (hit->nout >= 2) basePtr = out[1];
  }
  if (!c.baseCallClass.empty()) {
    if (!basePtr) throw MatlabError("Undefined function or variable 'base_ptr'.");
    runConstructor(c.baseCallClass, objId, {uint64Scalar(c.baseCallKey), basePtr});
  }
  if (mxGetClassID(myPtr) != mxUINT64_CLASS) throw MatlabError("my_ptr is not a uint64");
  g_objs[objId].props[c.ptrProp] = *reinterpret_cast<std::uint64_t*>(mxGetData(myPtr));
}

int newObject(const std::string& cls, const std::vector<mxArray*>& varargin) {
  int id = (int)g_objs.size();
  g_objs.push_back({cls, {}, true});
  try {
    runConstructor(cls, id, varargin);
  } catch (...) {
    g_objs[id].valid = false;   // constructor error: MATLAB discards the object (no delete here:
    throw;                      // out of the C11 session universe)
  }
  g_newHandles.push_back(id);
  return id;
}

// delete(obj) of the most-derived classdef, then of every base classdef
void deleteObject(int id) {
  MObj& o = g_objs[id];
  if (!o.valid) throw MatlabError("Invalid or deleted object.");
  std::string cls = o.cls;
  while (true) {
    const ClassDef& c = g_classes.at(cls);
    auto pit = o.props.find(c.deleteProp);
    // an unassigned ptr_ property has its default value 0
    mxArray* p = uint64Scalar(pit == o.props.end() ? 0 : pit->second);
    gateway(c.deleteId, 0, {p});
    if (c.parent == "handle") break;
    cls = c.parent;
  }
  o.valid = false;
}

const std::vector<Overload>* findMethod(const std::string& cls, const std::string& name, std::string* owner) {
  std::string c = cls;
  while (true) {
    auto it = g_classes.find(c);
    if (it == g_classes.end()) return nullptr;
    auto m = it->second.methods.find(name);
    if (m != it->second.methods.end()) { if (owner) *owner = c; return &m->second; }
    if (it->second.parent == "handle") return nullptr;
    c = it->second.parent;
  }
}

const ClassDef* findPropOwner(const std::string& cls, const std::string& prop, bool setter) {
  std::string c = cls;
  while (true) {
    auto it = g_classes.find(c);
    if (it == g_classes.end()) return nullptr;
    if (setter ? it->second.setters.count(prop) : it->second.getters.count(prop)) return &it->second;
    if (it->second.parent == "handle") return nullptr;
    c = it->second.parent;
  }
}

// ----------------------------------------------------------------------------------------------
// observation

std::string retString(const std::vector<mxArray*>& outs) {
  if (!g_newHandles.empty()) {
    std::string s;
    for (int h : g_newHandles) {
      if (!s.empty()) s += ",";
      const MObj& o = g_objs[h];
      const ClassDef& c = g_classes.at(o.cls);
      auto p = o.props.find(c.ptrProp);
      long serial = p == o.props.end() ? -1 : glueSerialOf(o.cls, p->second);
      s += "H" + std::to_string(h) + ":" + o.cls + "@" + std::to_string(serial);
    }
    return s;
  }
  for (mxArray* a : outs) {
    if (!a || mock::isObject(a)) continue;
    mxClassID id = mxGetClassID(a);
    char buf[64];
    if (id == mxDOUBLE_CLASS) std::snprintf(buf, sizeof buf, "%lld", (long long)mxGetScalar(a));
    else if (id == mxUINT64_CLASS) std::snprintf(buf, sizeof buf, "%" PRIu64, *reinterpret_cast<std::uint64_t*>(mxGetData(a)));
    else std::snprintf(buf, sizeof buf, "?class%d", (int)id);
    return buf;
  }
  return "-";
}

void observe(const std::vector<mxArray*>& outs) {
  std::string tr;
  for (auto& t : c11::trace()) { if (!tr.empty()) tr += "|"; tr += t; }
  if (tr.empty()) tr = "-";
  c11::trace().clear();
  if (!c11::copies().empty()) {
    // which object every copy made during this step is a copy of (checked by the harness, not by the model)
    std::string cl = "copies ";
    for (auto& c : c11::copies()) cl += std::to_string(c.first) + "<" + std::to_string(c.second) + ",";
    c11::copies().clear();
    std::puts(cl.c_str());
  }
  std::string line = "call=" + tr + ";ret=" + retString(outs) + ";live=";
  for (int k = 0; k < kNumClasses; ++k) line += (k ? "," : "") + std::to_string(c11::live()[k]);
  line += ";coll=";
  for (int k = 0; k < kNumClasses; ++k) line += (k ? "," : "") + std::to_string(glueCollSize(k));
  std::map<int, std::pair<int, long>> objs;   // serial -> (dyn, use_count)
  glueForEachCell([&](int serial, int dyn, long uc) { objs[serial] = {dyn, uc}; });
  for (auto& kv : c11::keeper())
    for (auto& sp : kv.second) objs[sp->serial] = {sp->dyn, sp.use_count()};
  line += ";objs=";
  bool first = true;
  for (auto& kv : objs) {
    if (!first) line += ",";
    first = false;
    line += std::to_string(kv.first) + ":" + std::to_string(kv.second.first) + ":" + std::to_string(kv.second.second);
  }
  std::puts(line.c_str());
  g_newHandles.clear();
}

mxArray* parseArg(const std::string& t) {
  if (t.empty()) throw MatlabError("empty argument");
  if (t[0] == 'i') return mxCreateDoubleScalar(std::stod(t.substr(1)));
  if (t[0] == 'u' || t[0] == 'l') {   // uint64(n) / int64(n): what a MATLAB session passes for 64-bit keys
    mxArray* a = mxCreateNumericMatrix(1, 1, t[0] == 'u' ? mxUINT64_CLASS : mxINT64_CLASS, mxREAL);
    if (t[0] == 'u') *reinterpret_cast<std::uint64_t*>(mxGetData(a)) = std::stoull(t.substr(1));
    else *reinterpret_cast<std::int64_t*>(mxGetData(a)) = std::stoll(t.substr(1));
    return a;
  }
  if (t[0] == 's') return mxCreateString(t.substr(1).c_str());
  if (t[0] == 'S') return mock::makeCharColumn(t.substr(1));      // s(:) : the same characters as an N-by-1 char array
  if (t[0] == 'm') {                                                // m<rows>x<cols>:<v,v,...> double array, column-major
    auto x = t.find('x'); auto c = t.find(':');
    size_t rows = std::stoull(t.substr(1, x - 1)), cols = std::stoull(t.substr(x + 1, c - x - 1));
    mxArray* a = mxCreateDoubleMatrix(rows, cols, mxREAL);
    double* d = mxGetPr(a);
    size_t k = 0;
    if (c + 1 < t.size()) for (auto& v : split(t.substr(c + 1), ',')) if (k < rows * cols) d[k++] = std::stod(v);
    return a;
  }
  if (t[0] == 'h') {
    int id = std::stoi(t.substr(1));
    if (id < 0 || id >= (int)g_objs.size() || !g_objs[id].valid) throw MatlabError("Invalid or deleted object.");
    return mock::makeObject(id);
  }
  throw MatlabError("bad argument token " + t);
}

// one MATLAB-level operation; prints one observation line per gateway-level step
void execute(const std::vector<std::string>& tok) {
  const std::string& op = tok[0];
  std::vector<mxArray*> args;
  auto argsFrom = [&](size_t i) { args.clear(); for (; i < tok.size(); ++i) args.push_back(parseArg(tok[i])); };
  auto pick = [&](const std::vector<Overload>& os, const std::vector<mxArray*>& a, const std::string& what) -> const Overload& {
    for (auto& o : os) if (matches(o, a)) return o;
    throw MatlabError("Arguments do not match any overload of function " + what);
  };
  if (op == "new") {
    argsFrom(2);
    newObject(tok[1], args);
    observe({});
  } else if (op == "call") {            // call <method> <handle> <args>
    argsFrom(2);
    mxArray* self = args[0];
    std::vector<mxArray*> rest(args.begin() + 1, args.end());
    const auto* os = findMethod(g_objs[mock::objectId(self)].cls, tok[1], nullptr);
    if (!os) throw MatlabError("No method " + tok[1]);
    const Overload& o = pick(*os, rest, tok[1]);
    observe(gateway(o.id, o.nout, args));
  } else if (op == "static") {          // static <Class> <method> <args>
    argsFrom(3);
    std::string c = tok[1];
    const std::vector<Overload>* os = nullptr;
    while (!os) {
      auto& cd = g_classes.at(c);
      auto it = cd.statics.find(tok[2]);
      if (it != cd.statics.end()) os = &it->second;
      else if (cd.parent == "handle") throw MatlabError("No static method " + tok[2]);
      else c = cd.parent;
    }
    const Overload& o = pick(*os, args, tok[2]);
    observe(gateway(o.id, o.nout, args));
  } else if (op == "func") {            // func <name> <args>
    argsFrom(2);
    auto it = g_functions.find(tok[1]);
    if (it == g_functions.end()) throw MatlabError("Undefined function " + tok[1]);
    const Overload& o = pick(it->second, args, tok[1]);
    observe(gateway(o.id, o.nout, args));
  } else if (op == "get") {             // get <handle> <prop>
    args.clear(); args.push_back(parseArg(tok[1]));
    const std::string& prop = tok[2];
    const std::string cls = g_objs[mock::objectId(args[0])].cls;
    const ClassDef* cd = findPropOwner(cls, prop, false);
    if (!cd) throw MatlabError("No property " + prop);
    auto g = cd->getters.at(prop);
    auto out = gateway(g.first, 1, args);
    observe(out);
    if (g.second) {
      // `this.<prop> = varargout{1};` inside get.<prop>: MATLAB calls set.<prop>(this, value)
      const ClassDef* sd = findPropOwner(cls, prop, true);
      if (sd) { gateway(sd->setters.at(prop), 0, {args[0], out[0]}); observe({}); }
    }
  } else if (op == "set") {             // set <handle> <prop> <value>
    args.clear(); args.push_back(parseArg(tok[1])); args.push_back(parseArg(tok[3]));
    const ClassDef* sd = findPropOwner(g_objs[mock::objectId(args[0])].cls, tok[2], true);
    if (!sd) throw MatlabError("No property " + tok[2]);
    gateway(sd->setters.at(tok[2]), 0, args);
    observe({});
  } else if (op == "del") {
    deleteObject(std::stoi(tok[1]));
    observe({});
  } else if (op == "unload") {
    if (void (*fn)(void) = mock::atExitFunction()) { mock::clearAtExit(); fn(); }
    observe({});
  } else if (op == "void") {            // void <Class> <serial>: header API wrap_shared_ptr(.., true)
    mxArray* r = glueWrapVoid(tok[1], std::stoi(tok[2]));
    observe({r});
  } else {
    throw MatlabError("unknown op " + op);
  }
}

}  // namespace

int main(int argc, char** argv) {
  if (argc < 2) { std::fprintf(stderr, "usage: driver calls.tsv < ops\n"); return 2; }
  loadTable(argv[1]);
  g_coutBuf = std::cout.rdbuf();
  mock::setPropHook([](int objId, const std::string& prop, std::uint64_t& v) {
    if (objId < 0 || objId >= (int)g_objs.size()) return false;
    // every classdef in the chain declares `ptr_<Class> = 0`
    std::string c = g_objs[objId].cls; bool declared = false;
    while (true) {
      const ClassDef& cd = g_classes.at(c);
      if (cd.ptrProp == prop) { declared = true; break; }
      if (cd.parent == "handle") break;
      c = cd.parent;
    }
    if (!declared) return false;
    auto it = g_objs[objId].props.find(prop);
    v = it == g_objs[objId].props.end() ? 0 : it->second;
    return true;
  });
  mock::setCallHook([](const std::string& name, int nrhs, mxArray* prhs[]) -> mxArray* {
    std::vector<mxArray*> a(prhs, prhs + nrhs);
    // <Enumeration>(number): the value of the enumeration (observed as its number); the class must exist
    if (g_enums.count(name) && nrhs == 1 && mxIsDouble(prhs[0])) return mxCreateDoubleScalar(mxGetScalar(prhs[0]));
    int id = newObject(name, a);
    return mock::makeObject(id);
  });
  std::string line;
  int rc = 0;
  while (std::getline(std::cin, line)) {
    if (line.empty()) continue;
    std::vector<std::string> tok;
    { std::istringstream is(line); std::string t; while (is >> t) tok.push_back(t); }
    mock::beginOp();
    std::puts("op");        // marks the start of the observations of one MATLAB-level operation
    try {
      execute(tok);
    } catch (const std::exception& e) {
      std::string m = e.what();
      for (char& ch : m) if (ch == '\n') ch = ' ';
      std::printf("error=%s\n", m.c_str());
      c11::trace().clear(); g_newHandles.clear();
      rc = 3;
    }
    mock::endOp();
  }
  // MATLAB exit: registered atexit functions run; the library's statics go away
  mock::beginOp();
  if (void (*fn)(void) = mock::atExitFunction()) { mock::clearAtExit(); fn(); }
  mock::endOp();
  c11::keeper().clear();
  long live = 0;
  for (int k = 0; k < kNumClasses; ++k) live += c11::live()[k];
  std::printf("end live=%ld arrays=%zu\n", live, mock::liveArrayCount());
  mock::destroyWorkspace();
  std::fflush(stdout);
  return rc;
}
