// C++ side of the mock MEX API: what the session player (driver.cpp) uses to stand in for MATLAB.
#pragma once
#include <cstdint>
#include <functional>
#include <stdexcept>
#include <string>
extern "C" {
#include "mex.h"
}

namespace mock {

// mexErrMsgTxt / mexErrMsgIdAndTxt throw this (MATLAB aborts the MEX call and reports an error).
struct MexError : std::runtime_error {
  explicit MexError(const std::string& m) : std::runtime_error(m) {}
};

// An mxArray that refers to MATLAB handle object number `objId` of the player.
mxArray* makeObject(int objId);
// -1 when `a` is not an object array.
int objectId(const mxArray* a);
bool isObject(const mxArray* a);
std::string charValue(const mxArray* a);   // contents of a char array
mxArray* makeCharColumn(const std::string& s);   // N-by-1 char array (what `s(:)` is in MATLAB)

// MATLAB frees every array a MEX call created and did not return; the player brackets each
// MATLAB-level operation with these (nesting allowed, arrays die when the outermost ends).
void beginOp();
void endOp();
size_t liveArrayCount();                   // arrays not owned by the global workspace

// mexCallMATLAB(nlhs, plhs, nrhs, prhs, name) re-enters the player through this hook.
using CallHook = std::function<mxArray*(const std::string& name, int nrhs, mxArray* prhs[])>;
void setCallHook(CallHook h);
// mxGetProperty(obj, 0, name): returns false when the object has no such property.
using PropHook = std::function<bool(int objId, const std::string& prop, std::uint64_t& value)>;
void setPropHook(PropHook h);

// mexAtExit registration of the loaded module.
void (*atExitFunction())(void);
void clearAtExit();

std::string& console();                    // everything printed through mexPrintf
void destroyWorkspace();                   // free the global workspace (process exit)

}  // namespace mock
