// Stand-in for gtsam/geometry/Point2.h: a distinct type convertible from/to Vector.
#pragma once
#include <gtsam/base/Vector.h>
namespace gtsam {
class Point2 : public Vector {
 public:
  Point2() : Vector(2) {}
  Point2(const Vector& v) : Vector(v) {}
};
}  // namespace gtsam
