// Stand-in for gtsam/base/utilities.h (matlab.h only needs it to exist).
#pragma once
#include <cstdint>
#include <iostream>
#include <memory>
#include <string>
