// Stand-in for gtsam/base/Vector.h (no Eigen in the sandbox): just enough for matlab.h.
#pragma once
#include <cstddef>
#include <vector>
namespace gtsam {
class Vector {
 public:
  Vector() {}
  explicit Vector(int n) : d_(n, 0.0) {}
  int size() const { return (int)d_.size(); }
  double& operator()(int i) { return d_[i]; }
  double operator()(int i) const { return d_[i]; }
 private:
  std::vector<double> d_;
};
}  // namespace gtsam
