// Stand-in for gtsam/base/Matrix.h.
#pragma once
#include <vector>
namespace gtsam {
class Matrix {
 public:
  Matrix() : r_(0), c_(0) {}
  Matrix(int r, int c) : r_(r), c_(c), d_(r * c, 0.0) {}
  int rows() const { return r_; }
  int cols() const { return c_; }
  double& operator()(int i, int j) { return d_[i * c_ + j]; }
  double operator()(int i, int j) const { return d_[i * c_ + j]; }
 private:
  int r_, c_;
  std::vector<double> d_;
};
}  // namespace gtsam
