// Mock MEX API for the C11 gateway harness.  See NOTES.md ("trusted base") for what it assumes.
#include "mock_mex.hpp"

#include <cstdarg>
#include <cstdio>
#include <cstdlib>
#include <cstring>
#include <map>
#include <set>
#include <vector>

struct mxArray_tag {
  mxClassID cls = mxUNKNOWN_CLASS;
  size_t m = 0, n = 0;
  std::vector<unsigned char> data;                          // numeric payload (zero-initialised)
  std::string str;                                          // char arrays
  std::vector<std::pair<std::string, mxArray*>> fields;     // 1x1 struct
  int objId = -1;                                           // handle objects
  bool persistent = false;                                  // owned by workspace / a struct field
};

namespace {
std::set<mxArray*> g_all;          // every live array
std::vector<mxArray*> g_temps;     // arrays created during the current operation
int g_depth = 0;
std::map<std::string, mxArray*> g_workspace;
void (*g_atexit)(void) = nullptr;
mock::CallHook g_callHook;
mock::PropHook g_propHook;
std::string g_console;

size_t elemSize(mxClassID c) {
  switch (c) {
    case mxDOUBLE_CLASS: case mxINT64_CLASS: case mxUINT64_CLASS: return 8;
    case mxSINGLE_CLASS: case mxINT32_CLASS: case mxUINT32_CLASS: return 4;
    case mxINT16_CLASS: case mxUINT16_CLASS: case mxCHAR_CLASS: return 2;
    case mxINT8_CLASS: case mxUINT8_CLASS: case mxLOGICAL_CLASS: return 1;
    default: return 0;
  }
}

mxArray* alloc() {
  mxArray* a = new mxArray_tag();
  g_all.insert(a);
  g_temps.push_back(a);
  return a;
}

void check(const mxArray* a, const char* who) {
  if (!a) throw mock::MexError(std::string(who) + ": NULL mxArray");
  if (!g_all.count(const_cast<mxArray*>(a)))
    throw mock::MexError(std::string(who) + ": use of a destroyed or foreign mxArray");
}

void destroyRec(mxArray* a) {
  for (auto& f : a->fields)
    if (f.second) destroyRec(f.second);
  g_all.erase(a);
  delete a;
}

mxArray* dupRec(const mxArray* in) {
  mxArray* a = alloc();
  a->cls = in->cls; a->m = in->m; a->n = in->n; a->data = in->data; a->str = in->str;
  a->objId = in->objId;
  for (auto& f : in->fields) {
    mxArray* c = f.second ? dupRec(f.second) : nullptr;
    if (c) c->persistent = true;
    a->fields.push_back({f.first, c});
  }
  return a;
}

void markPersistent(mxArray* a) {
  a->persistent = true;
  for (auto& f : a->fields) if (f.second) markPersistent(f.second);
}
}  // namespace

namespace mock {
mxArray* makeObject(int objId) {
  mxArray* a = alloc();
  a->cls = mxOBJECT_CLASS; a->m = a->n = 1; a->objId = objId;
  return a;
}
int objectId(const mxArray* a) { check(a, "objectId"); return a->cls == mxOBJECT_CLASS ? a->objId : -1; }
bool isObject(const mxArray* a) { check(a, "isObject"); return a->cls == mxOBJECT_CLASS; }
std::string charValue(const mxArray* a) { check(a, "charValue"); return a->str; }
mxArray* makeCharColumn(const std::string& s) { mxArray* a = mxCreateString(s.c_str()); a->m = s.size(); a->n = 1; return a; }
void beginOp() { ++g_depth; }
void endOp() {
  if (--g_depth > 0) return;
  for (mxArray* a : g_temps)
    if (g_all.count(a) && !a->persistent) destroyRec(a);
  g_temps.clear();
}
size_t liveArrayCount() {
  size_t n = 0;
  for (mxArray* a : g_all) if (!a->persistent) ++n;
  return n;
}
void setCallHook(CallHook h) { g_callHook = std::move(h); }
void setPropHook(PropHook h) { g_propHook = std::move(h); }
void (*atExitFunction())(void) { return g_atexit; }
void clearAtExit() { g_atexit = nullptr; }
std::string& console() { return g_console; }
void destroyWorkspace() {
  for (auto& kv : g_workspace) destroyRec(kv.second);
  g_workspace.clear();
}
}  // namespace mock

extern "C" {

mxArray* mxCreateNumericArray(mwSize ndim, const mwSize* dims, mxClassID classid, mxComplexity) {
  mxArray* a = alloc();
  a->cls = classid;
  a->m = ndim >= 1 ? dims[0] : 1;
  a->n = 1;
  for (mwSize i = 1; i < ndim; ++i) a->n *= dims[i];
  a->data.assign(a->m * a->n * elemSize(classid), 0);
  return a;
}
mxArray* mxCreateNumericMatrix(mwSize m, mwSize n, mxClassID classid, mxComplexity flag) {
  mwSize dims[2] = {m, n};
  return mxCreateNumericArray(2, dims, classid, flag);
}
mxArray* mxCreateDoubleMatrix(mwSize m, mwSize n, mxComplexity flag) {
  return mxCreateNumericMatrix(m, n, mxDOUBLE_CLASS, flag);
}
mxArray* mxCreateDoubleScalar(double value) {
  mxArray* a = mxCreateDoubleMatrix(1, 1, mxREAL);
  std::memcpy(a->data.data(), &value, sizeof value);
  return a;
}
mxArray* mxCreateString(const char* str) {
  mxArray* a = alloc();
  a->cls = mxCHAR_CLASS; a->str = str ? str : ""; a->m = a->str.empty() ? 0 : 1; a->n = a->str.size();   // '' is 0-by-0
  return a;
}
mxArray* mxCreateStructMatrix(mwSize m, mwSize n, int nfields, const char** fieldnames) {
  mxArray* a = alloc();
  a->cls = mxSTRUCT_CLASS; a->m = m; a->n = n;
  for (int i = 0; i < nfields; ++i) a->fields.push_back({fieldnames[i], nullptr});
  return a;
}
mxArray* mxDuplicateArray(const mxArray* in) { check(in, "mxDuplicateArray"); return dupRec(in); }
void mxDestroyArray(mxArray* pa) {
  if (!pa) return;
  check(pa, "mxDestroyArray");
  if (pa->persistent) throw mock::MexError("mxDestroyArray: array is owned by a struct or the workspace");
  destroyRec(pa);
}
void mxFree(void* ptr) { std::free(ptr); }

void* mxGetData(const mxArray* pa) { check(pa, "mxGetData"); return const_cast<unsigned char*>(pa->data.data()); }
double* mxGetPr(const mxArray* pa) { check(pa, "mxGetPr"); return reinterpret_cast<double*>(const_cast<unsigned char*>(pa->data.data())); }
double mxGetScalar(const mxArray* pa) {
  check(pa, "mxGetScalar");
  const unsigned char* d = pa->data.data();
  if (pa->data.empty()) throw mock::MexError("mxGetScalar: empty array");
  switch (pa->cls) {
    case mxDOUBLE_CLASS: { double v; std::memcpy(&v, d, 8); return v; }
    case mxSINGLE_CLASS: { float v; std::memcpy(&v, d, 4); return v; }
    case mxINT64_CLASS: { std::int64_t v; std::memcpy(&v, d, 8); return (double)v; }
    case mxUINT64_CLASS: { std::uint64_t v; std::memcpy(&v, d, 8); return (double)v; }
    case mxINT32_CLASS: { std::int32_t v; std::memcpy(&v, d, 4); return v; }
    case mxUINT32_CLASS: { std::uint32_t v; std::memcpy(&v, d, 4); return v; }
    case mxINT16_CLASS: { std::int16_t v; std::memcpy(&v, d, 2); return v; }
    case mxUINT16_CLASS: { std::uint16_t v; std::memcpy(&v, d, 2); return v; }
    case mxINT8_CLASS: return (signed char)d[0];
    case mxUINT8_CLASS: case mxLOGICAL_CLASS: return d[0];
    default: throw mock::MexError("mxGetScalar: not numeric");
  }
}
size_t mxGetM(const mxArray* pa) { check(pa, "mxGetM"); return pa->m; }
size_t mxGetN(const mxArray* pa) { check(pa, "mxGetN"); return pa->n; }
mxClassID mxGetClassID(const mxArray* pa) { check(pa, "mxGetClassID"); return pa->cls; }
bool mxIsComplex(const mxArray* pa) { check(pa, "mxIsComplex"); return false; }
bool mxIsDouble(const mxArray* pa) { check(pa, "mxIsDouble"); return pa->cls == mxDOUBLE_CLASS; }
bool mxIsChar(const mxArray* pa) { check(pa, "mxIsChar"); return pa->cls == mxCHAR_CLASS; }
bool mxIsEmpty(const mxArray* pa) { check(pa, "mxIsEmpty"); return pa->m == 0 || pa->n == 0; }
size_t mxGetNumberOfElements(const mxArray* pa) { check(pa, "mxGetNumberOfElements"); return pa->m * pa->n; }
mwSize mxGetNumberOfDimensions(const mxArray* pa) { check(pa, "mxGetNumberOfDimensions"); return 2; }
bool mxIsNumeric(const mxArray* pa) { check(pa, "mxIsNumeric"); return pa->cls >= mxDOUBLE_CLASS && pa->cls <= mxUINT64_CLASS; }
bool mxIsLogical(const mxArray* pa) { check(pa, "mxIsLogical"); return pa->cls == mxLOGICAL_CLASS; }
bool mxIsCell(const mxArray* pa) { check(pa, "mxIsCell"); return pa->cls == mxCELL_CLASS; }
bool mxIsStruct(const mxArray* pa) { check(pa, "mxIsStruct"); return pa->cls == mxSTRUCT_CLASS; }
bool mxIsInt32(const mxArray* pa) { check(pa, "mxIsInt32"); return pa->cls == mxINT32_CLASS; }
bool mxIsInt64(const mxArray* pa) { check(pa, "mxIsInt64"); return pa->cls == mxINT64_CLASS; }
bool mxIsUint64(const mxArray* pa) { check(pa, "mxIsUint64"); return pa->cls == mxUINT64_CLASS; }
bool mxIsScalar(const mxArray* pa) { check(pa, "mxIsScalar"); return pa->m == 1 && pa->n == 1; }
char* mxArrayToString(const mxArray* pa) {
  check(pa, "mxArrayToString");
  if (pa->cls != mxCHAR_CLASS) return nullptr;
  char* r = (char*)std::malloc(pa->str.size() + 1);
  std::memcpy(r, pa->str.c_str(), pa->str.size() + 1);
  return r;
}
int mxGetString(const mxArray* pa, char* buf, mwSize buflen) {
  check(pa, "mxGetString");
  if (pa->cls != mxCHAR_CLASS || buflen == 0) return 1;
  size_t n = pa->str.size() < buflen - 1 ? pa->str.size() : buflen - 1;
  std::memcpy(buf, pa->str.data(), n);
  buf[n] = 0;
  return n < pa->str.size() ? 1 : 0;
}

mxArray* mxGetProperty(const mxArray* pa, mwIndex, const char* propname) {
  check(pa, "mxGetProperty");
  if (pa->cls != mxOBJECT_CLASS) return nullptr;
  std::uint64_t v = 0;
  if (!g_propHook || !g_propHook(pa->objId, propname, v)) return nullptr;
  // MATLAB returns a copy of the property value; `ptr_<Class>` holds a uint64 scalar
  mxArray* a = mxCreateNumericMatrix(1, 1, mxUINT64_CLASS, mxREAL);
  std::memcpy(a->data.data(), &v, 8);
  return a;
}
int mxAddField(mxArray* pa, const char* fieldname) {
  check(pa, "mxAddField");
  if (pa->cls != mxSTRUCT_CLASS) return -1;
  for (size_t i = 0; i < pa->fields.size(); ++i)
    if (pa->fields[i].first == fieldname) return (int)i;
  pa->fields.push_back({fieldname, nullptr});
  return (int)pa->fields.size() - 1;
}
void mxSetFieldByNumber(mxArray* pa, mwIndex, int fieldnumber, mxArray* value) {
  check(pa, "mxSetFieldByNumber");
  if (fieldnumber < 0 || (size_t)fieldnumber >= pa->fields.size())
    throw mock::MexError("mxSetFieldByNumber: bad field number");
  if (value) { check(value, "mxSetFieldByNumber(value)"); value->persistent = true; }
  mxArray* old = pa->fields[fieldnumber].second;
  if (old && old != value) destroyRec(old);
  pa->fields[fieldnumber].second = value;
}
mxArray* mxGetField(const mxArray* pa, mwIndex, const char* fieldname) {
  check(pa, "mxGetField");
  for (auto& f : pa->fields) if (f.first == fieldname) return f.second;
  return nullptr;
}

int mexCallMATLAB(int nlhs, mxArray* plhs[], int nrhs, mxArray* prhs[], const char* name) {
  if (!g_callHook) throw mock::MexError("mexCallMATLAB: no MATLAB session");
  mxArray* r = g_callHook(name, nrhs, prhs);
  if (nlhs >= 1) plhs[0] = r;
  return 0;
}
int mexAtExit(void (*fn)(void)) { g_atexit = fn; return 0; }
const mxArray* mexGetVariablePtr(const char*, const char* name) {
  auto it = g_workspace.find(name);
  return it == g_workspace.end() ? nullptr : it->second;
}
mxArray* mexGetVariable(const char*, const char* name) {
  auto it = g_workspace.find(name);
  return it == g_workspace.end() ? nullptr : dupRec(it->second);
}
int mexPutVariable(const char*, const char* name, const mxArray* value) {
  check(value, "mexPutVariable");
  mxArray* c = dupRec(value);
  markPersistent(c);
  auto it = g_workspace.find(name);
  if (it != g_workspace.end()) destroyRec(it->second);
  g_workspace[name] = c;
  return 0;
}
void mexErrMsgTxt(const char* msg) { throw mock::MexError(msg ? msg : ""); }
void mexErrMsgIdAndTxt(const char* id, const char* msg, ...) {
  char buf[2048];
  va_list ap; va_start(ap, msg);
  std::vsnprintf(buf, sizeof buf, msg ? msg : "", ap);
  va_end(ap);
  throw mock::MexError(std::string(id ? id : "") + ": " + buf);
}
int mexPrintf(const char* fmt, ...) {
  char buf[4096];
  va_list ap; va_start(ap, fmt);
  int n = std::vsnprintf(buf, sizeof buf, fmt, ap);
  va_end(ap);
  g_console += buf;
  return n;
}

}  // extern "C"
