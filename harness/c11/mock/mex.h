/* Mock of MATLAB's mex.h for the C11 gateway harness. */
#ifndef C11_MOCK_MEX_H
#define C11_MOCK_MEX_H
#include "matrix.h"

int mexCallMATLAB(int nlhs, mxArray* plhs[], int nrhs, mxArray* prhs[], const char* name);
int mexAtExit(void (*fn)(void));
const mxArray* mexGetVariablePtr(const char* workspace, const char* name);
mxArray* mexGetVariable(const char* workspace, const char* name);
int mexPutVariable(const char* workspace, const char* name, const mxArray* value);
void mexErrMsgTxt(const char* msg);
void mexErrMsgIdAndTxt(const char* id, const char* msg, ...);
int mexPrintf(const char* fmt, ...);

#endif
