/* Mock of MATLAB's matrix.h for the C11 gateway harness (C-compatible declarations only:
   matlab.h includes <mex.h> inside `extern "C" { }`). */
#ifndef C11_MOCK_MATRIX_H
#define C11_MOCK_MATRIX_H
#include <stddef.h>
#include <stdint.h>

typedef struct mxArray_tag mxArray;
typedef size_t mwSize;
typedef size_t mwIndex;
typedef int32_t int32_T;
typedef uint16_t mxChar;

typedef enum {
  mxUNKNOWN_CLASS = 0, mxCELL_CLASS, mxSTRUCT_CLASS, mxLOGICAL_CLASS, mxCHAR_CLASS,
  mxVOID_CLASS, mxDOUBLE_CLASS, mxSINGLE_CLASS, mxINT8_CLASS, mxUINT8_CLASS, mxINT16_CLASS,
  mxUINT16_CLASS, mxINT32_CLASS, mxUINT32_CLASS, mxINT64_CLASS, mxUINT64_CLASS,
  mxFUNCTION_CLASS, mxOPAQUE_CLASS, mxOBJECT_CLASS
} mxClassID;

typedef enum { mxREAL = 0, mxCOMPLEX } mxComplexity;

mxArray* mxCreateNumericMatrix(mwSize m, mwSize n, mxClassID classid, mxComplexity flag);
mxArray* mxCreateNumericArray(mwSize ndim, const mwSize* dims, mxClassID classid, mxComplexity flag);
mxArray* mxCreateDoubleMatrix(mwSize m, mwSize n, mxComplexity flag);
mxArray* mxCreateDoubleScalar(double value);
mxArray* mxCreateString(const char* str);
mxArray* mxCreateStructMatrix(mwSize m, mwSize n, int nfields, const char** fieldnames);
mxArray* mxDuplicateArray(const mxArray* in);
void mxDestroyArray(mxArray* pa);
void mxFree(void* ptr);

void* mxGetData(const mxArray* pa);
double* mxGetPr(const mxArray* pa);
double mxGetScalar(const mxArray* pa);
size_t mxGetM(const mxArray* pa);
size_t mxGetN(const mxArray* pa);
mxClassID mxGetClassID(const mxArray* pa);
bool mxIsComplex(const mxArray* pa);
bool mxIsDouble(const mxArray* pa);
bool mxIsChar(const mxArray* pa);
/* further documented queries (not called by the unchanged code; present so that edits of it still build) */
bool mxIsEmpty(const mxArray* pa);
size_t mxGetNumberOfElements(const mxArray* pa);
mwSize mxGetNumberOfDimensions(const mxArray* pa);
bool mxIsNumeric(const mxArray* pa);
bool mxIsLogical(const mxArray* pa);
bool mxIsCell(const mxArray* pa);
bool mxIsStruct(const mxArray* pa);
bool mxIsInt32(const mxArray* pa);
bool mxIsInt64(const mxArray* pa);
bool mxIsUint64(const mxArray* pa);
bool mxIsScalar(const mxArray* pa);
char* mxArrayToString(const mxArray* pa);
int mxGetString(const mxArray* pa, char* buf, mwSize buflen);

mxArray* mxGetProperty(const mxArray* pa, mwIndex index, const char* propname);
int mxAddField(mxArray* pa, const char* fieldname);
void mxSetFieldByNumber(mxArray* pa, mwIndex index, int fieldnumber, mxArray* value);
mxArray* mxGetField(const mxArray* pa, mwIndex index, const char* fieldname);

#endif
