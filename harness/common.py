"""Shared plumbing: repo import path, Lean driver client, error classification."""
import binascii
import os
import subprocess
import sys

VERIF = os.path.dirname(os.path.dirname(os.path.abspath(__file__)))
REPO = os.environ.get("VERIF_REPO", "/repo")
LEAN_DIR = os.path.join(VERIF, "lean")
DRIVER = os.path.join(LEAN_DIR, ".lake", "build", "bin", "wrapmodel")
if REPO not in sys.path:
    sys.path.insert(0, REPO)


def hx(s: str) -> str:
    return binascii.hexlify(s.encode("utf-8")).decode("ascii")


def unhx(h: str) -> str:
    return binascii.unhexlify(h).decode("utf-8")


class Driver:
    """Line-protocol client of the compiled Lean model (`lean/.lake/build/bin/wrapmodel`)."""

    def __init__(self):
        self.p = subprocess.Popen([DRIVER], stdin=subprocess.PIPE, stdout=subprocess.PIPE,
                                  text=True, bufsize=1)
        self.calls = 0

    def call(self, op, *fields):
        """fields are text and hex-encoded here; returns ('ok', text) | ('err', kind) | ('bad', msg)"""
        line = "\t".join([op] + [hx(f) for f in fields]) + "\n"
        self.p.stdin.write(line)
        self.p.stdin.flush()
        out = self.p.stdout.readline()
        self.calls += 1
        if not out:
            raise RuntimeError("model driver died on op %s" % op)
        parts = out.rstrip("\n").split("\t")
        if parts[0] == "ok":
            return ("ok", unhx(parts[1]) if len(parts) > 1 else "")
        return (parts[0], parts[1] if len(parts) > 1 else "")

    def call_raw(self, op, *fields):
        """fields are passed through unencoded (numbers / pre-encoded); raw output line returned"""
        self.p.stdin.write("\t".join([op] + list(fields)) + "\n")
        self.p.stdin.flush()
        self.calls += 1
        out = self.p.stdout.readline()
        if not out:
            raise RuntimeError("model driver died on op %s" % op)
        return out.rstrip("\n")

    def close(self):
        try:
            self.p.stdin.close()
            self.p.wait(timeout=10)
        except Exception:
            self.p.kill()


def classify_exc(e: BaseException) -> str:
    """map implementation exceptions to the small error enum of the protocol"""
    import pyparsing
    if isinstance(e, pyparsing.ParseBaseException):
        return "ParseError"
    if isinstance(e, AssertionError):
        return "ValidationError"
    if isinstance(e, ValueError):
        msg = str(e)
        if "Cannot find class" in msg or "Found more than one" in msg:
            return "LookupError"
        return "ValidationError"
    return "Crash:" + type(e).__name__


def enc_list(xs):
    """lists travel as elements each preceded by U+001F"""
    return "".join("\x1f" + x for x in xs)


def impl_pybind(text, tpl, module_name, top, boost, ignore, subs, xml_source=""):
    """the real generator, in-process; returns ('ok', text) | ('err', kind)"""
    from gtwrap.pybind_wrapper import PybindWrapper
    try:
        w = PybindWrapper(module_name=module_name, top_module_namespaces=list(top), use_boost_serialization=boost,
                          ignore_classes=list(ignore), module_template=tpl, xml_source=xml_source)
        out = w.wrap_file(text, module_name=module_name, submodules=None if subs is None else list(subs))
        return ("ok", out)
    except Exception as e:  # noqa
        return ("err", classify_exc(e))


def model_pybind(driver, text, tpl, module_name, top, boost, ignore, subs):
    return driver.call("pybind", text, tpl, module_name, enc_list(top), "1" if boost else "0", enc_list(ignore),
                       "-" if subs is None else enc_list(subs))


def impl_matlab(texts, module_name, ignore, boost):
    """the real MATLAB generator writing into a scratch directory; returns ('ok', {relpath: text}) | ('err', kind)"""
    import shutil
    import tempfile
    from gtwrap.matlab_wrapper import MatlabWrapper
    d = tempfile.mkdtemp(prefix="verif_matlab_")
    try:
        srcs = []
        for i, t in enumerate(texts):
            p = os.path.join(d, "src%d.i" % i)
            with open(p, "w", encoding="utf-8", newline="") as f:
                f.write(t)
            srcs.append(p)
        out = os.path.join(d, "out")
        os.makedirs(out)
        try:
            w = MatlabWrapper(module_name=module_name, ignore_classes=list(ignore), use_boost_serialization=boost)
            w.wrap(srcs, path=out)
        except Exception as e:  # noqa
            return ("err", classify_exc(e))
        files = {}
        for root, _, fs in os.walk(out):
            for fn in fs:
                p = os.path.join(root, fn)
                with open(p, encoding="utf-8", newline="") as f:
                    files[os.path.relpath(p, out)] = f.read()
        return ("ok", files)
    finally:
        shutil.rmtree(d, ignore_errors=True)


def model_matlab(driver, text, module_name, ignore, boost):
    st, out = driver.call("matlab", text, module_name, enc_list(ignore), "1" if boost else "0")
    if st != "ok":
        return (st, out)
    files = {}
    if out:
        for ent in out.split("\x1e"):
            p, t = ent.split("\x1f", 1)
            files[p] = t
    return ("ok", files)


def ensure_matlab_tpl():
    """`gtwrap/matlab_wrapper/matlab_wrapper.tpl` is a git-ignored build artefact (CMake configure_file);
    the repo's own test set-up creates it with this content when it is missing, and so do we."""
    p = os.path.join(REPO, "gtwrap", "matlab_wrapper", "matlab_wrapper.tpl")
    if not os.path.exists(p):
        with open(p, "w", encoding="UTF-8") as f:
            f.write("#include <gtwrap/matlab.h>\n#include <map>\n")


ensure_matlab_tpl()
