"""Type-directed generator of interface files.

A Python mirror of lean/WrapModel/Model/Syntax.lean (plain tuples / small classes), a
generator of well-formed trees (`WF` of DESIGN.md §3), the canonical printer `lexemes`,
random layouts obeying the glue conditions, and the canonical dump of a mirror tree (the
same text `pydump.module` prints for the implementation's tree and `Dump.module` for the
model's).  Every random choice comes from the `random.Random` passed in.
"""
import copy
import random
from dataclasses import dataclass, field
from typing import List, Optional

BASIC = ["void", "bool", "unsigned char", "char", "int", "size_t", "double", "float"]
RESERVED = {"const", "virtual", "class", "static", "pair", "template", "typedef", "enum",
            "namespace", "operator", "This", "unsigned", "struct", "std"} | set(BASIC)
OPERATORS = ['+', '-', '*', '/', '%', '^', '&', '|', '+=', '-=', '*=', '/=', '%=', '^=', '&=',
             '|=', '<<', '<<=', '>>', '>>=', '==', '!=', '<', '>', '<=', '>=', '()', '[]']


# ------------------------------------------------------------------ mirror AST
@dataclass
class TN:
    ns: List[str]
    name: str
    insts: List["TN"] = field(default_factory=list)


@dataclass
class Ty:
    ns: List[str]
    name: str
    params: Optional[List["Ty"]] = None  # None: simple Type; list: TemplatedType
    const: bool = False
    suffix: str = ''  # '', '*', '@', '&'
    basic: bool = False

    def typename(self) -> TN:
        if self.params is None:
            return TN(self.ns, self.name, [])
        return TN(self.ns, self.name, [p.typename() for p in self.params])


@dataclass
class Arg:
    ty: Ty
    name: str
    default: Optional[str] = None


@dataclass
class Ret:
    t1: Ty
    t2: Optional[Ty] = None
    std: bool = False


@dataclass
class TParam:
    name: str
    insts: List[TN] = field(default_factory=list)


@dataclass
class Enum:
    kw: str
    name: str
    enumerators: List[str]


@dataclass
class Var:
    ty: Ty
    name: str
    default: Optional[str] = None


@dataclass
class Member:
    kind: str  # ctor method static prop op enum dunder
    tmpl: Optional[List[TParam]] = None
    ret: Optional[Ret] = None
    name: str = ''
    args: List[Arg] = field(default_factory=list)
    const: bool = False
    var: Optional[Var] = None
    enum: Optional[Enum] = None
    sym: str = ''


@dataclass
class Class:
    tmpl: Optional[List[TParam]]
    virtual: bool
    name: str
    parent: Optional[Ty]
    members: List[Member]


@dataclass
class Decl:
    kind: str  # fwd incl cls typedef func enum var ns
    virtual: bool = False
    tn: Optional[TN] = None
    parent_tn: Optional[TN] = None
    header: str = ''
    cls: Optional[Class] = None
    new_name: str = ''
    tmpl: Optional[List[TParam]] = None
    ret: Optional[Ret] = None
    name: str = ''
    args: List[Arg] = field(default_factory=list)
    enum: Optional[Enum] = None
    var: Optional[Var] = None
    content: List["Decl"] = field(default_factory=list)


# ------------------------------------------------------------------ canonical dump of a mirror tree
def q(s):
    return '"' + str(s).replace('\\', '\\\\').replace('"', '\\"').replace('\n', '\\n') + '"'


def L(xs):
    return '[' + ','.join(xs) + ']'


def d_tn(t: TN):
    return 'T(' + L([q(n) for n in t.ns]) + ',' + q(t.name) + ',[' + ','.join(d_tn(i) for i in t.insts) + '])'


def d_quals(t: Ty):
    return ('c' if t.const else '-') + (t.suffix or '-')


def d_ty(t: Ty):
    if t.params is None:
        return 'S(' + d_tn(t.typename()) + ',' + d_quals(t) + ',' + ('b' if t.basic else '-') + ')'
    return 'X(' + d_tn(t.typename()) + ',[' + ','.join(d_ty(p) for p in t.params) + '],' + d_quals(t) + ')'


def d_opt(f, x):
    return 'None' if x is None else f(x)


def d_arg(a: Arg):
    return 'A(' + d_ty(a.ty) + ',' + q(a.name) + ',' + d_opt(q, a.default) + ')'


def d_args(xs):
    return L([d_arg(a) for a in xs])


def d_ret(r: Ret):
    return 'R(' + d_ty(r.t1) + ',' + d_opt(d_ty, r.t2) + ')'


def d_tmpl(t):
    if t is None:
        return 'None'
    return 'TP(' + L([q(p.name) for p in t]) + ',' + L([L([d_tn(i) for i in p.insts]) for p in t]) + ')'


def d_path(p):
    return 'None' if p is None else L([q(n) for n in p])


def d_enum(e: Enum, p):
    return 'Enum(' + q(e.name) + ',' + L([q(x) for x in e.enumerators]) + ',' + d_path(p) + ')'


def d_var(v: Var, p):
    return 'Var(' + d_ty(v.ty) + ',' + q(v.name) + ',' + d_opt(q, v.default) + ',' + d_path(p) + ')'


def d_member(m: Member, p):
    if m.kind == 'ctor':
        return 'Ctor(' + d_tmpl(m.tmpl) + ',' + q(m.name) + ',' + d_args(m.args) + ',' + d_path(p) + ')'
    if m.kind == 'method':
        return ('Method(' + d_tmpl(m.tmpl) + ',' + d_ret(m.ret) + ',' + q(m.name) + ',' + d_args(m.args) + ','
                + ('c' if m.const else '-') + ',' + d_path(p) + ')')
    if m.kind == 'static':
        return 'Static(' + d_tmpl(m.tmpl) + ',' + d_ret(m.ret) + ',' + q(m.name) + ',' + d_args(m.args) + ',' + d_path(p) + ')'
    if m.kind == 'prop':
        return d_var(m.var, p)
    if m.kind == 'op':
        return 'Op(' + d_ret(m.ret) + ',' + q(m.sym) + ',' + d_args(m.args) + ',None)'
    if m.kind == 'enum':
        return d_enum(m.enum, None)
    if m.kind == 'dunder':
        return 'Dunder(' + q(m.name) + ',' + d_args(m.args) + ',' + d_path(p) + ')'
    raise ValueError(m.kind)


def d_parent(p):
    if p is None:
        return 'None'
    if p.params is None:
        return 'PT(' + d_tn(p.typename()) + ')'
    return d_ty(p)


def d_class(c: Class, p):
    cp = p + [c.name]

    def part(k):
        return L([d_member(m, cp) for m in c.members if m.kind == k])
    return ('Class(' + d_tmpl(c.tmpl) + ',' + ('v' if c.virtual else '-') + ',' + q(c.name) + ',' + d_parent(c.parent) + ','
            + part('ctor') + ',' + part('method') + ',' + part('static') + ',' + part('dunder') + ','
            + part('prop') + ',' + part('op') + ',' + part('enum') + ',' + d_path(p) + ')')


def d_decl(d: Decl, p):
    k = d.kind
    if k == 'fwd':
        return 'Fwd(' + ('v' if d.virtual else '-') + ',' + d_tn(d.tn) + ',' + d_opt(d_tn, d.parent_tn) + ',' + d_path(p) + ')'
    if k == 'incl':
        return 'Include(' + q(d.header) + ',' + d_path(p) + ')'
    if k == 'cls':
        return d_class(d.cls, p)
    if k == 'typedef':
        return 'Typedef(' + d_tn(d.tn) + ',' + q(d.new_name) + ',' + d_path(p) + ')'
    if k == 'func':
        return 'Func(' + d_tmpl(d.tmpl) + ',' + d_ret(d.ret) + ',' + q(d.name) + ',' + d_args(d.args) + ',' + d_path(p) + ')'
    if k == 'enum':
        return d_enum(d.enum, p)
    if k == 'var':
        return d_var(d.var, p)
    if k == 'ns':
        return 'Ns(' + q(d.name) + ',[' + ',\n'.join(d_decl(x, p + [d.name]) for x in d.content) + '],' + d_path(p) + ')'
    raise ValueError(k)


def dump_module(m: List[Decl]):
    return 'Ns("",[' + ',\n'.join(d_decl(x, ['']) for x in m) + '],None)'


# ------------------------------------------------------------------ canonical printer: lexemes
# a lexeme is (kind, text); kinds: word sym atom(kw with inner blank) stdpair opsym default header
def W(s):
    return ('word', s)


def S(s):
    return ('sym', s)


def lx_names(ns, name):
    out = []
    for n in ns:
        out += [W(n), S('::')]
    return out + [W(name)]


def lx_tn(t: TN):
    out = lx_names(t.ns, t.name)
    if t.insts:
        out.append(S('<'))
        for i, x in enumerate(t.insts):
            if i:
                out.append(S(','))
            out += lx_tn(x)
        out.append(S('>'))
    return out


def lx_ty(t: Ty):
    out = []
    if t.const:
        out.append(W('const'))
    if t.basic and ' ' in t.name:
        out.append(('atom', t.name))
    else:
        out += lx_names(t.ns, t.name)
    if t.params is not None:
        out.append(S('<'))
        for i, p in enumerate(t.params):
            if i:
                out.append(S(','))
            out += lx_ty(p)
        out.append(S('>'))
    if t.suffix:
        out.append(S(t.suffix))
    return out


def lx_ret(r: Ret):
    if r.t2 is None:
        return lx_ty(r.t1)
    head = [('stdpair', 'std::pair')] if r.std else [W('pair')]
    return head + [S('<')] + lx_ty(r.t1) + [S(',')] + lx_ty(r.t2) + [S('>')]


def lx_args(args):
    out = [S('(')]
    for i, a in enumerate(args):
        if i:
            out.append(S(','))
        out += lx_ty(a.ty) + [W(a.name)]
        if a.default is not None:
            out += [S('='), ('default', a.default)]
    return out + [S(')')]


def lx_tmpl(t):
    if t is None:
        return []
    out = [W('template'), S('<')]
    for i, p in enumerate(t):
        if i:
            out.append(S(','))
        out.append(W(p.name))
        if p.insts:
            out += [S('='), S('{')]
            for j, x in enumerate(p.insts):
                if j:
                    out.append(S(','))
                out += lx_tn(x)
            out.append(S('}'))
    return out + [S('>')]


def lx_enum(e: Enum):
    head = [W('enum')] if e.kw == 'enum' else [('atom', e.kw)]
    out = head + [W(e.name), S('{')]
    for i, x in enumerate(e.enumerators):
        if i:
            out.append(S(','))
        out.append(W(x))
    return out + [S('}'), S(';')]


def lx_var(v: Var):
    out = lx_ty(v.ty) + [W(v.name)]
    if v.default is not None:
        out += [S('='), ('default', v.default)]
    return out + [S(';')]


def lx_member(m: Member):
    k = m.kind
    if k == 'ctor':
        return lx_tmpl(m.tmpl) + [W(m.name)] + lx_args(m.args) + [S(';')]
    if k == 'method':
        return lx_tmpl(m.tmpl) + lx_ret(m.ret) + [W(m.name)] + lx_args(m.args) + ([W('const')] if m.const else []) + [S(';')]
    if k == 'static':
        return lx_tmpl(m.tmpl) + [W('static')] + lx_ret(m.ret) + [W(m.name)] + lx_args(m.args) + [S(';')]
    if k == 'prop':
        return lx_var(m.var)
    if k == 'op':
        return lx_ret(m.ret) + [W('operator'), ('opsym', m.sym)] + lx_args(m.args) + [W('const'), S(';')]
    if k == 'enum':
        return lx_enum(m.enum)
    if k == 'dunder':
        return [S('__'), ('alpha', m.name), S('__')] + lx_args(m.args) + [S(';')]
    raise ValueError(k)


def lx_class(c: Class):
    out = lx_tmpl(c.tmpl) + ([W('virtual')] if c.virtual else []) + [W('class'), W(c.name)]
    if c.parent is not None:
        out += [S(':')] + lx_ty(c.parent)
    out.append(S('{'))
    for m in c.members:
        out += lx_member(m)
    return out + [S('}'), S(';')]


def lx_decl(d: Decl):
    k = d.kind
    if k == 'fwd':
        out = ([W('virtual')] if d.virtual else []) + [W('class')] + lx_names(d.tn.ns, d.tn.name)
        if d.parent_tn is not None:
            out += [S(':')] + lx_names(d.parent_tn.ns, d.parent_tn.name)
        return out + [S(';')]
    if k == 'incl':
        return [('hash', '#include'), S('<'), ('header', d.header), S('>')]
    if k == 'cls':
        return lx_class(d.cls)
    if k == 'typedef':
        return [W('typedef')] + lx_tn(d.tn) + [W(d.new_name), S(';')]
    if k == 'func':
        return lx_tmpl(d.tmpl) + lx_ret(d.ret) + [W(d.name)] + lx_args(d.args) + [S(';')]
    if k == 'enum':
        return lx_enum(d.enum)
    if k == 'var':
        return lx_var(d.var)
    if k == 'ns':
        out = [W('namespace'), W(d.name), S('{')]
        for x in d.content:
            out += lx_decl(x)
        return out + [S('}')]
    raise ValueError(k)


def lexemes(m: List[Decl]):
    out = []
    for d in m:
        out += lx_decl(d)
    return out


# ------------------------------------------------------------------ layouts
COMMENT_WORDS = ["class", "};", "{", "}", ";", "namespace x {", '"', "'", "const", "template<T>",
                 "operator==", "*", "/", "//", "/ *", "enum", "(", ")", "#include <a>", "é", "=", ",",
                 "virtual", "x", "TODO", "static void f();", "\\", "typedef"]


def gen_comment(rng: random.Random):
    body = ' '.join(rng.choice(COMMENT_WORDS) for _ in range(rng.randint(0, 4)))
    if rng.random() < 0.5:
        body = body.replace('*/', '* /')
        if body.endswith('*') and rng.random() < 0.5:
            body += ' '
        return '/*' + body + '*/'
    body = body.replace('\n', ' ')
    if rng.random() < 0.15:
        # pyparsing's line-continuation: the comment goes on after backslash-newline
        return '//' + body + '\\\n' + rng.choice(["more", "};", "class X {"]) + '\n'
    if body.endswith('\\'):
        body += ' '
    return '//' + body + '\n'


def gen_gap(rng: random.Random, style: str, must: bool, ws_first: bool, no_slash_first: bool):
    """style: 'min' | 'space' | 'ws' | 'comments' | 'lines'"""
    if style == 'min':
        return ' ' if must else ''
    if style == 'space':
        return ' '
    if style == 'lines':
        return '\n'
    if style == 'cr':
        return '\r'
    if style == 'tab':
        return '\t'
    parts = []
    n = rng.randint(0, 3) if style == 'ws' else rng.randint(1, 3)
    for _ in range(n):
        r = rng.random()
        if style == 'comments' and r < 0.6:
            parts.append(gen_comment(rng))
        else:
            parts.append(rng.choice([' ', '  ', '\n', '\t', '\r\n', ' \n  ', '\r', '\r', '\t\t']))
    g = ''.join(parts)
    if must and not g:
        g = ' '
    if g and (ws_first or no_slash_first) and g[0] == '/':
        g = rng.choice([' ', '\n']) + g
    return g


def word_char(c):
    return c.isascii() and (c.isalnum() or c == '_')


def layout(rng: random.Random, lxs, style='ws'):
    """spell a lexeme list with random gaps obeying the glue conditions of DESIGN.md §3"""
    out = []
    # initial gap
    out.append(gen_gap(rng, style if style != 'min' else 'min', False, False, False))
    for i, (k, t) in enumerate(lxs):
        if k == 'stdpair':
            out.append('std::' + gen_gap(rng, style if style in ('ws', 'comments') else 'min', False, False, False) + 'pair')
        else:
            out.append(t)
        nxt = lxs[i + 1] if i + 1 < len(lxs) else None
        if k == 'header' or (nxt is not None and nxt[0] == 'header'):
            continue  # header text is everything between < and >
        must = False
        if nxt is not None:
            a = 'pair' if k == 'stdpair' else t
            b = 'std::pair' if nxt[0] == 'stdpair' else nxt[1]
            if a and b and word_char(a[-1]) and word_char(b[0]):
                must = True
            if a == ':' and b.startswith(':'):
                must = True
        ws_first = (k == 'default')
        no_slash = t.endswith('/')
        out.append(gen_gap(rng, style, must, ws_first, no_slash))
    return ''.join(out)


# ------------------------------------------------------------------ generator of well-formed trees
UPPER = ["A", "B", "Foo", "Bar", "Pose3", "Point2", "Matrix", "Test", "MyClass", "T1", "Values", "Key",
         "Vector", "Cal3_S2", "X", "Base", "Derived", "Type", "Thing", "M", "K", "FooBar", "Tree", "Q"]
LOWER = ["a", "b", "gtsam", "ns1", "ns2", "inner", "detail", "x", "noise", "geo", "n", "util"]
MNAMES = ["f", "g", "get", "set", "value", "print", "equals", "dim", "at", "insert", "update", "size",
          "x_set_y", "serialize", "retract", "localCoordinates", "name", "h", "doIt", "operatorX",
          "svg", "lambda", "def", "from", "None", "pass", "markdown", "clone", "create", "async",
          "e", "z", "b", "s", "al", "able", "serial", "liz", "ser", "izable", "pick", "le", "deserialize", "unpickle"]
ANAMES = ["x", "y", "z", "a", "b", "key", "value", "p", "t", "s", "n", "other", "tol", "i", "j", "d"]
TPNAMES = ["T", "U", "V", "POSE", "POINT", "ARG", "N", "D", "CAL"]
ENUMERATORS = ["Red", "Green", "Blue", "A", "B", "C", "Dog", "Cat", "kOne", "kTwo", "X", "Y", "SGD", "NONE"]
DUNDERS = ["len", "contains", "iter"]
# identifiers that begin with, end in or contain a keyword / token of the dialect
KWLIKE_UPPER = ["Classification", "StructureType", "ConstPtr", "Templated", "Typedefs", "Enumerate", "VirtualBase", "Pairs",
                "Operators", "StaticPool", "NamespaceId", "Include", "This_", "Thistle", "Unsigned", "Voidness", "Std",
                "classification", "classKind", "structure_type", "structural", "constants", "enumeration", "virtualBase",
                "templated", "pairwise", "operatorTable", "staticPool", "namespaceId", "includes", "typedefs"]
KWLIKE_LOWER = ["classification", "structure_type", "classKind", "structural", "constant", "const_", "staticValue", "enumerate",
                "enum_", "virtual_", "templateArg", "typedef_", "namespace_", "pair_", "operators", "operator_", "include",
                "unsigned_", "chars", "void_", "std_", "This_", "class_", "struct_", "size_type", "doubles", "interior"]


class Cfg:
    """knobs of one stream"""

    def __init__(self, **kw):
        self.max_depth = 3           # namespace nesting
        self.max_decls = 6           # declarations per namespace
        self.max_members = 6
        self.max_args = 4
        self.type_depth = 3          # template argument nesting
        self.p_template = 0.3
        self.p_default = 0.3
        self.allow_operators = True
        self.allow_dunder = True
        self.allow_typedef = True
        self.allow_fwd = True
        self.allow_include = True
        self.allow_enum = True
        self.allow_var = True
        self.allow_This = True
        self.rich_defaults = True
        self.digit_names = True
        self.unique_names = False
        self.typedef_same_ns = False  # typedefs are placed in the namespace of their template
        self.p_param_named_inst = 0.12  # an instantiation spelled like another parameter of the same template
        self.class_pool = None        # restrict class names to this pool (same names in different namespaces)
        self.p_virtual = 0.3
        self.p_suffix = 0.5           # chance that a class name gets a numeric suffix although it is free
        self.extra_kinds = []         # declaration kinds to favour
        self.matlab_safe = False      # avoid names that trigger known MATLAB-generator defects (x_set_y)
        self.unique_ns = False        # no two sibling namespaces share a name (no re-opened namespaces)
        self.p_dup_typedef = 0.0     # chance that a typedef repeats the previous typedef's instantiation under another name
        self.p_serialize = 0.0       # chance that a class gets `void serialize() const;` (boost serialization hooks)
        self.matlab_ignore = False   # (read by streams.matlab_case) put namespaced classes on the MATLAB ignore list
        self.p_twin_arg = 0.0        # chance that an argument repeats an earlier templated argument type with other inner qualifiers
        self.enumerators = None      # pool of enumerator names (default: ENUMERATORS)
        self.p_underscore = 0.0      # chance that an identifier (class, namespace, member, argument, enumerator name) begins with `_`
        self.p_kwlike = 0.0          # chance that a name starts with / contains a keyword of the dialect (classification, structure_t, …)
        self.p_member_template = None  # chance of a member-level template (default p_template * 0.6)
        self.p_fwd_twin = 0.0        # chance that a forward declaration repeats the last one's class name under other namespaces
        self.p_this_args = 0.0       # chance that a templated type inside a class gets several `This::X` template arguments
        self.typedef_enclosing_kinds = None  # restrict typedef_enclosing to targets of these kinds ('cls', 'func', 'fwd')
        self.typedef_enclosing = 0.0  # chance that a typedef is placed in an enclosing scope, before the namespace of its template
        self.extra_member_kinds = []  # member kinds to favour ('op', 'dunder', 'enum', …)
        self.ns_pool = None          # namespace names are drawn from this pool (small pool = re-opened namespaces)
        self.n_typedefs = None       # number of typedefs added by gen_module_inst (default: 0-4)
        self.mnames = None           # pool of method / function names (default MNAMES)
        self.c02_safe = False        # stay inside the guard of C02_inst_eq_subst_partial (see Props/C02.lean)
        self.p_values_insert = 0.0   # probability that a class is a `…Values` container with insert(size_t, X) overloads
        self.p_scoped_deep = 0.0     # probability that a scoped use of a parameter has more than one level (T::traits::value_type)
        self.__dict__.update(kw)


class Gen:
    def __init__(self, rng: random.Random, cfg: Cfg = None):
        self.rng = rng
        self.cfg = cfg or Cfg()
        self.counter = 0
        self.in_class = False
        self.scopes = [dict(classes=set(), funcs=[])]   # per-namespace names (innermost last)
        self.ns_path, self.ns_scopes = [], {}
        self.ns_depth = 0            # namespace depth of the declaration being generated
        self.nest = 0                # template-argument nesting depth of the type being generated
        self.noscope = set()         # template parameters that must not be used as `T::X` (templated instantiations)

    # --- names
    def uniq(self, base):
        self.counter += 1
        return "%s%d" % (base, self.counter) if self.rng.random() < 0.5 else base

    def cname(self):
        if self.cfg.p_kwlike and self.rng.random() < self.cfg.p_kwlike:
            return self.rng.choice(KWLIKE_UPPER)
        return self.us(self.rng.choice(self.cfg.class_pool or UPPER))

    def us(self, name):
        """(p_underscore) the same name with a leading underscore: an ordinary identifier of the dialect"""
        if self.cfg.p_underscore and self.rng.random() < self.cfg.p_underscore and not name.startswith("_"):
            return "_" + name
        return name

    def nsname(self):
        if self.cfg.p_kwlike and self.rng.random() < self.cfg.p_kwlike:
            return self.rng.choice(KWLIKE_LOWER)
        return self.us(self.rng.choice(self.cfg.ns_pool or LOWER))

    def ident(self, pool):
        if self.cfg.p_kwlike and self.rng.random() < self.cfg.p_kwlike:
            return self.rng.choice(KWLIKE_LOWER)
        while True:
            n = self.rng.choice(pool)
            if n not in RESERVED:
                return self.us(n)

    # --- types
    def typename_parts(self, tparams=()):
        r = self.rng.random()
        safe = self.cfg.c02_safe
        if safe and self.nest > 1:
            tparams = ()
        if tparams and r < 0.35:
            return [], self.rng.choice(tparams)
        if tparams and r < 0.42:
            # a scoped use of a parameter: T::Value, or (p_scoped_deep) several levels deep: T::traits::value_type
            deep = [self.rng.choice(["traits", "detail", "impl", "Measurement"])] if self.rng.random() < self.cfg.p_scoped_deep else []
            if not safe:
                return [self.rng.choice(tparams)] + deep, self.rng.choice(["Value", "Type", "Jacobian"])
            ok = [t for t in tparams if t not in self.noscope]
            if ok and self.nest == 0:
                return [self.rng.choice(ok)] + deep, self.rng.choice(["value_type", "iterator", "scalar"])
        if self.cfg.allow_This and self.in_class and r < 0.47 and (not safe or self.nest == 0):
            return [], "This"
        if self.cfg.allow_This and self.in_class and r < 0.50 and (not safe or (self.nest == 0 and self.ns_depth == 0)):
            return ["This"], self.rng.choice(["Sub", "Value", "Verbosity"])
        ns = [self.nsname() for _ in range(self.rng.choice([0, 0, 0, 1, 1, 2]))]
        return ns, self.cname()

    def gen_ty(self, depth=None, tparams=(), allow_void=False, quals=True):
        rng = self.rng
        if depth is None:
            depth = self.cfg.type_depth
        const = quals and rng.random() < 0.25
        suffix = rng.choice(['', '', '', '*', '@', '&']) if quals else ''
        r = rng.random()
        if r < 0.3:
            pool = BASIC if allow_void else BASIC[1:]
            return Ty([], rng.choice(pool), None, const, suffix, True)
        if depth > 0 and r < 0.55:
            if rng.random() < 0.1:
                ns, name = [], rng.choice(["int", "double", "size_t"])  # TemplatedType named like a basic type
            else:
                ns, name = self.typename_parts(())
                if name == "This":
                    name = self.cname()
                if rng.random() < 0.3:
                    ns, name = ["std"], rng.choice(["vector", "map", "shared_ptr", "optional"])
            n = rng.choice([1, 1, 2, 3])
            self.nest += 1
            try:
                params = [self.gen_ty(depth - 1, tparams) for _ in range(n)]
            finally:
                self.nest -= 1
            if self.cfg.digit_names and rng.random() < 0.15:
                params[rng.randrange(n)] = Ty([], str(rng.choice([1, 2, 3, 6, 12, 100])), None, False, '', False)
            if self.in_class and self.nest == 0 and ns != ["This"] and self.cfg.p_this_args and rng.random() < self.cfg.p_this_args:
                # several nested names of the class itself as template arguments: std::map<This::Key, This::Value>
                k2 = rng.choice([2, 2, 3])
                params = [Ty(["This"], x, None, False, rng.choice(['', '', '*', '@']), False)
                          for x in rng.sample(["Key", "Value", "Node", "Weight", "Sub"], k2)]
            return Ty(ns, name, params, const, suffix, False)
        ns, name = self.typename_parts(tparams)
        return Ty(ns, name, None, const, suffix, False)

    def gen_ret(self, tparams=()):
        rng = self.rng
        r = rng.random()
        if r < 0.2:
            return Ret(Ty([], "void", None, False, '', True))
        if r < 0.4:
            return Ret(self.gen_simple(tparams), self.gen_simple(tparams), rng.random() < 0.5)
        t = self.gen_ty(tparams=tparams, allow_void=False)
        # a templated type spelled pair<simple,simple> without qualifiers *is* the pair form
        return Ret(t)

    def gen_simple(self, tparams=()):
        t = self.gen_ty(depth=0, tparams=tparams)
        return t

    # --- defaults
    def gen_default(self):
        rng = self.rng
        if not self.cfg.rich_defaults:
            return rng.choice(["0", "1", "-1", "1.5", "true", "nullptr", '"s"', "Foo()"])
        atoms = ["0", "1", "-1", "3.14", "1e-9", "true", "false", "nullptr", "x", "gtsam::Key(5)", "Foo()",
                 "Foo(1, 2)", '"hello"', '"a, b; c)"', "'c'", "','", "{1, 2, 3}", "{}", "std::vector<int>()",
                 "std::vector<double>{1.0,2.0}", "ns::kValue", "a::b::C(1, \"x)\")", "Matrix::Zero(3,3)",
                 "(1 + 2)", "f(g(h(1)), {2})", "x[3]", "std::map<int, std::string>()", "'\"'", "\"it's\"",
                 "-1.5e+3", "\"tab\there\"", "!flag", "a.b", "sizeof(int)", "[1, 2]", "T(/*inner*/ 1)", "\"é\"", "(\"a\" \"b\")"]
        n = rng.choice([1, 1, 1, 2, 3])
        parts = [rng.choice(atoms) for _ in range(n)]
        seps = [rng.choice([" ", " + ", "  ", " /*c*/ ", " - "]) for _ in range(n - 1)]
        out = parts[0]
        for s, p in zip(seps, parts[1:]):
            out += s + p
        return out

    def gen_args(self, tparams=(), n=None, trailing_defaults=True):
        rng = self.rng
        if n is None:
            n = rng.randint(0, self.cfg.max_args)
        args = []
        names = [self.us(x) for x in rng.sample(ANAMES, n)]
        k = rng.randint(0, n) if rng.random() < self.cfg.p_default else 0
        for i in range(n):
            d = self.gen_default() if i >= n - k else None
            ty = self.gen_ty(tparams=tparams)
            twins = [a.ty for a in args if a.ty.params]
            if twins and self.cfg.p_twin_arg and rng.random() < self.cfg.p_twin_arg:
                # the same container with the same arguments, another qualifier on one inner argument
                ty = copy.deepcopy(rng.choice(twins))
                inner = rng.choice(ty.params)
                if rng.random() < 0.5:
                    inner.const = not inner.const
                else:
                    inner.suffix = rng.choice([x for x in ['', '*', '@', '&'] if x != inner.suffix])
            args.append(Arg(ty, names[i], d))
        return args

    # --- templates
    def gen_inst(self, depth=2):
        rng = self.rng
        r = rng.random()
        if r < 0.3:
            return TN([], rng.choice([b for b in BASIC if ' ' not in b and b != 'void']))
        if depth > 0 and r < 0.5:
            n = rng.choice([1, 1, 2])
            inner = []
            for _ in range(n):
                x = self.gen_inst(depth - 1)
                inner.append(x)
            if rng.random() < 0.2:
                inner[0] = TN([], "unsigned char")
            return TN([self.nsname()] if rng.random() < 0.5 else [], self.cname(), inner)
        if self.cfg.digit_names and r < 0.58:
            return TN([], str(rng.choice([2, 3, 6])))
        return TN([self.nsname() for _ in range(rng.choice([0, 1, 1, 2]))], self.cname())

    def gen_tmpl(self, with_lists=True, exclude=()):
        rng = self.rng
        n = rng.choice([1, 1, 2, 3])
        names = rng.sample([t for t in TPNAMES if t not in exclude], n)
        out = []
        for nm in names:
            insts = [self.gen_inst() for _ in range(rng.randint(1, 3))] if (with_lists and rng.random() < 0.8) else []
            if insts and len(names) > 1 and rng.random() < self.cfg.p_param_named_inst:
                # a concrete type that happens to be spelled like another parameter of the same template
                other = rng.choice([x for x in names if x != nm])
                insts[rng.randrange(len(insts))] = TN([self.nsname()] if rng.random() < 0.5 else [], other)
            if self.cfg.matlab_safe:
                seen, uniq = set(), []
                def iname(t):
                    return t.name + "".join(iname(x) for x in t.insts)
                for i in insts:
                    k = iname(i)
                    if k not in seen and "unsigned char" not in k:
                        seen.add(k)
                        uniq.append(i)
                insts = uniq
            if any(i.insts for i in insts) or not insts:
                self.noscope.add(nm)
            else:
                self.noscope.discard(nm)
            out.append(TParam(nm, insts))
        return out

    # --- members
    def gen_enum(self):
        rng = self.rng
        name = self.cname()
        if self.cfg.unique_names and not self.in_class:
            used = self.scopes[-1]["classes"]
            while name in used:
                self.counter += 1
                name = "%s%d" % (name.rstrip("0123456789"), self.counter)
            used.add(name)
        return Enum(rng.choice(["enum", "enum", "enum class", "enum struct"]), name,
                    rng.sample(self.cfg.enumerators or ENUMERATORS, rng.randint(1, 5)))

    def gen_member(self, cname, ctparams):
        rng = self.rng
        kinds = ['ctor', 'method', 'method', 'method', 'static', 'prop']
        if self.cfg.allow_operators:
            kinds.append('op')
        if self.cfg.allow_enum:
            kinds.append('enum')
        if self.cfg.allow_dunder:
            kinds.append('dunder')
        kinds += list(self.cfg.extra_member_kinds)
        k = rng.choice(kinds)
        mt = None
        tps = tuple(ctparams)
        if k in ('ctor', 'method', 'static') and rng.random() < (self.cfg.p_template * 0.6 if self.cfg.p_member_template is None else self.cfg.p_member_template):
            mt = self.gen_tmpl(exclude=ctparams)
            tps = tps + tuple(p.name for p in mt)
        if k == 'ctor':
            return Member('ctor', tmpl=mt, name=cname, args=self.gen_args(tps))
        if k == 'method':
            return Member('method', tmpl=mt, ret=self.gen_ret(tps), name=self.ident(self.cfg.mnames or MNAMES), args=self.gen_args(tps),
                          const=rng.random() < 0.5)
        if k == 'static':
            return Member('static', tmpl=mt, ret=self.gen_ret(tps), name=self.ident(self.cfg.mnames or MNAMES), args=self.gen_args(tps))
        if k == 'prop':
            pname = self.ident(ANAMES + MNAMES)
            while self.cfg.matlab_safe and ("_set_" in pname or "_get_" in pname):
                pname = self.ident(ANAMES + MNAMES)
            return Member('prop', var=Var(self.gen_ty(tparams=tps), pname,
                                          self.gen_default() if rng.random() < 0.2 else None))
        if k == 'enum':
            return Member('enum', enum=self.gen_enum())
        if k == 'dunder':
            nm = rng.choice(DUNDERS)
            args = self.gen_args(() if self.cfg.c02_safe else tps, n=1) if nm == 'contains' else []
            for a in args:
                a.default = None
            return Member('dunder', name=nm, args=args)
        # operator
        sym = rng.choice(OPERATORS)
        r = rng.random()
        cls_ty = Ty([], cname, None, False, '', False)
        if sym in ('+', '-') and r < 0.4:
            return Member('op', ret=Ret(cls_ty), sym=sym, args=[])
        if sym in ('()', '[]'):
            return Member('op', ret=self.gen_ret(tps), sym=sym, args=self.gen_args(tps, n=1))
        a = Arg(Ty([], cname, None, True, '&', False), self.ident(ANAMES))
        return Member('op', ret=Ret(Ty([], cname, None, rng.random() < 0.2, '', False)), sym=sym, args=[a])

    def gen_class(self):
        self.in_class = True
        try:
            return self._gen_class()
        finally:
            self.in_class = False

    def _gen_class(self):
        rng = self.rng
        name = self.cname()
        if self.cfg.unique_names:
            # unique within its namespace (other namespaces may declare a class of the same name)
            used = self.scopes[-1]["classes"]
            tries = 0
            while name in used and tries < 4:
                name = self.cname()
                tries += 1
            if name in used or rng.random() < self.cfg.p_suffix:
                self.counter += 1
                name = "%s%d" % (name, self.counter)
            used.add(name)
        tmpl = self.gen_tmpl() if rng.random() < self.cfg.p_template else None
        ctp = [p.name for p in tmpl] if tmpl else []
        parent = None
        r = rng.random()
        if r < 0.25:
            ns, n = self.typename_parts(())
            parent = Ty(ns, n if n != "This" else "Base", None, False, '', False)
        elif r < 0.4:
            parent = self.gen_ty(depth=2, tparams=tuple(ctp), quals=False)
            if parent.params is None:
                parent = Ty(parent.ns, parent.name if ' ' not in parent.name else "Base", None, False, '', False)
                if self.cfg.c02_safe and (parent.name in ctp or (parent.ns and parent.ns[0] in ctp) or parent.name == "This"
                                          or "This" in parent.ns):
                    parent = Ty([], "Base", None, False, '', False)   # a plain base is never instantiated (known finding C02-9)
        members = [self.gen_member(name, ctp) for _ in range(rng.randint(0, self.cfg.max_members))]
        if self.cfg.p_values_insert and rng.random() < self.cfg.p_values_insert:
            # containers in the style of gtsam::Values (the pybind generator has a special case for exactly that class):
            # classes whose names END in `Values`, with insert(size_t, X) overloads
            name = rng.choice(["", "", "Vector", "My", "Nav"]) + "Values"
            if self.cfg.unique_names:
                used = self.scopes[-1]["classes"]
                if name in used:
                    self.counter += 1
                    name = "V%d%s" % (self.counter, name)
                used.add(name)
            for _ in range(rng.randint(1, 3)):
                second = self.gen_ty(depth=1, tparams=tuple(ctp))
                members.append(Member('method', ret=Ret(Ty([], "void", None, False, '', True)), name="insert",
                                      args=[Arg(Ty([], "size_t", None, False, '', True), rng.choice(["j", "key", "n"])),
                                            Arg(second, rng.choice(["value", "x", "pose"]))], const=False))
            members = [mm for mm in members if mm.kind != 'ctor']
        return Class(tmpl, rng.random() < self.cfg.p_virtual, name, parent, members)

    def gen_decl(self, depth):
        self.ns_depth = depth
        rng = self.rng
        kinds = ['cls', 'cls', 'cls', 'func', 'func']
        if self.cfg.allow_fwd:
            kinds.append('fwd')
        if self.cfg.allow_include:
            kinds.append('incl')
        if self.cfg.allow_typedef:
            kinds.append('typedef')
        if self.cfg.allow_enum:
            kinds.append('enum')
        if self.cfg.allow_var:
            kinds.append('var')
        kinds += list(self.cfg.extra_kinds)
        if depth < self.cfg.max_depth:
            kinds += ['ns', 'ns']
        k = rng.choice(kinds)
        if k == 'cls':
            return Decl('cls', cls=self.gen_class())
        if k == 'func':
            tmpl = self.gen_tmpl() if rng.random() < self.cfg.p_template else None
            tps = tuple(p.name for p in tmpl) if tmpl else ()
            fname = self.ident(self.cfg.mnames or MNAMES)
            prev = self.scopes[-1]["funcs"]
            if prev and rng.random() < 0.3:
                fname = rng.choice(prev)      # an overload, not necessarily adjacent to the first declaration
            elif "taken" in self.scopes[-1]:
                while fname in self.scopes[-1]["taken"] and fname not in prev:
                    self.counter += 1
                    fname = "%s%d" % (fname.rstrip("0123456789"), self.counter)
            if "taken" in self.scopes[-1]:
                self.scopes[-1]["taken"].add(fname)
            prev.append(fname)
            return Decl('func', tmpl=tmpl, ret=self.gen_ret(tps), name=fname, args=self.gen_args(tps))
        if k == 'fwd':
            tn = TN([self.nsname() for _ in range(rng.choice([0, 0, 1, 2]))], self.cname())
            last = self.scopes[-1].get("last_fwd")
            if last is not None and self.cfg.p_fwd_twin and rng.random() < self.cfg.p_fwd_twin:
                # another class with the same unqualified name: `class gtsam::Values;` `class gtdynamics::Values;`
                ns2 = [self.nsname() for _ in range(rng.choice([1, 2]))]
                if ns2 != last.ns:
                    tn = TN(ns2, last.name)
            self.scopes[-1]["last_fwd"] = tn
            par = None
            if rng.random() < 0.3:
                par = TN([self.nsname() for _ in range(rng.choice([0, 1]))], self.cname())
            return Decl('fwd', virtual=rng.random() < 0.3, tn=tn, parent_tn=par)
        if k == 'incl':
            h = rng.choice(["gtsam/base/Matrix.h", "vector", "a/b.h", " spaced/header.h ", "x y", "foo.h\t", "a\tb.h", "é.h"])
            return Decl('incl', header=h)
        if k == 'typedef':
            t = self.gen_inst(2)
            while not t.insts:
                t = TN(t.ns, self.cname(), [self.gen_inst(1) for _ in range(rng.choice([1, 2]))])
            return Decl('typedef', tn=t, new_name=self.cname() + rng.choice(["", "2D", "Int", "_t"]))
        if k == 'enum':
            return Decl('enum', enum=self.gen_enum())
        if k == 'var':
            return Decl('var', var=Var(self.gen_ty(), self.ident(ANAMES + ["kGravity", "kMax"]),
                                       self.gen_default() if rng.random() < 0.5 else None))
        if k == 'ns':
            n = rng.randint(0, self.cfg.max_decls)
            name = self.nsname()
            self.ns_path.append(name)
            # a re-opened namespace continues the scope of its first block (class / enum names stay unique per C++ scope)
            scope = self.ns_scopes.setdefault(tuple(self.ns_path), dict(classes=set(), funcs=[])) if self.cfg.unique_names \
                else dict(classes=set(), funcs=[])
            if self.cfg.matlab_safe:
                # overloads of one free function spread over two blocks of a re-opened namespace lose the call sites of the
                # first block (known finding C05-overloads-across-reopened-namespace): new names per block
                scope = dict(classes=scope["classes"], funcs=[], taken=scope.setdefault("taken", set()))
            self.scopes.append(scope)
            try:
                content = [self.gen_decl(depth + 1) for _ in range(n)]
            finally:
                self.scopes.pop()
                self.ns_path.pop()
                self.ns_depth = depth
            return Decl('ns', name=name, content=content)
        raise ValueError(k)

    def gen_module(self):
        n = self.rng.randint(0, self.cfg.max_decls)
        return [self.gen_decl(0) for _ in range(n)]


def fix_pair_shape(t: Ty):
    """a return type written `pair<S1,S2>` (no qualifiers, simple params) parses as the pair form;
    the generator therefore never emits that shape as a single templated return type"""
    return (t.params is not None and len(t.params) == 2 and t.name == 'pair' and t.ns in ([], ['std'])
            and not t.const and not t.suffix and all(p.params is None for p in t.params))


# ------------------------------------------------------------------ coherent modules (instantiable)
def walk_namespaces(content, path=()):
    """yield (path, content_list) for the module and every namespace"""
    yield path, content
    for d in content:
        if d.kind == 'ns':
            yield from walk_namespaces(d.content, path + (d.name,))


def typedef_targets(m):
    out = []
    for path, content in walk_namespaces(m):
        for d in content:
            if d.kind == 'cls' and d.cls.tmpl:
                out.append((path, d.cls.name, len(d.cls.tmpl), 'cls'))
            elif d.kind == 'func' and d.tmpl:
                out.append((path, d.name, len(d.tmpl), 'func'))
            elif d.kind == 'fwd':
                out.append((path, d.tn.name, None, 'fwd'))
    return out


def gen_module_inst(g: Gen, n_typedefs=None, p_bad_arity=0.03, p_missing=0.03):
    """a module whose typedefs refer to declared templates (in any namespace, before or after),
    so that instantiation mostly succeeds; a small share of lookups fails on purpose"""
    rng = g.rng
    g.cfg.allow_typedef = False
    g.cfg.unique_names = True
    m = g.gen_module()
    if g.cfg.unique_ns:
        for _, content in walk_namespaces(m):
            seen = set()
            for d in content:
                if d.kind == 'ns':
                    while d.name in seen:
                        g.counter += 1
                        d.name = "%s%d" % (d.name.rstrip("0123456789"), g.counter)
                    seen.add(d.name)
    targets = typedef_targets(m)
    spaces = list(walk_namespaces(m))
    if n_typedefs is None:
        n_typedefs = g.cfg.n_typedefs if g.cfg.n_typedefs is not None else rng.randint(0, 4)
    if g.cfg.p_serialize:
        for _, content in spaces:
            for d in content:
                if d.kind == 'cls' and rng.random() < g.cfg.p_serialize and not any(
                        mb.kind == 'method' and mb.name == 'serialize' for mb in d.cls.members):
                    d.cls.members.insert(rng.randint(0, len(d.cls.members)),
                                         Member('method', ret=Ret(Ty([], "void", None, False, '', True)), name="serialize", args=[], const=True))
                    if rng.random() < 0.35:
                        # both spellings of the serialization hook in one class: still ONE export of the class
                        d.cls.members.insert(rng.randint(0, len(d.cls.members)),
                                             Member('method', ret=Ret(Ty([], "void", None, False, '', True)), name="serializable", args=[], const=True))
    prev = None
    for _ in range(n_typedefs):
        if not targets:
            break
        if prev is not None and rng.random() < g.cfg.p_dup_typedef:
            # the same instantiation under a second name (same namespace as the first)
            g.counter += 1
            d0, content0 = prev
            content0.insert(rng.randint(0, len(content0)), Decl('typedef', tn=d0.tn, new_name="%sAlias%d" % (d0.tn.name, g.counter)))
            continue
        path, name, arity, kind = rng.choice(targets)
        n = arity if arity is not None else rng.choice([1, 2])
        if rng.random() < p_bad_arity:
            n = n + 1
        if rng.random() < p_missing:
            name = name + "Missing"
        tn = TN(list(path), name, [g.gen_inst(0 if (g.cfg.c02_safe or g.cfg.matlab_safe) else 1) for _ in range(n)])
        g.counter += 1
        d = Decl('typedef', tn=tn, new_name="%sTd%d" % (name, g.counter))
        placed = False
        if g.cfg.typedef_enclosing and path and rng.random() < g.cfg.typedef_enclosing and (
                g.cfg.typedef_enclosing_kinds is None or kind in g.cfg.typedef_enclosing_kinds):
            # in an enclosing scope, textually before the namespace block that holds the template
            k = rng.randrange(len(path))
            anc = next((c for p_, c in spaces if list(p_) == list(path[:k])), None)
            if anc is not None:
                j = next((i for i, x in enumerate(anc) if x.kind == 'ns' and x.name == path[k]), None)
                if j is not None:
                    anc.insert(j, d)
                    placed = True
        if placed:
            if kind != 'func':
                prev = None
            continue
        if g.cfg.typedef_same_ns:
            content = next(c for p_, c in spaces if p_ == path)
        else:
            _, content = rng.choice(spaces)
        content.insert(rng.randint(0, len(content)), d)
        if kind != 'func':
            prev = (d, content)
    return m
