#!/venv/bin/python
"""
C19 correspondence harness: parsing cost of gtwrap's interface parser, measured as the number
of un-memoised pyparsing evaluations (`ParserElement._parseNoCache` calls), on scaled input
families.  Deterministic verdict: no wall-clock thresholds (seconds are recorded for
information only).

Checks (each reported separately under "checks"):
  flag         ParserElement._packratEnabled is True after `import gtwrap.interface_parser`
  reach        every element that was evaluated is reachable from Module.rule (so R is not
               under-counted)
  parse        every generated input is accepted
  bound        calls <= 4*R*(len(text)+1)   (the bound proved for the model, C19_packrat_bound)
  per_char     calls <= PER_CHAR_MAX*(len(text)+1) on the families whose nesting depth is fixed
               (n declarations, long flat lists): cost is linear in file size with a small
               constant (tighter than `bound`; constant measured with margin)
  evict_overhead  on the same families (small parameters): calls <= EVICT_MAX * calls measured
               with an UNBOUNDED cache, i.e. with the no-eviction table the Lean bound is about
  doubling     calls(2d)/calls(d) <= DOUBLING_MAX for every family and every d with 2d measured
  consecutive  calls(d+1)/calls(d) <= CONSEC_MAX for d >= CONSEC_FROM (depth and flat families)

Usage:
  c19_measure.py [--tier quick|thorough] [--patch none|nopackrat|leftrec|cache=N|unbounded]
                 [--with-unbounded] [--mutants|--mutants-full] [--fail-fast] [--call-cap N]

  --patch X     monkey-patch pyparsing INSIDE THIS PROCESS ONLY (never edits /repo) to emulate a
                source change, then measure.  Used to show that the thresholds catch it.
  --mutants     run the quick tier once per patch in sub-processes (mutants stop at their first
                failed check) and report which checks caught which patch; exit 0 iff the clean
                run passes and every mandatory mutant (packrat off, left-recursion mode, cache
                size 1..8) is caught by a counting check.  --mutants-full: no early stop.
  --with-unbounded  additionally re-measure every input with an unbounded cache (informational).
  --call-cap N  lower the per-parse call cap (default: the bound itself, so a parse is aborted
                exactly when the verdict `bound` is decided).

Exit status: 0 iff "ok" is true.  Output: one JSON document on stdout.
"""
import argparse
import json
import subprocess
import sys
import time

import os
REPO = os.environ.get('VERIF_REPO', '/repo')
sys.path.insert(0, REPO)

# ---------------------------------------------------------------------------------------------
# thresholds (see NOTES.md for the measured values and margins)
DOUBLING_MAX = 8.0      # calls(2d)/calls(d); linear ~2, quadratic ~4, exponential >= 2^d
CONSEC_MAX = 1.6        # calls(d+1)/calls(d) for d >= CONSEC_FROM; clean <= 1.42, exponential ~2
CONSEC_FROM = 4         # first d of a checked pair (d, d+1) ...
CONSEC_FROM_BY_FAMILY = {'combo_ns_tmpl': 6}   # ... except for the cubic family (1.59 at (4,5))
PER_CHAR_MAX = 55       # calls per input character at fixed depth; clean tree: 36.7
EVICT_MAX = 4.0         # calls / calls with an unbounded cache, at fixed depth; clean tree: 2.91
EVICT_UPTO = {'size': 40, 'flat': 8}   # parameters up to which the unbounded re-run is done
CHECKS = ('flag', 'reach', 'parse', 'bound', 'per_char', 'evict_overhead', 'doubling',
          'consecutive')


class CallCapExceeded(BaseException):
    """Raised by the counting wrapper; BaseException so that pyparsing does not swallow it."""


# ---------------------------------------------------------------------------------------------
# input families

def tmpl(d, leaf='int'):
    s = leaf
    for _ in range(d):
        s = 'A<' + s + '>'
    return s


def fam_ns_bare(d):
    """d nested namespaces, two declarations at the innermost level only."""
    out = []
    for i in range(d):
        out.append('namespace n%d {' % i)
    out.append('class Inner { Inner(); double m(int a) const; };')
    out.append('void g(const Inner& a, double b = 1.0);')
    out.extend('}' for _ in range(d))
    return '\n'.join(out) + '\n'


def fam_ns_full(d):
    """d nested namespaces, a class and a function at each level, two more at the innermost."""
    out = []
    for i in range(d):
        out.append('namespace n%d {' % i)
        out.append('class C%d { C%d(); double m%d(int a, const n0::C0& b) const; int x; };' % (i, i, i))
        out.append('void f%d(const n0::C0& a, double b = 1.0);' % i)
    out.append('enum E { P, Q, R };')
    out.append('const int kInner = 7;')
    for i in reversed(range(d)):
        out.append('int after%d;' % i)
        out.append('}')
    return '\n'.join(out) + '\n'


def fam_tmpl_arg(d):
    return 'void f(%s x, const %s& y);\n' % (tmpl(d), tmpl(d, 'n::B'))


def fam_tmpl_ret(d):
    return '%s f(int x);\n' % tmpl(d)


def fam_tmpl_base(d):
    return 'class C : %s { C(); };\n' % tmpl(d)


def fam_tmpl_typedef(d):
    return 'typedef %s TT;\n' % tmpl(d)


def fam_tmpl_member(d):
    t = tmpl(d)
    return ('class C { C(const %s& a); %s g(const %s& a, %s* b) const; static %s s(); %s v; };\n'
            % (t, t, t, t, t, t))


def fam_tmpl_wide(d):
    """template arguments nested d deep with two arguments at each level"""
    s = 'int'
    for _ in range(d):
        s = 'P<' + s + ', double>'
    return 'void f(%s x);\n' % s


def decl(i):
    k = i % 6
    if k == 0:
        return ('class K%d { K%d(); K%d(int a, double b); void set(const string& s = "x", int n = %d);\n'
                '  double get() const; static K%d Create(size_t j); int field; gtsam::Vector v; };'
                % (i, i, i, i, i))
    if k == 1:
        return 'void fun%d(int a = %d, const std::vector<int>& v = {1, 2, 3}, double c = 0.5);' % (i, i)
    if k == 2:
        return 'enum En%d { A%d, B%d, C%d, D%d };' % (i, i, i, i, i)
    if k == 3:
        return 'const double kVar%d = %d.5;' % (i, i)
    if k == 4:
        return ('template<T = {double, int}> class T%d { T%d(const T& t); T f(T a, const T& b) const; };\n'
                'typedef T%d<double> T%dd;' % (i, i, i, i))
    return 'gtsam::Matrix gfun%d(const gtsam::Pose3& p = gtsam::Pose3(), std::vector<A<int>> w);' % i


def fam_decls(n):
    return '\n'.join(decl(i) for i in range(n)) + '\n'


def fam_decls_in_ns(n):
    return 'namespace gtsam {\n' + fam_decls(n) + '}\n'


def fam_combo(d):
    """d nested namespaces, each with a class whose method takes a depth-d templated argument."""
    t = tmpl(d)
    out = []
    for i in range(d):
        out.append('namespace n%d {' % i)
        out.append('class C%d { C%d(); %s m(const %s& a) const; };' % (i, i, t, t))
    out.extend('}' for _ in range(d))
    return '\n'.join(out) + '\n'


def fam_arglist(m):
    """one function and one constructor with 4*m arguments"""
    args = []
    for i in range(4 * m):
        k = i % 4
        if k == 0:
            args.append('int a%d' % i)
        elif k == 1:
            args.append('const A<int>& a%d = A<int>()' % i)
        elif k == 2:
            args.append('n::B* a%d' % i)
        else:
            args.append('double a%d = 1.5' % i)
    a = ', '.join(args)
    return 'void f(%s);\nclass C { C(%s); };\n' % (a, a)


def fam_default_nest(d):
    """default values with brackets nested d deep (all four bracket kinds)"""
    p = '1'
    b = '2'
    s = '3'
    a = 'int'
    for _ in range(d):
        p = 'g(' + p + ', 0)'
        b = '{' + b + ', {0}}'
        s = '[' + s + ']'
        a = 'A<' + a + '>'
    return ('void f(int a = %s, const V& v = %s, int c = %s, const T& t = %s());\n'
            % (p, b, s, a))


def fam_default_long(m):
    """one default value that is a long flat brace list (8*m items) and a long call"""
    items = ', '.join(str(i) for i in range(8 * m))
    return 'void f(const std::vector<int>& v = {%s}, int w = h(%s));\n' % (items, items)


ALL16 = list(range(1, 17))
DEEP = ALL16 + [20, 21, 24, 32, 33, 40]
THIN16 = [1, 2, 4, 5, 8, 16]
N_QUICK = [10, 20, 40, 80, 160]
N_THOROUGH = [10, 20, 40, 80, 160, 320, 500, 1000, 2000]

# (name, generator, kind, quick parameters, thorough parameters)
#   kind 'depth': parameter = nesting depth          -> bound, doubling, consecutive
#   kind 'flat' : parameter = length of a flat list  -> bound, doubling, consecutive, per_char
def fam_ns_commented(d):
    """d nested namespaces whose headers carry comments between `namespace`, the name and the brace (each comment
    costs memo-table entries while the alternatives of a declaration are tried: pressure on a bounded table)"""
    out = []
    for i in range(d):
        out.append('namespace /* begin */ n%d /* level %d */\n// Allman style, documented\n// second line\n{' % (i, i))
    out.append('class Inner { Inner(); double m(int a) const; };')
    out.extend('} // namespace' for _ in range(d))
    return '\n'.join(out) + '\n'


def fam_tmpl_qualified(d):
    """template arguments nested d deep whose names have seven `::` components, in several type positions"""
    s = 'int'
    for _ in range(d):
        s = 'const a::b::c::d::e::f::V<' + s + '>&'
    core = s[len('const '):-1]
    return 'typedef %s TQ;\n%s f(%s x);\nclass C { C(%s y); %s v; };\n' % (core, core, s, s, core)


def fam_commented_everything(d):
    """namespaces nested d deep, a comment after every token of the declarations inside"""
    out = []
    for i in range(d):
        out.append('namespace /*a*/ /*b*/ m%d /*c*/ { /*d*/' % i)
        out.append('class /*x*/ K%d /*y*/ : /*z*/ base::ns::T<m0::K0> /*w*/ { /*v*/ K%d( /*u*/ ) /*t*/ ; /*s*/ } /*r*/ ; /*q*/' % (i, i))
    out.extend('} /*e*/' for _ in range(d))
    return '\n'.join(out) + '\n'


#   kind 'size' : parameter = number of declarations -> bound, doubling, per_char
# The quick lists are thinned for the expensive families so that the quick tier stays < 60 s;
# every list keeps pairs (d, 2d) and at least one pair (d, d+1) with d >= CONSEC_FROM.
FAMILIES = [
    # fixed-depth families first: they are the ones that detect cache thrashing early
    ('decls', fam_decls, 'size', N_QUICK, N_THOROUGH),
    ('decls_in_ns', fam_decls_in_ns, 'size', [10, 20, 40], [10, 20, 40, 80, 160]),
    ('arglist', fam_arglist, 'flat', THIN16, DEEP),
    ('default_long', fam_default_long, 'flat', THIN16, DEEP),
    ('ns_bare', fam_ns_bare, 'depth', ALL16, DEEP),
    ('ns_full', fam_ns_full, 'depth', [1, 2, 3, 4, 5, 6, 8],
     [1, 2, 3, 4, 5, 6, 8, 12, 16, 20, 21, 32, 33, 40]),
    ('tmpl_arg', fam_tmpl_arg, 'depth', ALL16, DEEP),
    ('tmpl_ret', fam_tmpl_ret, 'depth', ALL16, DEEP),
    ('tmpl_base', fam_tmpl_base, 'depth', THIN16, DEEP),
    ('tmpl_typedef', fam_tmpl_typedef, 'depth', THIN16, DEEP),
    ('tmpl_member', fam_tmpl_member, 'depth', THIN16, DEEP),
    ('tmpl_wide', fam_tmpl_wide, 'depth', THIN16, DEEP),
    ('ns_commented', fam_ns_commented, 'depth', [1, 2, 3, 4, 6, 8, 9, 10], [1, 2, 3, 4, 6, 8, 9, 10, 12, 16, 20, 21]),
    ('tmpl_qualified', fam_tmpl_qualified, 'depth', [1, 2, 3, 4, 6, 8, 9, 10], [1, 2, 3, 4, 6, 8, 9, 10, 12, 16, 20, 21]),
    ('commented_everything', fam_commented_everything, 'depth', [1, 2, 3, 4, 6, 8], [1, 2, 3, 4, 6, 8, 9, 12, 16]),
    ('combo_ns_tmpl', fam_combo, 'depth', [1, 2, 3, 4, 6, 7], list(range(1, 11)) + [12, 16, 20]),
    ('default_nest', fam_default_nest, 'depth', THIN16, DEEP),
]


# ---------------------------------------------------------------------------------------------
# instrumentation

def reachable_elements(root):
    """All distinct ParserElement objects reachable from root via .exprs, .expr (incl. Forward
    targets), .ignoreExprs, and the helper attributes pyparsing elements keep (.not_ender,
    .ignorer, ...)."""
    from pyparsing import ParserElement
    seen = {}
    core = set()
    stack = [(root, True)]
    while stack:
        e, is_core = stack.pop()
        if id(e) in seen:
            if is_core and id(e) not in core:
                core.add(id(e))
            else:
                continue
        seen[id(e)] = e
        if is_core:
            core.add(id(e))
        kids = []
        ex = getattr(e, 'exprs', None)
        if ex:
            kids.extend((k, is_core) for k in ex)
        x = getattr(e, 'expr', None)
        if isinstance(x, ParserElement):
            kids.append((x, is_core))
        for k in getattr(e, 'ignoreExprs', ()) or ():
            kids.append((k, False))
        for v in list(vars(e).values()):
            if isinstance(v, ParserElement) and v is not x:
                kids.append((v, False))
        for k, c in kids:
            if id(k) not in seen or (c and id(k) not in core):
                stack.append((k, c))
    return seen, core


class Counter:
    def __init__(self):
        self.calls = 0
        self.cap = None
        self.seen = set()


def install_counter():
    from pyparsing import ParserElement
    ctr = Counter()
    orig = ParserElement._parseNoCache

    def counted(self, instring, loc, doActions=True, callPreParse=True):
        ctr.calls += 1
        if ctr.cap is not None and ctr.calls > ctr.cap:
            raise CallCapExceeded()
        ctr.seen.add(id(self))
        return orig(self, instring, loc, doActions, callPreParse)

    counted._c19_original = orig
    was_plain = ParserElement._parse is orig
    ParserElement._parseNoCache = counted
    if was_plain:
        ParserElement._parse = counted
    return ctr


def apply_patch(patch):
    """Emulate a source change by monkey-patching pyparsing in this process."""
    from pyparsing import ParserElement
    if patch == 'none':
        return
    if patch == 'nopackrat':          # = deleting the enablePackrat() line
        ParserElement.disable_memoization()
        ParserElement._parse = ParserElement._parseNoCache
    elif patch == 'leftrec':          # = replacing it by enable_left_recursion()
        ParserElement.enable_left_recursion(force=True)
    elif patch == 'unbounded':        # = enablePackrat(None): the model's no-eviction table
        ParserElement.enable_packrat(None, force=True)
    elif patch.startswith('cache='):  # = enablePackrat(N)
        ParserElement.enable_packrat(int(patch.split('=', 1)[1]), force=True)
    else:
        raise SystemExit('unknown patch %r' % patch)


# ---------------------------------------------------------------------------------------------

def measure(tier, patch, with_unbounded, call_cap, fail_fast=False):
    t_start = time.time()
    import pyparsing
    from pyparsing import ParserElement
    import gtwrap.interface_parser  # noqa: F401  (this import is what enables packrat)
    from gtwrap.interface_parser.module import Module

    flag_after_import = ParserElement._packratEnabled is True
    cache_type_after_import = type(ParserElement.packrat_cache).__name__
    cache_size_after_import = getattr(ParserElement.packrat_cache, 'size', None)

    sys.setrecursionlimit(20000)
    ctr = install_counter()
    apply_patch(patch)

    # warm-up parse: pyparsing streamlines the grammar on first use
    try:
        Module.parseString('namespace w { class W { W(); }; void f(A<int> a = 1); }')
    except Exception:   # a patch may break parsing altogether; reported by the 'parse' check
        pass
    seen_all, core = reachable_elements(Module.rule)
    R = len(seen_all)
    R_core = len(core)

    checks = {k: {'ok': True, 'first_failure': None} for k in CHECKS}

    def fail(check, info):
        c = checks[check]
        if c['ok']:
            c['ok'] = False
            c['first_failure'] = info

    if not flag_after_import:
        fail('flag', {'detail': 'ParserElement._packratEnabled is not True after import'})

    def run_one(text):
        bound = 4 * R * (len(text) + 1)
        cap = bound if call_cap is None else min(bound, call_cap)
        ParserElement.reset_cache()
        ctr.calls = 0
        ctr.cap = cap
        t0 = time.time()
        status = 'ok'
        try:
            Module.parseString(text)
        except CallCapExceeded:
            status = 'call_cap'
        except RecursionError:
            status = 'recursion_error'
        except pyparsing.ParseBaseException as e:
            status = 'parse_error: ' + str(e)[:120]
        except Exception as e:   # e.g. pyparsing's FIFO cache of size 0 raises StopIteration
            status = 'exception: %s: %s' % (type(e).__name__, str(e)[:100])
        finally:
            ctr.cap = None
        secs = time.time() - t0
        stats = list(ParserElement.packrat_cache_stats)
        return ctr.calls, bound, status, secs, stats

    def run_one_unbounded(text):
        """The same input with the model's table: unbounded, no eviction.  The configured
        cache, `_parse` and the flag are restored afterwards."""
        saved = (ParserElement.packrat_cache, ParserElement._parse,
                 ParserElement._packratEnabled, ParserElement._left_recursion_enabled)
        try:
            ParserElement.enable_packrat(None, force=True)
            return run_one(text)
        finally:
            (ParserElement.packrat_cache, ParserElement._parse,
             ParserElement._packratEnabled, ParserElement._left_recursion_enabled) = saved

    families = {}
    total_calls = 0
    obs = {'per_char': 0.0, 'doubling': 0.0, 'consec': 0.0, 'bound': 0.0, 'evict': 0.0}
    aborted = False
    for name, gen, kind, p_quick, p_thorough in FAMILIES:
        params = p_quick if tier == 'quick' else p_thorough
        rows = []
        by_param = {}
        stop = False
        for p in params:
            if stop or aborted:
                break
            text = gen(p)
            calls, bound, status, secs, stats = run_one(text)
            total_calls += calls
            row = {'param': p, 'len': len(text), 'calls': calls, 'bound': bound,
                   'calls_over_bound': round(calls / bound, 5),
                   'calls_per_char': round(calls / (len(text) + 1), 2),
                   'seconds': round(secs, 4), 'status': status,
                   'cache_hits': stats[0], 'cache_misses': stats[1]}
            where = {'family': name, 'param': p, 'calls': calls, 'bound': bound,
                     'len': len(text), 'text': text if len(text) <= 4000 else text[:4000] + '...'}
            if status == 'call_cap':
                # the count exceeded min(bound, --call-cap): cost check failed; do not go deeper
                fail('bound', dict(where, detail='call cap %d exceeded' % min(bound, call_cap or bound)))
                obs['bound'] = max(obs['bound'], calls / bound)
                stop = True
            elif status != 'ok':
                fail('parse', dict(where, detail=status))
                stop = True
            else:
                if calls > bound:
                    fail('bound', where)
                obs['bound'] = max(obs['bound'], calls / bound)
                if kind != 'depth':
                    pc = calls / (len(text) + 1)
                    obs['per_char'] = max(obs['per_char'], pc)
                    if pc > PER_CHAR_MAX:
                        fail('per_char', dict(where, detail='%.1f calls per character > %d'
                                              % (pc, PER_CHAR_MAX)))
                    if p <= EVICT_UPTO[kind]:
                        ucalls, _, ustatus, usecs, _ = run_one_unbounded(text)
                        row['calls_unbounded_cache'] = ucalls
                        if ustatus == 'ok' and ucalls > 0:
                            ratio = calls / ucalls
                            row['evict_overhead'] = round(ratio, 3)
                            obs['evict'] = max(obs['evict'], ratio)
                            if ratio > EVICT_MAX:
                                fail('evict_overhead', dict(where, detail=(
                                    'calls/calls_with_unbounded_cache = %d/%d = %.2f > %s'
                                    % (calls, ucalls, ratio, EVICT_MAX))))
                by_param[p] = calls
                if p % 2 == 0 and (p // 2) in by_param:
                    ratio = calls / by_param[p // 2]
                    row['ratio_vs_half'] = round(ratio, 3)
                    obs['doubling'] = max(obs['doubling'], ratio)
                    if ratio > DOUBLING_MAX:
                        fail('doubling', dict(where, detail='calls(%d)/calls(%d) = %.2f > %s'
                                              % (p, p // 2, ratio, DOUBLING_MAX)))
                if kind != 'size' and (p - 1) in by_param:
                    ratio = calls / by_param[p - 1]
                    row['ratio_vs_prev'] = round(ratio, 3)
                    if p - 1 >= CONSEC_FROM_BY_FAMILY.get(name, CONSEC_FROM):
                        obs['consec'] = max(obs['consec'], ratio)
                        if ratio > CONSEC_MAX:
                            fail('consecutive', dict(where, detail='calls(%d)/calls(%d) = %.2f > %s'
                                                     % (p, p - 1, ratio, CONSEC_MAX)))
            rows.append(row)
            if fail_fast and not all(c['ok'] for k, c in checks.items() if k != 'flag'):
                aborted = True
        families[name] = {'kind': kind, 'rows': rows}

    # R must cover everything that was actually evaluated
    unreachable = [i for i in ctr.seen if i not in seen_all]
    if unreachable:
        fail('reach', {'detail': '%d evaluated elements are not reachable from Module.rule'
                       % len(unreachable)})

    unbounded = None
    if with_unbounded and patch == 'none':
        # informational: ALL inputs again with the model's no-eviction table
        unbounded = {}
        for name, gen, kind, p_quick, p_thorough in FAMILIES:
            params = p_quick if tier == 'quick' else p_thorough
            rows = []
            for p in params:
                calls, bound, status, secs, stats = run_one_unbounded(gen(p))
                rows.append({'param': p, 'calls_unbounded_cache': calls, 'status': status})
            unbounded[name] = rows

    ok = all(c['ok'] for c in checks.values())
    first = None
    for k in CHECKS:
        if not checks[k]['ok']:
            first = dict(checks[k]['first_failure'], check=k)
            break
    return {
        'property': 'C19',
        'tier': tier,
        'patch': patch,
        'pyparsing_version': pyparsing.__version__,
        'packrat_enabled_after_import': flag_after_import,
        'cache_type_after_import': cache_type_after_import,
        'cache_size_after_import': cache_size_after_import,
        'cache_type_measured': type(ParserElement.packrat_cache).__name__,
        'cache_size_measured': getattr(ParserElement.packrat_cache, 'size', None),
        'R': R,
        'R_core_without_ignore_and_helpers': R_core,
        'distinct_elements_evaluated': len(ctr.seen),
        'thresholds': {'DOUBLING_MAX': DOUBLING_MAX, 'CONSEC_MAX': CONSEC_MAX,
                       'CONSEC_FROM': CONSEC_FROM,
                       'CONSEC_FROM_BY_FAMILY': CONSEC_FROM_BY_FAMILY,
                       'PER_CHAR_MAX': PER_CHAR_MAX,
                       'EVICT_MAX': EVICT_MAX, 'bound': '4*R*(len+1)'},
        'observed': {'max_calls_over_bound': round(obs['bound'], 5),
                     'max_calls_per_char_flat_and_size_families': round(obs['per_char'], 2),
                     'max_evict_overhead': round(obs['evict'], 3),
                     'max_doubling_ratio': round(obs['doubling'], 3),
                     'max_consecutive_ratio': round(obs['consec'], 3),
                     'total_calls': total_calls},
        'families': families,
        'unbounded_cache_comparison': unbounded,
        'checks': checks,
        'ok': ok,
        'aborted_by_fail_fast': aborted,
        'first_failure': first,
        'seconds_total': round(time.time() - t_start, 2),
    }


MUTANTS = [
    # (patch, must_be_caught_by_a_counting_check)
    ('nopackrat', True), ('leftrec', True),
    ('cache=1', True), ('cache=2', True), ('cache=4', True), ('cache=8', True),
    ('cache=16', False), ('cache=32', False), ('cache=64', False), ('cache=0', False),
    ('unbounded', False),
]
COUNTING = ('bound', 'per_char', 'evict_overhead', 'doubling', 'consecutive')


def run_mutants(call_cap, full):
    out = {'property': 'C19', 'mode': 'mutants', 'runs': []}
    ok = True
    for patch, must in [('none', False)] + MUTANTS:
        cmd = [sys.executable, __file__, '--tier', 'quick', '--patch', patch]
        if not full and patch != 'none':
            cmd.append('--fail-fast')
        if call_cap is not None:
            cmd += ['--call-cap', str(call_cap)]
        t0 = time.time()
        p = subprocess.run(cmd, capture_output=True, text=True)
        try:
            doc = json.loads(p.stdout)
        except Exception:
            out['runs'].append({'patch': patch, 'error': p.stderr[-500:]})
            ok = False
            continue
        caught_by = [k for k in COUNTING if not doc['checks'][k]['ok']]
        other = [k for k in doc['checks'] if k not in COUNTING and not doc['checks'][k]['ok']]
        ff = doc['first_failure']
        run = {'patch': patch, 'ok': doc['ok'], 'counting_checks_failed': caught_by,
               'other_checks_failed': other, 'observed': doc['observed'],
               'first_failure': None if ff is None else
               {k: ff.get(k) for k in ('check', 'family', 'param', 'calls', 'bound', 'detail')},
               'seconds': round(time.time() - t0, 1)}
        if patch == 'none':
            run['expected'] = 'pass'
            if not doc['ok']:
                ok = False
        else:
            run['expected'] = 'caught by a counting check' if must else 'informational'
            if must and not caught_by:
                ok = False
        out['runs'].append(run)
    out['ok'] = ok
    return out


def main():
    ap = argparse.ArgumentParser()
    ap.add_argument('--tier', choices=['quick', 'thorough'], default='quick')
    ap.add_argument('--patch', default='none')
    ap.add_argument('--with-unbounded', action='store_true')
    ap.add_argument('--mutants', action='store_true')
    ap.add_argument('--mutants-full', action='store_true',
                    help='like --mutants but every mutant runs the whole quick tier (slow)')
    ap.add_argument('--fail-fast', action='store_true',
                    help='stop measuring after the first failed check')
    ap.add_argument('--call-cap', type=int, default=None,
                    help='per-parse cap on counted calls (default: the bound 4*R*(len+1))')
    a = ap.parse_args()
    if a.mutants or a.mutants_full:
        doc = run_mutants(a.call_cap, a.mutants_full)
    else:
        doc = measure(a.tier, a.patch, a.with_unbounded, a.call_cap, a.fail_fast)
    json.dump(doc, sys.stdout, indent=1)
    sys.stdout.write('\n')
    sys.exit(0 if doc['ok'] else 1)


if __name__ == '__main__':
    main()
