#!/usr/bin/env python3
"""C19 hazard families: cost that the pyparsing call counter cannot see.

`c19_measure.py` counts un-memoised evaluations of grammar elements — deterministic, but blind to work done *around*
the grammar inside `Module.parseString` (a pre-pass over the text, a post-pass over the tree, a parse action that
recurses).  This script parses scaled inputs in FRESH SUBPROCESSES (a runaway C-level loop, e.g. a backtracking
regular expression, cannot be interrupted in-process) and looks at CPU time only through very wide margins:

  * every parse must finish within TIMEOUT (90) seconds of wall clock (unchanged tree: < 5 s of CPU for every input here);
  * CPU time may grow by at most RATIO_MAX from one parameter to the next (unchanged tree: < 2; an exponential
    mechanism doubles per unit step, i.e. >= 16 per step of 4), judged only when the smaller time is >= T_FLOOR.

Families (parameters chosen so that the unchanged tree needs about a second for the largest):
  ns_deep          d nested namespaces, each with a class and a function        (post-passes over the namespace tree)
  ns_deep_leafcls  d nested namespaces, one class in the innermost              (same, the shape of a deep project file)
  open_comment_in_string   a default value "/*" followed by n one-line declarations, no "*/" anywhere   (text pre-passes)
  slashes_in_string        a default value "//" in every one of n declarations  (same)
  long_line        one declaration with n arguments on a single line            (line-oriented pre-passes)
  long_word_default   defaults / initialisers with one long qualified name inside nested calls, braces, literals   (token-level regexes)
  many_defaults_overloaded   an overloaded member with k defaulted parameters   (parse-time checks that enumerate call signatures)
  odd_include_paths          legal but non-canonical #include headers after n path components   (regexes on include paths)
  op_nested        operator overloads whose operand/return type has template nesting depth d   (parse actions that walk types)
  tmpl_list_nested `template<T = {...}>` lists (class, method, static method, function) holding a type of depth d   (same)
  every_position_nested   the depth-d type as typedef, ctor/method/static/function argument and return, pair<>, property

Output: JSON {ok, rows: [...], first_failure}.
"""
import json
import os
import subprocess
import sys
import tempfile

TIMEOUT = 90.0
RATIO_MAX = 6.0
T_FLOOR = 0.25

WORKER = r'''
import sys, time
sys.setrecursionlimit(20000)
sys.path.insert(0, sys.argv[1])
from gtwrap.interface_parser.module import Module
text = open(sys.argv[2], encoding="utf-8").read()
Module.parseString("class W { W(); };")          # warm-up: grammar streamlining is not charged to the input
t0 = time.process_time()
try:
    Module.parseString(text)
    st = "ok"
except Exception as e:  # noqa
    st = "error: %s: %s" % (type(e).__name__, str(e)[:120])
print(time.process_time() - t0, st)
'''


def ns_deep(d):
    s = ""
    for i in range(d):
        s += "namespace n%d {\nclass C%d { C%d(); double f(int x) const; };\nvoid g%d(double x);\n" % (i, i, i, i)
    return s + "}\n" * d


def ns_deep_leafcls(d):
    return "".join("namespace n%d {\n" % i for i in range(d)) + "class Leaf { Leaf(); void run(int n) const; };\n" + "}\n" * d


def open_comment_in_string(n):
    return ('class Loader {\n  Loader();\n  void load(string pattern = "/*", int limit = 0);\n' +
            "".join("  double value%d(double x, int k = %d) const;\n" % (i, i) for i in range(n)) + "};\n")


def slashes_in_string(n):
    return "class Net {\n  Net();\n" + "".join('  void open%d(string url = "http://host/%d", int port = 80);\n' % (i, i) for i in range(n)) + "};\n"


def long_line(n):
    return "void wide(" + ", ".join("const gtsam::Pose3& p%d" % i for i in range(n)) + ");\n"


def _nested(d, head="ns::Vec"):
    return (head + "<") * d + "double" + ">" * d


def op_nested(d):
    t = _nested(d)
    return ("namespace ns {\ntemplate<T> class Vec {};\nclass Field {\n  Field();\n"
            "  %s operator+(const %s& other) const;\n  %s operator*(const %s& other) const;\n"
            "  %s operator-() const;\n  %s sum(const %s& other) const;\n};\n}\n") % (t, t, t, t, t, t, t)


def tmpl_list_nested(d):
    return ("namespace ns {\ntemplate<S> class Vec {};\ntemplate<T = {%s, double}>\nclass Holder {\n  Holder();\n"
            "  void set(const T& value);\n  template<U = {%s}>\n  void assign(const U& value);\n"
            "  template<V = {%s}>\n  static V make(int n);\n};\n"
            "template<W = {%s, int}>\nW freeOf(const W& w);\n}\n") % (_nested(d), _nested(d - 1), _nested(d - 2), _nested(d))


def every_position_nested(d):
    t = _nested(d)
    return ("namespace ns {\ntemplate<S> class Vec {};\ntypedef %s Deep;\nclass Base {};\n"
            "class User : ns::Base {\n  User(const %s& a, %s b);\n  %s get() const;\n  static %s Make(const %s& a);\n"
            "  pair<%s, %s> both(%s* p) const;\n  %s field;\n};\n"
            "%s freeFn(const %s& x, %s y);\n}\n") % ((t,) * 13)


def long_word_default(n):
    """default values and initialisers holding one LONG contiguous word (a qualified name of n characters) inside expressions
    that are not plain words: nested calls, nested braces, a char literal or a comment inside the brackets"""
    w = ("ns::" + "VeryLongQualifiedIdentifierName" * 4)[:n]
    return ("class Cfg {\n  Cfg();\n"
            "  void a(int x = %s::Create(Inner(1, 2)));\n"
            "  void b(double t = %s{{1, 2}, {3}}, int k = 0);\n"
            "  void c(char sep = %s(',', ')'));\n"
            "  void d(int v = %s(1 /* one */, 2)) const;\n"
            "  static int e(string s = \"%s\", int n = %s<int, Inner<2>>::value);\n"
            "};\nconst int kLimit = %s::limit(Inner(3));\n") % ((w,) * 7)


def many_defaults_overloaded(k):
    """one overloaded member (same name, same constness) one of whose overloads has k defaulted parameters — the text is O(k)"""
    defs = ", ".join("int a%d = %d" % (i, i) for i in range(k))
    return ("class Solver {\n  Solver();\n  Solver(%s);\n  void run(double tol) const;\n  void run(%s) const;\n"
            "  static int Make(string name);\n  static int Make(%s);\n};\n") % (defs, defs, defs)


def odd_include_paths(n):
    """#include headers that are legal but not canonical (doubled slash, blank, backslash) after n path components"""
    deep = "/".join("dir%d" % i for i in range(n))
    return ("#include <%s//Matrix.h>\n#include <%s/My Header.h>\n#include <%s\\\\win\\\\Vector.h>\n"
            "namespace a {\n#include <%s//inner.h>\nclass A { A(); };\n}\n") % (deep, deep, deep, deep)


FAMILIES = [
    ("ns_deep", ns_deep, [10, 14, 18, 22], [10, 14, 18, 22, 26, 30]),
    ("ns_deep_leafcls", ns_deep_leafcls, [14, 18, 22, 26], [14, 18, 22, 26, 30, 34]),
    ("open_comment_in_string", open_comment_in_string, [8, 16, 24, 32], [8, 16, 24, 32, 48, 64, 128]),
    ("slashes_in_string", slashes_in_string, [8, 16, 32], [8, 16, 32, 64, 128]),
    ("long_line", long_line, [50, 100, 200], [50, 100, 200, 400, 800]),
    ("long_word_default", long_word_default, [12, 16, 20, 24, 28, 32], [12, 16, 20, 24, 28, 32, 48, 64, 96]),
    ("many_defaults_overloaded", many_defaults_overloaded, [6, 10, 14, 18, 22], [6, 10, 14, 18, 22, 26, 30]),
    ("odd_include_paths", odd_include_paths, [2, 4, 6, 8, 10], [2, 4, 6, 8, 10, 14, 18]),
    ("op_nested", op_nested, [8, 12, 16, 20, 24], [8, 12, 16, 20, 24, 28, 32]),
    ("tmpl_list_nested", tmpl_list_nested, [8, 12, 16, 20, 24], [8, 12, 16, 20, 24, 28, 32]),
    ("every_position_nested", every_position_nested, [8, 12, 16, 20, 24], [8, 12, 16, 20, 24, 28, 32]),
]


def run_one(repo, text, tmp):
    p = os.path.join(tmp, "in.i")
    with open(p, "w", encoding="utf-8") as f:
        f.write(text)
    try:
        r = subprocess.run([sys.executable, "-c", WORKER, repo, p], capture_output=True, text=True, timeout=TIMEOUT)
    except subprocess.TimeoutExpired:
        return None, "timeout"
    out = r.stdout.strip().split(" ", 1)
    if r.returncode != 0 or len(out) != 2:
        return None, "crash: " + (r.stderr or r.stdout)[-200:]
    return float(out[0]), out[1]


def main():
    tier = sys.argv[sys.argv.index("--tier") + 1] if "--tier" in sys.argv else "quick"
    repo = os.environ.get("VERIF_REPO", "/repo")
    rows, first = [], None
    tmp = tempfile.mkdtemp(prefix="verif_c19h_")
    try:
        for name, gen, quick, thorough in FAMILIES:
            prev = None
            for p in (quick if tier == "quick" else thorough):
                text = gen(p)
                secs, st = run_one(repo, text, tmp)
                row = dict(family=name, param=p, len=len(text), cpu_seconds=secs, status=st)
                rows.append(row)
                bad = None
                if st == "timeout":
                    bad = "parse did not finish within %.0f s" % TIMEOUT
                elif st != "ok":
                    bad = "input of the dialect rejected or crashed: " + st
                elif prev is not None and prev >= T_FLOOR and secs / prev > RATIO_MAX:
                    bad = "CPU time grew by %.1fx (%.2f s -> %.2f s) from the previous parameter (limit %.0fx)" % (secs / prev, prev, secs, RATIO_MAX)
                if bad and first is None:
                    first = dict(row, detail=bad, text=text if len(text) <= 4000 else text[:4000] + "...")
                if bad:
                    break
                prev = secs
    finally:
        import shutil
        shutil.rmtree(tmp, ignore_errors=True)
    print(json.dumps(dict(ok=first is None, rows=rows, first_failure=first,
                          thresholds=dict(TIMEOUT=TIMEOUT, RATIO_MAX=RATIO_MAX, T_FLOOR=T_FLOOR))))


if __name__ == "__main__":
    main()
