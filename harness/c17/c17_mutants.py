#!/usr/bin/env python3
"""Which realistic mutations of xml_parser.py / the escaping line does the C17
correspondence catch?

    c17_mutants.py [--seed S] [--cases N]

For every mutant: copy /repo/gtwrap to a temporary directory, apply ONE textual
replacement, run the implementation side (c17_impl.py answers, with C17_REPO
pointing at the copy) on the same generated inputs and compare with the
model's answers.  /repo itself is never touched.  `caught` = some answer
differs (or the harness refuses to run because the expression it copies from
the source is gone).
"""
import argparse
import os
import shutil
import subprocess
import sys
import tempfile

HERE = os.path.dirname(os.path.abspath(__file__))
LEAN = os.path.join(HERE, "..", "lean")
PY = sys.executable
REPO = "/repo"

XP = "gtwrap/xml_parser/xml_parser.py"
PW = "gtwrap/pybind_wrapper.py"

MUTANTS = [
    ("memory: forget to advance", XP, "                self._memory[function_key] += 1\n", "                pass\n"),
    ("memory: engage already for one candidate", XP, "if len(member_defs) > 1:", "if len(member_defs) >= 1:"),
    ("memory: key without class name", XP, 'function_key = f"{cpp_class}.{cpp_method}(', 'function_key = f"{cpp_method}('),
    ("FIX IndexError (bounds check) - model must then disagree", XP,
     "        return self.get_formatted_docstring(member_defs[documenting_index],\n"
     "                                            ignored_params) if member_defs else \"\"",
     "        return self.get_formatted_docstring(member_defs[documenting_index],\n"
     "                                            ignored_params) if documenting_index < len(member_defs) else \"\""),
    ("index lookup by compoundname instead of name", XP, "./*[name='{cpp_class}']", "./*[compoundname='{cpp_class}']"),
    ("members: direct children of sectiondef only", XP, "compounddef/sectiondef//*[name=", "compounddef/sectiondef/*[name="),
    ("members: any sectiondef anywhere", XP, '"compounddef/sectiondef//*[name=', '".//sectiondef//*[name='),
    ("filter: arity test with `or`", XP, "if len(method_args_names) != num_req_params and len(", "if len(method_args_names) != num_req_params or len("),
    ("filter: defval counted as required", XP, "1 if param.find(\"defval\") is not None else 0", "0 if param.find(\"defval\") is not None else 0"),
    ("filter: name comparison inverted", XP, "if arg_name != param_name.text:", "if arg_name == param_name.text:"),
    ("filter: defname preferred over declname", XP,
     "                param_name = params[i].find(\n                    \"declname\"\n                )",
     "                param_name = params[i].find(\n                    \"defname\"\n                )"),
    ("filter: ignored params not recorded", XP, "ignored_params.append(params[i].find(\"declname\").text)", "pass"),
    ("format: brief found only as direct child", XP, 'member_def.find(".//briefdescription")', 'member_def.find("briefdescription")'),
    ("format: whitespace-only pieces kept (brief)", XP,
     "                docstring += \"\".join(t for t in para.itertext() if t.strip())",
     "                docstring += \"\".join(t for t in para.itertext())"),
    ("format: no newline before the detailed part", XP, "            docstring += \"\\n\"\n", "            docstring += \"\"\n"),
    ("format: parameterlist paragraphs not skipped", XP,
     'if element.tag == "para" and "parameterlist" not in [', 'if element.tag == "para" and "zzz" not in ['),
    ("format: ignored params still listed", XP, "if name not in ignored_params:", "if True:"),
    ("format: placeholder text changed", XP, "'No description provided'", "'No description'"),
    ("format: parameter index off by one", XP, "f'[Parameter {i}]'", "f'[Parameter {i + 1}]'"),
    ("format: kind of simplesect not checked", XP, '"kind"] == "return" and', '"kind"] != "" and'),
    ("format: final strip dropped", XP, "        return docstring.strip()", "        return docstring"),
    ("format: name not stripped", XP, "{name.strip() if name else", "{name if name else"),
    ("parse_xml: ParseError no longer caught", XP, "        except ET.ParseError:", "        except ZeroDivisionError:"),
    ("escape: quotes not escaped", PW, """[1:-1].replace('"', r'\\"') + '"' """, """[1:-1] + '"' """),
    ("escape: closing repr quote kept", PW, """names()))[1:-1].replace(""", """names()))[1:].replace("""),
    ("escape: ascii() instead of repr()", PW, "docstring=', \"' + repr(self.xml_parser", "docstring=', \"' + ascii(self.xml_parser"),
    ("escape: no space after the comma", PW, "docstring=', \"' + repr(", "docstring=',\"' + repr("),
    ("escape: backslash-x rewritten to \\u00", PW,
     """[1:-1].replace('"', r'\\"') + '"' """, """[1:-1].replace('"', r'\\"').replace('\\\\x', '\\\\u00') + '"' """),
    ("use site: docstring emitted although xml_source is empty", PW, 'if self.xml_source != "" else "",', 'if True else "",'),
]


def run(cmd, **kw):
    return subprocess.run(cmd, **kw)


def main():
    ap = argparse.ArgumentParser()
    ap.add_argument("--seed", type=int, default=17)
    ap.add_argument("--cases", type=int, default=120)
    a = ap.parse_args()
    tmp = tempfile.mkdtemp(prefix="c17_mut_")
    try:
        data = os.path.join(tmp, "data")
        run([PY, os.path.join(HERE, "c17_gen.py"), "--seed", str(a.seed), "--cases", str(a.cases),
             "--texts", "600", "--literals", "1", "--out", data], check=True, stdout=subprocess.DEVNULL)
        run([PY, os.path.join(HERE, "c17_impl.py"), "requests", data], check=True, stdout=subprocess.DEVNULL)
        for req, out in (("req_doc.tsv", "model_doc.tsv"), ("req_text.tsv", "model_text.tsv")):
            with open(os.path.join(data, req), "rb") as fi, open(os.path.join(data, out), "wb") as fo:
                run(["lake", "env", "lean", "--run", os.path.join("..", "Main_c17.lean")], cwd=LEAN,
                    stdin=fi, stdout=fo, check=True)
        model_doc = open(os.path.join(data, "model_doc.tsv")).read()
        model_text = open(os.path.join(data, "model_text.tsv")).read()

        def impl(repo):
            env = dict(os.environ, C17_REPO=repo)
            r = run([PY, os.path.join(HERE, "c17_impl.py"), "answers", data], env=env, capture_output=True)
            if r.returncode != 0:
                return None, (r.stderr.decode("utf-8", "replace").strip().splitlines() or ["?"])[-1]
            return (open(os.path.join(data, "impl_doc.tsv")).read(),
                    open(os.path.join(data, "impl_text.tsv")).read()), ""

        base, msg = impl(REPO)
        if base is None or base != (model_doc, model_text):
            sys.exit("unmutated repo does not correspond: " + msg)
        print("%-62s %s" % ("unmutated /repo", "identical (baseline)"))
        caught = 0
        for name, rel, old, new in MUTANTS:
            mdir = os.path.join(tmp, "mut")
            shutil.rmtree(mdir, ignore_errors=True)
            shutil.copytree(os.path.join(REPO, "gtwrap"), os.path.join(mdir, "gtwrap"))
            path = os.path.join(mdir, rel)
            src = open(path, encoding="utf-8").read()
            if src.count(old) != 1:
                print("%-62s %s" % (name, "NOT APPLICABLE (pattern occurs %d times)" % src.count(old)))
                continue
            open(path, "w", encoding="utf-8").write(src.replace(old, new))
            got, msg = impl(mdir)
            if got is None:
                verdict = "caught (harness/impl error: %s)" % msg[:60]
            else:
                nd = sum(1 for x, y in zip(model_doc.replace("\n", "\t").split("\t"),
                                           got[0].replace("\n", "\t").split("\t")) if x != y)
                nt = sum(1 for x, y in zip(model_text.split("\n"), got[1].split("\n")) if x != y)
                verdict = ("caught (%d lookups, %d texts differ)" % (nd, nt)) if nd or nt else "NOT caught"
            if verdict.startswith("caught"):
                caught += 1
            print("%-62s %s" % (name, verdict))
        print("%d / %d mutants caught" % (caught, len(MUTANTS)))
    finally:
        shutil.rmtree(tmp, ignore_errors=True)


if __name__ == "__main__":
    main()
