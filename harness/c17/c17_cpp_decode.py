#!/usr/bin/env python3
"""Ground truth for `CppLit.decode`: what g++ stores for `"BODY"`.

    c17_cpp_decode.py < bodies.hex > answers

stdin : one literal body per line as `h` + hex(UTF-8)   (also accepts the
        request form `decode<TAB>h…`)
stdout: per line `some:` + hex(bytes of the array without the terminating NUL)
        or `none` when the translation unit holding only that literal (once as
        an array initialiser, once as the single token of a `#line` directive) is
        rejected by `g++ -std=c++17 -pedantic-errors`
        (-pedantic-errors turns "hex/octal escape sequence out of range",
        "unknown escape sequence" and non-ISO escapes into errors, i.e. makes
        g++ diagnose what the standard calls ill-formed).

Every literal is first compiled ALONE (`-fsyntax-only`), so one ill-formed
literal cannot hide the others; the accepted ones are then compiled together
into one program whose output is parsed.  All files live in a fresh temporary
directory that is removed afterwards; nothing is cached.
"""
import concurrent.futures
import os
import shutil
import subprocess
import sys
import tempfile

CXX = os.environ.get("CXX", "g++")
FLAGS = ["-std=c++17", "-pedantic-errors", "-finput-charset=UTF-8", "-fexec-charset=UTF-8"]


def decl(i, body):
    return b"static const char s%d[] = \"" % i + body + b"\";\n"


def syntax_ok(args):
    tmp, i, body = args
    path = os.path.join(tmp, "one_%d.cpp" % i)
    with open(path, "wb") as f:
        f.write(decl(i, body))
        f.write(b"unsigned long n%d = sizeof s%d;\n" % (i, i))
        # `"a" "b"` would be accepted above as a concatenation of TWO literals;
        # a #line directive takes exactly one string-literal token ("extra
        # tokens at end of #line directive" is an error under -pedantic-errors),
        # so a body with an unescaped `"` is rejected here.
        f.write(b"#line 1 \"" + body + b"\"\n")
    r = subprocess.run([CXX] + FLAGS + ["-fsyntax-only", path], capture_output=True)
    os.unlink(path)
    return r.returncode == 0


def main():
    bodies = []
    for line in sys.stdin:
        line = line.rstrip("\n")
        if not line:
            continue
        field = line.split("\t")[-1]
        assert field.startswith("h"), line
        bodies.append(bytes.fromhex(field[1:]))
    tmp = tempfile.mkdtemp(prefix="c17_cpp_")
    try:
        with concurrent.futures.ThreadPoolExecutor(max_workers=os.cpu_count() or 4) as ex:
            ok = list(ex.map(syntax_ok, [(tmp, i, b) for i, b in enumerate(bodies)]))
        good = [i for i, o in enumerate(ok) if o]
        src = os.path.join(tmp, "all.cpp")
        with open(src, "wb") as f:
            f.write(b'extern "C" int printf(const char*, ...);\n')
            f.write(b"static void dump(int i, const char* p, unsigned long n) {\n"
                    b'  printf("%d ", i);\n'
                    b'  for (unsigned long k = 0; k + 1 < n; k++) printf("%02x", (unsigned)(unsigned char)p[k]);\n'
                    b'  printf("\\n");\n}\n')
            for i in good:
                f.write(decl(i, bodies[i]))
            f.write(b"int main() {\n")
            for i in good:
                f.write(b"  dump(%d, s%d, sizeof s%d);\n" % (i, i, i))
            f.write(b"  return 0;\n}\n")
        exe = os.path.join(tmp, "all")
        r = subprocess.run([CXX] + FLAGS + ["-O0", "-o", exe, src], capture_output=True)
        if r.returncode != 0:
            sys.stderr.write(r.stderr.decode("utf-8", "replace"))
            sys.exit("c17_cpp_decode: literals accepted one by one were rejected together")
        out = subprocess.run([exe], capture_output=True, check=True).stdout.decode("ascii")
        decoded = {}
        for line in out.splitlines():
            i, _, hx = line.partition(" ")
            decoded[int(i)] = hx
        for i in range(len(bodies)):
            print("some:" + decoded[i] if ok[i] else "none")
    finally:
        shutil.rmtree(tmp, ignore_errors=True)


if __name__ == "__main__":
    main()
