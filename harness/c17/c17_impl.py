#!/usr/bin/env python3
"""C17 implementation side of the correspondence check.

    c17_impl.py requests DIR   -> DIR/req_doc.tsv DIR/req_text.tsv DIR/req_decode.tsv   (model input)
    c17_impl.py answers  DIR   -> DIR/impl_doc.tsv DIR/impl_text.tsv                     (REAL code output)
    c17_impl.py wholefile DIR  -> wraps tests/fixtures/*.i with and without the sample XML (DIR = scratch)

`DIR` was produced by c17_gen.py.  Request / answer format: see
lean/WrapModel/Model/XmlDriver.lean.

What is real here:

* every lookup executes the real line pybind_wrapper.py:282 by calling
  `PybindWrapper._wrap_method` on a real `interface_parser.Method` (built by the
  real parser, then renamed to the generated class/method/argument names) with
  `xml_source` = the generated directory, ONE wrapper (hence one `XMLDocParser`
  and one `_memory`) per directory; the literal is recovered as the difference
  to the output of a wrapper with `xml_source=""` — if the two outputs differ
  anywhere else the answer is `DIFF` (the "changes nothing else" part of C17);
* `extract_docstring` is observed by a recording proxy on the instance (calls
  the unmodified bound method);
* for the `repr` / `literal` ops the escaping expression is copied out of the
  source text of pybind_wrapper.py with a regex at run time and evaluated.

What is trusted: `xml.etree.ElementTree.parse` (the requests carry the element
trees it produces, so expat is on both sides of the comparison).
"""
import contextlib
import copy
import inspect
import io
import json
import os
import re
import sys
import xml.etree.ElementTree as ET

sys.dont_write_bytecode = True  # never create __pycache__ inside the repository
sys.path.insert(0, os.environ.get("C17_REPO", "/repo"))

import gtwrap.interface_parser as parser  # noqa: E402
from gtwrap import pybind_wrapper  # noqa: E402
from gtwrap.pybind_wrapper import PybindWrapper  # noqa: E402


def h(s):
    return "h" + s.encode("utf-8").hex()


# ----------------------------------------------------------------------------
# requests (serialise what ElementTree sees)

def ser_opt(t):
    return "-" if t is None else h(t)


def ser_elem(e, out):
    if not isinstance(e.tag, str):
        raise RuntimeError("non-element node in tree")
    out.append("E")
    out.append(h(e.tag))
    out.append(str(len(e.attrib)))
    for k, v in e.attrib.items():
        out.append(h(k))
        out.append(h(v))
    out.append(ser_opt(e.text))
    out.append(ser_opt(e.tail))
    out.append(str(len(e)))
    for c in e:
        ser_elem(c, out)


def ser_case(base, case):
    d = os.path.join(base, case["dir"])
    names = sorted(os.listdir(d))
    out = ["doc", str(len(names))]
    for n in names:
        out.append(h(n))
        try:
            root = ET.parse(os.path.join(d, n)).getroot()
        except ET.ParseError:
            out.append("B")
            continue
        out.append("T")
        ser_elem(root, out)
    out.append(str(len(case["lookups"])))
    for cls, meth, args in case["lookups"]:
        out += [h(cls), h(meth), str(len(args))] + [h(a) for a in args]
    return "\t".join(out)


def do_requests(base):
    cases = json.load(open(os.path.join(base, "cases.json"), encoding="utf-8"))
    with open(os.path.join(base, "req_doc.tsv"), "w", encoding="utf-8") as f:
        for c in cases:
            f.write(ser_case(base, c) + "\n")
    texts = json.load(open(os.path.join(base, "texts.json"), encoding="utf-8"))
    with open(os.path.join(base, "req_text.tsv"), "w", encoding="utf-8") as f:
        for t in texts:
            f.write("repr\t" + h(t) + "\n")
        for t in texts:
            f.write("literal\t" + h(t) + "\n")
    lits = json.load(open(os.path.join(base, "literals.json"), encoding="utf-8"))
    with open(os.path.join(base, "req_decode.tsv"), "w", encoding="utf-8") as f:
        for t in lits:
            f.write("decode\t" + h(t) + "\n")
    print("requests: %d doc lines (%d lookups), %d text lines, %d decode lines" % (
        len(cases), sum(len(c["lookups"]) for c in cases), 2 * len(texts), len(lits)))


# ----------------------------------------------------------------------------
# the real escaping expression, copied from the source at run time

def real_escape_expr():
    """Return (f, description): f(text) is what the real `_wrap_method` appends after the py::arg list when the XML
    look-up yields `text` — obtained END TO END (a PybindWrapper whose xml_parser.extract_docstring is replaced by a
    constant function; the inserted segment is the difference to the output without XML), so that any rewrite of the
    escaping expression in the source is followed without parsing it."""
    w = PybindWrapper(module_name="m", xml_source="/nonexistent-xml")
    w0 = PybindWrapper(module_name="m", xml_source="")
    method = make_method("f", ["x"])
    suffix = "<<SUFFIX>>"
    without = w0._wrap_method(method=method, cpp_class="A", prefix="\n", suffix=suffix)
    tail = ")" + suffix
    if not without.endswith(tail):
        raise RuntimeError("_wrap_method output does not end with ')' + suffix (source changed?)")
    stem = without[:-len(tail)]

    def esc(text):
        w.xml_parser.extract_docstring = lambda *a, **k: text
        try:
            with contextlib.redirect_stdout(io.StringIO()):
                with_ = w._wrap_method(method=method, cpp_class="A", prefix="\n", suffix=suffix)
        except Exception as ex:  # noqa: BLE001  a documentation text must never make generation fail
            return ', "<<generation raised %s for this documentation text>>"' % type(ex).__name__
        if not (with_.startswith(stem) and with_.endswith(tail)):
            return "<<output with XML differs from output without XML outside the inserted literal>>" + with_
        return with_[len(stem):-len(tail)]

    return esc, "end-to-end through PybindWrapper._wrap_method"


# ----------------------------------------------------------------------------
# answers

_METHOD_CACHE = {}


def make_method(meth, args):
    """A real parser.Method with the given (arbitrary) names."""
    n = len(args)
    if n not in _METHOD_CACHE:
        decl = "void f(%s) const;" % ", ".join("int a%d" % i for i in range(n))
        _METHOD_CACHE[n] = parser.Method.rule.parseString(decl)[0]
    m = copy.deepcopy(_METHOD_CACHE[n])
    m.name = meth
    for a, nm in zip(m.args.list(), args):
        a.name = nm
    assert m.args.names() == list(args)
    return m


WARN_NF = re.compile(r"^Warning: XML file '(.*)' not found\.$")
WARN_PF = re.compile(r"^Warning: Failed to parse XML file '(.*)'\.$")


def warn_items(text, d):
    out = []
    for line in text.splitlines():
        m = WARN_NF.match(line)
        if m:
            out.append(":nf=" + h(os.path.relpath(m.group(1), d)))
            continue
        m = WARN_PF.match(line)
        if m:
            out.append(":pf=" + h(os.path.relpath(m.group(1), d)))
            continue
        out.append(":unexpected-output=" + h(line))
    return "".join(out)


def run_case(base, case):
    d = os.path.join(base, case["dir"])
    w = PybindWrapper(module_name="m", xml_source=d)
    w0 = PybindWrapper(module_name="m", xml_source="")
    seen = []
    orig = w.xml_parser.extract_docstring

    def recording(*a, **k):
        r = orig(*a, **k)
        seen.append(r)
        return r

    w.xml_parser.extract_docstring = recording
    items = []
    for cls, meth, args in case["lookups"]:
        method = make_method(meth, args)
        suffix = "<<SUFFIX>>"
        without = w0._wrap_method(method=method, cpp_class=cls, prefix="\n", suffix=suffix)
        buf = io.StringIO()
        del seen[:]
        try:
            with contextlib.redirect_stdout(buf):
                with_ = w._wrap_method(method=method, cpp_class=cls, prefix="\n", suffix=suffix)
        except Exception as ex:  # noqa: BLE001  (the exception class is the observation)
            items.append("err:" + type(ex).__name__ + warn_items(buf.getvalue(), d))
            continue
        tail = ")" + suffix
        stem = without[:-len(tail)]
        if not (without.endswith(tail) and with_.startswith(stem) and with_.endswith(tail) and len(seen) == 1):
            items.append("DIFF")
            continue
        lit = with_[len(stem):-len(tail)]
        items.append("ok:" + h(seen[0]) + ":" + h(lit) + warn_items(buf.getvalue(), d))
    return "\t".join(items)


def do_answers(base):
    cases = json.load(open(os.path.join(base, "cases.json"), encoding="utf-8"))
    with open(os.path.join(base, "impl_doc.tsv"), "w", encoding="utf-8") as f:
        for c in cases:
            f.write(run_case(base, c) + "\n")
    esc, expr = real_escape_expr()
    texts = json.load(open(os.path.join(base, "texts.json"), encoding="utf-8"))
    with open(os.path.join(base, "impl_text.tsv"), "w", encoding="utf-8") as f:
        for t in texts:
            f.write(h(repr(t)) + "\n")
        for t in texts:
            f.write(h(esc(t)) + "\n")
    print("answers: %d doc lines, %d text lines; expression used: %s" % (len(cases), 2 * len(texts), expr))


def do_wholefile(base):
    """`wrap()` of every interface file under tests/fixtures, once with the repository's
    sample Doxygen XML and once without: after cutting the recorded docstring literals out
    of the first output the two files must be byte-identical ("changes nothing else")."""
    import glob
    repo = os.environ.get("C17_REPO", "/repo")
    real = "/repo"  # fixtures / template / sample XML always come from the real repository
    tpl = open(os.path.join(real, "tests", "pybind_wrapper.tpl"), encoding="utf-8").read()
    xml = os.path.join(real, "tests", "expected", "xml")
    esc, _ = real_escape_expr()
    out_path = os.path.join(base, "wholefile_out.cpp")

    def wrap(src, xml_source, rec):
        w = PybindWrapper(module_name="m", top_module_namespaces=[""], ignore_classes=[""],
                          module_template=tpl, xml_source=xml_source)
        orig = w.xml_parser.extract_docstring

        def recording(*a, **k):
            r = orig(*a, **k)
            rec.append(r)
            return r

        w.xml_parser.extract_docstring = recording
        with contextlib.redirect_stdout(io.StringIO()):
            w.wrap([src], out_path)
        return open(out_path, encoding="utf-8").read()

    ok = True
    total = 0
    for src in sorted(glob.glob(os.path.join(real, "tests", "fixtures", "*.i"))):
        rec, rec0 = [], []
        try:
            with_ = wrap(src, xml, rec)
            without = wrap(src, "", rec0)
        except Exception as ex:  # noqa: BLE001
            print("wholefile %-18s EXCEPTION %s" % (os.path.basename(src), type(ex).__name__))
            ok = False
            continue
        pos, cut, good = 0, with_, not rec0
        for t in rec:
            lit = esc(t)
            i = cut.find(lit, pos)
            if i < 0:
                good = False
                break
            cut = cut[:i] + cut[i + len(lit):]
            pos = i
        good = good and cut == without
        total += len(rec)
        ok &= good
        print("wholefile %-18s %3d docstrings  %s" % (os.path.basename(src), len(rec),
              "identical apart from the literals" if good else "DIFFERENT"))
    print("wholefile: %d docstrings, %s" % (total, "PASS" if ok else "FAIL"))
    if os.path.exists(out_path):
        os.unlink(out_path)
    sys.exit(0 if ok else 1)


if __name__ == "__main__":
    modes = {"requests": do_requests, "answers": do_answers, "wholefile": do_wholefile}
    if len(sys.argv) != 3 or sys.argv[1] not in modes:
        sys.exit(__doc__)
    modes[sys.argv[1]](sys.argv[2])
