#!/usr/bin/env python3
"""C17 generator: Doxygen-shaped XML directories, lookup sequences, texts, literals.

    c17_gen.py --seed S --cases N --texts T --literals L --out DIR

writes

    DIR/cases.json                 [{"dir": "case_0007/xml", "lookups": [[cls, meth, [args]], ...]}, ...]
    DIR/case_XXXX/xml/index.xml, <refid>.xml ...      (some deliberately missing / malformed)
    DIR/texts.json                 [text, ...]         documentation texts for the repr/escape ops
    DIR/literals.json              [body, ...]         C++ string-literal bodies for the decode op

Everything is drawn from one seeded `random.Random`; the same seed gives the
same bytes.  The shape mirrors /repo/tests/expected/xml (doxygenindex/compound/
name, doxygen/compounddef/sectiondef/memberdef/{argsstring,name,param,
briefdescription,detaileddescription/para/{parameterlist,simplesect}}).

Deliberately included (each with small probability, so most lookups succeed):
classes absent from the index, index entry without refid, class file missing
or malformed, index missing/malformed, members without argsstring, params with
defname only / no name, optional params, overloads with different arity, same
arity but different names, IDENTICAL name lists (the `_memory` path, looked up
more often than there are overloads), parameteritems without name/description,
simplesect of another kind first / without kind / without para.
"""
import argparse
import json
import os
import random
import re

# ----------------------------------------------------------------------------
# alphabets

ASCII_WORDS = ["Compute", "the", "error", "vector", "of", "x", "a0", "beef", "f00d", "Returns",
               "value", "key", "dim", "noise", "model", "1e-9", "A", "b", "0", "9", "cafe", "DEAD"]
PUNCT = list("'\"\\?%{}()[]<>&;:,.!@#$^*-_=+|/~`")
SPACES = [" ", " ", " ", "  ", "\n", "\t", "\r", "\n\n", " \n "]
# characters XML 1.0 can carry (no C0 other than TAB/LF/CR, no surrogates, no FFFE/FFFF)
XML_SPECIAL = [
    "\x7f",                 # DEL: repr -> \x7f
    "\x80", "\x85", "\x9f", # C1 controls (U+0085 NEL is whitespace for str.strip)
    "\xa0", "\xad",         # NBSP (whitespace, non-printable), soft hyphen (Cf)
    "\xe9", "\xff", "\u0100", "\u03a9",   # printable Latin / Greek
    "\u0301", "\u20dd",     # combining marks
    "\u200b", "\u200e", "\ufeff",         # format characters (non-printable)
    "\u2028", "\u2029", "\u3000", "\u2003", "\u1680",  # separators (whitespace)
    "\u4e2d", "\u6587", "\uac00",         # CJK / Hangul
    "\u0378", "\ue000", "\ufffd",         # unassigned, private use, replacement
    "\U0001f600", "\U0001f9d1\u200d\U0001f680",  # astral emoji, ZWJ sequence
    "\U000e0001", "\U0010ffff", "\U00030000",   # tag char, noncharacter, astral CJK
]
# only for direct texts (XML cannot carry them)
C0_SPECIAL = ["\x00", "\x01", "\x07", "\x08", "\x0b", "\x0c", "\x1b", "\x1c", "\x1f"]
HEXISH = list("0123456789abcdefABCDEF") + ["g", "x", "u", "U"]


def rand_text(rng, xml_ok=True, maxlen=12):
    """A documentation text: words, punctuation, whitespace, special characters,
    with hex-digit-looking characters often placed right after non-printables."""
    n = rng.choice([0, 1, 1, 2, 3, 5, 8, maxlen])
    out = []
    for _ in range(n):
        r = rng.random()
        if r < 0.35:
            out.append(rng.choice(ASCII_WORDS))
        elif r < 0.50:
            out.append(rng.choice(SPACES))
        elif r < 0.65:
            out.append(rng.choice(PUNCT))
        elif r < 0.90 or xml_ok:
            out.append(rng.choice(XML_SPECIAL))
            if rng.random() < 0.5:
                out.append(rng.choice(HEXISH))
        else:
            out.append(rng.choice(C0_SPECIAL))
            if rng.random() < 0.6:
                out.append(rng.choice(HEXISH))
    return "".join(out)


# ----------------------------------------------------------------------------
# XML writing (our own writer, so that character references, CDATA, comments and
# odd whitespace appear; what ElementTree makes of it is what the model is fed)

def xml_escape(rng, s, attr=False):
    out = []
    for ch in s:
        o = ord(ch)
        if ch == "&":
            out.append("&amp;")
        elif ch == "<":
            out.append("&lt;")
        elif ch == ">":
            out.append("&gt;")
        elif ch == '"' and attr:
            out.append("&quot;")
        elif ch == "\r" or (attr and ch in "\n\t"):
            out.append("&#%d;" % o)
        elif o > 0x7e and rng.random() < 0.3:
            out.append("&#x%X;" % o if rng.random() < 0.5 else "&#%d;" % o)
        else:
            out.append(ch)
    return "".join(out)


class X:
    """Tiny XML node: tag, attrs, content = list of str | X."""

    def __init__(self, tag, attrs=None, content=None):
        self.tag, self.attrs, self.content = tag, dict(attrs or {}), list(content or [])

    def add(self, *items):
        self.content.extend(items)
        return self

    def write(self, rng, out, indent=0):
        pad = "  " * indent
        attrs = "".join(' %s="%s"' % (k, xml_escape(rng, v, True)) for k, v in self.attrs.items())
        if not self.content:
            out.append("<%s%s/>" % (self.tag, attrs) if rng.random() < 0.5 else
                       "<%s%s></%s>" % (self.tag, attrs, self.tag))
            return
        out.append("<%s%s>" % (self.tag, attrs))
        structural = all(isinstance(c, X) for c in self.content)
        for c in self.content:
            if structural and rng.random() < 0.7:
                out.append("\n" + pad + "  ")
            if isinstance(c, X):
                c.write(rng, out, indent + 1)
            elif c and rng.random() < 0.08 and "]]>" not in c and "\r" not in c:
                out.append("<![CDATA[" + c + "]]>")
            else:
                out.append(xml_escape(rng, c))
            if rng.random() < 0.03:
                out.append("<!-- c -->")
        if structural and rng.random() < 0.7:
            out.append("\n" + pad)
        out.append("</%s>" % self.tag)


def render(rng, root):
    out = ["<?xml version='1.0' encoding='UTF-8' standalone='no'?>\n"]
    root.write(rng, out)
    out.append("\n")
    return "".join(out).encode("utf-8")


# ----------------------------------------------------------------------------
# Doxygen shapes

IDENTS = ["x", "y", "key", "model", "H", "values", "c", "p1", "p2", "tol", "keys", "E", "b"]
METHODS = ["evaluateError", "dim", "equals", "f", "at", "insert", "operator()", "operator+",
           "clone", "error", "linearize", "Create<T>",
           # names the generator binds under ANOTHER Python name (keywords get a `_`, ipython display names become
           # `_repr_x_`): the documentation is still that of the C++ member; `in_` / `pass_` are different members
           "in", "in_", "pass", "pass_", "is", "from", "lambda", "svg", "html", "png", "_repr_svg_"]
CLASSES = ["gtsam::NoiseModelFactor", "gtsam::JacobianFactorQ", "Foo", "ns::Bar<double>",
           "MyTemplate<gtsam::Point2>", "gtsam::Values", "a.b", "a"]


def mixed_para(rng, xml_ok=True):
    """<para> with mixed content: text, inline children with text and tails."""
    p = X("para")
    if rng.random() < 0.85:
        p.add(rand_text(rng, xml_ok))
    for _ in range(rng.choice([0, 0, 0, 1, 2])):
        tag = rng.choice(["ref", "bold", "emphasis", "computeroutput", "linebreak"])
        child = X(tag, {"refid": "r1", "kindref": "member"} if tag == "ref" else {})
        if tag != "linebreak" and rng.random() < 0.8:
            child.add(rng.choice([rand_text(rng, xml_ok, 4), "  ", "\n"]))
        p.add(child)
        if rng.random() < 0.7:
            p.add(rng.choice([rand_text(rng, xml_ok, 4), " ", "\n   "]))
    return p


def param_item(rng, name):
    item = X("parameteritem")
    nl = X("parameternamelist")
    r = rng.random()
    if r < 0.015:
        pass  # no <parametername> at all -> AttributeError
    elif r < 0.10:
        nl.add(X("parametername"))  # text None -> "[Parameter i]"
    elif r < 0.14:
        nl.add(X("parametername", {}, [X("ref", {}, [name])]))  # text None, nested name
    else:
        nm = name if rng.random() < 0.85 else rng.choice([" " + name + " ", "\u00a0", rand_text(rng, True, 3)])
        nl.add(X("parametername", {"direction": "in"} if rng.random() < 0.2 else {}, [nm]))
        if rng.random() < 0.1:
            nl.add(X("parametername", {}, ["second"]))
    item.add(nl)
    pd = X("parameterdescription")
    r = rng.random()
    if r < 0.015:
        pass  # no <para> -> AttributeError
    elif r < 0.10:
        pd.add(X("para"))  # text None -> "No description provided"
    elif r < 0.15:
        pd.add(X("para", {}, [X("ref", {}, ["inner"]), " tail"]))  # text None
    else:
        pd.add(X("para", {}, [rng.choice([rand_text(rng), "  " + rand_text(rng) + " \n"])]))
        if rng.random() < 0.1:
            pd.add(X("para", {}, ["second para"]))
    if rng.random() < 0.99:
        item.add(pd)
    return item


def detailed(rng, param_names):
    dd = X("detaileddescription")
    r = rng.random()
    if r < 0.15:
        return dd  # empty
    for _ in range(rng.choice([0, 1, 1, 2])):
        if rng.random() < 0.15:
            dd.add(X(rng.choice(["sect1", "internal"]), {}, [mixed_para(rng)]))
        else:
            dd.add(mixed_para(rng))
    if rng.random() < 0.7:
        host = mixed_para(rng) if rng.random() < 0.6 else X("para")
        if rng.random() < 0.85:
            pl = X("parameterlist", {"kind": rng.choice(["param", "param", "exception"])})
            names = list(param_names)
            if rng.random() < 0.2:
                rng.shuffle(names)
            if rng.random() < 0.15 and names:
                names.pop()
            if rng.random() < 0.1:
                names.append("extra")
            for n in names:
                pl.add(param_item(rng, n))
            host.add(pl)
            if rng.random() < 0.05:
                host.add(X("parameterlist", {"kind": "retval"}, [param_item(rng, "rv")]))
        r = rng.random()
        if r < 0.55:
            kind = {"kind": "return"}
            if rng.random() < 0.12:
                kind = {"kind": rng.choice(["note", "see", "warning"])}
            if rng.random() < 0.01:
                kind = {}  # KeyError
            ss = X("simplesect", kind)
            q = rng.random()
            if q < 0.015:
                pass  # no para -> AttributeError (only when kind == return)
            elif q < 0.10:
                ss.add(X("para"))  # text None
            elif q < 0.15:
                ss.add(X("para", {}, [X("ref", {}, ["T"]), " after"]))  # text None
            else:
                ss.add(X("para", {}, [rng.choice([rand_text(rng), " " + rand_text(rng) + "\n"])]))
            host.add(ss)
            if rng.random() < 0.1:
                host.add(X("simplesect", {"kind": "return"}, [X("para", {}, ["second return"])]))
        if rng.random() < 0.1:
            dd.add(X("para", {}, [host]))  # nested one level deeper
        else:
            dd.add(host)
    return dd


def brief(rng):
    bd = X("briefdescription")
    r = rng.random()
    if r < 0.12:
        return bd
    for _ in range(rng.choice([1, 1, 1, 2])):
        bd.add(mixed_para(rng))
    return bd


def member_def(rng, refid, idx, name, params):
    """params: list of (declname | None, defname | None, has_default)."""
    md = X("memberdef", {"kind": "function", "id": "%s_1m%d" % (refid, idx), "prot": "public",
                         "static": "no"})
    md.add(X("type", {}, ["void"]))
    md.add(X("definition", {}, ["void " + name]))
    if rng.random() < 0.985:
        md.add(X("argsstring", {}, ["(" + ", ".join("T " + (d or f or "") for d, f, _ in params) + ")"])
               if rng.random() < 0.9 else X("argsstring"))
    r = rng.random()
    if r < 0.04:
        md.add(X("name", {}, [name[:1], X("b", {}, [name[1:]])]))  # split name: full text still equal
    else:
        md.add(X("name", {}, [name]))
    for d, f, dv in params:
        p = X("param").add(X("type", {}, ["T"]))
        if d is not None:
            p.add(X("declname", {}, [d]) if d != "" else X("declname"))
        if f is not None:
            p.add(X("defname", {}, [f]))
        if dv:
            p.add(X("defval", {}, ["T()"]))
        md.add(p)
    parts = [brief(rng), detailed(rng, [d or f or "p" for d, f, _ in params])]
    if rng.random() < 0.08:
        parts = parts[:1] if rng.random() < 0.5 else parts[1:]
    if rng.random() < 0.05:
        parts.reverse()
    for q in parts:
        # rarely one level deeper: `.//briefdescription` still finds it
        md.add(X("internal", {}, [q]) if rng.random() < 0.03 else q)
    md.add(X("inbodydescription"))
    md.add(X("location", {"file": "f.h", "line": str(idx)}))
    return md


def rand_params(rng):
    n = rng.choice([0, 1, 1, 2, 2, 3, 4])
    names = rng.sample(IDENTS, n)
    ndef = rng.choice([0, 0, 0, 1, 2]) if n else 0
    ps = []
    for i, nm in enumerate(names):
        has_default = i >= n - ndef
        r = rng.random()
        if r < 0.03:
            ps.append((None, nm, has_default))      # defname only
        elif r < 0.04:
            ps.append((None, None, has_default))    # no name at all
        elif r < 0.06:
            ps.append(("", None, has_default))      # <declname/> : text None
        elif r < 0.17:
            ps.append((nm, nm, has_default))        # both, as in the sample XML
        else:
            ps.append((nm, None, has_default))
    return ps


def gen_case(rng):
    """-> (files: {name: bytes}, lookups: [(cls, meth, [args])])"""
    files = {}
    lookups = []
    ncls = rng.choice([1, 2, 2, 3])
    classes = rng.sample(CLASSES, ncls)
    index = X("doxygenindex", {"version": "1.8.11"})
    known = []  # (cls, meth, params) that exist in some class file
    shared = None
    for ci, cls in enumerate(classes):
        refid = "class" + "".join(ch if ch.isalnum() else "_%d" % ord(ch) for ch in cls)
        state = rng.choices(["ok", "notindexed", "norefid", "nofile", "badfile", "dup"],
                            [80, 5, 2, 5, 3, 5])[0]
        members = []
        for mname in rng.sample(METHODS, rng.choice([1, 2, 3, 4])):
            overloads = []
            base = rand_params(rng)
            overloads.append(base)
            for _ in range(rng.choice([0, 0, 1, 1, 2, 3])):
                r = rng.random()
                if r < 0.45:
                    overloads.append(list(base))                 # identical names (types differ)
                elif r < 0.65 and base:
                    other = list(base)                           # same arity, one name differs
                    j = rng.randrange(len(other))
                    other[j] = (rng.choice(IDENTS) + "2", None, other[j][2])
                    overloads.append(other)
                else:
                    overloads.append(rand_params(rng))           # anything (usually other arity)
            members.append((mname, overloads))
        if ci > 0 and shared is not None and rng.random() < 0.5:
            # the same method with the same overloads in two classes: the `_memory`
            # keys differ only in the class name
            members = [m for m in members if m[0] != shared[0]] + [shared]
        if ci == 0:
            shared = members[0]
        # class file
        sect = X("sectiondef", {"kind": "public-func"})
        sect2 = X("sectiondef", {"kind": "public-static-func"})
        idx = 0
        comp = X("compound", {"kind": "class"})
        if state != "norefid":
            comp.attrs["refid"] = refid
        comp.add(X("name", {}, [cls]))
        for mname, overloads in members:
            for ps in overloads:
                idx += 1
                md = member_def(rng, refid, idx, mname, ps)
                tgt = sect if rng.random() < 0.8 else sect2
                if rng.random() < 0.05:
                    tgt.add(X("group", {}, [md]))  # deeper than a direct child: `//*` still finds it
                else:
                    tgt.add(md)
                comp.add(X("member", {"refid": md.attrs["id"], "kind": "function"}, [X("name", {}, [mname])]))
                if state in ("ok", "dup") and rng.random() < 0.9:
                    known.append((cls, mname, ps))
        if rng.random() < 0.1 and members:
            # an enum whose VALUE is called like a method: `//*[name=..]` matches the enumvalue
            ev = X("enumvalue", {"id": "e1"}, [X("name", {}, [members[0][0]]), X("briefdescription")])
            sect.add(X("memberdef", {"kind": "enum", "id": "en"}, [X("name", {}, ["E"]), ev]))
        cdef = X("compounddef", {"id": refid, "kind": "class"}, [X("compoundname", {}, [cls])])
        cdef.add(X("templateparamlist", {}, [X("param", {}, [X("type", {}, ["T"]), X("declname", {}, ["T"])])]))
        cdef.add(sect)
        if sect2.content:
            cdef.add(sect2)
        if rng.random() < 0.1:
            # a sectiondef that is NOT a child of compounddef: must not be searched
            cdef.add(X("innerclass", {}, [X("sectiondef", {}, [member_def(rng, refid, 99, members[0][0], members[0][1][0])])]))
        root = X("doxygen", {"version": "1.8.11"}, [cdef])
        if rng.random() < 0.05:
            root.add(X("compounddef", {"id": refid + "x", "kind": "class"},
                       [X("sectiondef", {}, [member_def(rng, refid, 98, members[0][0], members[0][1][0])])]))
        if state == "badfile":
            files[refid + ".xml"] = render(rng, root)[: rng.randrange(30, 200)]  # truncated -> ParseError
        elif state != "nofile":
            files[refid + ".xml"] = render(rng, root)
        if state != "notindexed":
            index.add(comp)
        if state == "dup":
            index.add(X("compound", {"kind": "class", "refid": "nonexistent"}, [X("name", {}, [cls])]))
        # lookups for this class
        for mname, overloads in members:
            for ps in overloads:
                names_all = [d or f or "" for d, f, _ in ps]
                nreq = len([1 for p in ps if not p[2]])
                for _ in range(rng.choice([0, 1, 1, 2, 3])):
                    r = rng.random()
                    if r < 0.55:
                        args = names_all
                    elif r < 0.80:
                        args = names_all[:nreq]
                    elif r < 0.90 and names_all:
                        args = list(names_all)
                        args[rng.randrange(len(args))] = "zz"
                    else:
                        args = rng.sample(IDENTS, rng.choice([0, 1, 2, 5]))
                    lookups.append((cls, mname, args))
    # missing class / missing method / key collisions
    for _ in range(rng.choice([1, 2, 3])):
        r = rng.random()
        if r < 0.4:
            lookups.append((rng.choice(CLASSES + ["Nope"]), rng.choice(METHODS), rng.sample(IDENTS, rng.choice([0, 1]))))
        elif r < 0.7:
            lookups.append((rng.choice(classes), "noSuchMethod", []))
        else:
            lookups.append((rng.choice(classes), rng.choice(METHODS), []))
    rng.shuffle(lookups)
    # repeat some lookups (drives `_memory` past the number of overloads)
    extra = [rng.choice(lookups) for _ in range(rng.choice([0, 2, 4]))]
    lookups = lookups + extra
    # index file state
    r = rng.random()
    if r < 0.03:
        pass  # no index.xml
    elif r < 0.06:
        files["index.xml"] = b"<doxygenindex><compound>"  # ParseError
    elif r < 0.08:
        files["index.xml"] = b""  # empty file: ParseError
    else:
        files["index.xml"] = render(rng, index)
    return files, lookups


# ----------------------------------------------------------------------------
# literal bodies for the decoder

SOUP = ["\\\\", "\\'", "\\\"", "\\?", "\\a", "\\b", "\\f", "\\n", "\\r", "\\t", "\\v",
        "\\0", "\\7", "\\12", "\\101", "\\377", "\\400", "\\777", "\\1234", "\\08", "\\8",
        "\\x41", "\\x7f", "\\x0", "\\xa0", "\\xff", "\\x100", "\\x00041", "\\x", "\\xg",
        "\\u00e9", "\\u2028", "\\u0041", "\\u0001", "\\ud800", "\\udfff", "\\uffff", "\\u12g", "\\u",
        "\\U0001F600", "\\U0010FFFF", "\\U0000D800", "\\UFFFFFFFF", "\\U000000e9", "\\U0001f60g",
        "\\q", "\\e", "\\ ", "\\%", "\"", "'", "?", "??/", "a", "b", "f", "0", "9", "A", "F", "g", "z",
        " ", "\t", "\x0b", "\x0c", "\x01", "\x7f", "\xa0", "\xe9", "\u2028", "\u4e2d", "\U0001f600",
        "\n", "\r"]


def rand_literal(rng):
    n = rng.choice([1, 1, 2, 3, 4, 6])
    out = []
    for _ in range(n):
        piece = rng.choice(SOUP)
        # keep phase-2 line splicing out of the experiment (not modelled):
        if piece in ("\n", "\r") and out and out[-1].endswith("\\") and not out[-1].endswith("\\\\"):
            continue
        out.append(piece)
    s = "".join(out)
    # ANY backslash followed by optional blanks and a raw new-line is a line splice for
    # g++ (translation phase 2, plus the GCC "backslash and newline separated by space"
    # extension); phase 2 is not modelled, so turn that new-line into the letter n.
    s = re.sub(r"\\([ \t\x0b\x0c]*)[\n\r]", lambda m: "\\" + m.group(1) + "n", s)
    return s


def sample_case(xml_dir):
    """Lookups against a REAL Doxygen output directory (the repo's tests/expected/xml):
    every documented member function of every class, with all / only the required
    parameter names, each asked twice, plus a few misses."""
    import xml.etree.ElementTree as ET
    lookups = []
    index = ET.parse(os.path.join(xml_dir, "index.xml")).getroot()
    for comp in index.findall("compound"):
        if comp.get("kind") not in ("class", "struct"):
            continue
        cls = comp.findtext("name")
        path = os.path.join(xml_dir, comp.get("refid") + ".xml")
        if not os.path.exists(path):
            continue
        for md in ET.parse(path).getroot().iter("memberdef"):
            if md.get("kind") != "function":
                continue
            if md.findtext("name") in ("print", "serialize", "serializable"):
                # other code paths of _wrap_method: `serialize*` return before line 282,
                # `print` appends a __repr__ binding after it
                continue
            params = md.findall("param")
            names = [p.findtext("declname") or p.findtext("defname") or "" for p in params]
            nreq = len([p for p in params if p.find("defval") is None])
            for args in (names, names[:nreq]):
                lookups.append((cls, md.findtext("name"), args))
                lookups.append((cls, md.findtext("name"), args))
        lookups.append((cls, "noSuchMethod", []))
    lookups.append(("gtsam::NoSuchClass", "f", []))
    return {"dir": os.path.abspath(xml_dir), "lookups": [[c, m, list(a)] for c, m, a in lookups]}


def main():
    ap = argparse.ArgumentParser()
    ap.add_argument("--seed", type=int, default=17)
    ap.add_argument("--cases", type=int, default=250)
    ap.add_argument("--texts", type=int, default=2500)
    ap.add_argument("--literals", type=int, default=400)
    ap.add_argument("--out", required=True)
    ap.add_argument("--sample", default="/repo/tests/expected/xml",
                    help="real Doxygen XML directory added as one more case ('' = none)")
    a = ap.parse_args()
    rng = random.Random(a.seed)
    os.makedirs(a.out, exist_ok=True)
    cases = []
    for i in range(a.cases):
        files, lookups = gen_case(rng)
        d = os.path.join("case_%04d" % i, "xml")
        os.makedirs(os.path.join(a.out, d), exist_ok=True)
        for name, data in files.items():
            with open(os.path.join(a.out, d, name), "wb") as f:
                f.write(data)
        cases.append({"dir": d, "lookups": [[c, m, list(args)] for c, m, args in lookups]})
    if a.sample and os.path.isfile(os.path.join(a.sample, "index.xml")):
        cases.append(sample_case(a.sample))
    with open(os.path.join(a.out, "cases.json"), "w", encoding="utf-8") as f:
        json.dump(cases, f, ensure_ascii=True)
    fixed = ["", "a", "it's", 'say "hi"', "both ' and \"", "\\", "\\\"", "a\xa0b", "\xa0", "\x7f", "\x7fa",
             "\x7fg", "\x01", "\x01a", "\x01g", "\x00", "\x001", "\u2028", "\u20281", "\U0001f600",
             "\xad", "\x85", "\n", "\r\n", "\t", "??/", "%s", "\x1b[0m", "\x7f\x7f", "\x01\x02", "\x01\n1"]
    texts = fixed + [rand_text(rng, xml_ok=False, maxlen=10) for _ in range(max(0, a.texts - len(fixed)))]
    with open(os.path.join(a.out, "texts.json"), "w", encoding="utf-8") as f:
        json.dump(texts, f, ensure_ascii=True)
    lits = [rand_literal(rng) for _ in range(a.literals)]
    with open(os.path.join(a.out, "literals.json"), "w", encoding="utf-8") as f:
        json.dump(lits, f, ensure_ascii=True)
    nl = sum(len(c["lookups"]) for c in cases)
    print("generated %d cases, %d lookups, %d texts, %d literals (seed %d) in %s"
          % (len(cases), nl, len(texts), len(lits), a.seed, a.out))


if __name__ == "__main__":
    main()
