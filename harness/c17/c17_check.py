#!/usr/bin/env python3
"""C17 correspondence check: model (Lean) vs implementation (Python) vs g++.

    c17_check.py [--seed S] [--cases N] [--texts T] [--literals L] [--keep DIR] [--skip-build]

Steps (all artefacts in a temporary directory that is removed at the end
unless --keep is given):

 1. gen_printable.py           regenerate WrapModel/Gen/Printable.lean from this interpreter
 2. lake build                 (proofs are re-checked against the regenerated table)
 3. c17_gen.py                 XML directories + lookups, texts, literal bodies
 4. c17_impl.py requests/answers   serialised trees → model requests; REAL code → answers
 5. model on req_doc/req_text  `lake env lean --run ../Main_c17.lean`
    cmp model_doc impl_doc     extraction + escaping of every lookup, byte-identical
    cmp model_text impl_text   repr / escape of every text, byte-identical
 6. model `decode` vs g++      on the generated literal bodies AND on the escaped
                               bodies of all texts (c17_cpp_decode.py)
 7. end-to-end                 for every text: g++ decodes the emitted literal to
                               UTF-8(text)  <=>  model guard `okText` is true
                               (the guard of C17_escape_roundtrip_exact)
 8. proposed fix               the escaper of NOTES.md (Python) = Lean `cppEscape`, and g++
                               decodes its output to UTF-8(text) for EVERY text
 9. whole files                `wrap()` of tests/fixtures/*.i with the sample XML = the output
                               without XML + exactly the recorded literals

Exit status 0 iff every comparison is identical.
"""
import argparse
import json
import os
import shutil
import subprocess
import sys
import tempfile

HERE = os.path.dirname(os.path.abspath(__file__))
LEAN = os.path.normpath(os.path.join(HERE, "..", "..", "lean"))
DRIVER = os.path.join(LEAN, ".lake", "build", "bin", "wrapmodel")
MAIN = os.path.join("..", "Main_c17.lean")
PY = sys.executable


def cpp_string_literal_body(s):
    """PROPOSED replacement for `repr(s)[1:-1].replace('"', r'\\"')` (NOT in the repository):
    a C++ escaper whose correctness for every text is theorem C17_fix_escape_roundtrip."""
    out = []
    for ch in s:
        o = ord(ch)
        if ch in '\\"?':
            out.append('\\' + ch)
        elif ch == '\n':
            out.append('\\n')
        elif ch == '\r':
            out.append('\\r')
        elif ch == '\t':
            out.append('\\t')
        elif o < 0x20 or o == 0x7f:
            out.append('\\%03o' % o)  # exactly three octal digits: never greedy
        else:
            out.append(ch)  # the generated file is UTF-8
    return ''.join(out)


def run(cmd, **kw):
    r = subprocess.run(cmd, **kw)
    if r.returncode != 0:
        sys.exit("FAILED: " + " ".join(cmd))
    return r


def model(req_path, out_path):
    # the compiled model driver dispatches lines starting with "xml" to WrapModel.Xml.handleLine
    data = open(req_path, "rb").read()
    pref = b"".join(b"xml\t" + l + b"\n" for l in data.split(b"\n")[:-1] if True)
    with open(out_path, "wb") as fo:
        run([DRIVER], cwd=LEAN, input=pref, stdout=fo)


def same(a, b, what):
    la = open(a, encoding="utf-8").read().split("\n")
    lb = open(b, encoding="utf-8").read().split("\n")
    items_a = [x for l in la for x in l.split("\t")]
    items_b = [x for l in lb for x in l.split("\t")]
    if la == lb:
        print("IDENTICAL  %-34s %6d lines %7d items" % (what, len(la) - 1, len(items_a) - 1))
        return True
    n = sum(1 for x, y in zip(items_a, items_b) if x != y) + abs(len(items_a) - len(items_b))
    print("DIFFERENT  %-34s %d differing items; first:" % (what, n))
    for i, (x, y) in enumerate(zip(items_a, items_b)):
        if x != y:
            print("   item %d\n   model: %s\n   other: %s" % (i, x[:300], y[:300]))
            break
    return False


def main():
    ap = argparse.ArgumentParser()
    ap.add_argument("--seed", type=int, default=17)
    ap.add_argument("--cases", type=int, default=250)
    ap.add_argument("--texts", type=int, default=2500)
    ap.add_argument("--literals", type=int, default=400)
    ap.add_argument("--keep")
    ap.add_argument("--skip-build", action="store_true")
    a = ap.parse_args()
    tmp = a.keep or tempfile.mkdtemp(prefix="c17_check_")
    ok = True
    try:
        if not a.skip_build:
            run([PY, os.path.join(HERE, "gen_printable.py"), os.path.join(LEAN, "WrapModel", "Gen", "Printable.lean")])
            run(["lake", "build"], cwd=LEAN, stdout=subprocess.DEVNULL)
        run([PY, os.path.join(HERE, "c17_gen.py"), "--seed", str(a.seed), "--cases", str(a.cases),
             "--texts", str(a.texts), "--literals", str(a.literals), "--out", tmp])
        run([PY, os.path.join(HERE, "c17_impl.py"), "requests", tmp])
        run([PY, os.path.join(HERE, "c17_impl.py"), "answers", tmp])
        p = lambda n: os.path.join(tmp, n)  # noqa: E731
        model(p("req_doc.tsv"), p("model_doc.tsv"))
        model(p("req_text.tsv"), p("model_text.tsv"))
        ok &= same(p("model_doc.tsv"), p("impl_doc.tsv"), "doc: model vs implementation")
        ok &= same(p("model_text.tsv"), p("impl_text.tsv"), "repr/literal: model vs impl.")
        kinds = {}
        for line in open(p("impl_doc.tsv"), encoding="utf-8"):
            for it in line.rstrip("\n").split("\t"):
                f = it.split(":")
                k = f[0] + (":" + f[1] if f[0] == "err" else (":empty" if len(f) > 1 and f[1] == "h" else ""))
                kinds[k] = kinds.get(k, 0) + 1
        print("           lookup outcomes: " + ", ".join("%s=%d" % kv for kv in sorted(kinds.items())))
        # 6. decode: generated literal bodies + the escaped bodies of all texts
        texts = json.load(open(p("texts.json"), encoding="utf-8"))
        impl_text = open(p("impl_text.tsv"), encoding="utf-8").read().split("\n")
        lits = [bytes.fromhex(x[1:]).decode("utf-8") for x in impl_text[len(texts):2 * len(texts)]]
        assert all(x.startswith(', "') and x.endswith('"') for x in lits)
        escaped = ["h" + x[3:-1].encode("utf-8").hex() for x in lits]
        with open(p("req_decode2.tsv"), "w", encoding="utf-8") as f:
            f.write(open(p("req_decode.tsv"), encoding="utf-8").read())
            for e in escaped:
                f.write("decode\t" + e + "\n")
        model(p("req_decode2.tsv"), p("model_decode.txt"))
        with open(p("req_decode2.tsv"), "rb") as fi, open(p("gxx_decode.txt"), "wb") as fo:
            run([PY, os.path.join(HERE, "c17_cpp_decode.py")], stdin=fi, stdout=fo)
        ok &= same(p("model_decode.txt"), p("gxx_decode.txt"), "decode: model vs g++")
        # 7. end-to-end against the guard
        with open(p("req_ok.tsv"), "w", encoding="utf-8") as f:
            for t in texts:
                f.write("oktext\th" + t.encode("utf-8").hex() + "\n")
        model(p("req_ok.tsv"), p("model_ok.txt"))
        guard = open(p("model_ok.txt")).read().split("\n")[:len(texts)]
        nlit = len(json.load(open(p("literals.json"), encoding="utf-8")))
        gxx = open(p("gxx_decode.txt")).read().split("\n")[nlit:nlit + len(texts)]
        bad = 0
        nwrong = nill = 0
        for t, g, x in zip(texts, guard, gxx):
            right = x == "some:" + t.encode("utf-8").hex()
            # since fix 58823a1 the generator uses the dedicated escaper: EVERY text must come back
            # (`guard` = okText, the domain of the former repr()-based expression, is only reported)
            if not right:
                bad += 1
                if bad < 5:
                    print("   literal does not decode to the text %r: okText=%s, g++=%s" % (t, g, x))
            if not right:
                if x == "none":
                    nill += 1
                else:
                    nwrong += 1
        print("%s  %-34s %6d texts: %d right, %d ill-formed literal, %d wrong bytes"
              % ("IDENTICAL" if bad == 0 else "DIFFERENT", "g++ round trip (every text)",
                 len(texts), len(texts) - nill - nwrong, nill, nwrong))
        ok &= bad == 0
        # 8. the escaper (in the repository since fix 58823a1): an independent Python copy vs the Lean
        #    `cppEscape` (proved right for every text) vs g++
        with open(p("req_fix.tsv"), "w", encoding="utf-8") as f:
            for t in texts:
                f.write("fixescape\th" + t.encode("utf-8").hex() + "\n")
        model(p("req_fix.tsv"), p("model_fix.txt"))
        mfix = open(p("model_fix.txt")).read().split("\n")[:len(texts)]
        pfix = ["h" + cpp_string_literal_body(t).encode("utf-8").hex() for t in texts]
        with open(p("gxx_fix_in.txt"), "w") as f:
            f.write("\n".join(pfix) + "\n")
        with open(p("gxx_fix_in.txt"), "rb") as fi, open(p("gxx_fix.txt"), "wb") as fo:
            run([PY, os.path.join(HERE, "c17_cpp_decode.py")], stdin=fi, stdout=fo)
        gfix = open(p("gxx_fix.txt")).read().split("\n")[:len(texts)]
        nbad = sum(1 for t, g in zip(texts, gfix) if g != "some:" + t.encode("utf-8").hex())
        print("%s  %-34s %6d texts: Python fix %s Lean cppEscape; g++ decodes %d wrongly"
              % ("IDENTICAL" if mfix == pfix and nbad == 0 else "DIFFERENT", "escaper: Python copy vs Lean vs g++",
                 len(texts), "==" if mfix == pfix else "!=", nbad))
        ok &= mfix == pfix and nbad == 0
        # 9. whole generated files, with vs without XML
        r = subprocess.run([PY, os.path.join(HERE, "c17_impl.py"), "wholefile", tmp], capture_output=True, text=True)
        print("%s  %-34s %s" % ("IDENTICAL" if r.returncode == 0 else "DIFFERENT", "wrap(): with XML = without + literals",
                                r.stdout.strip().splitlines()[-1] if r.stdout.strip() else r.stderr.strip()[-200:]))
        ok &= r.returncode == 0
    finally:
        if not a.keep:
            shutil.rmtree(tmp, ignore_errors=True)
    print("C17 correspondence: " + ("PASS" if ok else "FAIL"))
    sys.exit(0 if ok else 1)


if __name__ == "__main__":
    main()
