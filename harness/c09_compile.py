"""C09 compile oracle: closed-world interface files together with a conforming C++ library header.

A *closed-world* module only uses types it declares itself (plus basic types, std::string, std::vector, std::pair), so that a
header implementing exactly the documented meaning of the interface (DOCS.md: `T*` = std::shared_ptr<T>, `T@` = raw pointer,
`T&` = reference, by-value otherwise; templates with explicit instantiation lists; `virtual class` = polymorphic class) can be
written next to it.  The generated pybind11 translation unit must then be accepted by `g++ -std=c++17 -fsyntax-only`.

The generator is independent of harness/gen.py (which draws from open pools of names): it keeps a symbol table while it
writes the interface text and the header side by side.
"""
import os
import random
import shutil
import subprocess
import sys
import sysconfig
import tempfile

BASIC = ["bool", "int", "double", "size_t", "char", "unsigned char", "float"]
DEFAULTS = {"bool": ["true", "false"], "int": ["0", "-3", "42"], "double": ["1.5", "-2e-3", "0.0"], "size_t": ["7", "0"],
            "char": ["'c'"], "unsigned char": ["8"], "float": ["2.5f"], "string": ['"hello"', '""', '"a, b"']}
CTX = """#include <pybind11/pybind11.h>
#include <pybind11/stl.h>
#include <pybind11/operators.h>
#include <pybind11/iostream.h>
#include <memory>
#include <string>
#include <vector>
#include <utility>
#include "lib.h"

{boost_class_export}

using namespace std;

namespace py = pybind11;

PYBIND11_MODULE({module_name}, m_) {{
    m_.doc() = "pybind11 wrapper of {module_name}";

{submodules_init}

{wrapped_namespace}

}}
"""


class World:
    def __init__(self, rng):
        self.rng = rng
        self.iface = []          # interface lines
        self.hdr = ["#pragma once", "#include <memory>", "#include <string>", "#include <vector>", "#include <utility>",
                    "using std::string;", ""]
        self.classes = []        # (cpp qualified name, iface spelling) of declared, usable classes
        self.counter = 0
        self.stats = dict(classes=0, templates=0, functions=0, enums=0, methods=0, statics=0, props=0, ops=0, typedefs=0,
                          template_methods=0, defaults=0, derived=0)

    def fresh(self, stem):
        self.counter += 1
        return "%s%d" % (stem, self.counter)

    # ----- types: returns (interface spelling, C++ spelling, kind)
    def value_type(self, tparams=(), allow_class=True):
        rng = self.rng
        r = rng.random()
        if tparams and r < 0.3:
            t = rng.choice(tparams)
            return t, t, 'tparam'
        if allow_class and self.classes and r < 0.6:
            cpp, _ = rng.choice(self.classes)
            return cpp, "::" + cpp, 'class'
        if r < 0.7:
            return "string", "std::string", 'string'
        if r < 0.8:
            inner_i, inner_c, _ = self.value_type(tparams, allow_class)
            return "std::vector<%s>" % inner_i, "std::vector<%s>" % inner_c, 'vector'
        b = rng.choice(BASIC)
        return b, b, 'basic'

    def arg_type(self, tparams=()):
        """(interface, C++, default or None)"""
        rng = self.rng
        i, c, kind = self.value_type(tparams)
        r = rng.random()
        dflt = None
        if kind in ('class', 'tparam') and r < 0.25 and kind == 'class':
            return i + "*", "std::shared_ptr<%s>" % c, None
        if kind == 'class' and r < 0.35:
            return i + "@", c + "*", None
        if r < 0.6 and kind != 'basic':
            return "const " + i + "&", "const " + c + "&", None
        if kind == 'class' and r < 0.7:
            return i + "&", c + "&", None
        if kind in ('basic', 'string'):
            key = i if kind == 'basic' else 'string'
            if rng.random() < 0.4:
                dflt = rng.choice(DEFAULTS[key])
        return i, c, dflt

    def ret_type(self, tparams=()):
        rng = self.rng
        r = rng.random()
        if r < 0.25:
            return "void", "void"
        if r < 0.35:
            a = self.value_type(tparams)
            b = self.value_type(tparams)
            return "pair<%s, %s>" % (a[0], b[0]), "std::pair<%s, %s>" % (a[1], b[1])
        i, c, kind = self.value_type(tparams)
        if kind == 'class' and rng.random() < 0.3:
            return i + "*", "std::shared_ptr<%s>" % c
        return i, c

    def args(self, tparams=(), n=None):
        rng = self.rng
        n = rng.randint(0, 3) if n is None else n
        out, names, seen_default = [], ["a", "b", "c", "key"], False
        for k in range(n):
            i, c, d = self.arg_type(tparams)
            if seen_default and d is None:
                # defaults must be trailing
                i2, c2 = rng.choice([("int", "int"), ("double", "double")])
                i, c, d = i2, c2, rng.choice(DEFAULTS[i2])
            if d is not None:
                seen_default = True
                self.stats["defaults"] += 1
            out.append((i, c, names[k], d))
        return out

    @staticmethod
    def iface_args(args):
        return ", ".join("%s %s%s" % (i, n, "" if d is None else " = " + d) for i, c, n, d in args)

    @staticmethod
    def cpp_args(args):
        return ", ".join("%s %s" % (c, n) for i, c, n, d in args)

    @staticmethod
    def body(ret_c):
        if ret_c == "void":
            return "{}"
        return "{ return Z<%s>::v(); }" % ret_c

    # ----- declarations
    def gen_enum(self, indent, scope_cpp, in_class):
        name = self.fresh("Kind")
        kw = self.rng.choice(["enum", "enum class"])
        vals = self.rng.sample(["Red", "Green", "Blue", "kOne", "kTwo"], self.rng.randint(1, 3))
        if kw == "enum":
            vals = [v + name for v in vals]      # unscoped enumerators share the enclosing scope
        self.iface.append("%s%s %s { %s };" % (indent, kw, name, ", ".join(vals)))
        self.hdr.append("%s%s %s { %s };" % (indent, kw, name, ", ".join(vals)))
        self.stats["enums"] += 1

    def gen_class(self, indent, ns_path):
        rng = self.rng
        name = self.fresh("Cls")
        qual = "::".join(ns_path + [name])
        tparams, insts = [], []
        if rng.random() < 0.3:
            tparams = ["T"] if rng.random() < 0.7 else ["T", "U"]
            for _ in tparams:
                k = rng.randint(1, 2)
                pool = ["double", "int", "size_t"] + [c for c, _ in self.classes]
                insts.append(rng.sample(pool, min(k, len(pool))))
            self.stats["templates"] += 1
        virtual = rng.random() < 0.3
        base = None
        if not tparams and self.classes and rng.random() < 0.3:
            base = rng.choice(self.classes)[0]
            self.stats["derived"] += 1
        head_i = ""
        if tparams:
            head_i = "template<%s>\n%s" % (", ".join("%s = {%s}" % (t, ", ".join(x)) for t, x in zip(tparams, insts)), indent)
        self.iface.append("%s%s%sclass %s%s {" % (indent, head_i, "virtual " if virtual else "", name, " : " + base if base else ""))
        if tparams:
            self.hdr.append("%stemplate<%s>" % (indent, ", ".join("class " + t for t in tparams)))
        self.hdr.append("%sstruct %s%s {" % (indent, name, " : ::" + base if base else ""))
        if virtual or base:
            self.hdr.append("%s  virtual ~%s() {}" % (indent, name))
        ind2 = indent + "  "
        tp = tuple(tparams)
        # constructors (distinct arities so that overloads are unambiguous for the default-expanded forms)
        arities = rng.sample([0, 1, 2, 3], rng.randint(0, 2))
        for n in sorted(arities):
            a = [(i, c, nm, None) for i, c, nm, d in self.args(tp, n)]
            self.iface.append("%s%s(%s);" % (ind2, name, self.iface_args(a)))
            self.hdr.append("%s%s(%s) {}" % (ind2, name, self.cpp_args(a)))
        if 0 not in arities:
            self.hdr.append("%s%s() {}" % (ind2, name))      # needed by Z<>::v()
        used = set()
        for _ in range(rng.randint(0, 4)):
            kind = rng.choice(["method", "method", "static", "prop", "tmethod", "enum", "op"])
            if kind == "method":
                mname = rng.choice(["f", "g", "value", "update", "lambda", "dim"])      # (`print` has a gtsam-specific wrapper)
                a = self.args(tp)
                key = (mname, len(a))
                if key in used or any((mname, k) in used for k in range(0, 5)):
                    continue
                used.add(key)
                ri, rc = self.ret_type(tp)
                const = rng.random() < 0.5
                self.iface.append("%s%s %s(%s)%s;" % (ind2, ri, mname, self.iface_args(a), " const" if const else ""))
                self.hdr.append("%s%s %s(%s)%s %s" % (ind2, rc, mname, self.cpp_args(a), " const" if const else "", self.body(rc)))
                self.stats["methods"] += 1
            elif kind == "static":
                mname = rng.choice(["Create", "Count", "Identity"])
                if (mname, 0) in used:
                    continue
                used.add((mname, 0))
                a = self.args(tp)
                ri, rc = self.ret_type(tp)
                self.iface.append("%sstatic %s %s(%s);" % (ind2, ri, mname, self.iface_args(a)))
                self.hdr.append("%sstatic %s %s(%s) %s" % (ind2, rc, mname, self.cpp_args(a), self.body(rc)))
                self.stats["statics"] += 1
            elif kind == "prop":
                pname = self.fresh("p")
                i, c, k = self.value_type(tp)
                self.iface.append("%s%s %s;" % (ind2, i, pname))
                self.hdr.append("%s%s %s;" % (ind2, c, pname))
                self.stats["props"] += 1
            elif kind == "tmethod" and not tparams:
                mname = self.fresh("tm")
                pool = ["double", "int"] + [c for c, _ in self.classes]
                ins = rng.sample(pool, min(rng.randint(1, 2), len(pool)))
                a = [("const V&", "const V&", "v", None)] + self.args((), rng.randint(0, 1))
                ri, rc = rng.choice([("void", "void"), ("V", "V"), ("double", "double")])
                self.iface.append("%stemplate<V = {%s}>\n%s%s %s(%s);" % (ind2, ", ".join(ins), ind2, ri, mname, self.iface_args(a)))
                self.hdr.append("%stemplate<class V> %s %s(%s) %s" % (ind2, rc, mname, self.cpp_args(a), self.body(rc)))
                self.stats["template_methods"] += 1
            elif kind == "enum":
                self.gen_enum(ind2, qual, True)
            elif kind == "op" and not tparams:
                sym = rng.choice(["+", "-", "*", "==", "<"])
                if ("op", sym) in used:
                    continue
                used.add(("op", sym))
                self.iface.append("%s%s operator%s(const %s& o) const;" % (ind2, qual, sym, qual))
                self.hdr.append("%s%s operator%s(const %s& o) const { return *this; }" % (ind2, name, sym, name))
                self.stats["ops"] += 1
        self.iface.append("%s};" % indent)
        self.hdr.append("%s};" % indent)
        self.stats["classes"] += 1
        if not tparams:
            self.classes.append((qual, qual))
        elif rng.random() < 0.6:
            # a typedef of one more instantiation
            tdn = self.fresh("Alias")
            targs = [rng.choice(["double", "int"]) for _ in tparams]
            self.iface.append("%stypedef %s<%s> %s;" % (indent, qual, ", ".join(targs), tdn))
            self.hdr.append("%stypedef %s<%s> %s;" % (indent, name, ", ".join(targs), tdn))
            self.stats["typedefs"] += 1

    def gen_function(self, indent, ns_path):
        rng = self.rng
        name = self.fresh("fn")
        if rng.random() < 0.25:
            pool = ["double", "int"] + [c for c, _ in self.classes]
            ins = rng.sample(pool, min(rng.randint(1, 2), len(pool)))
            a = [("const T&", "const T&", "t", None)] + self.args((), rng.randint(0, 2))
            ri, rc = rng.choice([("void", "void"), ("T", "T")])
            self.iface.append("%stemplate<T = {%s}>\n%s%s %s(%s);" % (indent, ", ".join(ins), indent, ri, name, self.iface_args(a)))
            self.hdr.append("%stemplate<class T> %s %s(%s) %s" % (indent, rc, name, self.cpp_args(a), self.body(rc)))
        else:
            a = self.args(())
            ri, rc = self.ret_type(())
            self.iface.append("%s%s %s(%s);" % (indent, ri, name, self.iface_args(a)))
            self.hdr.append("%sinline %s %s(%s) %s" % (indent, rc, name, self.cpp_args(a), self.body(rc)))
        self.stats["functions"] += 1

    def gen_scope(self, indent, ns_path, depth):
        rng = self.rng
        for _ in range(rng.randint(1, 4)):
            k = rng.choice(["cls", "cls", "cls", "fn", "enum", "ns"])
            if k == "cls":
                self.gen_class(indent, ns_path)
            elif k == "fn":
                self.gen_function(indent, ns_path)
            elif k == "enum":
                self.gen_enum(indent, "::".join(ns_path), False)
            elif k == "ns" and depth < 2:
                name = self.fresh("ns")
                self.iface.append("%snamespace %s {" % (indent, name))
                self.hdr.append("%snamespace %s {" % (indent, name))
                self.gen_scope(indent + "  ", ns_path + [name], depth + 1)
                self.iface.append("%s}" % indent)
                self.hdr.append("%s}" % indent)


ZDEF = """
// what the wrapper of a `print` method uses (gtsam/nonlinear/utilities.h in the tests' template)
namespace gtsam { struct RedirectCout { std::string str() const { return std::string(); } }; }

// a value of any type the library returns (never executed: the translation unit is only checked)
template<class T> struct Z { static T v() { return T(); } };
template<class T> struct Z<T&> { static T& v() { static T t; return t; } };
"""


def make_module(rng):
    w = World(rng)
    w.hdr.append(ZDEF)
    w.gen_scope("", [], 0)
    return "\n".join(w.iface) + "\n", "\n".join(w.hdr) + "\n", w.stats


def includes():
    inc = sysconfig.get_paths()["include"]
    return inc


def compile_case(idx, payload):
    seed, repo = payload
    sys.path.insert(0, repo)
    from gtwrap.pybind_wrapper import PybindWrapper
    rng = random.Random(seed * 1000003 + idx)
    iface, hdr, stats = make_module(rng)
    res = dict(idx=idx, text=iface, header=hdr, stats=stats, bad=None, gen_error=None, compiled=False)
    try:
        w = PybindWrapper(module_name="m", top_module_namespaces=[''], use_boost_serialization=False, ignore_classes=[],
                          module_template=CTX)
        if idx % 2 == 1:
            # with documentation: every method binding gets a docstring literal; whatever the text, the unit must compile
            nasty = ['say "hi"', 'back\\slash', 'ends in a backslash\\', 'tab\there', 'two\nlines', 'what??/', 'ctrl\x01b', 'caf\u00e9',
                     "it's", '{braces} %s {0}', 'a\u00a0b', '\\"', 'R"(raw)"', '*/ /* //']
            w.xml_source = "stubbed"
            w.xml_parser.extract_docstring = lambda *a, **k: rng.choice(nasty)
            res["stats"] = dict(stats, with_docstrings=1)
        out = w.wrap_file(iface, module_name="m")
    except Exception as e:  # noqa
        res["gen_error"] = "%s: %s" % (type(e).__name__, str(e)[:200])
        return res
    d = tempfile.mkdtemp(prefix="verif_c09c_")
    try:
        open(os.path.join(d, "lib.h"), "w").write(hdr)
        open(os.path.join(d, "m.cpp"), "w").write(out)
        r = subprocess.run(["g++", "-std=c++17", "-fsyntax-only", "-w", "-I" + os.path.join(repo, "pybind11", "include"),
                            "-I" + includes(), "-I" + d, os.path.join(d, "m.cpp")], capture_output=True, text=True, timeout=300)
        res["compiled"] = r.returncode == 0
        if r.returncode != 0:
            errs = [l for l in r.stderr.splitlines() if "error" in l][:4]
            res["bad"] = dict(what="the generated pybind11 translation unit does not compile against a conforming library",
                              input=iface, library_header=hdr, compiler="\n".join(errs), generated=out[:6000])
    finally:
        shutil.rmtree(d, ignore_errors=True)
    return res


if __name__ == "__main__":
    n = int(sys.argv[1]) if len(sys.argv) > 1 else 5
    bad = 0
    for i in range(n):
        r = compile_case(i, (int(os.environ.get("VERIF_SEED", "0")), os.environ.get("VERIF_REPO", "/repo")))
        print(i, "compiled" if r["compiled"] else ("GENERATOR ERROR " + r["gen_error"] if r["gen_error"] else "DOES NOT COMPILE"))
        if r["bad"]:
            bad += 1
            print(r["bad"]["compiler"])
            print(r["text"])
    sys.exit(1 if bad else 0)
