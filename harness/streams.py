"""Differential streams shared by the property modules: every case runs the real code in-process and the
compiled Lean model on the same generated input and returns a small result dict (run in forked workers)."""
import os
import random

import framework as fw
from common import classify_exc, impl_pybind, model_pybind, impl_matlab, model_matlab

TPL_TEST = None
TPL_MIN = "{module_def}|{module_name}|{includes}|{boost_class_export}|{submodules}|{submodules_init}|\n{wrapped_namespace}\n"


def test_tpl():
    global TPL_TEST
    if TPL_TEST is None:
        TPL_TEST = open(os.path.join(fw.REPO, "tests", "pybind_wrapper.tpl"), encoding="utf-8").read()
    return TPL_TEST


def first_diff(a, b, ctx=160):
    n = len(os.path.commonprefix([a, b]))
    return dict(at=n, expected=a[max(0, n - ctx):n + ctx], got=b[max(0, n - ctx):n + ctx])


def gen_coherent(seed, idx, cfg_kw, style=None):
    import gen
    rng = random.Random(seed * 1000003 + idx)
    kw = dict(max_decls=4, max_members=5, max_depth=2)
    kw.update(cfg_kw or {})
    g = gen.Gen(rng, gen.Cfg(**kw))
    m = gen.gen_module_inst(g)
    text = gen.layout(rng, gen.lexemes(m), style or rng.choice(['space', 'min', 'ws', 'lines']))
    return rng, m, text


def module_stats(m):
    import gen
    st = {}
    for path, content in gen.walk_namespaces(m):
        st["ns_depth_%d" % len(path)] = st.get("ns_depth_%d" % len(path), 0) + 1
        for d in content:
            st["decl_" + d.kind] = st.get("decl_" + d.kind, 0) + 1
            if d.kind == 'cls':
                c = d.cls
                if c.tmpl:
                    st["class_template_params_%d" % len(c.tmpl)] = st.get("class_template_params_%d" % len(c.tmpl), 0) + 1
                if c.virtual:
                    st["virtual_class"] = st.get("virtual_class", 0) + 1
                if c.parent is not None:
                    st["class_with_base"] = st.get("class_with_base", 0) + 1
                for mem in c.members:
                    st["member_" + mem.kind] = st.get("member_" + mem.kind, 0) + 1
                    if mem.tmpl:
                        st["member_template"] = st.get("member_template", 0) + 1
                    k = sum(1 for a in mem.args if a.default is not None)
                    if mem.kind in ('ctor', 'method', 'static'):
                        st["defaults_%d_of_%d" % (k, len(mem.args))] = st.get("defaults_%d_of_%d" % (k, len(mem.args)), 0) + 1
            if d.kind == 'func':
                k = sum(1 for a in d.args if a.default is not None)
                st["func_defaults_%d_of_%d" % (k, len(d.args))] = st.get("func_defaults_%d_of_%d" % (k, len(d.args)), 0) + 1
    return st


# ------------------------------------------------------------------ instantiation
def impl_inst(text, what):
    import pydump
    from gtwrap.interface_parser import Module
    import gtwrap.template_instantiator as ti
    try:
        m = ti.instantiate_namespace(Module.parseString(text))
        return pydump.imodule(m) if what == "idump" else pydump.cpp_module(m)
    except Exception as e:  # noqa
        return "ERR " + classify_exc(e)


def model_call(op, text):
    st, out = fw.worker_driver().call(op, text)
    return out if st == "ok" else "ERR " + out


def inst_case(idx, payload):
    seed, cfg_kw = payload
    rng, m, text = gen_coherent(seed, idx, cfg_kw)
    impl_d = impl_inst(text, "idump")
    model_d = model_call("inst", text)
    impl_c = impl_inst(text, "icpp")
    spec_c = model_call("spec-icpp", text)
    r = dict(idx=idx, text=text, stats=module_stats(m), err=impl_d if impl_d.startswith("ERR") else None,
             model_eq=(impl_d == model_d), spec_eq=(impl_c == spec_c), impl_cpp=impl_c)
    if not r["model_eq"]:
        r["model_diff"] = first_diff(impl_d, model_d)
    if not r["spec_eq"]:
        r["spec_diff"] = first_diff(spec_c, impl_c)
    return r


# ------------------------------------------------------------------ pybind
def pybind_options(rng, m, allow_ignore=False):
    import gen
    nss = [p for p, _ in gen.walk_namespaces(m)]
    topp = rng.choice(nss) if rng.random() < 0.6 else ()
    top = [''] + list(topp)
    boost = rng.random() < 0.5
    subs = rng.choice([None, None, [], ['a'], ['a', 'b2']])
    tpl = test_tpl() if rng.random() < 0.5 else TPL_MIN
    return dict(top=top, boost=boost, subs=subs, tpl=tpl, ignore=[], module_name=rng.choice(["mymod", "gtsam_py"]))


def class_cpp_names(text):
    """C++ names of the instantiated classes / declarations (from the model's instantiation)"""
    out = model_call("icpp", text)
    names = []
    for l in out.split("\n"):
        if l.startswith(("C ", "D ")):
            f = l.split(" | ")
            if len(f) > 1:
                names.append(f[1])
    return names


def pybind_case(idx, payload):
    seed, cfg_kw = payload
    rng, m, text = gen_coherent(seed, idx, cfg_kw, style='space')
    o = pybind_options(rng, m)
    d = fw.worker_driver()
    if rng.random() < 0.4:
        names = class_cpp_names(text)
        if names:
            k = rng.randint(1, min(3, len(names)))
            multi = [n for n in names if ", " in n]
            o["ignore"] = rng.sample(names, k) + (rng.sample(multi, 1) if multi and rng.random() < 0.7 else [])
            if rng.random() < 0.3:
                o["ignore"].append("not::AClass")
    a = impl_pybind(text, o["tpl"], o["module_name"], o["top"], o["boost"], o["ignore"], o["subs"])
    b = model_pybind(d, text, o["tpl"], o["module_name"], o["top"], o["boost"], o["ignore"], o["subs"])
    r = dict(idx=idx, text=text, opts={k: v for k, v in o.items() if k != "tpl"}, tpl_kind="tests" if o["tpl"] != TPL_MIN else "min",
             stats=module_stats(m), eq=(a == b), impl=a, model=b if a != b else None)
    return r


# ------------------------------------------------------------------ matlab
def matlab_case(idx, payload):
    seed, cfg_kw = payload
    rng, m, text = gen_coherent(seed, idx, cfg_kw, style='space')
    boost = rng.random() < 0.5
    d = fw.worker_driver()
    ignore = []
    if (cfg_kw or {}).get("matlab_ignore"):
        # ignore-list entries naming namespaced classes / instantiations (a global-scope entry is a listed known finding)
        keys = []
        for l in model_call("icpp", text).split("\n"):
            if l.startswith("C "):
                f = l.split(" | ")
                qual = f[1].split("<")[0]
                if "::" in qual:
                    keys.append(qual.rsplit("::", 1)[0] + "::" + f[0][2:])
        if keys:
            ignore = rng.sample(keys, rng.randint(1, min(2, len(keys))))
    a = impl_matlab([text], "mymod", ignore, boost)
    b = model_matlab(d, text, "mymod", ignore, boost)
    r = dict(idx=idx, text=text, opts=dict(boost=boost, ignore=ignore), stats=module_stats(m), eq=(a == b), impl=a, model=b if a != b else None)
    return r


def add_stats(ctx, stats):
    for k, v in stats.items():
        ctx.count(k, v)
