import WrapModel.Model.Driver

partial def loop (hin hout : IO.FS.Stream) : IO Unit := do
  let line ← hin.getLine
  if line.isEmpty then return ()
  let l := (line.dropRightWhile (fun c => c == '\n' || c == '\r'))
  hout.putStrLn (WrapModel.Driver.handle (l.splitOn "\t"))
  hout.flush
  loop hin hout

def main : IO Unit := do
  loop (← IO.getStdin) (← IO.getStdout)
