import WrapModel.Lemmas.ArgRoundTrip

namespace WrapModel.Spec
open WrapModel WrapModel.Tok WrapModel.Parse

theorem suffix_none_bne : (Suffix.none != Suffix.none) = false := by decide

mutual
  theorem strict_tn (top : Bool) : ∀ tn : Typename, (top = true → tn.insts = [] → hasSpace tn.name = false) →
      strictTypename top (tnToTy tn) = some tn
    | ⟨nss, name, []⟩, h => by
      have := h
      cases top with
      | false => simp [tnToTy, strictTypename, Quals.plain, suffix_none_bne]
      | true =>
        have hs : hasSpace name = false := h rfl rfl
        simp [tnToTy, strictTypename, Quals.plain, hs, suffix_none_bne]
    | ⟨nss, name, i :: is⟩, _ => by
      have h2 := strict_tns (i :: is)
      simp [tnToTy, strictTypename, Quals.plain, h2, suffix_none_bne]
  theorem strict_tns : ∀ l : List Typename, strictTypenames (tnsToTys l) = some l
    | [] => by simp [tnsToTys, strictTypenames]
    | t :: ts => by
      have h1 := strict_tn false t (by simp)
      have h2 := strict_tns ts
      simp [tnsToTys, strictTypenames, h1, h2]
end

/-- a typename that may stand in an instantiation list / typedef -/
def TnWF (tn : Typename) : Prop := TyWF (tnToTy tn) ∧ (tn.insts = [] → hasSpace tn.name = false)

def TnsWF : List Typename → Prop
  | [] => True
  | t :: ts => TnWF t ∧ TnsWF ts

def tnsFuel : List Typename → Nat
  | [] => 0
  | t :: ts => tyFuel (tnToTy t) + 2 + tnsFuel ts

theorem quals_tnToTy (tn : Typename) : (tnToTy tn).quals = .plain := by
  obtain ⟨nss, name, insts⟩ := tn
  cases insts <;> simp [tnToTy, CType.quals]

theorem ptype_tn (tn : Typename) (hwf : TnWF tn) (n : Nat) (hn : tyFuel (tnToTy tn) ≤ n) (X : List Lexeme) (hX : NoCont X) :
    runL (ptype n) (tyLex (tnToTy tn) ++ X) = .ok ⟨tnToTy tn, pairFlag (tnToTy tn)⟩ X :=
  ptype_lex n (tnToTy tn) hn hwf.1 X (fun _ => hX)

theorem pinsts_lex : ∀ (is : List Typename), is ≠ [] → TnsWF is → ∀ (n : Nat) (X : List Lexeme), tnsFuel is ≤ n →
    answerL (.lit ",") X = .no → NoCont X → runL (pinsts n) (instsLex is ++ X) = .ok is X := by
  intro is
  induction is with
  | nil => intro h; exact absurd rfl h
  | cons t ts ih =>
    intro _ hwf n X hn hc hX
    obtain ⟨hwt, hwts⟩ : TnWF t ∧ TnsWF ts := by simpa [TnsWF] using hwf
    simp only [tnsFuel] at hn
    obtain ⟨m, rfl⟩ : ∃ m, n = m + 1 := ⟨n - 1, by omega⟩
    have hst := strict_tn true t (fun _ => hwt.2)
    cases ts with
    | nil =>
      have h1 := ptype_tn t hwt m (by omega) X hX
      simp [pinsts, instsLex, instsTailLex, runL_bind, runL_probe, h1, hc, hst, liftOpt]
    | cons t' ts' =>
      have h1 := ptype_tn t hwt m (by omega) (.sym "," :: (instsLex (t' :: ts') ++ X)) (noCont_comma _)
      have h2 := ih (by simp) hwts m X (by simp [tnsFuel] at hn ⊢; omega) hc hX
      have e : instsLex (t :: t' :: ts') ++ X = tyLex (tnToTy t) ++ (.sym "," :: (instsLex (t' :: ts') ++ X)) := by
        simp [instsLex, instsTailLex]
      rw [e]
      simp (config := {decide := true}) [pinsts, runL_bind, runL_probe, h1, h2, hst, liftOpt, answerL_sym, ansSym]

/-! ### template parameter lists -/

def TParamsWF : List TParam → Prop
  | [] => True
  | p :: ps => TnsWF p.insts ∧ TParamsWF ps

def tparamsFuel : List TParam → Nat
  | [] => 0
  | p :: ps => tnsFuel p.insts + 2 + tparamsFuel ps

theorem noCont_rbrace (X : List Lexeme) : NoCont (.sym "}" :: X) := by
  rw [noCont_iff]; simp (config := {decide := true}) [answerL_sym, ansSym]
theorem comma_no_rbrace (X : List Lexeme) : answerL (.lit ",") (.sym "}" :: X) = .no := by
  simp (config := {decide := true}) [answerL_sym, ansSym]

def ptparamInsts (n : Nat) : P (List Typename) := do
  if (← P.probe (.lit "=")) then
    P.expect (.lit "{")
    let is ← pinsts n
    P.expect (.lit "}")
    pure is
  else pure []

theorem ptparams_eq (n : Nat) : ptparams (n + 1) = (do
    let name ← P.need .word
    let insts ← ptparamInsts n
    if (← P.probe (.lit ",")) then
      let ps ← ptparams n
      pure (⟨name, insts⟩ :: ps)
    else pure [⟨name, insts⟩]) := by
  rw [ptparams]; rfl

/-- the optional `= { … }` part of one template parameter -/
theorem tparam_insts_lex (is : List Typename) (hwf : TnsWF is) (n : Nat) (hn : tnsFuel is ≤ n) (X : List Lexeme)
    (hX : answerL (.lit "=") X = .no) : runL (ptparamInsts n) (tparamInstsLex is ++ X) = .ok is X := by
  cases is with
  | nil => simp [ptparamInsts, tparamInstsLex, runL_bind, runL_probe, hX]
  | cons t ts =>
    have h1 := pinsts_lex (t :: ts) (by simp) hwf n (.sym "}" :: X) hn (comma_no_rbrace _) (noCont_rbrace _)
    simp (config := {decide := true}) [ptparamInsts, tparamInstsLex, runL_bind, runL_probe, runL_expect, answerL_sym, ansSym, h1]

theorem eq_no_gt (X : List Lexeme) : answerL (.lit "=") (.sym ">" :: X) = .no := by
  simp (config := {decide := true}) [answerL_sym, ansSym]

theorem ptparams_lex : ∀ (ps : List TParam), ps ≠ [] → TParamsWF ps → ∀ (n : Nat) (X : List Lexeme), tparamsFuel ps ≤ n →
    answerL (.lit ",") X = .no → answerL (.lit "=") X = .no → runL (ptparams n) (tparamsLex ps ++ X) = .ok ps X := by
  intro ps
  induction ps with
  | nil => intro h; exact absurd rfl h
  | cons p ps' ih =>
    intro _ hwf n X hn hc he
    obtain ⟨hwp, hwps⟩ : TnsWF p.insts ∧ TParamsWF ps' := by simpa [TParamsWF] using hwf
    simp only [tparamsFuel] at hn
    obtain ⟨m, rfl⟩ : ∃ m, n = m + 1 := ⟨n - 1, by omega⟩
    obtain ⟨name, insts⟩ := p
    rw [ptparams_eq]
    cases ps' with
    | nil =>
      have h1 := tparam_insts_lex insts hwp m (by simp at hn ⊢; omega) X he
      simp [tparamsLex, tparamsTailLex, tparamLex, runL_bind, runL_need, runL_probe, h1, hc]
    | cons p' ps'' =>
      have h1 := tparam_insts_lex insts hwp m (by simp at hn ⊢; omega) (.sym "," :: (tparamsLex (p' :: ps'') ++ X)) (eq_no_comma _)
      have h2 := ih (by simp) hwps m X (by simp [tparamsFuel] at hn ⊢; omega) hc he
      have e : tparamsLex (⟨name, insts⟩ :: p' :: ps'') ++ X =
          .word name :: (tparamInstsLex insts ++ (.sym "," :: (tparamsLex (p' :: ps'') ++ X))) := by
        simp [tparamsLex, tparamsTailLex, tparamLex]
      rw [e]
      simp (config := {decide := true}) [runL_bind, runL_need, runL_probe, answerL_sym, ansSym, h1, h2]

def TmplWF : Option Template → Prop
  | none => True
  | some ps => ps ≠ [] ∧ TParamsWF ps

def tmplFuel : Option Template → Nat
  | none => 0
  | some ps => tparamsFuel ps

/-- `Optional(Template.rule)`; when absent, what follows must not be the word `template` -/
theorem ptemplate_lex (t : Option Template) (hwf : TmplWF t) (n : Nat) (hn : tmplFuel t ≤ n) (X : List Lexeme)
    (hX : t = none → answerL (.kw "template") X = .no) :
    runL (ptemplate n) (tmplLex t ++ X) = .ok t X := by
  cases t with
  | none => simp [ptemplate, tmplLex, runL_bind, runL_probe, hX rfl]
  | some ps =>
    obtain ⟨hne, hwps⟩ := hwf
    have h1 := ptparams_lex ps hne hwps n (.sym ">" :: X) hn (comma_no_gt _) (eq_no_gt _)
    simp (config := {decide := true}) [ptemplate, tmplLex, runL_bind, runL_probe, runL_expect, ansWord_kw_eq, answerL_sym, ansSym, h1]

end WrapModel.Spec
