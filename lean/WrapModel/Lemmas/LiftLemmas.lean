/- the lexeme-level and the character-level interpretation of a request agree on every spelling -/
import WrapModel.Lemmas.LexLemmas

namespace WrapModel.Tok
open WrapModel WrapModel.Lex

theorem wordChar_not_ws {c : Char} (h : isWordChar c = true) : isWs c = false := by
  cases hw : isWs c with
  | false => rfl
  | true =>
    simp only [isWs, Bool.or_eq_true, beq_iff_eq] at hw
    rcases hw with ((h1 | h1) | h1) | h1 <;> subst h1 <;> simp [isWordChar, isAlpha, isDigit] at h

theorem wordChar_ne_slash {c : Char} (h : isWordChar c = true) : c ≠ '/' := by
  intro hc; subst hc; simp [isWordChar, isAlpha, isDigit] at h

theorem digit_wordChar {c : Char} (h : isDigit c = true) : isWordChar c = true := by simp [isWordChar, h]

theorem symbol_head : ∀ t ∈ symbols, t ≠ "__" → ∃ c r, t.toList = c :: r ∧ isWordChar c = false ∧ isWs c = false ∧ c ≠ '/' := by
  intro t ht hne
  simp only [symbols, List.mem_cons, List.mem_nil_iff, or_false] at ht
  rcases ht with h|h|h|h|h|h|h|h|h|h|h|h|h|h|h <;> subst h <;>
    first | exact absurd rfl hne | exact ⟨_, _, rfl, by decide, by decide, by decide⟩

theorem dunder_head : "__".toList = '_' :: ['_'] := rfl

theorem comment_head_ne {c : Char} (t : Src) (h : c ≠ '/') : comment (c :: t) = none := by
  cases t with
  | nil => rfl
  | cons d t' => simp [comment, h]

theorem wordLike_chars {w : Src} (h : isWordLike w) : (∀ d ∈ w, isWordChar d = true) ∧ ∃ c r, w = c :: r := by
  obtain ⟨hne, h | h⟩ := h
  · obtain ⟨c, r, rfl, _, hall⟩ := h; exact ⟨hall, c, r, rfl⟩
  · refine ⟨fun d hd => digit_wordChar (h d hd), ?_⟩
    cases w with
    | nil => exact absurd rfl hne
    | cons c r => exact ⟨c, r, rfl⟩

theorem tokStart_of_lexOK {l : Lexeme} {r : Src} (h : LexOK l r) : TokStart (l.chars ++ r) := by
  cases l with
  | word w =>
    obtain ⟨hall, c, t, hw⟩ := wordLike_chars h.1
    have hc : isWordChar c = true := hall c (by simp [hw])
    simp only [Lexeme.chars, hw, List.cons_append]
    exact ⟨fun c' r' he => by cases he; exact wordChar_not_ws hc, comment_head_ne _ (wordChar_ne_slash hc)⟩
  | sym t =>
    by_cases hd : t = "__"
    · subst hd
      exact ⟨fun c' r' he => by simp [Lexeme.chars] at he; rw [← he.1]; decide, by simp [Lexeme.chars, comment]⟩
    · obtain ⟨c, t', ht, _, hws, hsl⟩ := symbol_head t h.1 hd
      simp only [Lexeme.chars, ht, List.cons_append]
      exact ⟨fun c' r' he => by cases he; exact hws, comment_head_ne _ hsl⟩
  | atom q text tok lead => exact h.2.1

theorem afterWord_not_wordChar {r : Src} (h : AfterWord r) : ∀ c t, r = c :: t → isWordChar c = false := by
  intro c t he
  have := h c t he
  cases hw : isWordChar c with
  | false => rfl
  | true => simp [isKwChar, hw] at this

theorem word_read {w r : Src} (hw : isWordLike w) (hr : AfterWord r) (hts : skipGap (w ++ r) = w ++ r) :
    Lex.word (w ++ r) = some (String.ofList w, r) := by
  have hnw := afterWord_not_wordChar hr
  unfold Lex.word
  rw [hts]
  obtain ⟨hne, h | h⟩ := hw
  · obtain ⟨c, t, rfl, hcs, hall⟩ := h
    have := spanP_append isWordChar (c :: t) r hall hnw
    simp only [List.cons_append] at this ⊢
    simp [hcs, this]
  · cases w with
    | nil => exact absurd rfl hne
    | cons c t =>
      have hcd : isDigit c = true := h c (by simp)
      have hcs : isWordStart c = false := by
        simp only [isWordStart, isAlpha, isDigit] at hcd ⊢
        cases hc : isWordStart c with
        | false => simp [isWordStart, isAlpha] at hc ⊢; exact hc
        | true =>
          exfalso
          simp only [isWordStart, isAlpha, Bool.or_eq_true, Bool.and_eq_true, decide_eq_true_eq, beq_iff_eq] at hc
          simp only [Bool.and_eq_true, decide_eq_true_eq] at hcd
          rcases hc with (⟨h1, h2⟩ | ⟨h1, h2⟩) | h1
          · have : ('a' : Char) ≤ '9' := Char.le_trans h1 hcd.2; exact absurd this (by decide)
          · have : ('A' : Char) ≤ '9' := Char.le_trans h1 hcd.2; exact absurd this (by decide)
          · subst h1; exact absurd hcd.2 (by decide)
      have hnd : ∀ c' t', r = c' :: t' → isDigit c' = false := by
        intro c' t' he
        have := hnw c' t' he
        cases hd : isDigit c' with
        | false => rfl
        | true => simp [isWordChar, hd] at this
      have := spanP_append isDigit (c :: t) r h hnd
      simp only [List.cons_append] at this ⊢
      simp only [hcs, hcd, this]
      cases r with
      | nil => simp
      | cons d t' =>
        have hds : isWordStart d = false := by
          have := hnw d t' rfl
          cases hs : isWordStart d with
          | false => rfl
          | true => simp [isWordChar, isWordStart] at this hs; rcases hs with hs | hs <;> simp [hs] at this
        simp [hds]

end WrapModel.Tok

namespace WrapModel.Tok
open WrapModel WrapModel.Lex

/-- every request except the include path looks at its input only through `skipGap` -/
theorem answerC_congr (q : Q) (hq : q ≠ .header) {s s' : Src} (h : skipGap s = skipGap s') : answerC q s = answerC q s' := by
  cases q with
  | header => exact absurd rfl hq
  | word => simp [answerC, Lex.word, h]
  | alpha => simp [answerC, Lex.alphaWord, h]
  | kw k => simp [answerC, Lex.kw, h]
  | lit t => simp [answerC, Lex.lit, h]
  | stdPair => simp [answerC, Lex.stdPair, Lex.lit, h]
  | opsym => simp [answerC, Lex.opsym, h]
  | dflt => simp [answerC, Lex.dflt, h]
  | eof => simp [answerC, Lex.eof, h]

theorem skipGap_tokStart {x : Src} (h : TokStart x) : skipGap x = x := skipGapF_tokStart _ h

end WrapModel.Tok
