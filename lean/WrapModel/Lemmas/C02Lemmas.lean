/-
  Helper lemmas for `Props/C02.lean` (agreement of `Inst.instType` with `Spec.substType` inside the guard).
-/
import WrapModel.Model.Inst
import WrapModel.Spec.Subst
import WrapModel.Lemmas.StrLemmas

namespace WrapModel.C02L
open WrapModel WrapModel.Inst WrapModel.Spec WrapModel.Str

theorem tnToCpp_plain (n : String) : tnToCpp ⟨[], n, []⟩ = n := by
  simp [tnToCpp, joinWith, String.intercalate]

theorem joinL_snoc (xs : List (List Char)) (y : List Char) :
    joinL (xs ++ [y]) = joinL xs ++ (if xs.isEmpty then [] else sep) ++ y := by
  induction xs with
  | nil => simp [joinL]
  | cons x r ih =>
    cases r with
    | nil => simp [joinL]
    | cons z r' =>
      have : (x :: z :: r') ++ [y] = x :: (z :: (r' ++ [y])) := by simp
      rw [this, joinL]
      have ih' : joinL (z :: (r' ++ [y])) = joinL (z :: r') ++ sep ++ y := by simpa using ih
      rw [ih']; simp [joinL]

theorem tnToCpp_qualified (nss : List String) (n : String) : tnToCpp ⟨nss, n, []⟩ = joinWith "::" (nss ++ [n]) := by
  apply String.toList_inj.1
  simp only [tnToCpp, List.isEmpty_nil, ite_true, String.toList_append, joinWith_toList, List.map_append, List.map_cons, List.map_nil, joinL_snoc]
  cases nss <;> simp [sep]

theorem lookupParam_none_of_index {tns : List String} {insts : List Typename} {n : String} (h : indexOf? n tns = none) :
    lookupParam tns insts n = none := by simp [lookupParam, h]

theorem pyIn_This_This : pyIn "This" "This" = true := by decide



theorem ne_This_of_pyIn {w : String} (h : pyIn "This" w = false) : w ≠ "This" := by
  intro e; subst e; simp [pyIn_This_This] at h


theorem isSub_after_sep (pat : List Char) (hne : pat ≠ []) (hc : ':' ∉ pat) (x : List Char) (hx : isSub pat x = false) :
    isSub pat (sep ++ x) = false := by
  have h1 := isSub_append_sepchar pat hne ':' hc [] (':' :: x)
  have h2 := isSub_append_sepchar pat hne ':' hc [] x
  have h0 : isSub pat [] = false := by cases pat with
    | nil => exact absurd rfl hne
    | cons p ps => simp [isSub]
  simp only [List.nil_append] at h1 h2
  simp [sep, h1, h2, h0, hx]

theorem pyReplace_scoped (T X new : String) (hT : noColon T = true) (hTne : T ≠ "") (hsub : pyIn T X = false) :
    pyReplace (joinWith "::" [T, X]) T new = new ++ "::" ++ X := by
  apply String.toList_inj.1
  have hne : T.toList ≠ [] := by intro h; apply hTne; exact String.toList_inj.1 (by simpa using h)
  have hl : (joinWith "::" [T, X]).toList = T.toList ++ (sep ++ X.toList) := by
    rw [joinWith_toList]; simp [joinL]
  have hsep : ("::" : String).toList = sep := by decide
  simp only [pyReplace, String.toList_ofList, hl, String.toList_append, hsep]
  rw [replaceAllL_prefix _ _ hne]
  rw [replaceAllL_absent _ _ _ _ (isSub_after_sep T.toList hne ((noColon_iff T).1 hT) X.toList hsub)]
  simp

theorem joinWith_scoped_tail (xs : List String) (a b : String) :
    joinWith "::" (xs ++ [a ++ "::" ++ b]) = joinWith "::" (xs ++ [a, b]) := by
  apply String.toList_inj.1
  have hsep : ("::" : String).toList = sep := by decide
  have : xs ++ [a, b] = (xs ++ [a]) ++ [b] := by simp
  rw [this]
  simp only [joinWith_toList, List.map_append, List.map_cons, List.map_nil, joinL_snoc, String.toList_append, hsep]
  cases xs <;> simp


theorem substScope_headOK (tns : List String) (insts : List Typename) (this : Option Typename) (nss : List String)
    (h : headOK tns nss = true) : substScope tns insts this nss = nss := by
  cases nss with
  | nil => rfl
  | cons a r =>
    simp only [headOK, Bool.and_eq_true, Bool.not_eq_true', bne_iff_ne, ne_eq] at h
    have hl : lookupParam tns insts a = none :=
      lookupParam_none_of_index (indexOf?_none_iff.2 (by simpa using h.1))
    have : (a == "This") = false := by simpa using h.2
    simp [substScope, hl, this]

mutual
  theorem closed_subst (tns : List String) (insts : List Typename) (this : Option Typename) :
      ∀ (t : CType), closedTy tns t = true → substType tns insts this t = t
    | .simple ⟨[], m, []⟩ q b, h => by
      simp only [closedTy, Bool.and_eq_true, Bool.not_eq_true', bne_iff_ne, ne_eq] at h
      have hl : lookupParam tns insts m = none :=
        lookupParam_none_of_index (indexOf?_none_iff.2 (by simpa using h.1))
      have : (m == "This") = false := by simpa using h.2
      simp [substType, hl, this]
    | .simple ⟨a :: r, m, is⟩ q b, h => by
      simp only [closedTy] at h
      simp [substType, substScope_headOK tns insts this _ h]
    | .simple ⟨[], m, i :: is⟩ q b, h => by
      simp [substType, substScope]
    | .templ nss m ps q, h => by
      simp only [closedTy, Bool.and_eq_true] at h
      simp [substType, substScope_headOK tns insts this _ h.1, closed_substs tns insts this ps h.2]
  theorem closed_substs (tns : List String) (insts : List Typename) (this : Option Typename) :
      ∀ (ps : List CType), closedTys tns ps = true → substTypes tns insts this ps = ps
    | [], _ => by simp [substTypes]
    | p :: ps, h => by
      simp only [closedTys, Bool.and_eq_true] at h
      simp [substTypes, closed_subst tns insts this p h.1, closed_substs tns insts this ps h.2]
end


theorem index_of_mem {tns : List String} {insts : List Typename} {m : String} (hlen : insts.length = tns.length)
    (h : m ∈ tns) : ∃ k i, indexOf? m tns = some k ∧ insts[k]? = some i := by
  cases hi : indexOf? m tns with
  | none => exact absurd h (indexOf?_none_iff.1 hi)
  | some k =>
    have hk : k < insts.length := by rw [hlen]; exact indexOf?_lt hi
    exact ⟨k, insts[k], rfl, by simp [hk]⟩

/-- on one first-level argument inside the guard, the code's rewriting is the substitution -/
theorem rewrite_one (tns : List String) (insts : List Typename) (this : Option Typename) (hlen : insts.length = tns.length)
    (p : CType) (h : firstLevelOK tns p = true) :
    (match indexOf? p.typename.name tns with
      | some k => (match insts[k]? with | some i => Except.ok (spliceInst p i) | none => Except.error Err.validation)
      | none => Except.ok p) = (Except.ok (substType tns insts this p) : Except Err CType) := by
  match p, h with
  | .simple ⟨[], m, []⟩ q b, h =>
    by_cases hm : m ∈ tns
    · obtain ⟨k, i, hk, hi⟩ := index_of_mem hlen hm
      obtain ⟨ins, inm, iis⟩ := i
      simp [CType.typename, hk, hi, spliceInst, substType, lookupParam]
    · have hi := indexOf?_none_iff.2 hm
      simp only [firstLevelOK, Bool.or_eq_true, List.contains_eq_mem, decide_eq_true_eq, hm, false_or, bne_iff_ne, ne_eq] at h
      have : (m == "This") = false := by simpa using h
      simp [CType.typename, hi, substType, lookupParam, this]
  | .simple ⟨a :: r, m, is⟩ q b, h =>
    simp only [firstLevelOK, Bool.and_eq_true, Bool.not_eq_true', List.contains_eq_mem, decide_eq_false_iff_not] at h
    simp [CType.typename, indexOf?_none_iff.2 h.1, substType, substScope_headOK tns insts this _ h.2]
  | .simple ⟨[], m, i :: is⟩ q b, h =>
    simp only [firstLevelOK, Bool.and_eq_true, Bool.not_eq_true', List.contains_eq_mem, decide_eq_false_iff_not] at h
    simp [CType.typename, indexOf?_none_iff.2 h.1, substType, substScope]
  | .templ nss m ps q, h =>
    simp only [firstLevelOK, Bool.and_eq_true, Bool.not_eq_true', List.contains_eq_mem, decide_eq_false_iff_not] at h
    simp [CType.typename, indexOf?_none_iff.2 h.1.1, substType, substScope_headOK tns insts this _ h.1.2,
      closed_substs tns insts this ps h.2]

theorem rewriteParams_agree (tns : List String) (insts : List Typename) (this : Option Typename) (hlen : insts.length = tns.length) :
    ∀ (ps : List CType), (∀ p ∈ ps, firstLevelOK tns p = true) →
      rewriteParams tns insts ps = .ok (substTypes tns insts this ps)
  | [], _ => by simp [rewriteParams, substTypes]
  | p :: ps, h => by
    have ih := rewriteParams_agree tns insts this hlen ps (fun p' hp' => h p' (by simp [hp']))
    have h1 := rewrite_one tns insts this hlen p (h p (by simp))
    simp only [rewriteParams, ih, substTypes]
    revert h1
    cases hidx : indexOf? p.typename.name tns with
    | none => intro h1; simp only [Except.ok.injEq] at h1; rw [← h1]
    | some k =>
      cases hk : insts[k]? with
      | none => intro h1; simp [hk] at h1
      | some i => intro h1; simp only [hk, Except.ok.injEq] at h1; simp only [hk]; rw [← h1]


end WrapModel.C02L
