/-
  Helper lemmas for the C18 proofs (bytes, little-endian loads/stores, loops, handle invariant).
  Core Lean only.
-/
import WrapModel.Model.Runtime.Mx

namespace WrapModel.Mx

/-! ## bytes -/

@[simp] theorem length_leBytes (k x : Nat) : (leBytes k x).length = k := by
  induction k generalizing x with
  | zero => rfl
  | succ k ih => simp [leBytes, ih]

theorem fromLE_leBytes (k x : Nat) : fromLE (leBytes k x) = x % 256 ^ k := by
  induction k generalizing x with
  | zero => simp [leBytes, fromLE, Nat.mod_one]
  | succ k ih =>
    simp only [leBytes, fromLE, ih, BitVec.toNat_ofNat]
    rw [show (2 : Nat) ^ 8 = 256 from rfl, Nat.pow_succ' (m := 256), Nat.mod_mul]

theorem fromLE_append (a b : List Byte) :
    fromLE (a ++ b) = fromLE a + 256 ^ a.length * fromLE b := by
  induction a with
  | nil => simp [fromLE]
  | cons x a ih =>
    simp only [List.cons_append, fromLE, ih, List.length_cons, Nat.pow_succ']
    rw [Nat.mul_add, Nat.mul_assoc, Nat.add_assoc]

theorem fromLE_replicate_zero (k : Nat) : fromLE (List.replicate k 0#8) = 0 := by
  induction k with
  | zero => rfl
  | succ k ih => simp [List.replicate_succ, fromLE, ih]

theorem writeBytes_mid (pre old post bs : List Byte) (off : Nat)
    (hpre : pre.length = off) (hold : old.length = bs.length) :
    writeBytes off bs (pre ++ old ++ post) = pre ++ bs ++ post := by
  unfold writeBytes
  have hlen : off + bs.length ≤ (pre ++ old ++ post).length := by
    simp [List.length_append]; omega
  rw [if_pos hlen]
  have h1 : List.take off (pre ++ old ++ post) = pre := by
    rw [List.append_assoc, List.take_left' hpre]
  have h2 : List.drop (off + bs.length) (pre ++ old ++ post) = post := by
    apply List.drop_left'
    simp [List.length_append]; omega
  rw [h1, h2]

theorem readBytes_mid (pre mid post : List Byte) (off len : Nat)
    (hpre : pre.length = off) (hmid : mid.length = len) :
    readBytes off len (pre ++ mid ++ post) = mid := by
  unfold readBytes
  rw [List.append_assoc, List.drop_left' hpre, List.take_left' hmid]

/-! ## scalars -/

theorem scalar_uint64 : scalar .uint64 =
    { classId := .uint64, m := 1, n := 1, complex := false, data := List.replicate 8 0#8 } := by
  rfl

theorem toCInt_of_lt {n : Nat} (h : n < 2 ^ 31) : toCInt n = (n : Int) := by
  unfold toCInt
  rw [BitVec.toInt_eq_toNat_cond, BitVec.toNat_ofNat]
  have : n % 2 ^ 32 = n := Nat.mod_eq_of_lt (by omega)
  rw [this, if_pos (by omega)]

theorem toSizeT_ofNat {n : Nat} (h : n < 2 ^ 64) : toSizeT (n : Int) = n := by
  unfold toSizeT
  rw [BitVec.toNat_ofInt]
  omega

/-- the payload after `*(T*)mxGetData(scalar(UINT64)) = value` with `sizeof(T) = k` -/
theorem storeAt0_scalar (k x : Nat) (hk : k ≤ 8) :
    storeAt0 (scalar .uint64) k x =
      { classId := .uint64, m := 1, n := 1, complex := false,
        data := leBytes k x ++ List.replicate (8 - k) 0#8 } := by
  rw [scalar_uint64]
  unfold storeAt0
  simp only
  have h := writeBytes_mid [] (List.replicate k 0#8) (List.replicate (8 - k) 0#8) (leBytes k x) 0
    rfl (by simp)
  have e : ([] : List Byte) ++ List.replicate k 0#8 ++ List.replicate (8 - k) 0#8
      = List.replicate 8 0#8 := by
    rw [List.nil_append, List.replicate_append_replicate]; congr 1; omega
  rw [e] at h
  rw [h]; simp

theorem loadU_scalar (k x : Nat) (hk : k ≤ 8) :
    loadU (leBytes k x ++ List.replicate (8 - k) 0#8) 0 8 = x % 256 ^ k := by
  unfold loadU
  have h := readBytes_mid [] (leBytes k x ++ List.replicate (8 - k) 0#8) [] 0 8 rfl
    (by simp; omega)
  simp only [List.nil_append, List.append_nil] at h
  rw [h, fromLE_append, fromLE_leBytes, fromLE_replicate_zero]
  simp

theorem checkScalar_1x1 (a : MxArray) (str : String) (hm : a.m = 1) (hn : a.n = 1) :
    checkScalar a str = .ok () := by
  unfold checkScalar mxGetM mxGetN
  rw [hm, hn]
  rfl



theorem myGetScalar_uint64 (F : FloatOps) (T : CType α) (a : MxArray) (h : a.classId = .uint64) :
    myGetScalar F T a = T.ofU64 (BitVec.ofNat 64 (loadU a.data 0 8)) := by
  unfold myGetScalar mxGetClassID
  rw [h]

/-- One lemma for all integer scalars: wrap as `k` bytes into `scalar(UINT64)`, read back. -/
theorem unwrap_storeAt0 (F : FloatOps) (T : CType α) (k x : Nat) (hk : k ≤ 8) (str : String) :
    (do checkScalar (storeAt0 (scalar .uint64) k x) str
        return myGetScalar F T (storeAt0 (scalar .uint64) k x) : Except MxError α)
      = .ok (T.ofU64 (BitVec.ofNat 64 (x % 256 ^ k))) := by
  rw [storeAt0_scalar k x hk, checkScalar_1x1 _ _ rfl rfl, myGetScalar_uint64 _ _ _ rfl]
  simp only [loadU_scalar k x hk]
  rfl


/-! ## strings -/

theorem getD_flatMap_pair (s : List Byte) (k : Nat) (hk : k < s.length) :
    (s.flatMap (fun b => [b, 0#8])).getD (2 * k) 0#8 = s[k] := by
  induction s generalizing k with
  | nil => simp at hk
  | cons x s ih =>
    cases k with
    | zero => simp [List.flatMap_cons]
    | succ k =>
      have : 2 * (k + 1) = (2 * k) + 1 + 1 := by omega
      rw [this]
      simp only [List.flatMap_cons, List.cons_append, List.nil_append, List.getD_cons_succ,
        List.getElem_cons_succ]
      exact ih k (by simpa using hk)

theorem takeWhile_idem (p : α → Bool) (l : List α) :
    (l.takeWhile p).takeWhile p = l.takeWhile p := by
  induction l with
  | nil => rfl
  | cons x l ih =>
    rw [List.takeWhile_cons]
    by_cases hp : p x = true
    · rw [if_pos hp, List.takeWhile_cons, if_pos hp, ih]
    · rw [if_neg hp]; rfl

theorem takeWhile_of_all (p : α → Bool) (l : List α) (h : l.all p = true) :
    l.takeWhile p = l := by
  induction l with
  | nil => rfl
  | cons x l ih =>
    simp only [List.all_cons, Bool.and_eq_true] at h
    rw [List.takeWhile_cons, if_pos h.1, ih h.2]

theorem cstr_idem (v : List Byte) : cstr (cstr v) = cstr v := takeWhile_idem _ v

theorem cstr_of_noNul (v : List Byte) (h : v.all (· != 0) = true) : cstr v = v := by
  exact takeWhile_of_all _ _ h

theorem mxArrayToString_mxCreateString (v : List Byte) :
    mxArrayToString (mxCreateString v) = some (cstr v) := by
  unfold mxArrayToString mxCreateString
  cases hc : cstr v with
  | nil => simp
  | cons c r =>
  rw [← hc]
  have hne : (cstr v).isEmpty = false := by simp [hc]
  simp only [beq_self_eq_true, if_true, hne, Bool.false_eq_true, if_false, Nat.one_mul]
  congr 1
  apply List.ext_getElem
  · simp
  · intro i h1 h2
    simp only [List.getElem_map, List.getElem_range]
    exact getD_flatMap_pair _ _ h2


/-! ## the `double*` view of a payload -/

/-- payload bytes of a list of doubles -/
def encodeD (ds : List CDouble) : List Byte := ds.flatMap (fun d => leBytes 8 d.toNat)

@[simp] theorem encodeD_nil : encodeD [] = [] := rfl
theorem encodeD_cons (d : CDouble) (ds : List CDouble) :
    encodeD (d :: ds) = leBytes 8 d.toNat ++ encodeD ds := by simp [encodeD]
theorem encodeD_append (a b : List CDouble) : encodeD (a ++ b) = encodeD a ++ encodeD b := by
  simp [encodeD]

@[simp] theorem length_encodeD (ds : List CDouble) : (encodeD ds).length = 8 * ds.length := by
  induction ds with
  | nil => rfl
  | cons d ds ih => rw [encodeD_cons, List.length_append, length_leBytes, ih, List.length_cons]; omega

theorem encodeD_replicate_zero (k : Nat) :
    encodeD (List.replicate k 0#64) = List.replicate (8 * k) 0#8 := by
  induction k with
  | zero => rfl
  | succ k ih =>
    rw [List.replicate_succ, encodeD_cons, ih, show 8 * (k + 1) = 8 + 8 * k by omega,
      ← List.replicate_append_replicate]
    rfl

theorem split_at (ds : List CDouble) (p : Nat) (hp : p < ds.length) :
    ds = ds.take p ++ ds[p] :: ds.drop (p + 1) := by
  rw [← List.drop_eq_getElem_cons hp, List.take_append_drop]

theorem storeDouble_encodeD (ds : List CDouble) (p : Nat) (x : CDouble) (hp : p < ds.length) :
    storeDouble (encodeD ds) p x = encodeD (ds.set p x) := by
  unfold storeDouble sizeofDouble
  rw [List.set_eq_take_append_cons_drop, if_pos hp]
  conv => lhs; rw [split_at ds p hp]
  rw [encodeD_append, encodeD_cons, encodeD_append, encodeD_cons, ← List.append_assoc,
    ← List.append_assoc]
  apply writeBytes_mid
  · simp; omega
  · simp

theorem loadDouble_encodeD (ds : List CDouble) (p : Nat) (hp : p < ds.length) :
    loadDouble (encodeD ds) p = ds[p] := by
  unfold loadDouble loadU sizeofDouble
  conv => lhs; rw [split_at ds p hp]
  rw [encodeD_append, encodeD_cons, ← List.append_assoc,
    readBytes_mid _ _ _ _ _ (by simp; omega) (by simp), fromLE_leBytes]
  apply BitVec.eq_of_toNat_eq
  simp
  omega

/-! ## loops -/

theorem loopUpTo_inv {σ : Type} (P : Nat → σ → Prop) (body : Nat → σ → σ) (s : σ) (n : Nat)
    (h0 : P 0 s) (hstep : ∀ k t, k < n → P k t → P (k + 1) (body k t)) :
    P n (loopUpTo n body s) := by
  suffices h : ∀ k, k ≤ n → P k (loopUpTo k body s) from h n (Nat.le_refl n)
  intro k
  induction k with
  | zero => intro _; exact h0
  | succ k ih => intro hk; exact hstep k _ (by omega) (ih (by omega))

/-! ## vectors -/

theorem forInt_ofNat {σ : Type} (n : Nat) (body : Nat → σ → σ) (s : σ) :
    forInt (n : Int) body s = loopUpTo n body s := by
  unfold forInt; rw [Int.toNat_natCast]

theorem wrapVector_eq (v : Vec) (h : FitsInt v.length) :
    wrapVector v =
      { classId := .double, m := v.length, n := 1, complex := false, data := encodeD v } := by
  unfold wrapVector
  simp only [toCInt_of_lt h, toSizeT_ofNat (show v.length < 2 ^ 64 by unfold FitsInt at h; omega),
    forInt_ofNat, mxCreateDoubleMatrix, mxCreateNumericMatrix, ClassId.elemSize, Nat.mul_one]
  congr 1
  have key := loopUpTo_inv
    (fun k data => ∃ L : List CDouble, data = encodeD L ∧ L.length = v.length ∧
      ∀ q, q < k → L[q]? = v[q]?)
    (fun i data => storeDouble data i (v.getD i 0)) (List.replicate (v.length * 8) 0#8) v.length
    ⟨List.replicate v.length 0#64, by rw [encodeD_replicate_zero, Nat.mul_comm], by simp,
      by intro q hq; omega⟩
    (by
      intro k t hk ⟨L, hL, hlen, hq⟩
      refine ⟨L.set k (v.getD k 0), ?_, by simpa using hlen, ?_⟩
      · rw [hL, storeDouble_encodeD _ _ _ (by omega)]
      · intro q hq'
        rw [List.getElem?_set]
        by_cases e : k = q
        · subst e
          simp [hlen, hk, List.getD_eq_getElem?_getD]
        · rw [if_neg e]; exact hq q (by omega))
  obtain ⟨L, hL, hlen, hq⟩ := key
  refine hL.trans ?_
  congr 1
  apply List.ext_getElem? 
  intro q
  by_cases hq' : q < v.length
  · exact hq q hq'
  · rw [List.getElem?_eq_none (by omega), List.getElem?_eq_none (by omega)]

theorem unwrapVector_encodeD (v : Vec) (c : Bool) (h : FitsInt v.length) :
    unwrapVector { classId := .double, m := v.length, n := 1, complex := c, data := encodeD v }
      = .ok v := by
  unfold unwrapVector
  simp only [mxGetM, mxGetN, mxIsDouble, toCInt_of_lt h, toCInt_of_lt (show (1:Nat) < 2 ^ 31 by decide),
    forInt_ofNat, Int.toNat_natCast]
  have key := loopUpTo_inv
    (fun k (st : Vec × Nat) => st.2 = k ∧ st.1.length = v.length ∧ ∀ q, q < k → st.1[q]? = v[q]?)
    (fun i (st : Vec × Nat) => (st.1.set i (loadDouble (encodeD v) st.2), st.2 + 1))
    (Vec.new v.length, 0) v.length
    ⟨rfl, by simp [Vec.new], by intro q hq; omega⟩
    (by
      intro k t hk ⟨hp, hlen, hq⟩
      refine ⟨by simp [hp], by simpa using hlen, ?_⟩
      intro q hq'
      simp only [List.getElem?_set]
      by_cases e : k = q
      · subst e
        rw [hp, loadDouble_encodeD _ _ hk]
        simp [hlen, hk]
      · rw [if_neg e]; exact hq q (by omega))
  obtain ⟨_, hlen, hq⟩ := key
  have hc : (((ClassId.double == ClassId.double) == false) || (((1 : Nat) : Int) != 1)) = false := by
    decide
  rw [hc]
  have hneg : ¬ ((v.length : Int) < 0) := by omega
  simp only [Bool.false_eq_true, if_false, hneg]
  congr 1
  apply List.ext_getElem?
  intro q
  by_cases hq' : q < v.length
  · exact hq q hq'
  · rw [List.getElem?_eq_none (by omega), List.getElem?_eq_none (by omega)]

/-! ## matrices -/

theorem mod_div_of_lt {i m : Nat} (j : Nat) (hi : i < m) :
    (i + j * m) % m = i ∧ (i + j * m) / m = j := by
  constructor
  · rw [Nat.add_mul_mod_self_right, Nat.mod_eq_of_lt hi]
  · rw [Nat.add_mul_div_right _ _ (by omega : 0 < m), Nat.div_eq_of_lt hi, Nat.zero_add]

theorem idx_inj {n a b a' b' : Nat} (hb : b < n) (hb' : b' < n)
    (h : a * n + b = a' * n + b') : a = a' ∧ b = b' := by
  have h1 := mod_div_of_lt a hb
  have h2 := mod_div_of_lt a' hb'
  rw [Nat.add_comm] at h1 h2
  rw [h] at h1
  exact ⟨h1.2.symm.trans h2.2, h1.1.symm.trans h2.1⟩

theorem idx_lt {i j m n : Nat} (hi : i < m) (hj : j < n) : i + j * m < n * m := by
  have : (j + 1) * m ≤ n * m := Nat.mul_le_mul_right m hj
  rw [Nat.succ_mul] at this
  omega

/-- the doubly nested loop of wrap_Matrix / unwrap<Matrix>: `P p` holds after `p` iterations -/
theorem nested_inv {σ : Type} (P : Nat → σ → Prop) (m n : Nat) (body : Nat → Nat → σ → σ) (s : σ)
    (h0 : P 0 s)
    (hstep : ∀ i j t, i < m → j < n → P (i + j * m) t → P (i + j * m + 1) (body j i t)) :
    P (n * m) (loopUpTo n (fun j st => loopUpTo m (fun i st => body j i st) st) s) := by
  apply loopUpTo_inv (fun j st => P (j * m) st)
  · rw [Nat.zero_mul]; exact h0
  · intro j t hj hP
    have := loopUpTo_inv (fun i st => P (i + j * m) st) (fun i st => body j i st) t m
      (by rw [Nat.zero_add]; exact hP)
      (by intro i t' hi hP'
          have := hstep i j t' hi hj hP'
          rw [show i + 1 + j * m = i + j * m + 1 by omega]; exact this)
    rw [Nat.succ_mul, Nat.add_comm]; exact this

/-- MATLAB's column-major payload of `A`: element `q` is `A(q % rows, q / rows)` -/
def colMajor (A : Mat) : List CDouble :=
  (List.range (A.cols * A.rows)).map (fun q => A.get (q % A.rows) (q / A.rows))

theorem wrapMatrix_eq (A : Mat) (hr : FitsInt A.rows) (hc : FitsInt A.cols) :
    wrapMatrix A =
      { classId := .double, m := A.rows, n := A.cols, complex := false,
        data := encodeD (colMajor A) } := by
  unfold wrapMatrix
  simp only [toCInt_of_lt hr, toCInt_of_lt hc,
    toSizeT_ofNat (show A.rows < 2 ^ 64 by unfold FitsInt at hr; omega),
    toSizeT_ofNat (show A.cols < 2 ^ 64 by unfold FitsInt at hc; omega),
    forInt_ofNat, mxCreateDoubleMatrix, mxCreateNumericMatrix, ClassId.elemSize]
  congr 1
  have key := nested_inv
    (fun p (st : List Byte × Nat) => st.2 = p ∧ ∃ L : List CDouble, st.1 = encodeD L ∧
      L.length = A.cols * A.rows ∧ ∀ q, q < p → L[q]? = some (A.get (q % A.rows) (q / A.rows)))
    A.rows A.cols
    (fun j i (st : List Byte × Nat) => (storeDouble st.1 st.2 (A.get i j), st.2 + 1))
    (List.replicate (A.rows * A.cols * 8) 0#8, 0)
    ⟨rfl, List.replicate (A.cols * A.rows) 0#64,
      by rw [encodeD_replicate_zero, Nat.mul_comm A.rows A.cols, Nat.mul_comm], by simp,
      by intro q hq; omega⟩
    (by
      intro i j t hi hj ⟨hp, L, hL, hlen, hq⟩
      have hlt := idx_lt hi hj
      refine ⟨by simp [hp], L.set (i + j * A.rows) (A.get i j), ?_, by simpa using hlen, ?_⟩
      · simp only [hp, hL]
        rw [storeDouble_encodeD _ _ _ (by omega)]
      · intro q hq'
        rw [List.getElem?_set]
        by_cases e : i + j * A.rows = q
        · subst e
          have := mod_div_of_lt j hi
          rw [if_pos rfl, this.1, this.2, if_pos (by omega)]
        · rw [if_neg e]; exact hq q (by omega))
  obtain ⟨_, L, hL, hlen, hq⟩ := key
  refine hL.trans ?_
  congr 1
  apply List.ext_getElem?
  intro q
  unfold colMajor
  by_cases hq' : q < A.cols * A.rows
  · rw [hq q hq']; simp [hq']
  · rw [List.getElem?_eq_none (by omega), List.getElem?_eq_none (by simp; omega)]

theorem getElem_colMajor (A : Mat) (i j : Nat) (hi : i < A.rows) (hj : j < A.cols) :
    (colMajor A)[i + j * A.rows]? = some (A.get i j) := by
  unfold colMajor
  have := mod_div_of_lt j hi
  have hlt := idx_lt hi hj
  simp [hlt, this.1, this.2]

theorem Mat.get_eq (A : Mat) (i j : Nat) : A.get i j = (A.elems[i * A.cols + j]?).getD 0 := by
  unfold Mat.get; rw [List.getD_eq_getElem?_getD]

theorem row_idx_lt {i j m n : Nat} (hi : i < m) (hj : j < n) : i * n + j < m * n := by
  have : (i + 1) * n ≤ m * n := Nat.mul_le_mul_right n hi
  rw [Nat.succ_mul] at this
  omega

/-- What `unwrap<Matrix>` computes from a double array whose payload is the list `L`. -/
theorem unwrapMatrix_encodeD (L : List CDouble) (m n : Nat) (c : Bool)
    (hm : FitsInt m) (hn : FitsInt n) (hL : L.length = n * m) :
    ∃ B : Mat, unwrapMatrix { classId := .double, m := m, n := n, complex := c, data := encodeD L }
        = .ok B ∧ B.rows = m ∧ B.cols = n ∧ B.elems.length = m * n ∧
        ∀ i j, i < m → j < n → B.elems[i * n + j]? = L[i + j * m]? := by
  unfold unwrapMatrix
  simp only [mxGetM, mxGetN, mxIsDouble, toCInt_of_lt hm, toCInt_of_lt hn, forInt_ofNat,
    Int.toNat_natCast]
  have hc : ((ClassId.double == ClassId.double) == false) = false := by decide
  rw [hc]
  simp only [Bool.false_eq_true, if_false]
  have key := nested_inv
    (fun p (st : Mat × Nat) => st.2 = p ∧ st.1.rows = m ∧ st.1.cols = n ∧
      st.1.elems.length = m * n ∧
      ∀ q, q < p → st.1.elems[(q % m) * n + q / m]? = L[q]?)
    m n
    (fun j i (st : Mat × Nat) => (st.1.set i j (loadDouble (encodeD L) st.2), st.2 + 1))
    (Mat.new m n, 0)
    ⟨rfl, rfl, rfl, by simp [Mat.new], by intro q hq; omega⟩
    (by
      intro i j t hi hj ⟨hp, hrows, hcols, hlen, hq⟩
      have hlt := idx_lt hi hj
      have hidx := row_idx_lt hi hj
      refine ⟨by simp [hp], by simp [Mat.set, hrows], by simp [Mat.set, hcols],
        by simp [Mat.set, hlen], ?_⟩
      intro q hq'
      simp only [Mat.set, hcols, hp]
      rw [List.getElem?_set, loadDouble_encodeD _ _ (by omega)]
      by_cases e : i * n + j = q % m * n + q / m
      · -- then q is the current position
        have hqm : q / m < n := by
          apply Nat.div_lt_of_lt_mul
          have := idx_lt hi hj
          rw [Nat.mul_comm]; omega
        have ⟨e1, e2⟩ := idx_inj hj hqm e
        have : q = i + j * m := by
          have := Nat.mod_add_div q m
          rw [← e1, ← e2, Nat.mul_comm] at this
          omega
        subst this
        rw [if_pos e, if_pos (by omega)]
        rw [List.getElem?_eq_getElem (by omega)]
      · rw [if_neg e]
        apply hq q
        -- q ≠ i + j*m, otherwise e would hold
        have : q ≠ i + j * m := by
          intro h
          apply e
          have := mod_div_of_lt j hi
          rw [h, this.1, this.2]
        omega)
  obtain ⟨_, hrows, hcols, hlen, hq⟩ := key
  refine ⟨_, rfl, hrows, hcols, hlen, ?_⟩
  intro i j hi hj
  have := hq (i + j * m) (idx_lt hi hj)
  have md := mod_div_of_lt j hi
  rw [md.1, md.2] at this
  exact this

/-- Extensionality for well-formed matrices. -/
theorem Mat.ext_get (A B : Mat) (hr : A.rows = B.rows) (hc : A.cols = B.cols)
    (hA : A.elems.length = A.rows * A.cols) (hB : B.elems.length = B.rows * B.cols)
    (h : ∀ i j, i < A.rows → j < A.cols →
      A.elems[i * A.cols + j]? = B.elems[i * A.cols + j]?) : A = B := by
  cases A with | mk ar ac ae =>
  cases B with | mk br bc be =>
  simp only at hr hc hA hB h
  subst hr hc
  congr 1
  apply List.ext_getElem?
  intro k
  by_cases hk : k < ar * ac
  · have hac : 0 < ac := by
      rcases Nat.eq_zero_or_pos ac with h0 | h0
      · rw [h0, Nat.mul_zero] at hk; omega
      · exact h0
    have h1 : k / ac < ar := Nat.div_lt_of_lt_mul (by rw [Nat.mul_comm]; exact hk)
    have h2 : k % ac < ac := Nat.mod_lt _ hac
    have := h (k / ac) (k % ac) h1 h2
    have e : k / ac * ac + k % ac = k := by
      have := Nat.div_add_mod k ac
      rw [Nat.mul_comm] at this; exact this
    rw [e] at this; exact this
  · rw [List.getElem?_eq_none (by omega), List.getElem?_eq_none (by omega)]

/-! ## error paths -/

theorem toCInt_eq_one_iff (n : Nat) : toCInt n = 1 ↔ n % 2 ^ 32 = 1 := by
  unfold toCInt
  rw [BitVec.toInt_eq_toNat_cond, BitVec.toNat_ofNat]
  have := Nat.mod_lt n (show 0 < 2 ^ 32 by decide)
  split <;> omega

theorem checkScalar_error (a : MxArray) (str : String)
    (h : ¬ (a.m % 2 ^ 32 = 1 ∧ a.n % 2 ^ 32 = 1)) :
    checkScalar a str = .error { id := "wrap: not a scalar in ", msg := str } := by
  unfold checkScalar mxGetM mxGetN
  have : (toCInt a.m != 1 || toCInt a.n != 1) = true := by
    rw [Bool.or_eq_true, bne_iff_ne, bne_iff_ne, Ne, Ne, toCInt_eq_one_iff, toCInt_eq_one_iff]
    omega
  simp only [this, if_true]

theorem not_scalar_mod {a : MxArray} (hm : a.m < 2 ^ 32) (hn : a.n < 2 ^ 32)
    (h : ¬ (a.m = 1 ∧ a.n = 1)) : ¬ (a.m % 2 ^ 32 = 1 ∧ a.n % 2 ^ 32 = 1) := by
  rw [Nat.mod_eq_of_lt hm, Nat.mod_eq_of_lt hn]; exact h

theorem unwrapVector_error (a : MxArray) (h : a.classId ≠ .double ∨ a.n % 2 ^ 32 ≠ 1) :
    unwrapVector a = error "unwrap<vector>: not a vector" := by
  unfold unwrapVector mxIsDouble mxGetN
  have : ((a.classId == ClassId.double) == false || toCInt a.n != 1) = true := by
    rw [Bool.or_eq_true, bne_iff_ne, Ne, toCInt_eq_one_iff]
    rcases h with h | h
    · left; simp [h]
    · right; exact h
  simp only [this, if_true]

theorem unwrapMatrix_error (a : MxArray) (h : a.classId ≠ .double) :
    unwrapMatrix a = error "unwrap<matrix>: not a matrix" := by
  unfold unwrapMatrix mxIsDouble
  have : ((a.classId == ClassId.double) == false) = true := by simp [h]
  simp only [this, if_true]

theorem unwrapString_error (a : MxArray) (h : a.classId ≠ .char) :
    unwrapString a = error "unwrap<string>: not a character array" := by
  unfold unwrapString mxArrayToString
  have : (a.classId == ClassId.char) = false := by simp [h]
  simp only [this]
  rfl

/-! ## round trips (used by Props/C18.lean) -/

theorem unwrapBool_wrapBool (F : FloatOps) (b : Bool) : unwrapBool F (wrapBool b) = .ok b := by
  cases b <;> rfl

theorem unwrapChar_wrapChar (F : FloatOps) (c : CChar) : unwrapChar F (wrapChar c) = .ok c := by
  unfold unwrapChar wrapChar
  rw [unwrap_storeAt0 F _ _ _ (by decide)]
  congr 1
  apply BitVec.eq_of_toNat_eq
  simp [CType.char, sizeofChar]
  omega

theorem unwrapUChar_wrapUChar (F : FloatOps) (c : CUChar) :
    unwrapUChar F (wrapUChar c) = .ok c := by
  unfold unwrapUChar wrapUChar
  rw [unwrap_storeAt0 F _ _ _ (by decide)]
  congr 1
  apply BitVec.eq_of_toNat_eq
  simp [CType.uchar, sizeofChar]
  omega

theorem unwrapInt_wrapInt (F : FloatOps) (c : CInt) : unwrapInt F (wrapInt c) = .ok c := by
  unfold unwrapInt wrapInt
  rw [unwrap_storeAt0 F _ _ _ (by decide)]
  congr 1
  apply BitVec.eq_of_toNat_eq
  simp [CType.int, sizeofInt]
  omega

theorem unwrapSizeT_wrapSizeT (F : FloatOps) (c : CSizeT) :
    unwrapSizeT F (wrapSizeT c) = .ok c := by
  unfold unwrapSizeT wrapSizeT
  rw [unwrap_storeAt0 F _ _ _ (by decide)]
  congr 1
  apply BitVec.eq_of_toNat_eq
  simp [CType.sizeT, sizeofSizeT]
  omega

theorem unwrapDouble_wrapDouble (F : FloatOps) (d : CDouble) :
    unwrapDouble F (wrapDouble d) = .ok d := by
  unfold unwrapDouble wrapDouble mxCreateDoubleScalar
  rw [checkScalar_1x1 _ _ rfl rfl]
  simp only [myGetScalar, mxGetClassID, mxGetScalar, CType.double]
  have h := readBytes_mid [] (leBytes 8 d.toNat) [] 0 8 rfl (by simp)
  simp only [List.nil_append, List.append_nil] at h
  simp only [loadU, h, fromLE_leBytes]
  show Except.ok (BitVec.ofNat 64 (BitVec.toNat d % 256 ^ 8)) = Except.ok d
  congr 1
  apply BitVec.eq_of_toNat_eq
  simp
  omega

theorem unwrapString_wrapString (v : CString) : unwrapString (wrapString v) = .ok (cstr v) := by
  unfold unwrapString wrapString
  rw [mxArrayToString_mxCreateString]
  simp only [cstr_idem]

theorem unwrapVector_wrapVector (v : Vec) (h : FitsInt v.length) :
    unwrapVector (wrapVector v) = .ok v := by
  rw [wrapVector_eq v h, unwrapVector_encodeD v false h]

theorem length_colMajor (A : Mat) : (colMajor A).length = A.cols * A.rows := by
  simp [colMajor]

theorem unwrapMatrix_wrapMatrix (A : Mat) (hwf : A.WF) (hr : FitsInt A.rows) (hc : FitsInt A.cols) :
    unwrapMatrix (wrapMatrix A) = .ok A := by
  rw [wrapMatrix_eq A hr hc]
  obtain ⟨B, hB, hrows, hcols, hlen, hget⟩ :=
    unwrapMatrix_encodeD (colMajor A) A.rows A.cols false hr hc (length_colMajor A)
  rw [hB]
  congr 1
  apply Mat.ext_get B A hrows hcols (by rw [hlen, hrows, hcols]) hwf
  intro i j hi hj
  rw [hrows] at hi; rw [hcols] at hj
  rw [hcols, hget i j hi hj, getElem_colMajor A i j hi hj]
  have hidx := row_idx_lt hi hj
  unfold Mat.WF at hwf
  rw [Mat.get, List.getD_eq_getElem?_getD, List.getElem?_eq_getElem (by omega)]
  rfl

/-- layout: element `i + j*m` (as a `double*` index) of the wrapped payload is `A(i,j)` -/
theorem loadDouble_wrapMatrix (A : Mat) (hr : FitsInt A.rows) (hc : FitsInt A.cols)
    (i j : Nat) (hi : i < A.rows) (hj : j < A.cols) :
    loadDouble (wrapMatrix A).data (i + j * A.rows) = A.get i j := by
  rw [wrapMatrix_eq A hr hc]
  have hlt := idx_lt hi hj
  have h := getElem_colMajor A i j hi hj
  have hlen := length_colMajor A
  rw [loadDouble_encodeD _ _ (by omega)]
  rw [List.getElem?_eq_getElem (by omega)] at h
  exact Option.some.inj h

/-! ## witnesses for the counterexample theorems -/

theorem cex_string :
    unwrapString (wrapString [0x61#8, 0x00#8, 0x62#8]) = .ok [0x61#8] := by decide

/-- a well-formed (empty) matrix with 2^31 rows -/
def tallEmptyMat : Mat := { rows := 2 ^ 31, cols := 0, elems := [] }

theorem cex_matrix :
    tallEmptyMat.WF ∧ unwrapMatrix (wrapMatrix tallEmptyMat) ≠ .ok tallEmptyMat := by decide

/-- a well-formed (empty) double array with 2^32+1 columns -/
def wideEmptyMx : MxArray :=
  { classId := .double, m := 0, n := 2 ^ 32 + 1, complex := false, data := [] }

theorem cex_vector_err : wideEmptyMx.WF ∧ wideEmptyMx.n ≠ 1 ∧ unwrapVector wideEmptyMx = .ok [] := by
  decide

theorem checkScalar_ok_of_mod (a : MxArray) (str : String)
    (hm : a.m % 2 ^ 32 = 1) (hn : a.n % 2 ^ 32 = 1) : checkScalar a str = .ok () := by
  unfold checkScalar mxGetM mxGetN
  have : (toCInt a.m != 1 || toCInt a.n != 1) = false := by
    rw [Bool.or_eq_false_iff]
    constructor <;> simp [toCInt_eq_one_iff, hm, hn]
  simp only [this]
  rfl

/-- a well-formed uint64 column with `k` rows, every byte equal to `b` -/
def constColumn (k : Nat) (b : Byte) : MxArray :=
  { classId := .uint64, m := k, n := 1, complex := false, data := List.replicate (k * 1 * 8) b }

theorem constColumn_wf (k : Nat) (b : Byte) : (constColumn k b).WF := by
  simp [constColumn, MxArray.WF, ClassId.elemSize]

theorem loadU_constColumn (k : Nat) (b : Byte) (hk : 1 ≤ k) :
    loadU (constColumn k b).data 0 8 = fromLE (List.replicate 8 b) := by
  unfold loadU readBytes constColumn
  simp only [List.drop_zero, List.take_replicate]
  congr 2
  omega

/-- `unwrap<int>` of a (2^32+1)×1 uint64 array returns a value instead of an error -/
theorem unwrapInt_hugeColumn (F : FloatOps) (k : Nat) (hk : k = 2 ^ 32 + 1) :
    unwrapInt F (constColumn k 0x07#8) = .ok 0x07070707#32 := by
  unfold unwrapInt
  have hm : (constColumn k 0x07#8).m % 2 ^ 32 = 1 := by
    show k % 2 ^ 32 = 1
    rw [hk]
  rw [checkScalar_ok_of_mod _ _ hm rfl, myGetScalar_uint64 _ _ _ rfl,
    loadU_constColumn k _ (by omega)]
  show Except.ok (BitVec.setWidth 32 (BitVec.ofNat 64 (fromLE (List.replicate 8 7#8)))) = _
  congr 1

theorem unwrapVector_wrapVector_huge (v : Vec) (h : v.length = 2 ^ 31) :
    unwrapVector (wrapVector v) ≠ .ok v := by
  have hm : (wrapVector v).m = toSizeT (toCInt v.length) := rfl
  have hn : (wrapVector v).n = 1 := rfl
  have hc : (wrapVector v).classId = .double := rfl
  unfold unwrapVector mxGetM mxGetN mxIsDouble
  rw [hm, hn, hc, h]
  have e1 : toCInt (toSizeT (toCInt (2 ^ 31))) = -2147483648 := by decide
  rw [e1]
  have e2 : ((ClassId.double == ClassId.double) == false || toCInt 1 != 1) = false := by decide
  simp only [e2]
  intro hh
  have hneg : ((-2147483648 : Int) < 0) := by decide
  simp only [Bool.false_eq_true, if_false, hneg, if_true] at hh
  cases hh

/-! ## handles: list utilities -/

theorem getD_modify (l : List Obj) (i j : Nat) (f : Obj → Obj) (d : Obj) :
    (l.modify i f).getD j d = if i = j ∧ j < l.length then f (l.getD j d) else l.getD j d := by
  rw [List.getD_eq_getElem?_getD, List.getD_eq_getElem?_getD, List.getElem?_modify]
  by_cases hj : j < l.length
  · rw [List.getElem?_eq_getElem hj]
    by_cases e : i = j <;> simp [e, hj]
  · rw [List.getElem?_eq_none (by omega)]
    simp [hj]

theorem getD_append_singleton (l : List Obj) (x d : Obj) (j : Nat) :
    (l ++ [x]).getD j d = if j < l.length then l.getD j d else if j = l.length then x else d := by
  rw [List.getD_eq_getElem?_getD, List.getD_eq_getElem?_getD, List.getElem?_append]
  by_cases hj : j < l.length
  · simp [hj]
  · simp only [hj, if_false]
    by_cases e : j = l.length
    · simp [e]
    · rw [if_neg e, List.getElem?_eq_none (by simp; omega)]; rfl

theorem lookup_of_mem_nodup {β : Type} (l : List (Nat × β)) (k : Nat) (v : β)
    (hnd : (l.map Prod.fst).Nodup) (hmem : (k, v) ∈ l) : l.lookup k = some v := by
  induction l with
  | nil => simp at hmem
  | cons x l ih =>
    obtain ⟨k', v'⟩ := x
    rw [List.map_cons, List.nodup_cons] at hnd
    rw [List.lookup_cons]
    rcases List.mem_cons.mp hmem with h | h
    · cases h; simp
    · have hne : k ≠ k' := by
        intro e; subst e
        exact hnd.1 (List.mem_map.mpr ⟨(k, v), h, rfl⟩)
      have : (k == k') = false := by simp [hne]
      rw [this]
      exact ih hnd.2 h

theorem lookup_none_of_not_mem {β : Type} (l : List (Nat × β)) (k : Nat)
    (h : k ∉ l.map Prod.fst) : l.lookup k = none := by
  induction l with
  | nil => rfl
  | cons x l ih =>
    obtain ⟨k', v'⟩ := x
    simp only [List.map_cons, List.mem_cons, not_or] at h
    rw [List.lookup_cons]
    have : (k == k') = false := by simp [h.1]
    rw [this]; exact ih h.2

theorem mem_of_lookup {β : Type} (l : List (Nat × β)) (k : Nat) (v : β)
    (h : l.lookup k = some v) : (k, v) ∈ l := by
  induction l with
  | nil => simp at h
  | cons x l ih =>
    obtain ⟨k', v'⟩ := x
    rw [List.lookup_cons] at h
    by_cases e : k = k'
    · subst e; simp at h; subst h; exact List.mem_cons_self
    · have : (k == k') = false := by simp [e]
      rw [this] at h
      exact List.mem_cons_of_mem _ (ih h)

/-- removing the unique cell with address `a` lowers exactly the count of its object -/
theorem countP_filter_addr (cells : List (Nat × Nat)) (a : Nat) (o o' : Nat)
    (hnd : (cells.map Prod.fst).Nodup) (hmem : (a, o) ∈ cells) :
    (cells.filter (fun c => c.1 != a)).countP (fun c => c.2 == o') + (if o = o' then 1 else 0)
      = cells.countP (fun c => c.2 == o') := by
  induction cells with
  | nil => simp at hmem
  | cons x cells ih =>
    obtain ⟨a', o''⟩ := x
    rw [List.map_cons, List.nodup_cons] at hnd
    rcases List.mem_cons.mp hmem with h | h
    · cases h
      have hnot : ∀ c ∈ cells, (c.1 != a) = true := by
        intro c hc
        simp only [bne_iff_ne, ne_eq]
        intro e
        exact hnd.1 (List.mem_map.mpr ⟨c, hc, e⟩)
      rw [List.filter_cons]
      simp only [bne_self_eq_false, Bool.false_eq_true, if_false]
      rw [List.filter_eq_self.mpr hnot, List.countP_cons]
      simp
    · have hne : a' ≠ a := by
        intro e; subst e
        exact hnd.1 (List.mem_map.mpr ⟨(a', o), h, rfl⟩)
      rw [List.filter_cons]
      have : ((a', o'').1 != a) = true := by simp [hne]
      rw [if_pos this, List.countP_cons, List.countP_cons, ← ih hnd.2 h]
      omega

/-! ## handles: pointer arrays -/

theorem ptrMx_eq (a : Nat) :
    ptrMx a = { classId := .uint64, m := 1, n := 1, complex := false, data := leBytes 8 a } := by
  have := storeAt0_scalar 8 a (by decide)
  simp only [Nat.sub_self, List.replicate_zero, List.append_nil] at this
  exact this

/-- the pointer stored in a property array -/
def addrOf (mx : MxArray) : Nat := loadU mx.data 0 8

theorem addrOf_ptrMx (a : Nat) (h : a < 2 ^ 64) : addrOf (ptrMx a) = a := by
  rw [ptrMx_eq]
  unfold addrOf
  have := loadU_scalar 8 a (by decide)
  simp only [Nat.sub_self, List.replicate_zero, List.append_nil] at this
  rw [this]
  exact Nat.mod_eq_of_lt h

theorem ptrMx_inj (a b : Nat) (ha : a < 2 ^ 64) (hb : b < 2 ^ 64) (h : ptrMx a = ptrMx b) :
    a = b := by
  rw [← addrOf_ptrMx a ha, ← addrOf_ptrMx b hb, h]

theorem create_object_eq (s : HState) (p : Nat) (origin : Option Nat) :
    create_object s p origin =
      ({ s with
          collector := if s.collector.contains (addrOf (ptrMx p)) then s.collector
                       else s.collector ++ [addrOf (ptrMx p)],
          handles := s.handles ++ [(s.nextHandle, { prop := ptrMx p, origin := origin })],
          nextHandle := s.nextHandle + 1 }, s.nextHandle) := by
  unfold create_object
  have hkey : ((storeAt0 (mxCreateNumericMatrix 1 1 .uint64) 8 ptr_constructor_key).classId == .uint64
      && loadU (storeAt0 (mxCreateNumericMatrix 1 1 .uint64) 8 ptr_constructor_key).data 0 8
          == 5139824614673773682) = true := by decide
  simp only [hkey, if_true]
  rfl

/-! ## handles: the invariant -/

/-- Invariant of every reachable handle state. -/
structure Inv (s : HState) : Prop where
  /-- strong count = live heap cells designating the object + external owners -/
  count_eq : ∀ o, s.count o = s.cellsTo o + s.ext o
  /-- the destructor has not run iff the count is positive -/
  alive_iff : ∀ o, s.alive o = true ↔ 0 < s.count o
  addr_lt : ∀ c ∈ s.cells, c.1 < s.nextAddr
  next_le : s.nextAddr ≤ 2 ^ 64
  addr_nodup : (s.cells.map Prod.fst).Nodup
  /-- the collector holds exactly the live heap cells -/
  collector_eq : s.collector = s.cells.map Prod.fst
  hid_lt : ∀ p ∈ s.handles, p.1 < s.nextHandle
  hid_nodup : (s.handles.map Prod.fst).Nodup
  /-- a handle made by `wrap_shared_ptr` for `o` stores the address of a live cell designating `o` -/
  wrapped_cell : ∀ p ∈ s.handles, ∀ o, p.2.origin = some o →
    ∃ a, p.2.prop = ptrMx a ∧ (a, o) ∈ s.cells
  /-- every live cell is owned by a handle -/
  cell_wrapped : ∀ c ∈ s.cells, ∃ p ∈ s.handles, p.2.origin = some c.2 ∧ p.2.prop = ptrMx c.1
  /-- two wrapped handles never share a cell -/
  wrapped_inj : ∀ p ∈ s.handles, ∀ q ∈ s.handles, ∀ a, p.2.origin.isSome → q.2.origin.isSome →
    p.2.prop = ptrMx a → q.2.prop = ptrMx a → p.1 = q.1
  /-- a forged handle never passes the checks of `unwrap_shared_ptr` -/
  forged_rejected : ∀ p ∈ s.handles, p.2.origin = none →
    (mxGetClassID p.2.prop != mxUINT32OR64_CLASS || mxIsComplex p.2.prop
      || mxGetM p.2.prop != 1 || mxGetN p.2.prop != 1) = true

theorem Inv.init : Inv HState.init := by
  constructor <;> simp [HState.init, HState.count, HState.cellsTo, HState.ext, HState.alive, heapBase]

theorem Inv.cell_addr_lt {s : HState} (I : Inv s) {c : Nat × Nat} (h : c ∈ s.cells) :
    c.1 < 2 ^ 64 := by
  have := I.addr_lt c h; have := I.next_le; omega

/-- objects that do not exist have no owners -/
theorem Inv.valid_of_ext {s : HState} {o : Nat} (h : s.ext o ≠ 0) : o < s.objs.length := by
  unfold HState.ext at h
  rw [List.getD_eq_getElem?_getD] at h
  by_cases ho : o < s.objs.length
  · exact ho
  · rw [List.getElem?_eq_none (by omega)] at h; simp at h

theorem Inv.valid_of_count {s : HState} {o : Nat} (h : s.count o ≠ 0) : o < s.objs.length := by
  unfold HState.count at h
  rw [List.getD_eq_getElem?_getD] at h
  by_cases ho : o < s.objs.length
  · exact ho
  · rw [List.getElem?_eq_none (by omega)] at h; simp at h

/-! ### accessor lemmas for the state updates -/

theorem count_incr (s : HState) (o o' : Nat) (ho : o < s.objs.length) :
    (s.incr o).count o' = s.count o' + (if o = o' then 1 else 0) := by
  unfold HState.incr HState.count
  simp only [getD_modify]
  by_cases e : o = o'
  · subst e; simp [ho]
  · simp [e]

theorem alive_incr (s : HState) (o o' : Nat) : (s.incr o).alive o' = s.alive o' := by
  unfold HState.incr HState.alive
  simp only [getD_modify]
  split <;> rfl

theorem ext_incr (s : HState) (o o' : Nat) : (s.incr o).ext o' = s.ext o' := by
  unfold HState.incr HState.ext
  simp only [getD_modify]
  split <;> rfl

theorem count_decr (s : HState) (o o' : Nat) :
    (s.decr o).count o' = s.count o' - (if o = o' then 1 else 0) := by
  unfold HState.decr HState.count
  simp only [getD_modify]
  by_cases e : o = o'
  · subst e
    by_cases ho : o < s.objs.length
    · simp [ho]
    · simp only [ho, and_false, if_false, if_true]
      rw [List.getD_eq_getElem?_getD, List.getElem?_eq_none (by omega)]; rfl
  · simp [e]

theorem alive_decr (s : HState) (o o' : Nat) :
    (s.decr o).alive o' =
      if o = o' then (if s.count o - 1 = 0 then false else s.alive o) else s.alive o' := by
  unfold HState.decr HState.alive HState.count
  simp only [getD_modify]
  by_cases e : o = o'
  · subst e
    by_cases ho : o < s.objs.length
    · simp [ho]
    · simp only [ho, and_false, if_false, if_true]
      rw [List.getD_eq_getElem?_getD, List.getElem?_eq_none (by omega)]; rfl
  · simp [e]

theorem ext_decr (s : HState) (o o' : Nat) : (s.decr o).ext o' = s.ext o' := by
  unfold HState.decr HState.ext
  simp only [getD_modify]
  split <;> rfl

theorem count_of_ge (s : HState) (o : Nat) (h : s.objs.length ≤ o) : s.count o = 0 := by
  unfold HState.count; rw [List.getD_eq_getElem?_getD, List.getElem?_eq_none h]; rfl
theorem ext_of_ge (s : HState) (o : Nat) (h : s.objs.length ≤ o) : s.ext o = 0 := by
  unfold HState.ext; rw [List.getD_eq_getElem?_getD, List.getElem?_eq_none h]; rfl
theorem alive_of_ge (s : HState) (o : Nat) (h : s.objs.length ≤ o) : s.alive o = false := by
  unfold HState.alive; rw [List.getD_eq_getElem?_getD, List.getElem?_eq_none h]; rfl

/-- `std::make_shared<Class>()` -/
def HState.addObject (s : HState) : HState :=
  { s with objs := s.objs ++ [{ count := 1, alive := true, ext := 1 }] }

theorem Inv.addObject {s : HState} (I : Inv s) : Inv s.addObject := by
  have hc : ∀ o, s.addObject.count o =
      if o < s.objs.length then s.count o else if o = s.objs.length then 1 else 0 := by
    intro o; unfold HState.addObject HState.count; simp only [getD_append_singleton]
    split
    · rfl
    · split <;> rfl
  have he : ∀ o, s.addObject.ext o =
      if o < s.objs.length then s.ext o else if o = s.objs.length then 1 else 0 := by
    intro o; unfold HState.addObject HState.ext; simp only [getD_append_singleton]
    split
    · rfl
    · split <;> rfl
  have ha : ∀ o, s.addObject.alive o =
      if o < s.objs.length then s.alive o else if o = s.objs.length then true else false := by
    intro o; unfold HState.addObject HState.alive; simp only [getD_append_singleton]
    split
    · rfl
    · split <;> rfl
  have hcells : ∀ o, s.addObject.cellsTo o = s.cellsTo o := fun _ => rfl
  refine ⟨?_, ?_, I.addr_lt, I.next_le, I.addr_nodup, I.collector_eq, I.hid_lt, I.hid_nodup,
    I.wrapped_cell, I.cell_wrapped, I.wrapped_inj, I.forged_rejected⟩
  · intro o
    rw [hc, he, hcells]
    by_cases h1 : o < s.objs.length
    · simp only [h1, if_true]; exact I.count_eq o
    · have h0 := I.count_eq o
      rw [count_of_ge s o (by omega), ext_of_ge s o (by omega)] at h0
      simp only [h1, if_false]
      split <;> omega
  · intro o
    rw [hc, ha]
    by_cases h1 : o < s.objs.length
    · simp only [h1, if_true]; exact I.alive_iff o
    · simp only [h1, if_false]
      split <;> simp

/-- the state after a successful `wrap_shared_ptr(sp_o, …)` -/
def HState.afterWrap (s : HState) (o : Nat) : HState :=
  { objs := (s.incr o).objs,
    cells := s.cells ++ [(s.nextAddr, o)],
    nextAddr := s.nextAddr + heapStep,
    collector := s.collector ++ [s.nextAddr],
    handles := s.handles ++ [(s.nextHandle, { prop := ptrMx s.nextAddr, origin := some o })],
    nextHandle := s.nextHandle + 1 }

theorem wrap_shared_ptr_eq {s : HState} (I : Inv s) (o : Nat) (h1 : s.ext o ≠ 0)
    (h2 : s.nextAddr + heapStep ≤ 2 ^ 64) :
    wrap_shared_ptr s o = .ok (s.afterWrap o, .handle s.nextHandle) := by
  unfold wrap_shared_ptr
  rw [if_neg h1, if_neg (by omega)]
  simp only [create_object_eq]
  have ha : addrOf (ptrMx s.nextAddr) = s.nextAddr :=
    addrOf_ptrMx _ (by unfold heapStep at h2; omega)
  have hnc : (s.incr o).collector.contains s.nextAddr = false := by
    rw [Bool.eq_false_iff]
    intro hc
    rw [List.contains_iff_mem] at hc
    have : s.nextAddr ∈ s.cells.map Prod.fst := by rw [← I.collector_eq]; exact hc
    obtain ⟨c, hc1, hc2⟩ := List.mem_map.mp this
    have := I.addr_lt c hc1
    omega
  simp only [ha, hnc]
  rfl

theorem Inv.afterWrap {s : HState} (I : Inv s) (o : Nat) (h1 : s.ext o ≠ 0)
    (h2 : s.nextAddr + heapStep ≤ 2 ^ 64) : Inv (s.afterWrap o) := by
  have ho : o < s.objs.length := Inv.valid_of_ext h1
  have hc : ∀ o', (s.afterWrap o).count o' = s.count o' + (if o = o' then 1 else 0) :=
    fun o' => count_incr s o o' ho
  have he : ∀ o', (s.afterWrap o).ext o' = s.ext o' := fun o' => ext_incr s o o'
  have ha : ∀ o', (s.afterWrap o).alive o' = s.alive o' := fun o' => alive_incr s o o'
  have hcells : ∀ o', (s.afterWrap o).cellsTo o' = s.cellsTo o' + (if o = o' then 1 else 0) := by
    intro o'
    unfold HState.afterWrap HState.cellsTo
    simp only [List.countP_append, List.countP_cons, List.countP_nil, beq_iff_eq, Nat.zero_add]
  have hstep : 0 < heapStep := by decide
  constructor
  · intro o'; rw [hc, he, hcells, I.count_eq o']; omega
  · intro o'
    rw [hc, ha, I.alive_iff o']
    by_cases e : o = o'
    · subst e
      have := I.count_eq o
      simp only [if_true]
      omega
    · simp [e]
  · intro c hcm
    show c.1 < s.nextAddr + heapStep
    rcases List.mem_append.mp hcm with h | h
    · have := I.addr_lt c h; omega
    · simp only [List.mem_singleton] at h; subst h; simp only; omega
  · exact h2
  · show ((s.cells ++ [(s.nextAddr, o)]).map Prod.fst).Nodup
    rw [List.map_append, List.nodup_append]
    refine ⟨I.addr_nodup, by simp, ?_⟩
    intro a ha' b hb
    simp only [List.map_cons, List.map_nil, List.mem_singleton] at hb
    subst hb
    obtain ⟨c, hc1, hc2⟩ := List.mem_map.mp ha'
    have := I.addr_lt c hc1
    omega
  · show s.collector ++ [s.nextAddr] = (s.cells ++ [(s.nextAddr, o)]).map Prod.fst
    rw [List.map_append, I.collector_eq]; rfl
  · intro p hp
    show p.1 < s.nextHandle + 1
    rcases List.mem_append.mp hp with h | h
    · have := I.hid_lt p h; omega
    · simp only [List.mem_singleton] at h; subst h; simp
  · show ((s.handles ++ [(s.nextHandle, _)]).map Prod.fst).Nodup
    rw [List.map_append, List.nodup_append]
    refine ⟨I.hid_nodup, by simp, ?_⟩
    intro a ha' b hb
    simp only [List.map_cons, List.map_nil, List.mem_singleton] at hb
    subst hb
    obtain ⟨c, hc1, hc2⟩ := List.mem_map.mp ha'
    have := I.hid_lt c hc1
    omega
  · intro p hp o' hor
    show ∃ a, p.2.prop = ptrMx a ∧ (a, o') ∈ s.cells ++ [(s.nextAddr, o)]
    rcases List.mem_append.mp hp with h | h
    · obtain ⟨a, e1, e2⟩ := I.wrapped_cell p h o' hor
      exact ⟨a, e1, List.mem_append_left _ e2⟩
    · simp only [List.mem_singleton] at h; subst h
      simp only [Option.some.injEq] at hor; subst hor
      exact ⟨s.nextAddr, rfl, List.mem_append_right _ (List.mem_singleton.mpr rfl)⟩
  · intro c hcm
    show ∃ p ∈ s.handles ++ [(s.nextHandle, _)], _
    rcases List.mem_append.mp hcm with h | h
    · obtain ⟨p, hp, e1, e2⟩ := I.cell_wrapped c h
      exact ⟨p, List.mem_append_left _ hp, e1, e2⟩
    · simp only [List.mem_singleton] at h; subst h
      exact ⟨_, List.mem_append_right _ (List.mem_singleton.mpr rfl), rfl, rfl⟩
  · intro p hp q hq a hpo hqo hpa hqa
    have hnew : s.nextAddr < 2 ^ 64 := by omega
    -- an old wrapped handle never stores the fresh address
    have hold : ∀ r ∈ s.handles, r.2.origin.isSome → r.2.prop ≠ ptrMx s.nextAddr := by
      intro r hr hro hra
      obtain ⟨o', ho'⟩ := Option.isSome_iff_exists.mp hro
      obtain ⟨a', e1, e2⟩ := I.wrapped_cell r hr o' ho'
      have hlt := I.addr_lt _ e2
      have := ptrMx_inj a' s.nextAddr (I.cell_addr_lt e2) hnew (e1.symm.trans hra)
      simp only at hlt
      omega
    rcases List.mem_append.mp hp with h | h <;> rcases List.mem_append.mp hq with h' | h'
    · exact I.wrapped_inj p h q h' a hpo hqo hpa hqa
    · simp only [List.mem_singleton] at h'; subst h'
      simp only at hqa
      exact absurd (hpa.trans hqa.symm) (hold p h hpo)
    · simp only [List.mem_singleton] at h; subst h
      simp only at hpa
      exact absurd (hqa.trans hpa.symm) (hold q h' hqo)
    · simp only [List.mem_singleton] at h h'; subst h; subst h'; rfl
  · intro p hp hor
    rcases List.mem_append.mp hp with h | h
    · exact I.forged_rejected p h hor
    · simp only [List.mem_singleton] at h; subst h; simp at hor

theorem modify_eq_self (l : List Obj) (i : Nat) (f : Obj → Obj)
    (h : ∀ x, l[i]? = some x → f x = x) : l.modify i f = l := by
  apply List.ext_getElem?
  intro j
  rw [List.getElem?_modify]
  by_cases e : i = j
  · subst e
    cases hx : l[i]? with
    | none => rfl
    | some x => simp [h x hx]
  · simp [e]

/-- a temporary copy of a `shared_ptr` to an object that is kept alive by someone else leaves
    the state unchanged -/
theorem decr_incr (s : HState) (o : Nat) (h : 0 < s.count o) : (s.incr o).decr o = s := by
  have ho : o < s.objs.length := Inv.valid_of_count (by omega)
  cases s with | mk objs cells nextAddr collector handles nextHandle =>
  unfold HState.incr HState.decr
  simp only
  congr 1
  rw [List.modify_modify_eq]
  apply modify_eq_self
  intro x hx
  have hcx : x.count = (objs.getD o ⟨0, false, 0⟩).count := by
    rw [List.getD_eq_getElem?_getD, hx]; rfl
  have : 0 < x.count := by rw [hcx]; exact h
  cases x with | mk c a e =>
  simp only at this
  simp only [Function.comp, Nat.add_sub_cancel]
  have : c ≠ 0 := by omega
  simp [this]

/-- the checks of `unwrap_shared_ptr` pass on a pointer array -/
theorem ptrMx_checks (a : Nat) :
    (mxGetClassID (ptrMx a) != mxUINT32OR64_CLASS || mxIsComplex (ptrMx a)
      || mxGetM (ptrMx a) != 1 || mxGetN (ptrMx a) != 1) = false := by
  rw [ptrMx_eq]; rfl

theorem unwrap_shared_ptr_wrapped {s : HState} (I : Inv s) (h : Nat) (ho : HandleObj) (o : Nat)
    (hmem : (h, ho) ∈ s.handles) (hor : ho.origin = some o) :
    unwrap_shared_ptr s h = .ok (s, .obj o) := by
  obtain ⟨a, hprop, hcell⟩ := I.wrapped_cell (h, ho) hmem o hor
  unfold unwrap_shared_ptr HState.handle?
  rw [lookup_of_mem_nodup _ _ _ I.hid_nodup hmem]
  simp only
  simp only at hprop
  rw [hprop, ptrMx_checks]
  simp only [Bool.false_eq_true, if_false]
  have ha : loadU (ptrMx a).data 0 8 = a := addrOf_ptrMx a (I.cell_addr_lt hcell)
  rw [ha]
  unfold HState.cell?
  rw [lookup_of_mem_nodup _ _ _ I.addr_nodup hcell]
  simp only
  have hpos : 0 < s.count o := by
    have := I.count_eq o
    have : 0 < s.cellsTo o := by
      unfold HState.cellsTo
      apply List.countP_pos_iff.mpr
      exact ⟨(a, o), hcell, by simp⟩
    omega
  rw [decr_incr s o hpos]

/-- the state after MATLAB deleted wrapped handle `h` (cell address `a`, object `o`) -/
def HState.afterRelease (s : HState) (h a o : Nat) : HState :=
  { objs := (s.decr o).objs,
    cells := s.cells.filter (fun c => c.1 != a),
    nextAddr := s.nextAddr,
    collector := s.collector.filter (· != a),
    handles := s.handles.filter (fun p => p.1 != h),
    nextHandle := s.nextHandle }

theorem destructorCall_eq {s : HState} (I : Inv s) (a o : Nat) (hcell : (a, o) ∈ s.cells) :
    destructorCall s (ptrMx a) =
      .ok { objs := (s.decr o).objs, cells := s.cells.filter (fun c => c.1 != a),
            nextAddr := s.nextAddr, collector := s.collector.filter (· != a),
            handles := s.handles, nextHandle := s.nextHandle } := by
  unfold destructorCall
  have ha : loadU (ptrMx a).data 0 8 = a := addrOf_ptrMx a (I.cell_addr_lt hcell)
  simp only [ha]
  unfold HState.cell?
  simp only
  rw [lookup_of_mem_nodup _ _ _ I.addr_nodup hcell]
  rfl

theorem release_eq {s : HState} (I : Inv s) (h : Nat) (ho : HandleObj) (a o : Nat)
    (hmem : (h, ho) ∈ s.handles) (hor : ho.origin = some o) (hprop : ho.prop = ptrMx a)
    (hcell : (a, o) ∈ s.cells) :
    release s h = .ok (s.afterRelease h a o, .unit) := by
  unfold release HState.handle?
  rw [lookup_of_mem_nodup _ _ _ I.hid_nodup hmem]
  simp only [hor, Option.isNone_some, Bool.false_eq_true, if_false, hprop]
  rw [destructorCall_eq I a o hcell]
  rfl

theorem Inv.afterRelease {s : HState} (I : Inv s) (h : Nat) (ho : HandleObj) (a o : Nat)
    (hmem : (h, ho) ∈ s.handles) (hor : ho.origin = some o) (hprop : ho.prop = ptrMx a)
    (hcell : (a, o) ∈ s.cells) : Inv (s.afterRelease h a o) := by
  have hc : ∀ o', (s.afterRelease h a o).count o' = s.count o' - (if o = o' then 1 else 0) :=
    fun o' => count_decr s o o'
  have he : ∀ o', (s.afterRelease h a o).ext o' = s.ext o' := fun o' => ext_decr s o o'
  have hal : ∀ o', (s.afterRelease h a o).alive o' =
      if o = o' then (if s.count o - 1 = 0 then false else s.alive o) else s.alive o' :=
    fun o' => alive_decr s o o'
  have hcells : ∀ o', (s.afterRelease h a o).cellsTo o' + (if o = o' then 1 else 0) = s.cellsTo o' :=
    fun o' => countP_filter_addr s.cells a o o' I.addr_nodup hcell
  have ha64 : a < 2 ^ 64 := I.cell_addr_lt hcell
  constructor
  · intro o'
    have := I.count_eq o'; have := hcells o'
    rw [hc, he]; omega
  · intro o'
    rw [hc, hal]
    have h1 := I.alive_iff o'
    by_cases e : o = o'
    · subst e
      simp only [if_true]
      by_cases hz : s.count o - 1 = 0
      · simp [hz]
      · simp only [hz, if_false]; rw [h1]; omega
    · simp only [e, if_false]; rw [h1]; omega
  · intro c hc'
    exact I.addr_lt c (List.mem_filter.mp hc').1
  · exact I.next_le
  · exact List.Nodup.sublist (List.Sublist.map _ List.filter_sublist) I.addr_nodup
  · show s.collector.filter (· != a) = (s.cells.filter (fun c => c.1 != a)).map Prod.fst
    rw [I.collector_eq, List.filter_map]; rfl
  · intro p hp
    exact I.hid_lt p (List.mem_filter.mp hp).1
  · exact List.Nodup.sublist (List.Sublist.map _ List.filter_sublist) I.hid_nodup
  · intro p hp o' hor'
    obtain ⟨hp1, hp2⟩ := List.mem_filter.mp hp
    obtain ⟨a', e1, e2⟩ := I.wrapped_cell p hp1 o' hor'
    refine ⟨a', e1, List.mem_filter.mpr ⟨e2, ?_⟩⟩
    simp only [bne_iff_ne, ne_eq]
    intro e; subst e
    have := I.wrapped_inj p hp1 (h, ho) hmem a' (by rw [hor']; rfl) (by rw [hor]; rfl) e1 hprop
    simp only [bne_iff_ne, ne_eq] at hp2
    exact hp2 this
  · intro c hc'
    obtain ⟨hc1, hc2⟩ := List.mem_filter.mp hc'
    obtain ⟨p, hp, e1, e2⟩ := I.cell_wrapped c hc1
    refine ⟨p, List.mem_filter.mpr ⟨hp, ?_⟩, e1, e2⟩
    simp only [bne_iff_ne, ne_eq]
    intro e
    -- p has id h, hence p = (h, ho) and c.1 = a
    have : p = (h, ho) := by
      obtain ⟨ph, pho⟩ := p
      simp only at e; subst e
      have l1 := lookup_of_mem_nodup _ _ _ I.hid_nodup hp
      have l2 := lookup_of_mem_nodup _ _ _ I.hid_nodup hmem
      rw [l1] at l2; cases l2; rfl
    subst this
    simp only at e2
    have := ptrMx_inj c.1 a (I.cell_addr_lt hc1) ha64 (e2.symm.trans hprop)
    simp only [bne_iff_ne, ne_eq] at hc2
    exact hc2 this
  · intro p hp q hq a' hpo hqo hpa hqa
    exact I.wrapped_inj p (List.mem_filter.mp hp).1 q (List.mem_filter.mp hq).1 a' hpo hqo hpa hqa
  · intro p hp hor
    exact I.forged_rejected p (List.mem_filter.mp hp).1 hor

/-- the C++ side drops one of its own references to `o` -/
def HState.afterDrop (s : HState) (o : Nat) : HState :=
  HState.decr { s with objs := s.objs.modify o (fun x => { x with ext := x.ext - 1 }) } o

theorem Inv.afterDrop {s : HState} (I : Inv s) (o : Nat) (h1 : s.ext o ≠ 0) :
    Inv (s.afterDrop o) := by
  have ho : o < s.objs.length := Inv.valid_of_ext h1
  let s1 : HState := { s with objs := s.objs.modify o (fun x => { x with ext := x.ext - 1 }) }
  have c1 : ∀ o', s1.count o' = s.count o' := by
    intro o'
    show Obj.count (List.getD (s.objs.modify o _) o' _) = _
    unfold HState.count; rw [getD_modify]; split <;> rfl
  have a1 : ∀ o', s1.alive o' = s.alive o' := by
    intro o'
    show Obj.alive (List.getD (s.objs.modify o _) o' _) = _
    unfold HState.alive; rw [getD_modify]; split <;> rfl
  have e1 : ∀ o', s1.ext o' = s.ext o' - (if o = o' then 1 else 0) := by
    intro o'
    show Obj.ext (List.getD (s.objs.modify o _) o' _) = _
    unfold HState.ext; rw [getD_modify]
    by_cases e : o = o'
    · subst e; simp [ho]
    · simp [e]
  have hc : ∀ o', (s.afterDrop o).count o' = s.count o' - (if o = o' then 1 else 0) := by
    intro o'; unfold HState.afterDrop; rw [count_decr, c1]
  have he : ∀ o', (s.afterDrop o).ext o' = s.ext o' - (if o = o' then 1 else 0) := by
    intro o'; unfold HState.afterDrop; rw [ext_decr, e1]
  have hal : ∀ o', (s.afterDrop o).alive o' =
      if o = o' then (if s.count o - 1 = 0 then false else s.alive o) else s.alive o' := by
    intro o'; unfold HState.afterDrop; rw [alive_decr, c1, a1, a1]
  have hcells : ∀ o', (s.afterDrop o).cellsTo o' = s.cellsTo o' := fun _ => rfl
  refine ⟨?_, ?_, I.addr_lt, I.next_le, I.addr_nodup, I.collector_eq, I.hid_lt, I.hid_nodup,
    I.wrapped_cell, I.cell_wrapped, I.wrapped_inj, I.forged_rejected⟩
  · intro o'
    have := I.count_eq o'
    rw [hc, he, hcells]
    by_cases e : o = o'
    · subst e; simp only [if_true]; omega
    · simp only [e, if_false]; omega
  · intro o'
    rw [hc, hal]
    have h1 := I.alive_iff o'
    by_cases e : o = o'
    · subst e
      simp only [if_true]
      by_cases hz : s.count o - 1 = 0
      · simp [hz]
      · simp only [hz, if_false]; rw [h1]; omega
    · simp only [e, if_false]; rw [h1]; omega

/-- the state after creating a forged handle object -/
def HState.afterFake (s : HState) (a : MxArray) : HState :=
  { s with handles := s.handles ++ [(s.nextHandle, { prop := a, origin := none })],
           nextHandle := s.nextHandle + 1 }

theorem Inv.afterFake {s : HState} (I : Inv s) (a : MxArray)
    (hrej : (mxGetClassID a != mxUINT32OR64_CLASS || mxIsComplex a
      || mxGetM a != 1 || mxGetN a != 1) = true) : Inv (s.afterFake a) := by
  refine ⟨I.count_eq, I.alive_iff, I.addr_lt, I.next_le, I.addr_nodup, I.collector_eq, ?_, ?_, ?_,
    ?_, ?_, ?_⟩
  · intro p hp
    show p.1 < s.nextHandle + 1
    rcases List.mem_append.mp hp with h | h
    · have := I.hid_lt p h; omega
    · simp only [List.mem_singleton] at h; subst h; simp
  · show ((s.handles ++ [(s.nextHandle, _)]).map Prod.fst).Nodup
    rw [List.map_append, List.nodup_append]
    refine ⟨I.hid_nodup, by simp, ?_⟩
    intro x hx b hb
    simp only [List.map_cons, List.map_nil, List.mem_singleton] at hb
    subst hb
    obtain ⟨c, hc1, hc2⟩ := List.mem_map.mp hx
    have := I.hid_lt c hc1
    omega
  · intro p hp o' hor
    rcases List.mem_append.mp hp with h | h
    · exact I.wrapped_cell p h o' hor
    · simp only [List.mem_singleton] at h; subst h; simp at hor
  · intro c hc
    obtain ⟨p, hp, e1, e2⟩ := I.cell_wrapped c hc
    exact ⟨p, List.mem_append_left _ hp, e1, e2⟩
  · intro p hp q hq a' hpo hqo hpa hqa
    rcases List.mem_append.mp hp with h | h <;> rcases List.mem_append.mp hq with h' | h'
    · exact I.wrapped_inj p h q h' a' hpo hqo hpa hqa
    · simp only [List.mem_singleton] at h'; subst h'; simp at hqo
    · simp only [List.mem_singleton] at h; subst h; simp at hpo
    · simp only [List.mem_singleton] at h; subst h; simp at hpo
  · intro p hp hor
    rcases List.mem_append.mp hp with h | h
    · exact I.forged_rejected p h hor
    · simp only [List.mem_singleton] at h; subst h; exact hrej

/-! ### every step preserves the invariant -/

theorem Inv.step {s s' : HState} {op : Op} {r : Res} (I : Inv s)
    (h : step s op = .ok (s', r)) : Inv s' := by
  cases op with
  | newObject =>
    simp only [Mx.step, Except.ok.injEq, Prod.mk.injEq] at h
    rw [← h.1]; exact I.addObject
  | wrapShared o =>
    simp only [Mx.step] at h
    by_cases h1 : s.ext o = 0
    · simp [wrap_shared_ptr, h1] at h
    · by_cases h2 : s.nextAddr + heapStep > 2 ^ 64
      · simp [wrap_shared_ptr, h1, h2] at h
      · rw [wrap_shared_ptr_eq I o h1 (by omega)] at h
        simp only [Except.ok.injEq, Prod.mk.injEq] at h
        rw [← h.1]; exact I.afterWrap o h1 (by omega)
  | unwrapShared hd =>
    simp only [Mx.step] at h
    unfold unwrap_shared_ptr at h
    cases hl : s.handle? hd with
    | none => simp [hl] at h
    | some ho =>
      simp only [hl] at h
      split at h
      · cases h
      · cases hc : s.cell? (loadU ho.prop.data 0 8) with
        | none => simp [hc] at h
        | some o =>
          simp only [hc, Except.ok.injEq, Prod.mk.injEq] at h
          have hcell := mem_of_lookup _ _ _ hc
          have hpos : 0 < s.count o := by
            have := I.count_eq o
            have : 0 < s.cellsTo o := by
              unfold HState.cellsTo
              exact List.countP_pos_iff.mpr ⟨_, hcell, by simp⟩
            omega
          rw [decr_incr s o hpos] at h
          rw [← h.1]; exact I
  | unwrapPtr hd =>
    simp only [Mx.step] at h
    unfold unwrap_ptr at h
    cases hl : s.handle? hd with
    | none => simp [hl] at h
    | some ho =>
      simp only [hl] at h
      split at h
      · cases h
      · simp only [Except.ok.injEq, Prod.mk.injEq] at h
        rw [← h.1]; exact I
  | release hd =>
    simp only [Mx.step] at h
    cases hl : s.handle? hd with
    | none => simp [Mx.release, hl] at h
    | some ho =>
      have hmem := mem_of_lookup _ _ _ hl
      cases hor : ho.origin with
      | none => simp [Mx.release, hl, hor] at h
      | some o =>
        obtain ⟨a, hprop, hcell⟩ := I.wrapped_cell (hd, ho) hmem o hor
        rw [release_eq I hd ho a o hmem hor hprop hcell] at h
        simp only [Except.ok.injEq, Prod.mk.injEq] at h
        rw [← h.1]; exact I.afterRelease hd ho a o hmem hor hprop hcell
  | dropExternal o =>
    simp only [Mx.step] at h
    by_cases h1 : s.ext o = 0
    · simp [h1] at h
    · simp only [h1, if_false, Except.ok.injEq, Prod.mk.injEq] at h
      rw [← h.1]; exact I.afterDrop o h1
  | fake cid m n c =>
    simp only [Mx.step] at h
    split at h
    · cases h
    · rename_i hg
      simp only [Except.ok.injEq, Prod.mk.injEq] at h
      rw [← h.1]
      apply I.afterFake
      simp only [mxGetClassID, mxIsComplex, mxGetM, mxGetN, mxCreateNumericMatrix]
      revert hg
      cases cid <;> cases c <;> simp <;> omega

theorem Inv.run {s : HState} (I : Inv s) (ops : List Op) : Inv (exec s ops) := by
  induction ops generalizing s with
  | nil => exact I
  | cons op ops ih =>
    unfold exec Mx.run
    cases hs : Mx.step s op with
    | error e => simp only; exact ih I
    | ok p =>
      obtain ⟨s', r⟩ := p
      simp only
      exact ih (I.step hs)

/-! ### what a successful step does to the list of handle objects -/

theorem handles_step {s s' : HState} {op : Op} {r : Res} (I : Inv s)
    (h : step s op = .ok (s', r)) (hd : Nat) (hop : op ≠ .release hd) (p : Nat × HandleObj)
    (hp : p ∈ s.handles) (hpd : p.1 = hd) : p ∈ s'.handles := by
  cases op with
  | newObject =>
    simp only [Mx.step, Except.ok.injEq, Prod.mk.injEq] at h
    rw [← h.1]; exact hp
  | wrapShared o =>
    simp only [Mx.step] at h
    by_cases h1 : s.ext o = 0
    · simp [wrap_shared_ptr, h1] at h
    · by_cases h2 : s.nextAddr + heapStep > 2 ^ 64
      · simp [wrap_shared_ptr, h1, h2] at h
      · rw [wrap_shared_ptr_eq I o h1 (by omega)] at h
        simp only [Except.ok.injEq, Prod.mk.injEq] at h
        rw [← h.1]; exact List.mem_append_left _ hp
  | unwrapShared hd' =>
    simp only [Mx.step] at h
    unfold unwrap_shared_ptr at h
    cases hl : s.handle? hd' with
    | none => simp [hl] at h
    | some ho =>
      simp only [hl] at h
      split at h
      · cases h
      · cases hc : s.cell? (loadU ho.prop.data 0 8) with
        | none => simp [hc] at h
        | some o =>
          simp only [hc, Except.ok.injEq, Prod.mk.injEq] at h
          rw [← h.1]; exact hp
  | unwrapPtr hd' =>
    simp only [Mx.step] at h
    unfold unwrap_ptr at h
    cases hl : s.handle? hd' with
    | none => simp [hl] at h
    | some ho =>
      simp only [hl] at h
      split at h
      · cases h
      · simp only [Except.ok.injEq, Prod.mk.injEq] at h
        rw [← h.1]; exact hp
  | release hd' =>
    simp only [Mx.step] at h
    cases hl : s.handle? hd' with
    | none => simp [Mx.release, hl] at h
    | some ho =>
      have hmem := mem_of_lookup _ _ _ hl
      cases hor : ho.origin with
      | none => simp [Mx.release, hl, hor] at h
      | some o =>
        obtain ⟨a, hprop, hcell⟩ := I.wrapped_cell (hd', ho) hmem o hor
        rw [release_eq I hd' ho a o hmem hor hprop hcell] at h
        simp only [Except.ok.injEq, Prod.mk.injEq] at h
        rw [← h.1]
        apply List.mem_filter.mpr
        refine ⟨hp, ?_⟩
        simp only [bne_iff_ne, ne_eq]
        intro e
        apply hop
        rw [← hpd, e]
  | dropExternal o =>
    simp only [Mx.step] at h
    by_cases h1 : s.ext o = 0
    · simp [h1] at h
    · simp only [h1, if_false, Except.ok.injEq, Prod.mk.injEq] at h
      rw [← h.1]; exact hp
  | fake cid m n c =>
    simp only [Mx.step] at h
    split at h
    · cases h
    · simp only [Except.ok.injEq, Prod.mk.injEq] at h
      rw [← h.1]; exact List.mem_append_left _ hp

theorem handles_run {s : HState} (I : Inv s) (ops : List Op) (hd : Nat)
    (hops : Op.release hd ∉ ops) (p : Nat × HandleObj) (hp : p ∈ s.handles) (hpd : p.1 = hd) :
    p ∈ (exec s ops).handles := by
  induction ops generalizing s with
  | nil => exact hp
  | cons op ops ih =>
    have hne : op ≠ .release hd := fun e => hops (e ▸ List.mem_cons_self)
    have hrest : Op.release hd ∉ ops := fun e => hops (List.mem_cons_of_mem _ e)
    unfold exec Mx.run
    cases hs : Mx.step s op with
    | error e => simp only; exact ih I hrest hp
    | ok q =>
      obtain ⟨s', r⟩ := q
      simp only
      exact ih (I.step hs) hrest (handles_step I hs hd hne p hp hpd)

/-- the handle returned by `wrap_shared_ptr` is in the new state, with the right origin -/
theorem wrap_shared_ptr_handle {s s1 : HState} (I : Inv s) (o h : Nat)
    (hw : wrap_shared_ptr s o = .ok (s1, .handle h)) :
    Inv s1 ∧ ∃ ho, (h, ho) ∈ s1.handles ∧ ho.origin = some o := by
  by_cases h1 : s.ext o = 0
  · simp [wrap_shared_ptr, h1] at hw
  · by_cases h2 : s.nextAddr + heapStep > 2 ^ 64
    · simp [wrap_shared_ptr, h1, h2] at hw
    · rw [wrap_shared_ptr_eq I o h1 (by omega)] at hw
      simp only [Except.ok.injEq, Prod.mk.injEq, Res.handle.injEq] at hw
      rw [← hw.1, ← hw.2]
      exact ⟨I.afterWrap o h1 (by omega), _,
        List.mem_append_right _ (List.mem_singleton.mpr rfl), rfl⟩

/-! ### liveness -/

theorem alive_iff_owner {s : HState} (I : Inv s) (o : Nat) :
    s.alive o = true ↔ (∃ p ∈ s.handles, p.2.origin = some o) ∨ 0 < s.ext o := by
  rw [I.alive_iff o, I.count_eq o]
  have hcells : 0 < s.cellsTo o ↔ ∃ p ∈ s.handles, p.2.origin = some o := by
    unfold HState.cellsTo
    rw [List.countP_pos_iff]
    constructor
    · rintro ⟨c, hc, hco⟩
      obtain ⟨p, hp, e1, _⟩ := I.cell_wrapped c hc
      simp only [beq_iff_eq] at hco
      exact ⟨p, hp, by rw [e1, hco]⟩
    · rintro ⟨p, hp, hor⟩
      obtain ⟨a, _, hcell⟩ := I.wrapped_cell p hp o hor
      exact ⟨(a, o), hcell, by simp⟩
  rw [← hcells]
  omega

/-! ### releasing twice -/

theorem release_twice_guarded {s s' : HState} {r : Res} (I : Inv s) (h : Nat)
    (hr : release s h = .ok (s', r)) : release s' h = .error (.guard "nohandle") := by
  cases hl : s.handle? h with
  | none => simp [Mx.release, hl] at hr
  | some ho =>
    have hmem := mem_of_lookup _ _ _ hl
    cases hor : ho.origin with
    | none => simp [Mx.release, hl, hor] at hr
    | some o =>
      obtain ⟨a, hprop, hcell⟩ := I.wrapped_cell (h, ho) hmem o hor
      rw [release_eq I h ho a o hmem hor hprop hcell] at hr
      simp only [Except.ok.injEq, Prod.mk.injEq] at hr
      rw [← hr.1]
      unfold Mx.release HState.handle?
      rw [lookup_none_of_not_mem]
      intro hm
      obtain ⟨p, hp, e⟩ := List.mem_map.mp hm
      have := (List.mem_filter.mp hp).2
      simp only [bne_iff_ne, ne_eq] at this
      exact this e

/-- without the guard: running the generated destructor twice on the same pointer array deletes a
    dead heap cell (undefined behaviour) -/
theorem destructor_twice_ub {s s1 : HState} (I : Inv s) (a o : Nat) (hcell : (a, o) ∈ s.cells)
    (h1 : destructorCall s (ptrMx a) = .ok s1) :
    destructorCall s1 (ptrMx a) = .error (.ub "delete of a dead shared_ptr*") := by
  rw [destructorCall_eq I a o hcell] at h1
  simp only [Except.ok.injEq] at h1
  rw [← h1]
  unfold destructorCall
  have ha : loadU (ptrMx a).data 0 8 = a := addrOf_ptrMx a (I.cell_addr_lt hcell)
  simp only [ha]
  unfold HState.cell?
  simp only
  rw [lookup_none_of_not_mem]
  intro hm
  obtain ⟨c, hc, e⟩ := List.mem_map.mp hm
  have := (List.mem_filter.mp hc).2
  simp only [bne_iff_ne, ne_eq] at this
  exact this e

/-! ### the guards suffice: no reachable step executes undefined behaviour -/

theorem step_no_ub {s : HState} (I : Inv s) (op : Op) (w : String) :
    step s op ≠ .error (.ub w) := by
  intro h
  cases op with
  | newObject => simp [Mx.step] at h
  | wrapShared o =>
    simp only [Mx.step] at h
    by_cases h1 : s.ext o = 0
    · simp [wrap_shared_ptr, h1] at h
    · by_cases h2 : s.nextAddr + heapStep > 2 ^ 64
      · simp [wrap_shared_ptr, h1, h2] at h
      · rw [wrap_shared_ptr_eq I o h1 (by omega)] at h; cases h
  | unwrapShared hd =>
    simp only [Mx.step] at h
    cases hl : s.handle? hd with
    | none => simp [unwrap_shared_ptr, hl] at h
    | some ho =>
      have hmem := mem_of_lookup _ _ _ hl
      cases hor : ho.origin with
      | none =>
        have := I.forged_rejected (hd, ho) hmem hor
        simp only at this
        unfold unwrap_shared_ptr at h
        simp only [hl, this, if_true] at h
        cases h
      | some o =>
        rw [unwrap_shared_ptr_wrapped I hd ho o hmem hor] at h; cases h
  | unwrapPtr hd =>
    simp only [Mx.step] at h
    unfold unwrap_ptr at h
    cases hl : s.handle? hd with
    | none => simp [hl] at h
    | some ho =>
      simp only [hl] at h
      split at h <;> cases h
  | release hd =>
    simp only [Mx.step] at h
    cases hl : s.handle? hd with
    | none => simp [Mx.release, hl] at h
    | some ho =>
      have hmem := mem_of_lookup _ _ _ hl
      cases hor : ho.origin with
      | none => simp [Mx.release, hl, hor] at h
      | some o =>
        obtain ⟨a, hprop, hcell⟩ := I.wrapped_cell (hd, ho) hmem o hor
        rw [release_eq I hd ho a o hmem hor hprop hcell] at h; cases h
  | dropExternal o =>
    simp only [Mx.step] at h
    by_cases h1 : s.ext o = 0 <;> simp [h1] at h
  | fake cid m n c =>
    simp only [Mx.step] at h
    split at h <;> cases h

end WrapModel.Mx
