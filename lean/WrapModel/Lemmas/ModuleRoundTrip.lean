import WrapModel.Lemmas.DeclRoundTrip

namespace WrapModel.Spec
open WrapModel WrapModel.Tok WrapModel.Parse

mutual
  def DeclWF : Decl → Prop
    | .fwd _ tn parent => tn.insts = [] ∧ FwdParentWF parent
    | .incl _ => True
    | .cls c => ClassWF c
    | .typedef tn _ => tn.insts ≠ [] ∧ TnWF tn
    | .func tmpl ret _ args => TmplWF tmpl ∧ RetWF ret ∧ ArgsWF args
    | .enum e => EnumWF e
    | .var v => TyWF v.ctype ∧ v.name ≠ "operator"
    | .ns _ ds => DeclsWF ds
  def DeclsWF : List Decl → Prop
    | [] => True
    | d :: ds => DeclWF d ∧ DeclsWF ds
end

mutual
  def declFuel : Decl → Nat
    | .fwd _ tn parent => tn.namespaces.length + fwdParentFuel parent + 3
    | .incl _ => 1
    | .cls c => classFuel c + 1
    | .typedef tn _ => tyFuel (tnToTy tn) + 1
    | .func tmpl ret _ args => tmplFuel tmpl + tyFuel (retAsType ret) + argsFuel args + 1
    | .enum e => e.enumerators.length + 1
    | .var v => tyFuel v.ctype + 1
    | .ns _ ds => declsFuel ds + 1
  def declsFuel : List Decl → Nat
    | [] => 1
    | d :: ds => declFuel d + 1 + declsFuel ds
end

/-! #### what a declaration can begin with, and the answers of those heads -/

/-- the lexeme list begins like a declaration: every request made before a declaration is recognised is answered `no` -/
structure DeclStart (ls : List Lexeme) : Prop where
  rbrace : answerL (.lit "}") ls = .no
  eof : answerL .eof ls = .no

theorem declStart_word (w : String) (X : List Lexeme) : DeclStart (.word w :: X) :=
  ⟨by simp [ansWord_lit "}" w X (by decide) (by decide)], by simp [ansWord]⟩

theorem declStart_starts {ls : List Lexeme} (h : StartsOK ls) : DeclStart ls :=
  ⟨lit_no_starts h "}" (by decide) (by decide), eof_no_starts h⟩

theorem declStart_tmpl (tmpl : Option Template) (M : List Lexeme) (hM : DeclStart M) : DeclStart (tmplLex tmpl ++ M) := by
  cases tmpl with
  | none => simpa [tmplLex] using hM
  | some ps => simpa [tmplLex] using declStart_word "template" _

theorem declStart_enumKw (k : EnumKw) (M : List Lexeme) : DeclStart (enumKwLex k ++ M) := by
  refine ⟨enumKwLex_lit k M "}" (by decide) (by decide), ?_⟩
  cases k <;> simp (config := {decide := true}) [enumKwLex, ansWord, ansAtom, kwIncomparable]

theorem declLex_start (d : Decl) (hwf : DeclWF d) (Y : List Lexeme) : DeclStart (declLex d ++ Y) := by
  cases d with
  | fwd virt tn parent =>
    cases virt <;> simp only [declLex, Bool.false_eq_true, if_false, if_true, List.nil_append, List.cons_append] <;>
      exact declStart_word _ _
  | incl h =>
    refine ⟨?_, ?_⟩ <;> simp (config := {decide := true}) [declLex, ansAtom, kwIncomparable]
  | cls c =>
    simp only [declLex, classLex, List.append_assoc]
    apply declStart_tmpl
    cases c.isVirtual <;> simp only [Bool.false_eq_true, if_false, if_true, List.nil_append, List.cons_append] <;>
      exact declStart_word _ _
  | typedef tn name => simp only [declLex, List.cons_append]; exact declStart_word _ _
  | func tmpl ret name args =>
    simp only [declLex, List.append_assoc]
    exact declStart_tmpl tmpl _ (declStart_starts (startsOK_append (retLex_starts _ hwf.2.1) _))
  | enum e => simp only [declLex, enumLex, List.append_assoc]; exact declStart_enumKw _ _
  | var v =>
    simp only [declLex, List.append_assoc]
    exact declStart_starts (startsOK_append (tyLex_starts _ hwf.1) _)
  | ns name ds => simp only [declLex, List.cons_append]; exact declStart_word _ _

/-! #### skipping the keyword tests in front of a class / function / variable -/

structure SkipOK (ls : List Lexeme) : Prop where
  incl : answerL (.kw "#include") ls = .no
  td : answerL (.kw "typedef") ls = .no
  ns : answerL (.kw "namespace") ls = .no
  ec : answerL (.kw "enum class") ls = .no
  es : answerL (.kw "enum struct") ls = .no
  en : answerL (.kw "enum") ls = .no

theorem skipOK_starts {ls : List Lexeme} (h : StartsOK ls) : SkipOK ls :=
  ⟨kw2_no_starts h _ (by decide), kw_no_starts h _ (by decide), kw_no_starts h _ (by decide),
   kw2_no_starts h _ (by decide), kw2_no_starts h _ (by decide), kw_no_starts h _ (by decide)⟩

theorem skipOK_template (X : List Lexeme) : SkipOK (.word "template" :: X) := by
  refine ⟨?_, ?_, ?_, ?_, ?_, ?_⟩ <;> simp (config := {decide := true}) [ansWord]
theorem skipOK_virtual (X : List Lexeme) : SkipOK (.word "virtual" :: X) := by
  refine ⟨?_, ?_, ?_, ?_, ?_, ?_⟩ <;> simp (config := {decide := true}) [ansWord]
theorem skipOK_class (X : List Lexeme) : SkipOK (.word "class" :: X) := by
  refine ⟨?_, ?_, ?_, ?_, ?_, ?_⟩ <;> simp (config := {decide := true}) [ansWord]

theorem skipOK_tmpl (tmpl : Option Template) (M : List Lexeme) (hM : SkipOK M) : SkipOK (tmplLex tmpl ++ M) := by
  cases tmpl with
  | none => simpa [tmplLex] using hM
  | some ps => simpa [tmplLex] using skipOK_template _

theorem pdecl_skip (n : Nat) {ls : List Lexeme} (h : SkipOK ls) :
    runL (pdecl (n + 1)) ls = runL (do let tmpl ← ptemplate n; classOrTail n tmpl) ls := by
  rw [pdecl_eq]
  simp [runL_bind, runL_probe, h.incl, h.td, h.ns, penumKw_none h.ec h.es h.en]

/-- classes -/
theorem pdecl_class (c : ClassDecl) (hwf : ClassWF c) (n : Nat) (hn : classFuel c ≤ n) (Y : List Lexeme) :
    runL (pdecl (n + 1)) (classLex c ++ Y) = .ok (.cls c) Y := by
  obtain ⟨tmpl, virt, name, par, ms⟩ := c
  have hw := hwf
  obtain ⟨ht, _, _, _⟩ := hwf
  simp only [classFuel] at hn
  simp only at ht
  have hrest := pclassRest_class ⟨tmpl, virt, name, par, ms⟩ hw n (by simp only; omega) Y
  simp only at hrest
  cases virt with
  | false =>
    have e : classLex ⟨tmpl, false, name, par, ms⟩ ++ Y =
        tmplLex tmpl ++ (.word "class" :: .word name :: (parentLex par ++ .sym "{" :: (membersLex ms ++ .sym "}" :: .sym ";" :: Y))) := by
      simp [classLex]
    rw [e, pdecl_skip n (skipOK_tmpl tmpl _ (skipOK_class _))]
    have htl := ptemplate_lex tmpl ht n (by omega) (.word "class" :: .word name :: (parentLex par ++ .sym "{" :: (membersLex ms ++ .sym "}" :: .sym ";" :: Y)))
      (fun _ => by simp (config := {decide := true}) [ansWord])
    simp (config := {decide := true}) [runL_bind, htl, classOrTail, runL_probe, ansWord, hrest]
  | true =>
    have e : classLex ⟨tmpl, true, name, par, ms⟩ ++ Y =
        tmplLex tmpl ++ (.word "virtual" :: .word "class" :: .word name :: (parentLex par ++ .sym "{" :: (membersLex ms ++ .sym "}" :: .sym ";" :: Y))) := by
      simp [classLex]
    rw [e, pdecl_skip n (skipOK_tmpl tmpl _ (skipOK_virtual _))]
    have htl := ptemplate_lex tmpl ht n (by omega) (.word "virtual" :: .word "class" :: .word name :: (parentLex par ++ .sym "{" :: (membersLex ms ++ .sym "}" :: .sym ";" :: Y)))
      (fun _ => by simp (config := {decide := true}) [ansWord])
    simp (config := {decide := true}) [runL_bind, htl, classOrTail, runL_probe, ansWord, hrest]

/-- forward declarations -/
theorem pdecl_fwd (virt : Bool) (tn : Typename) (parent : Option Typename) (hins : tn.insts = []) (hpar : FwdParentWF parent)
    (n : Nat) (hn : tn.namespaces.length + fwdParentFuel parent + 2 ≤ n) (Y : List Lexeme) :
    runL (pdecl (n + 1)) (declLex (.fwd virt tn parent) ++ Y) = .ok (.fwd virt tn parent) Y := by
  obtain ⟨nss, name, insts⟩ := tn
  simp only at hins hn
  subst hins
  cases hnm : nss ++ [name] with
  | nil => simp at hnm
  | cons w more =>
    have hlen : more.length = nss.length := by
      have := congrArg List.length hnm; simp at this; omega
    have hrest := pclassRest_fwd virt nss name parent hpar w more hnm.symm n (by omega) Y
    cases virt with
    | false =>
      have e : declLex (.fwd false ⟨nss, name, []⟩ parent) ++ Y =
          tmplLex none ++ (.word "class" :: .word w :: (identsLex more ++ (fwdParentLex parent ++ .sym ";" :: Y))) := by
        simp [declLex, hnm, namesLexPlain, tmplLex]
      rw [e, pdecl_skip n (skipOK_tmpl none _ (skipOK_class _))]
      have htl := ptemplate_lex none trivial n (by simp [tmplFuel]) (.word "class" :: .word w :: (identsLex more ++ (fwdParentLex parent ++ .sym ";" :: Y)))
        (fun _ => by simp (config := {decide := true}) [ansWord])
      simp (config := {decide := true}) [runL_bind, htl, classOrTail, runL_probe, ansWord, hrest]
    | true =>
      have e : declLex (.fwd true ⟨nss, name, []⟩ parent) ++ Y =
          tmplLex none ++ (.word "virtual" :: .word "class" :: .word w :: (identsLex more ++ (fwdParentLex parent ++ .sym ";" :: Y))) := by
        simp [declLex, hnm, namesLexPlain, tmplLex]
      rw [e, pdecl_skip n (skipOK_tmpl none _ (skipOK_virtual _))]
      have htl := ptemplate_lex none trivial n (by simp [tmplFuel]) (.word "virtual" :: .word "class" :: .word w :: (identsLex more ++ (fwdParentLex parent ++ .sym ";" :: Y)))
        (fun _ => by simp (config := {decide := true}) [ansWord])
      simp (config := {decide := true}) [runL_bind, htl, classOrTail, runL_probe, ansWord, hrest]

/-- free functions -/
theorem pdecl_func (tmpl : Option Template) (ret : RetType) (name : String) (args : List Arg) (ht : TmplWF tmpl)
    (hret : RetWF ret) (hargs : ArgsWF args) (n : Nat) (hn : tmplFuel tmpl + tyFuel (retAsType ret) + argsFuel args ≤ n) (Y : List Lexeme) :
    runL (pdecl (n + 1)) (declLex (.func tmpl ret name args) ++ Y) = .ok (.func tmpl ret name args) Y := by
  have hM : StartsOK (retLex ret ++ .word name :: .sym "(" :: (argsLex args ++ .sym ")" :: .sym ";" :: Y)) :=
    startsOK_append (retLex_starts _ hret) _
  have e : declLex (.func tmpl ret name args) ++ Y =
      tmplLex tmpl ++ (retLex ret ++ .word name :: .sym "(" :: (argsLex args ++ .sym ")" :: .sym ";" :: Y)) := by
    simp [declLex]
  rw [e, pdecl_skip n (skipOK_tmpl tmpl _ (skipOK_starts hM))]
  have htl := ptemplate_lex tmpl ht n (by omega) _ (fun _ => kw_no_starts hM "template" (by decide))
  have h1 := pret_lex ret hret n (by omega) name (.sym "(" :: (argsLex args ++ .sym ")" :: .sym ";" :: Y))
  have h2 := pargs_lex args hargs n (.sym ";" :: Y) (by omega)
  simp (config := {decide := true}) [runL_bind, htl, classOrTail, declTail, runL_probe, runL_need, runL_expect,
    kw_no_starts hM "virtual" (by decide), kw_no_starts hM "class" (by decide), h1, h2, answerL_sym, ansSym, hret.2]

/-- global / namespace variables -/
theorem pdecl_var (v : VarDecl) (hty : TyWF v.ctype) (hname : v.name ≠ "operator") (n : Nat) (hn : tyFuel v.ctype ≤ n) (Y : List Lexeme) :
    runL (pdecl (n + 1)) (declLex (.var v) ++ Y) = .ok (.var v) Y := by
  obtain ⟨ty, name, d⟩ := v
  have hM : StartsOK (tyLex ty ++ .word name :: (dfltLex d ++ .sym ";" :: Y)) := startsOK_append (tyLex_starts _ hty) _
  have e : declLex (.var ⟨ty, name, d⟩) ++ Y = tmplLex none ++ (tyLex ty ++ .word name :: (dfltLex d ++ .sym ";" :: Y)) := by
    simp [declLex, tmplLex]
  rw [e, pdecl_skip n (skipOK_tmpl none _ (skipOK_starts hM))]
  have htl := ptemplate_lex none trivial n (by simp [tmplFuel]) _ (fun _ => kw_no_starts hM "template" (by decide))
  have h1 := ptype_lex n ty hn hty (.word name :: (dfltLex d ++ .sym ";" :: Y)) (fun _ => noCont_word _ _)
  have h2 := optDefault_lex d (.sym ";" :: Y) (fun _ => eq_no_semi _)
  cases d with
  | none =>
    simp only [dfltLex, List.nil_append] at h1 h2 hM htl ⊢
    simp (config := {decide := true}) [runL_bind, htl, classOrTail, declTail, runL_probe, runL_need, runL_expect,
      kw_no_starts hM "virtual" (by decide), kw_no_starts hM "class" (by decide), h1, h2, answerL_sym, ansSym, ansWord_lit, hname]
  | some dv =>
    simp only [dfltLex, List.cons_append, List.nil_append] at h1 h2 hM htl ⊢
    simp (config := {decide := true}) [runL_bind, htl, classOrTail, declTail, runL_probe, runL_need, runL_expect,
      kw_no_starts hM "virtual" (by decide), kw_no_starts hM "class" (by decide), h1, h2, answerL_sym, ansSym, ansWord_lit, hname]

/-- typedefs -/
theorem pdecl_typedef (tn : Typename) (name : String) (hins : tn.insts ≠ []) (hwf : TnWF tn) (n : Nat)
    (hn : tyFuel (tnToTy tn) ≤ n) (Y : List Lexeme) :
    runL (pdecl (n + 1)) (declLex (.typedef tn name) ++ Y) = .ok (.typedef tn name) Y := by
  have h1 := ptype_lex n (tnToTy tn) hn hwf.1 (.word name :: .sym ";" :: Y) (fun _ => noCont_word _ _)
  have hst := strict_tn true tn (fun _ h => absurd h hins)
  have hte : (tnToTy tn).isTempl = true := by
    obtain ⟨nss, nm, insts⟩ := tn
    cases insts with
    | nil => exact absurd rfl hins
    | cons i is => simp [tnToTy, CType.isTempl]
  rw [pdecl_eq]
  simp (config := {decide := true}) [declLex, runL_bind, runL_probe, runL_need, runL_expect, ansWord, typedefPart, h1, hte, hst, liftOpt,
    answerL_sym, ansSym]

/-- includes -/
theorem pdecl_incl (h : String) (n : Nat) (Y : List Lexeme) :
    runL (pdecl (n + 1)) (declLex (.incl h) ++ Y) = .ok (.incl h) Y := by
  rw [pdecl_eq]
  simp (config := {decide := true}) [declLex, runL_bind, runL_probe, runL_need, runL_expect, ansAtom, inclPart, answerL_sym, ansSym]

/-- enums at declaration level -/
theorem pdecl_enum (e : EnumDecl) (hwf : EnumWF e) (n : Nat) (hn : e.enumerators.length ≤ n) (Y : List Lexeme) :
    runL (pdecl (n + 1)) (declLex (.enum e) ++ Y) = .ok (.enum e) Y := by
  obtain ⟨k, name, es⟩ := e
  have hk := penumKw_lex k name (.sym "{" :: (enumeratorsLex es ++ .sym "}" :: .sym ";" :: Y)) hwf.2
  have hr := penumRest_lex ⟨k, name, es⟩ hwf n hn Y
  have e0 : declLex (.enum ⟨k, name, es⟩) ++ Y = enumKwLex k ++ .word name :: .sym "{" :: (enumeratorsLex es ++ .sym "}" :: .sym ";" :: Y) := by
    simp [declLex, enumLex]
  rw [e0, pdecl_eq]
  have h1 : answerL (.kw "#include") (enumKwLex k ++ .word name :: .sym "{" :: (enumeratorsLex es ++ .sym "}" :: .sym ";" :: Y)) = .no := by
    cases k <;> simp (config := {decide := true}) [enumKwLex, ansWord, ansAtom, kwIncomparable]
  have h2 : answerL (.kw "typedef") (enumKwLex k ++ .word name :: .sym "{" :: (enumeratorsLex es ++ .sym "}" :: .sym ";" :: Y)) = .no := by
    cases k <;> simp (config := {decide := true}) [enumKwLex, ansWord, ansAtom, kwIncomparable]
  have h3 : answerL (.kw "namespace") (enumKwLex k ++ .word name :: .sym "{" :: (enumeratorsLex es ++ .sym "}" :: .sym ";" :: Y)) = .no := by
    cases k <;> simp (config := {decide := true}) [enumKwLex, ansWord, ansAtom, kwIncomparable]
  simp only at hr
  simp [runL_bind, runL_probe, h1, h2, h3, hk, hr]

/-! #### declarations, namespace contents, modules -/

theorem declFuel_pos (d : Decl) : 1 ≤ declFuel d := by
  cases d <;> simp [declFuel] <;> omega

/-- namespace contents, given the declaration reader for all smaller amounts of fuel -/
theorem pdecls_lex_of (N : Nat)
    (H : ∀ m, m < N → ∀ d, declFuel d ≤ m → DeclWF d → ∀ Y, runL (pdecl m) (declLex d ++ Y) = .ok d Y) :
    ∀ (ds : List Decl), DeclsWF ds → ∀ m, m ≤ N → declsFuel ds ≤ m → ∀ Y,
      runL (pdecls m) (declsLex ds ++ .sym "}" :: Y) = .ok ds Y := by
  intro ds
  induction ds with
  | nil =>
    intro _ m _ hf Y
    obtain ⟨k, rfl⟩ : ∃ k, m = k + 1 := ⟨m - 1, by simp [declsFuel] at hf; omega⟩
    simp (config := {decide := true}) [pdecls, declsLex, runL_bind, runL_probe, answerL_sym, ansSym]
  | cons d ds ih =>
    intro hwf m hm hf Y
    obtain ⟨hwd, hwds⟩ : DeclWF d ∧ DeclsWF ds := by simpa [DeclsWF] using hwf
    simp only [declsFuel] at hf
    obtain ⟨k, rfl⟩ : ∃ k, m = k + 1 := ⟨m - 1, by omega⟩
    have h0 := (declLex_start d hwd (declsLex ds ++ .sym "}" :: Y)).rbrace
    have h1 := H k (by omega) d (by omega) hwd (declsLex ds ++ .sym "}" :: Y)
    have h2 := ih hwds k (by omega) (by omega) Y
    simp [pdecls, declsLex, runL_bind, runL_probe, h0, h1, h2]

/-- **Round trip for declarations (C01).** -/
theorem pdecl_lex : ∀ (n : Nat) (d : Decl), declFuel d ≤ n → DeclWF d → ∀ Y, runL (pdecl n) (declLex d ++ Y) = .ok d Y := by
  intro n
  induction n using Nat.strongRecOn with
  | ind n ih =>
  intro d hf hwf Y
  have hpos := declFuel_pos d
  obtain ⟨m, rfl⟩ : ∃ m, n = m + 1 := ⟨n - 1, by omega⟩
  cases d with
  | fwd virt tn parent =>
    simp only [declFuel] at hf
    exact pdecl_fwd virt tn parent hwf.1 hwf.2 m (by omega) Y
  | incl h => exact pdecl_incl h m Y
  | cls c =>
    simp only [declFuel] at hf
    have e : declLex (.cls c) ++ Y = classLex c ++ Y := by simp [declLex]
    rw [e]
    exact pdecl_class c hwf m (by omega) Y
  | typedef tn name =>
    simp only [declFuel] at hf
    exact pdecl_typedef tn name hwf.1 hwf.2 m (by omega) Y
  | func tmpl ret name args =>
    simp only [declFuel] at hf
    exact pdecl_func tmpl ret name args hwf.1 hwf.2.1 hwf.2.2 m (by omega) Y
  | enum e =>
    simp only [declFuel] at hf
    exact pdecl_enum e hwf m (by omega) Y
  | var v =>
    simp only [declFuel] at hf
    exact pdecl_var v hwf.1 hwf.2 m (by omega) Y
  | ns name ds =>
    simp only [declFuel] at hf
    have hl := pdecls_lex_of (m + 1) (fun m' hm' d' => ih m' hm' d') ds hwf m (by omega) (by omega) Y
    rw [pdecl_eq]
    simp (config := {decide := true}) [declLex, runL_bind, runL_probe, runL_need, runL_expect, ansWord, answerL_sym, ansSym, hl]

/-- **Round trip for whole modules (C01), lexeme level**: the parser reads the canonical lexemes of every well-formed
    module back as exactly that module and consumes everything. -/
theorem pmodule_lex : ∀ (ds : List Decl), DeclsWF ds → ∀ n, declsFuel ds ≤ n → runL (pmodule n) (declsLex ds) = .ok ds [] := by
  intro ds
  induction ds with
  | nil =>
    intro _ n hf
    obtain ⟨k, rfl⟩ : ∃ k, n = k + 1 := ⟨n - 1, by simp [declsFuel] at hf; omega⟩
    simp [pmodule, declsLex, runL_bind, runL_probe, answerL, ansNil]
  | cons d ds ih =>
    intro hwf n hf
    obtain ⟨hwd, hwds⟩ : DeclWF d ∧ DeclsWF ds := by simpa [DeclsWF] using hwf
    simp only [declsFuel] at hf
    obtain ⟨k, rfl⟩ : ∃ k, n = k + 1 := ⟨n - 1, by omega⟩
    have h0 := (declLex_start d hwd (declsLex ds)).eof
    have h1 := pdecl_lex k d (by omega) hwd (declsLex ds)
    have h2 := ih hwds k (by omega)
    simp [pmodule, declsLex, runL_bind, runL_probe, h0, h1, h2]

end WrapModel.Spec
