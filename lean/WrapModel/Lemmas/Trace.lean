/-
  A third reading of parser programs: on lexeme lists, with a log of the requests that were answered `yes` (C07,
  soundness direction: what an accepted lexeme list must have looked like).  Generic inversion lemmas.
-/
import WrapModel.Model.Tok
import WrapModel.Model.Parse
import WrapModel.Lemmas.RunL

namespace WrapModel.Tok
open WrapModel WrapModel.Lex

/-- the token a successful request stands for: keywords and literals are what was asked for, the other kinds carry text -/
def normTok (q : Q) (t : String) : String :=
  match q with
  | .kw k => k
  | .lit x => x
  | .stdPair => "std::pair"
  | .eof => ""
  | _ => t

abbrev Trace := List (Q × String)

inductive OutcomeT (α : Type) where
  | ok (a : α) (tr : Trace) (rest : List Lexeme)
  | err (e : Err)
  | stuck

/-- run on a lexeme list, logging every request answered `yes` -/
def runT : P α → List Lexeme → OutcomeT α
  | .ret a, ls => .ok a [] ls
  | .fail e, _ => .err e
  | .ask q k, ls =>
    match answerL q ls with
    | .yes t r =>
      match runT (k (some t)) r with
      | .ok a tr rest => .ok a ((q, normTok q t) :: tr) rest
      | .err e => .err e
      | .stuck => .stuck
    | .no => runT (k none) ls
    | .stuck => .stuck

/-- the log does not change the result -/
theorem runL_of_runT (p : P α) (ls : List Lexeme) :
    runL p ls = match runT p ls with
      | .ok a _ rest => .ok a rest
      | .err e => .err e
      | .stuck => .stuck := by
  induction p generalizing ls with
  | ret a => rfl
  | fail e => rfl
  | ask q k ih =>
    simp only [runL, runT]
    cases answerL q ls with
    | yes t r =>
      show runL (k (some t)) r = _
      rw [ih]
      cases hr : runT (k (some t)) r <;> simp [hr]
    | no => exact ih _ _
    | stuck => rfl

theorem runT_of_runL_ok {p : P α} {ls rest : List Lexeme} {a : α} (h : runL p ls = .ok a rest) :
    ∃ tr, runT p ls = .ok a tr rest := by
  rw [runL_of_runT] at h
  cases hr : runT p ls with
  | ok a' tr rest' => simp [hr] at h; exact ⟨tr, by rw [h.1, h.2]⟩
  | err e => simp [hr] at h
  | stuck => simp [hr] at h

/-! ### inversion -/

theorem runT_pure_ok {a b : α} {ls rest : List Lexeme} {tr : Trace} :
    runT (pure a : P α) ls = .ok b tr rest ↔ b = a ∧ tr = [] ∧ rest = ls := by
  show runT (P.ret a) ls = _ ↔ _
  simp only [runT, OutcomeT.ok.injEq]
  constructor
  · rintro ⟨rfl, rfl, rfl⟩; exact ⟨rfl, rfl, rfl⟩
  · rintro ⟨rfl, rfl, rfl⟩; exact ⟨rfl, rfl, rfl⟩

theorem runT_fail_ok {e : Err} {b : α} {ls rest : List Lexeme} {tr : Trace} :
    runT (P.fail e : P α) ls = .ok b tr rest ↔ False := by simp [runT]

theorem runT_bind_ok (p : P α) (f : α → P β) (ls rest : List Lexeme) (b : β) (tr : Trace) :
    runT (p >>= f) ls = .ok b tr rest ↔
      ∃ a tr1 mid tr2, runT p ls = .ok a tr1 mid ∧ runT (f a) mid = .ok b tr2 rest ∧ tr = tr1 ++ tr2 := by
  show runT (P.bind p f) ls = _ ↔ _
  induction p generalizing ls tr with
  | ret a =>
    simp only [P.bind, runT, OutcomeT.ok.injEq]
    constructor
    · intro h; exact ⟨a, [], ls, tr, ⟨rfl, rfl, rfl⟩, h, rfl⟩
    · rintro ⟨a', tr1, mid, tr2, ⟨rfl, rfl, rfl⟩, h, rfl⟩; simpa using h
  | fail e => simp [P.bind, runT]
  | ask q k ih =>
    simp only [P.bind, runT]
    cases answerL q ls with
    | yes t r =>
      dsimp only
      constructor
      · intro h
        cases hk : runT (P.bind (k (some t)) f) r with
        | ok b' tr' rest' =>
          rw [hk] at h
          simp only [OutcomeT.ok.injEq] at h
          obtain ⟨rfl, rfl, rfl⟩ := h
          obtain ⟨a, tr1, mid, tr2, h1, h2, rfl⟩ := (ih (some t) r tr').1 hk
          exact ⟨a, (q, normTok q t) :: tr1, mid, tr2, by simp [h1], h2, rfl⟩
        | err e => rw [hk] at h; cases h
        | stuck => rw [hk] at h; cases h
      · rintro ⟨a, tr1, mid, tr2, h1, h2, rfl⟩
        cases hk1 : runT (k (some t)) r with
        | ok a' tr1' mid' =>
          rw [hk1] at h1
          simp only [OutcomeT.ok.injEq] at h1
          obtain ⟨rfl, rfl, rfl⟩ := h1
          have := (ih (some t) r (tr1' ++ tr2)).2 ⟨a', tr1', mid', tr2, hk1, h2, rfl⟩
          simp [this]
        | err e => rw [hk1] at h1; cases h1
        | stuck => rw [hk1] at h1; cases h1
    | no => exact ih none ls tr
    | stuck => simp

theorem runT_probe_ok (q : Q) (ls rest : List Lexeme) (b : Bool) (tr : Trace) :
    runT (P.probe q) ls = .ok b tr rest ↔
      (b = true ∧ ∃ t, answerL q ls = .yes t rest ∧ tr = [(q, normTok q t)]) ∨
      (b = false ∧ answerL q ls = .no ∧ rest = ls ∧ tr = []) := by
  simp only [P.probe, runT]
  cases h : answerL q ls with
  | yes t r => simp only [Option.isSome_some, OutcomeT.ok.injEq]; grind
  | no => simp only [Option.isSome_none, OutcomeT.ok.injEq]; grind
  | stuck => simp

theorem runT_need_ok (q : Q) (ls rest : List Lexeme) (s : String) (tr : Trace) :
    runT (P.need q) ls = .ok s tr rest ↔ answerL q ls = .yes s rest ∧ tr = [(q, normTok q s)] := by
  simp only [P.need, runT]
  cases h : answerL q ls with
  | yes t r => simp only [OutcomeT.ok.injEq]; grind
  | no => simp [runT]
  | stuck => simp

theorem runT_expect_ok (q : Q) (ls rest : List Lexeme) (u : Unit) (tr : Trace) :
    runT (P.expect q) ls = .ok u tr rest ↔ ∃ t, answerL q ls = .yes t rest ∧ tr = [(q, normTok q t)] := by
  simp only [P.expect, runT]
  cases h : answerL q ls with
  | yes t r => simp only [OutcomeT.ok.injEq]; grind
  | no => simp [runT]
  | stuck => simp

theorem runT_tok_ok (q : Q) (ls rest : List Lexeme) (o : Option String) (tr : Trace) :
    runT (P.tok q) ls = .ok o tr rest ↔
      (∃ t, o = some t ∧ answerL q ls = .yes t rest ∧ tr = [(q, normTok q t)]) ∨
      (o = none ∧ answerL q ls = .no ∧ rest = ls ∧ tr = []) := by
  simp only [P.tok, runT]
  cases h : answerL q ls with
  | yes t r => simp only [OutcomeT.ok.injEq]; grind
  | no => simp only [OutcomeT.ok.injEq]; grind
  | stuck => simp

end WrapModel.Tok
