import WrapModel.Model.Runtime.Gateway

/-!
  Helper lemmas for property C11.  The central notion is `Inv tbl s P B`, the ownership
  invariant of a gateway session *in the middle of an operation*:
  * `P a` — cell `a` is live but not yet inserted into its collector (the pointer is travelling
    from the routine that did `new Shared(...)` to the `collectorInsertAndMakeBase` routine);
  * `B a` — cell `a` is live but not (yet / any more) owned by a valid MATLAB handle (the handle
    object is being constructed or destroyed).
  `GwInv` (in `Props/C11.lean`) is `Inv` with both sets empty.
-/

namespace WrapModel.Gateway

structure Inv (tbl : ClassTable) (s : State) (P B : Nat → Prop) : Prop where
  cellObj : ∀ (a : Nat) (x : Cell), s.cells[a]? = some x → x.obj < s.objs.length
  collNodup : s.coll.Nodup
  collSound : ∀ (c a : Nat), (c, a) ∈ s.coll →
    ∃ x : Cell, s.cells[a]? = some x ∧ x.live = true ∧ x.cls = c
  collComplete : ∀ (a : Nat) (x : Cell), s.cells[a]? = some x → x.live = true →
    (x.cls, a) ∈ s.coll ∨ P a
  atExitOK : s.coll ≠ [] → s.atExit = true
  relOK : ∀ (a : Nat) (x : Cell), s.cells[a]? = some x → x.released = if x.live then 0 else 1
  strongOK : ∀ (o : Nat) (x : Obj), s.objs[o]? = some x →
    x.strong = s.cells.countP (pointsTo o) + x.ext
  aliveOK : ∀ (o : Nat) (x : Obj), s.objs[o]? = some x →
    (x.alive = true ↔ 0 < x.strong) ∧ x.destroyed = if x.alive then 0 else 1
  handleOK : ∀ (h : Nat) (hd : Handle), s.handles[h]? = some hd → HValid hd → HandleOK tbl s hd
  ownUnique : ∀ (h1 h2 : Nat) (hd1 hd2 : Handle) (p1 p2 : Nat × Nat),
    s.handles[h1]? = some hd1 → s.handles[h2]? = some hd2 →
    HValid hd1 → HValid hd2 → p1 ∈ hd1.ptrs → p2 ∈ hd2.ptrs → p1.2 = p2.2 → h1 = h2
  ownBuild : ∀ (h : Nat) (hd : Handle) (p : Nat × Nat), s.handles[h]? = some hd → HValid hd →
    p ∈ hd.ptrs → ¬ B p.2
  ownComplete : ∀ (a : Nat) (x : Cell), s.cells[a]? = some x → x.live = true →
    B a ∨ ∃ (h : Nat) (hd : Handle) (c : Nat), s.handles[h]? = some hd ∧ HValid hd ∧ (c, a) ∈ hd.ptrs

theorem Inv.congr {tbl s} {P B P' B' : Nat → Prop} (h : Inv tbl s P B)
    (hP : ∀ a, P a → P' a) (hB : ∀ a, B a ↔ B' a) : Inv tbl s P' B' := by
  refine { h with collComplete := ?_, ownBuild := ?_, ownComplete := ?_ }
  · intro a x h1 h2
    rcases h.collComplete a x h1 h2 with h3 | h3
    · exact Or.inl h3
    · exact Or.inr (hP a h3)
  · intro hh hd p h1 h2 h3 h4
    exact h.ownBuild hh hd p h1 h2 h3 ((hB _).2 h4)
  · intro a x h1 h2
    rcases h.ownComplete a x h1 h2 with h3 | h3
    · exact Or.inl ((hB a).1 h3)
    · exact Or.inr h3

/-! ### small list facts -/

theorem getElem?_lt {α} {l : List α} {i : Nat} {x : α} (h : l[i]? = some x) : i < l.length := by
  rcases Nat.lt_or_ge i l.length with h1 | h1
  · exact h1
  · rw [List.getElem?_eq_none h1] at h; cases h

theorem getElem?_append_old {α} {l : List α} {y : α} {i : Nat} {x : α} (h : l[i]? = some x) :
    (l ++ [y])[i]? = some x := by
  rw [List.getElem?_append_left (getElem?_lt h)]; exact h

theorem getElem?_append_cases {α} {l : List α} {y : α} {i : Nat} {x : α}
    (h : (l ++ [y])[i]? = some x) : l[i]? = some x ∨ (i = l.length ∧ x = y) := by
  rcases Nat.lt_or_ge i l.length with h1 | h1
  · rw [List.getElem?_append_left h1] at h; exact Or.inl h
  · rw [List.getElem?_append_right h1] at h
    have : i - l.length = 0 := by
      rcases Nat.eq_zero_or_pos (i - l.length) with h2 | h2
      · exact h2
      · rw [List.getElem?_eq_none (by simp; omega)] at h; cases h
    rw [this] at h
    simp at h
    exact Or.inr ⟨by omega, h.symm⟩

theorem mem_of_getElem?' {α} {l : List α} {i : Nat} {x : α} (h : l[i]? = some x) : x ∈ l :=
  List.mem_of_getElem? h

theorem countP_pos_of_getElem? {α} {p : α → Bool} {l : List α} {i : Nat} {x : α}
    (h : l[i]? = some x) (hp : p x = true) : 0 < l.countP p :=
  List.countP_pos_iff.2 ⟨x, List.mem_of_getElem? h, hp⟩

/-! ### primitive effects preserve `Inv` -/


theorem countP_pointsTo_zero {tbl s P B} (h : Inv tbl s P B) :
    s.cells.countP (pointsTo s.objs.length) = 0 := by
  rw [List.countP_eq_zero]
  intro x hx
  obtain ⟨i, hi⟩ := List.getElem?_of_mem hx
  have := h.cellObj i x hi
  simp [pointsTo]; intro _; omega

theorem inv_freshObj {tbl s P B} (d : Nat) (h : Inv tbl s P B) : Inv tbl (freshObj s d).1 P B := by
  refine { h with cellObj := ?_, strongOK := ?_, aliveOK := ?_, handleOK := ?_ }
  · intro a x hx
    have := h.cellObj a x hx
    simp [freshObj]; omega
  · intro o x hx
    simp only [freshObj] at hx ⊢
    rcases getElem?_append_cases hx with h1 | ⟨h1, h2⟩
    · exact h.strongOK o x h1
    · subst h1 h2; simp [countP_pointsTo_zero h]
  · intro o x hx
    simp only [freshObj] at hx
    rcases getElem?_append_cases hx with h1 | ⟨h1, h2⟩
    · exact h.aliveOK o x h1
    · subst h2; simp
  · intro hh hd h1 h2
    exact h.handleOK hh hd h1 h2


theorem handleOK_mono {tbl : ClassTable} {s s' : State} {hd : Handle}
    (hc : ∀ (a : Nat) (x : Cell), s.cells[a]? = some x → s'.cells[a]? = some x)
    (h : HandleOK tbl s hd) : HandleOK tbl s' hd := by
  obtain ⟨h1, h2, o, h3⟩ := h
  refine ⟨h1, h2, o, ?_⟩
  intro c a hm
  obtain ⟨x, hx, r⟩ := h3 c a hm
  exact ⟨x, hc a x hx, r⟩

theorem newCell_fst (s : State) (o c : Nat) (y : Obj) (hy : s.objs[o]? = some y) :
    (newCell s o c).1 = { s with objs := s.objs.set o { y with strong := y.strong + 1 },
                                 cells := s.cells ++ [{ obj := o, cls := c, live := true, released := 0 }] } := by
  simp [newCell, incStrong, hy]

theorem inv_newCell {tbl s P B} (o c : Nat) (y : Obj) (h : Inv tbl s P B)
    (hy : s.objs[o]? = some y) (hal : y.alive = true) :
    Inv tbl (newCell s o c).1 (fun a => a = s.cells.length ∨ P a) (fun a => a = s.cells.length ∨ B a) := by
  rw [newCell_fst s o c y hy]
  have holt := getElem?_lt hy
  constructor
  · intro a x hx
    simp only [List.length_set] 
    rcases getElem?_append_cases hx with h1 | ⟨h1, h2⟩
    · exact h.cellObj a x h1
    · subst h2; exact holt
  · exact h.collNodup
  · intro c' a hm
    obtain ⟨x, hx, r⟩ := h.collSound c' a hm
    exact ⟨x, getElem?_append_old hx, r⟩
  · intro a x hx hl
    rcases getElem?_append_cases hx with h1 | ⟨h1, h2⟩
    · rcases h.collComplete a x h1 hl with h3 | h3
      · exact Or.inl h3
      · exact Or.inr (Or.inr h3)
    · exact Or.inr (Or.inl h1)
  · exact h.atExitOK
  · intro a x hx
    rcases getElem?_append_cases hx with h1 | ⟨h1, h2⟩
    · exact h.relOK a x h1
    · subst h2; rfl
  · intro o' x hx
    simp only [List.countP_append, List.countP_cons, List.countP_nil]
    simp only [List.getElem?_set] at hx
    split at hx
    · rename_i heq; subst heq
      simp at hx; subst hx
      have := h.strongOK o y hy
      simp [pointsTo]; omega
    · rename_i hne
      have := h.strongOK o' x hx
      have hne' : ¬ (o = o') := hne
      simp [pointsTo, hne']; exact this
  · intro o' x hx
    simp only [List.getElem?_set] at hx
    split at hx
    · rename_i heq; subst heq
      simp at hx; subst hx
      have := h.aliveOK o y hy
      simp [hal] at this ⊢; exact this.2
    · exact h.aliveOK o' x hx
  · intro hh hd h1 h2
    exact handleOK_mono (fun a x hx => getElem?_append_old hx) (h.handleOK hh hd h1 h2)
  · exact h.ownUnique
  · intro hh hd p h1 h2 h3 h4
    rcases h4 with h4 | h4
    · obtain ⟨_, _, o2, h5⟩ := h.handleOK hh hd h1 h2
      obtain ⟨x, hx, _⟩ := h5 p.1 p.2 h3
      have := getElem?_lt hx
      omega
    · exact h.ownBuild hh hd p h1 h2 h3 h4
  · intro a x hx hl
    rcases getElem?_append_cases hx with h1 | ⟨h1, h2⟩
    · rcases h.ownComplete a x h1 hl with h3 | h3
      · exact Or.inl (Or.inr h3)
      · exact Or.inr h3
    · exact Or.inl (Or.inl h1)


theorem inv_setAtExit {tbl s P B} (h : Inv tbl s P B) : Inv tbl { s with atExit := true } P B := by
  exact { h with atExitOK := fun _ => rfl }

theorem inv_collInsert {tbl s P B} (c a : Nat) (x : Cell) (h : Inv tbl s P B)
    (hx : s.cells[a]? = some x) (hl : x.live = true) (hc : x.cls = c) (hat : s.atExit = true) :
    Inv tbl (collInsert s c a) (fun a' => P a' ∧ a' ≠ a) B := by
  unfold collInsert
  split
  · rename_i hm
    refine { h with collComplete := ?_ }
    intro a' x' hx' hl'
    rcases h.collComplete a' x' hx' hl' with h3 | h3
    · exact Or.inl h3
    · by_cases he : a' = a
      · subst he; rw [hx] at hx'; cases hx'; subst hc; exact Or.inl hm
      · exact Or.inr ⟨h3, he⟩
  · rename_i hm
    refine { h with collNodup := ?_, collSound := ?_, collComplete := ?_, atExitOK := ?_ }
    · simp only
      rw [List.nodup_append]
      refine ⟨h.collNodup, by simp, ?_⟩
      intro p hp q hq
      simp at hq; subst hq
      intro he; subst he; exact hm hp
    · intro c' a' hm'
      simp only [List.mem_append, List.mem_singleton] at hm'
      rcases hm' with h1 | h1
      · exact h.collSound c' a' h1
      · cases h1; exact ⟨x, hx, hl, hc⟩
    · intro a' x' hx' hl'
      simp only [List.mem_append, List.mem_singleton]
      by_cases he : a' = a
      · subst he
        have : x' = x := by simp only at hx'; rw [hx] at hx'; cases hx'; rfl
        subst this; subst hc
        exact Or.inl (Or.inr rfl)
      · rcases h.collComplete a' x' hx' hl' with h3 | h3
        · exact Or.inl (Or.inl h3)
        · exact Or.inr ⟨h3, he⟩
    · intro _; exact hat

theorem inv_newObjCell {tbl s P B} (c : Nat) (h : Inv tbl s P B) :
    Inv tbl (newObjCell s c).1 (fun a => a = s.cells.length ∨ P a) (fun a => a = s.cells.length ∨ B a) := by
  simp only [newObjCell]
  constructor
  · intro a x hx
    simp only [List.length_append, List.length_singleton]
    rcases getElem?_append_cases hx with h1 | ⟨h1, h2⟩
    · have := h.cellObj a x h1; omega
    · subst h2; simp
  · exact h.collNodup
  · intro c' a hm
    obtain ⟨x, hx, r⟩ := h.collSound c' a hm
    exact ⟨x, getElem?_append_old hx, r⟩
  · intro a x hx hl
    rcases getElem?_append_cases hx with h1 | ⟨h1, h2⟩
    · rcases h.collComplete a x h1 hl with h3 | h3
      · exact Or.inl h3
      · exact Or.inr (Or.inr h3)
    · exact Or.inr (Or.inl h1)
  · exact h.atExitOK
  · intro a x hx
    rcases getElem?_append_cases hx with h1 | ⟨h1, h2⟩
    · exact h.relOK a x h1
    · subst h2; rfl
  · intro o' x hx
    simp only [List.countP_append, List.countP_cons, List.countP_nil]
    rcases getElem?_append_cases hx with h1 | ⟨h1, h2⟩
    · have := h.strongOK o' x h1
      have hlt := getElem?_lt h1
      have hne : ¬ (s.objs.length = o') := by omega
      simp [pointsTo, hne]; exact this
    · subst h1 h2
      simp [pointsTo, countP_pointsTo_zero h]
  · intro o' x hx
    rcases getElem?_append_cases hx with h1 | ⟨h1, h2⟩
    · exact h.aliveOK o' x h1
    · subst h2; simp
  · intro hh hd h1 h2
    exact handleOK_mono (fun a x hx => getElem?_append_old hx) (h.handleOK hh hd h1 h2)
  · exact h.ownUnique
  · intro hh hd p h1 h2 h3 h4
    rcases h4 with h4 | h4
    · obtain ⟨_, _, o2, h5⟩ := h.handleOK hh hd h1 h2
      obtain ⟨x, hx, _⟩ := h5 p.1 p.2 h3
      have := getElem?_lt hx
      omega
    · exact h.ownBuild hh hd p h1 h2 h3 h4
  · intro a x hx hl
    rcases getElem?_append_cases hx with h1 | ⟨h1, h2⟩
    · rcases h.ownComplete a x h1 hl with h3 | h3
      · exact Or.inl (Or.inr h3)
      · exact Or.inr h3
    · exact Or.inl (Or.inl h1)

theorem inv_addHandle {tbl s P B} (k : Nat) (ptrs : List (Nat × Nat)) (h : Inv tbl s P B)
    (hok : HandleOK tbl s { cls := k, ptrs := ptrs, alive := true, stale := false })
    (hB : ∀ a, B a ↔ a ∈ ptrs.map Prod.snd) :
    Inv tbl (addHandle s k ptrs).1 P (fun _ => False) := by
  simp only [addHandle]
  refine { h with handleOK := ?_, ownUnique := ?_, ownBuild := ?_, ownComplete := ?_ }
  · intro hh hd h1 h2
    rcases getElem?_append_cases h1 with h3 | ⟨_, h3⟩
    · exact h.handleOK hh hd h3 h2
    · subst h3; exact hok
  · intro h1 h2 hd1 hd2 p1 p2 e1 e2 v1 v2 m1 m2 heq
    rcases getElem?_append_cases e1 with f1 | ⟨f1, g1⟩ <;>
    rcases getElem?_append_cases e2 with f2 | ⟨f2, g2⟩
    · exact h.ownUnique h1 h2 hd1 hd2 p1 p2 f1 f2 v1 v2 m1 m2 heq
    · subst g2
      exfalso
      apply h.ownBuild h1 hd1 p1 f1 v1 m1
      rw [hB, heq]; exact List.mem_map_of_mem (f := Prod.snd) m2
    · subst g1
      exfalso
      apply h.ownBuild h2 hd2 p2 f2 v2 m2
      rw [hB, ← heq]; exact List.mem_map_of_mem (f := Prod.snd) m1
    · omega
  · intro hh hd p _ _ _ hf; exact hf
  · intro a x hx hl
    right
    rcases h.ownComplete a x hx hl with h3 | ⟨hh, hd, c, e1, e2, e3⟩
    · rw [hB] at h3
      obtain ⟨p, hp, hpe⟩ := List.mem_map.1 h3
      refine ⟨s.handles.length, { cls := k, ptrs := ptrs, alive := true, stale := false }, p.1, by simp, ⟨rfl, rfl⟩, ?_⟩
      subst hpe; exact hp
    · exact ⟨hh, hd, c, getElem?_append_old e1, e2, e3⟩



theorem inv_incExt {tbl s P B} (o : Nat) (y : Obj) (h : Inv tbl s P B)
    (hy : s.objs[o]? = some y) (hal : y.alive = true) : Inv tbl (incExt s o) P B := by
  simp only [incExt, hy]
  refine { h with cellObj := ?_, strongOK := ?_, aliveOK := ?_, handleOK := ?_ }
  · intro a x hx; simp only [List.length_set]; exact h.cellObj a x hx
  · intro o' x hx
    simp only [List.getElem?_set] at hx
    split at hx
    · rename_i heq; subst heq
      split at hx
      · cases hx; have := h.strongOK o y hy; simp only; omega
      · cases hx
    · exact h.strongOK o' x hx
  · intro o' x hx
    simp only [List.getElem?_set] at hx
    split at hx
    · rename_i heq; subst heq
      split at hx
      · cases hx; have := h.aliveOK o y hy; simp [hal] at this ⊢; exact this.2
      · cases hx
    · exact h.aliveOK o' x hx
  · intro hh hd h1 h2; exact h.handleOK hh hd h1 h2

theorem decStrong_eq (s : State) (o : Nat) (y : Obj) (hy : s.objs[o]? = some y) :
    decStrong s o =
      if y.strong ≤ 1 then
        { s with objs := s.objs.set o { y with strong := 0, alive := false, destroyed := y.destroyed + 1 },
                 log := s.log ++ [Event.destroyed o] }
      else { s with objs := s.objs.set o { y with strong := y.strong - 1 } } := by
  simp [decStrong, hy]

theorem inv_decExt {tbl s P B} (o : Nat) (h : Inv tbl s P B) : Inv tbl (decExt s o) P B := by
  unfold decExt
  split
  · rename_i y hy
    split
    · exact h
    · rename_i hext
      have holt := getElem?_lt hy
      rw [decStrong_eq _ o { y with ext := y.ext - 1 } (by simp [holt])]
      have hs := h.strongOK o y hy
      have ha := h.aliveOK o y hy
      simp only [List.set_set]
      split
      · rename_i hle

        refine { h with cellObj := ?_, strongOK := ?_, aliveOK := ?_, handleOK := ?_ }
        · intro a x hx; simp only [List.length_set]; exact h.cellObj a x hx
        · intro o' x hx
          simp only [List.getElem?_set] at hx
          split at hx
          · rename_i heq; subst heq
            simp at hx; subst hx; simp only; omega
          · exact h.strongOK o' x hx
        · intro o' x hx
          simp only [List.getElem?_set] at hx
          split at hx
          · rename_i heq; subst heq
            simp at hx; subst hx
            have : y.alive = true := ha.1.2 (by omega)
            simp [this] at ha ⊢; exact ha.2
          · exact h.aliveOK o' x hx
        · intro hh hd h1 h2; exact h.handleOK hh hd h1 h2
      · rename_i hle

        refine { h with cellObj := ?_, strongOK := ?_, aliveOK := ?_, handleOK := ?_ }
        · intro a x hx; simp only [List.length_set]; exact h.cellObj a x hx
        · intro o' x hx
          simp only [List.getElem?_set] at hx
          split at hx
          · rename_i heq; subst heq
            simp at hx; subst hx; simp only; omega
          · exact h.strongOK o' x hx
        · intro o' x hx
          simp only [List.getElem?_set] at hx
          split at hx
          · rename_i heq; subst heq
            simp at hx; subst hx
            have : y.alive = true := ha.1.2 (by omega)
            simp [this] at ha ⊢
            exact ⟨by omega, ha.2⟩
          · exact h.aliveOK o' x hx
        · intro hh hd h1 h2; exact h.handleOK hh hd h1 h2
  · exact h



/-- State after `delete self` on a live cell, before the use count is decremented. -/
theorem deleteCell_live (s : State) (a : Nat) (x : Cell) (hx : s.cells[a]? = some x)
    (hl : x.live = true) :
    deleteCell s a =
      decStrong { s with cells := s.cells.set a { x with live := false, released := x.released + 1 },
                         log := s.log ++ [Event.released a] } x.obj := by
  simp [deleteCell, hx, hl]

theorem countP_set_dead {s : State} {a : Nat} {x : Cell} (o : Nat) (hx : s.cells[a]? = some x)
    (hl : x.live = true) (r : Nat) :
    (s.cells.set a { x with live := false, released := r }).countP (pointsTo o) =
      s.cells.countP (pointsTo o) - (if x.obj = o then 1 else 0) := by
  have hlt := getElem?_lt hx
  rw [List.countP_set hlt]
  have : s.cells[a] = x := by
    have := List.getElem?_eq_getElem hlt
    rw [this] at hx; cases hx; rfl
  rw [this]
  simp [pointsTo, hl]

theorem inv_release {tbl s P B} (c a : Nat) (x : Cell) (h : Inv tbl s P B)
    (hx : s.cells[a]? = some x) (hl : x.live = true) (hc : x.cls = c) (hB : B a) :
    Inv tbl (rtDeconstructor s c a) (fun a' => P a' ∧ a' ≠ a) (fun a' => B a' ∧ a' ≠ a) := by
  have hlt := getElem?_lt hx
  have holt := h.cellObj a x hx
  obtain ⟨y, hy⟩ : ∃ y, s.objs[x.obj]? = some y := ⟨s.objs[x.obj], List.getElem?_eq_getElem holt⟩
  have hs := h.strongOK x.obj y hy
  have ha := h.aliveOK x.obj y hy
  have hpos : 0 < s.cells.countP (pointsTo x.obj) :=
    countP_pos_of_getElem? hx (by simp [pointsTo, hl])
  have hyal : y.alive = true := ha.1.2 (by omega)
  -- cells not at `a` are untouched
  have hcell : ∀ (a' : Nat) (x' : Cell) (r : Nat),
      (s.cells.set a { x with live := false, released := r })[a']? = some x' →
      (a' ≠ a ∧ s.cells[a']? = some x') ∨ (a' = a ∧ x' = { x with live := false, released := r }) := by
    intro a' x' r hx'
    simp only [List.getElem?_set] at hx'
    split at hx'
    · rename_i heq; subst heq; simp at hx'; exact Or.inr ⟨rfl, hx'.symm⟩
    · rename_i hne; exact Or.inl ⟨fun e => hne e.symm, hx'⟩
  have hkeep : ∀ (a' : Nat) (x' : Cell) (r : Nat), a' ≠ a → s.cells[a']? = some x' →
      (s.cells.set a { x with live := false, released := r })[a']? = some x' := by
    intro a' x' r hne hx'
    simp only [List.getElem?_set]; rw [if_neg (fun e => hne e.symm)]; exact hx'
  have hvalid : ∀ (hh : Nat) (hd : Handle) (p : Nat × Nat), s.handles[hh]? = some hd → HValid hd →
      p ∈ hd.ptrs → p.2 ≠ a := by
    intro hh hd p h1 h2 h3 he
    exact h.ownBuild hh hd p h1 h2 h3 (he ▸ hB)
  unfold rtDeconstructor
  rw [deleteCell_live _ a x (by simpa [collErase] using hx) hl]
  simp only [collErase]
  rw [decStrong_eq _ x.obj y (by simpa using hy)]
  have common : ∀ (objs' : List Obj) (log' : List Event), objs'.length = s.objs.length →
      (∀ (o : Nat) (z : Obj), objs'[o]? = some z →
        z.strong = (s.cells.countP (pointsTo o) - (if x.obj = o then 1 else 0)) + z.ext ∧
        ((z.alive = true ↔ 0 < z.strong) ∧ z.destroyed = if z.alive then 0 else 1)) →
      Inv tbl { objs := objs', cells := s.cells.set a { x with live := false, released := x.released + 1 },
                coll := s.coll.erase (c, a), handles := s.handles, atExit := s.atExit, log := log' }
        (fun a' => P a' ∧ a' ≠ a) (fun a' => B a' ∧ a' ≠ a) := by
    intro objs' log' hlen hobjs
    constructor
    · intro a' x' hx'
      simp only [hlen]
      rcases hcell a' x' _ hx' with ⟨_, h1⟩ | ⟨_, h1⟩
      · exact h.cellObj a' x' h1
      · subst h1; exact holt
    · exact h.collNodup.erase _
    · intro c' a' hm
      rw [h.collNodup.mem_erase_iff] at hm
      obtain ⟨x', hx', hl', hc'⟩ := h.collSound c' a' hm.2
      have hne : a' ≠ a := by
        intro e; subst e
        rw [hx] at hx'; cases hx'
        exact hm.1 (by rw [← hc', hc])
      exact ⟨x', hkeep a' x' _ hne hx', hl', hc'⟩
    · intro a' x' hx' hl'
      rcases hcell a' x' _ hx' with ⟨hne, h1⟩ | ⟨_, h1⟩
      · rcases h.collComplete a' x' h1 hl' with h3 | h3
        · left
          rw [h.collNodup.mem_erase_iff]
          refine ⟨?_, h3⟩
          intro e; cases e; exact hne rfl
        · exact Or.inr ⟨h3, hne⟩
      · subst h1; cases hl'
    · intro hne
      apply h.atExitOK
      intro e; apply hne; simp only; rw [e]; rfl
    · intro a' x' hx'
      rcases hcell a' x' _ hx' with ⟨_, h1⟩ | ⟨_, h1⟩
      · exact h.relOK a' x' h1
      · subst h1
        have := h.relOK a x hx
        simp [hl] at this; simp [this]
    · intro o z hz
      rw [countP_set_dead o hx hl]
      exact (hobjs o z hz).1
    · intro o z hz
      exact (hobjs o z hz).2
    · intro hh hd h1 h2
      obtain ⟨e1, e2, o, e3⟩ := h.handleOK hh hd h1 h2
      refine ⟨e1, e2, o, ?_⟩
      intro c' a' hm
      obtain ⟨x', hx', r⟩ := e3 c' a' hm
      exact ⟨x', hkeep a' x' _ (hvalid hh hd (c', a') h1 h2 hm) hx', r⟩
    · exact h.ownUnique
    · intro hh hd p h1 h2 h3 h4
      exact h.ownBuild hh hd p h1 h2 h3 h4.1
    · intro a' x' hx' hl'
      rcases hcell a' x' _ hx' with ⟨hne, h1⟩ | ⟨_, h1⟩
      · rcases h.ownComplete a' x' h1 hl' with h3 | h3
        · exact Or.inl ⟨h3, hne⟩
        · exact Or.inr h3
      · subst h1; cases hl'
  split
  · rename_i hle
    apply common
    · simp
    · intro o z hz
      simp only [List.getElem?_set] at hz
      split at hz
      · rename_i heq; subst heq
        simp at hz; subst hz
        simp only [if_true]
        refine ⟨by omega, by simp, ?_⟩
        simp [hyal] at ha; simp [ha.2]
      · rename_i hne
        simp only [if_neg hne]
        exact ⟨by simpa using h.strongOK o z hz, h.aliveOK o z hz⟩
  · rename_i hle
    apply common
    · simp
    · intro o z hz
      simp only [List.getElem?_set] at hz
      split at hz
      · rename_i heq; subst heq
        simp at hz; subst hz
        simp only [if_true]
        refine ⟨by omega, ?_, ?_⟩
        · simp [hyal]; omega
        · exact ha.2
      · rename_i hne
        simp only [if_neg hne]
        exact ⟨by simpa using h.strongOK o z hz, h.aliveOK o z hz⟩



theorem inv_killHandle {tbl s P} (h0 : Nat) (hd0 : Handle) (h : Inv tbl s P (fun _ => False))
    (he : s.handles[h0]? = some hd0) (hv : HValid hd0) :
    Inv tbl { s with handles := s.handles.set h0 { hd0 with alive := false } } P
      (fun a => a ∈ hd0.ptrs.map Prod.snd) := by
  have hget : ∀ (hh : Nat) (hd : Handle),
      (s.handles.set h0 { hd0 with alive := false })[hh]? = some hd → HValid hd →
      hh ≠ h0 ∧ s.handles[hh]? = some hd := by
    intro hh hd h1 h2
    simp only [List.getElem?_set] at h1
    split at h1
    · rename_i heq; subst heq
      split at h1
      · cases h1; cases h2.1
      · cases h1
    · rename_i hne; exact ⟨fun e => hne e.symm, h1⟩
  refine { h with handleOK := ?_, ownUnique := ?_, ownBuild := ?_, ownComplete := ?_ }
  · intro hh hd h1 h2
    exact h.handleOK hh hd (hget hh hd h1 h2).2 h2
  · intro h1 h2 hd1 hd2 p1 p2 e1 e2 v1 v2 m1 m2 heq
    exact h.ownUnique h1 h2 hd1 hd2 p1 p2 (hget h1 hd1 e1 v1).2 (hget h2 hd2 e2 v2).2 v1 v2 m1 m2 heq
  · intro hh hd p e1 v1 m1 hB
    obtain ⟨hne, e1'⟩ := hget hh hd e1 v1
    obtain ⟨q, hq, hqe⟩ := List.mem_map.1 hB
    exact hne (h.ownUnique hh h0 hd hd0 p q e1' he v1 hv m1 hq hqe.symm)
  · intro a x hx hl
    rcases h.ownComplete a x hx hl with h3 | ⟨hh, hd, c, e1, e2, e3⟩
    · exact h3.elim
    · by_cases hc : hh = h0
      · subst hc
        rw [he] at e1; cases e1
        exact Or.inl (List.mem_map_of_mem (f := Prod.snd) e3)
      · refine Or.inr ⟨hh, hd, c, ?_, e2, e3⟩
        simp only [List.getElem?_set]; rw [if_neg (fun e => hc e.symm)]; exact e1

theorem inv_staleAll {tbl s P B} (h : Inv tbl s P B) :
    Inv tbl { s with handles := s.handles.map fun hd => { hd with stale := true } } P (fun _ => True) := by
  have hno : ∀ (hh : Nat) (hd : Handle),
      (s.handles.map fun hd => { hd with stale := true })[hh]? = some hd → ¬ HValid hd := by
    intro hh hd h1 h2
    simp only [List.getElem?_map] at h1
    cases hq : s.handles[hh]? with
    | none => rw [hq] at h1; cases h1
    | some z => rw [hq] at h1; simp at h1; subst h1; cases h2.2
  refine { h with handleOK := ?_, ownUnique := ?_, ownBuild := ?_, ownComplete := ?_ }
  · intro hh hd h1 h2; exact (hno hh hd h1 h2).elim
  · intro h1 h2 hd1 hd2 p1 p2 e1 e2 v1; exact (hno h1 hd1 e1 v1).elim
  · intro hh hd p e1 v1; exact (hno hh hd e1 v1).elim
  · intro a x hx hl; exact Or.inl trivial

/-- No handle is valid (all stale or deleted). -/
def NoValid (s : State) : Prop := ∀ (hh : Nat) (hd : Handle), s.handles[hh]? = some hd → ¬ HValid hd

theorem inv_weakenB {tbl s P B} (B' : Nat → Prop) (h : Inv tbl s P B) (hno : NoValid s)
    (hB : ∀ a, B a → B' a) : Inv tbl s P B' := by
  refine { h with ownBuild := ?_, ownComplete := ?_ }
  · intro hh hd p e1 v1; exact (hno hh hd e1 v1).elim
  · intro a x hx hl
    rcases h.ownComplete a x hx hl with h3 | ⟨hh, hd, c, e1, e2, e3⟩
    · exact Or.inl (hB a h3)
    · exact (hno hh hd e1 e2).elim


/-! ### the classdef constructor chain -/


@[simp] theorem collInsert_cells (s : State) (c a : Nat) : (collInsert s c a).cells = s.cells := by
  unfold collInsert; split <;> rfl
@[simp] theorem collInsert_objs (s : State) (c a : Nat) : (collInsert s c a).objs = s.objs := by
  unfold collInsert; split <;> rfl
@[simp] theorem collInsert_handles (s : State) (c a : Nat) : (collInsert s c a).handles = s.handles := by
  unfold collInsert; split <;> rfl
@[simp] theorem collInsert_atExit (s : State) (c a : Nat) : (collInsert s c a).atExit = s.atExit := by
  unfold collInsert; split <;> rfl

/-- What the key-branch constructor chain guarantees. -/
structure KeySpec (tbl : ClassTable) (fuel : Nat) (s : State) (c p o : Nat) (B : Nat → Prop)
    (r : State × List (Nat × Nat)) : Prop where
  inv : Inv tbl r.1 (fun _ => False) (fun a => B a ∨ a ∈ r.2.map Prod.snd)
  levels : r.2.map Prod.fst = chainAux tbl fuel c
  cellsOK : ∀ (c' a' : Nat), (c', a') ∈ r.2 →
    ∃ x' : Cell, r.1.cells[a']? = some x' ∧ x'.live = true ∧ x'.cls = c' ∧ x'.obj = o
  nodup : (r.2.map Prod.snd).Nodup
  fresh : ∀ a', a' ∈ r.2.map Prod.snd → a' = p ∨ s.cells.length ≤ a'
  head : p ∈ r.2.map Prod.snd
  handles : r.1.handles = s.handles
  frame : ∀ (a' : Nat) (x' : Cell), s.cells[a']? = some x' → r.1.cells[a']? = some x'

theorem mCtorKey_spec {tbl : ClassTable} (hwf : WF tbl) :
    ∀ (fuel : Nat) (s : State) (c p o : Nat) (B : Nat → Prop) (x : Cell) (y : Obj),
      c ≤ fuel → Inv tbl s (fun a => a = p) B → B p →
      s.cells[p]? = some x → x.live = true → x.cls = c → x.obj = o →
      s.objs[o]? = some y → y.alive = true →
      KeySpec tbl fuel s c p o B (mCtorKey tbl fuel s c p) := by
  intro fuel
  induction fuel with
  | zero =>
    intro s c p o B x y hle hinv hBp hx hl hc ho hy hal
    have hc0 : c = 0 := by omega
    have hb : baseOf tbl c = none := by
      cases hq : baseOf tbl c with
      | none => rfl
      | some b => have := hwf c b hq; omega
    have h1 := inv_collInsert c p x (inv_setAtExit hinv) (by simpa using hx) hl hc rfl
    simp only [mCtorKey, rtCollectorInsertAndMakeBase, hb]
    constructor
    · refine h1.congr (fun a ha => ha.2 ha.1) (fun a => ?_)
      simp only [List.map_cons, List.map_nil, List.mem_singleton]
      constructor
      · intro h; exact Or.inl h
      · intro h; rcases h with h | h
        · exact h
        · subst h; exact hBp
    · simp [chainAux]
    · intro c' a' hm
      simp only [List.mem_singleton] at hm; cases hm
      exact ⟨x, by simpa using hx, hl, hc, ho⟩
    · simp
    · intro a' ha'; simp at ha'; exact Or.inl ha'
    · simp
    · simp
    · intro a' x' hx'; simpa using hx'
  | succ f ih =>
    intro s c p o B x y hle hinv hBp hx hl hc ho hy hal
    have h1 := inv_collInsert c p x (inv_setAtExit hinv) (by simpa using hx) hl hc rfl
    cases hb : baseOf tbl c with
    | none =>
      simp only [mCtorKey, rtCollectorInsertAndMakeBase, hb]
      constructor
      · refine h1.congr (fun a ha => ha.2 ha.1) (fun a => ?_)
        simp only [List.map_cons, List.map_nil, List.mem_singleton]
        constructor
        · intro h; exact Or.inl h
        · intro h; rcases h with h | h
          · exact h
          · subst h; exact hBp
      · simp [chainAux, hb]
      · intro c' a' hm
        simp only [List.mem_singleton] at hm; cases hm
        exact ⟨x, by simpa using hx, hl, hc, ho⟩
      · simp
      · intro a' ha'; simp at ha'; exact Or.inl ha'
      · simp
      · simp
      · intro a' x' hx'; simpa using hx'
    | some b =>
      have hbc := hwf c b hb
      have hplt := getElem?_lt hx
      -- the state after `collector.insert`
      have hx1 : (collInsert { s with atExit := true } c p).cells[p]? = some x := by simpa using hx
      have hy1 : (collInsert { s with atExit := true } c p).objs[x.obj]? = some y := by
        simpa [ho] using hy
      have h2 := inv_newCell x.obj b y h1 hy1 hal
      have hstep : mCtorKey tbl (f + 1) s c p =
          ((mCtorKey tbl f (newCell (collInsert { s with atExit := true } c p) x.obj b).1 b s.cells.length).1,
           (c, p) :: (mCtorKey tbl f (newCell (collInsert { s with atExit := true } c p) x.obj b).1 b s.cells.length).2) := by
        simp [mCtorKey, rtCollectorInsertAndMakeBase, hb, hx, newCell]
      rw [hstep]
      generalize hs2 : (newCell (collInsert { s with atExit := true } c p) x.obj b).1 = s2 at h2 ⊢
      have hs2cells : s2.cells = s.cells ++ [{ obj := x.obj, cls := b, live := true, released := 0 }] := by
        rw [← hs2, newCell_fst _ _ _ y hy1]; simp
      have hs2objs : s2.objs = s.objs.set x.obj { y with strong := y.strong + 1 } := by
        rw [← hs2, newCell_fst _ _ _ y hy1]; simp
      have hs2handles : s2.handles = s.handles := by
        rw [← hs2, newCell_fst _ _ _ y hy1]; simp
      have hbp : s2.cells[s.cells.length]? = some { obj := x.obj, cls := b, live := true, released := 0 } := by
        rw [hs2cells]; simp
      have hy2 : s2.objs[o]? = some { y with strong := y.strong + 1 } := by
        rw [hs2objs, ho, List.getElem?_set]; simp [getElem?_lt hy]
      have hinv2 : Inv tbl s2 (fun a => a = s.cells.length)
          (fun a => a = s.cells.length ∨ B a) := by
        refine h2.congr (fun a ha => ?_) (fun a => by simp)
        rcases ha with ha | ha
        · simpa using ha
        · exact (ha.2 ha.1).elim
      have r := ih s2 b s.cells.length o (fun a => a = s.cells.length ∨ B a) _ _
        (by omega) hinv2 (Or.inl rfl) hbp rfl rfl ho hy2 hal
      generalize mCtorKey tbl f s2 b s.cells.length = res at r ⊢
      have hlen2 : s2.cells.length = s.cells.length + 1 := by rw [hs2cells]; simp
      constructor
      · refine r.inv.congr (fun a ha => ha) (fun a => ?_)
        simp only [List.map_cons, List.mem_cons]
        constructor
        · intro h; rcases h with (h | h) | h
          · subst h; exact Or.inr (Or.inr r.head)
          · exact Or.inl h
          · exact Or.inr (Or.inr h)
        · intro h; rcases h with h | h | h
          · exact Or.inl (Or.inr h)
          · subst h; exact Or.inl (Or.inr hBp)
          · exact Or.inr h
      · simp [chainAux, hb, r.levels]
      · intro c' a' hm
        simp only [List.mem_cons] at hm
        rcases hm with hm | hm
        · cases hm
          refine ⟨x, r.frame p x ?_, hl, hc, ho⟩
          rw [hs2cells]; exact getElem?_append_old hx
        · exact r.cellsOK c' a' hm
      · simp only [List.map_cons, List.nodup_cons]
        refine ⟨?_, r.nodup⟩
        intro hm
        rcases r.fresh p hm with h | h <;> omega
      · intro a' ha'
        simp only [List.map_cons, List.mem_cons] at ha'
        rcases ha' with ha' | ha'
        · exact Or.inl ha'
        · rcases r.fresh a' ha' with h | h <;> right <;> omega
      · simp
      · rw [r.handles, hs2handles]
      · intro a' x' hx'
        apply r.frame
        rw [hs2cells]; exact getElem?_append_old hx'



abbrev NoneSet : Nat → Prop := fun _ => False

theorem chain_succ {tbl : ClassTable} {c b : Nat} (hb : baseOf tbl c = some b) (hlt : b < c) :
    chain tbl c = c :: chainAux tbl (c - 1) b := by
  unfold chain
  obtain ⟨n, rfl⟩ : ∃ n, c = n + 1 := ⟨c - 1, by omega⟩
  simp [chainAux, hb]

theorem chain_root {tbl : ClassTable} {c : Nat} (hb : baseOf tbl c = none) : chain tbl c = [c] := by
  unfold chain
  cases c with
  | zero => simp [chainAux]
  | succ n => simp [chainAux, hb]

theorem inv_wrapSharedPtr {tbl : ClassTable} (hwf : WF tbl) {s : State} (o k : Nat) (y : Obj)
    (h : Inv tbl s NoneSet NoneSet) (hy : s.objs[o]? = some y) (hal : y.alive = true) :
    Inv tbl (wrapSharedPtr tbl s o k).1 NoneSet NoneSet := by
  have h1 := inv_newCell o k y h hy hal
  have hfst := newCell_fst s o k y hy
  have hp : (newCell s o k).1.cells[s.cells.length]? =
      some { obj := o, cls := k, live := true, released := 0 } := by rw [hfst]; simp
  have hy1 : (newCell s o k).1.objs[o]? = some { y with strong := y.strong + 1 } := by
    rw [hfst]; simp [getElem?_lt hy]
  have hsnd : (newCell s o k).2 = s.cells.length := rfl
  have spec := mCtorKey_spec hwf k (newCell s o k).1 k s.cells.length o
    (fun a => a = s.cells.length) _ _ (Nat.le_refl k)
    (h1.congr (fun a ha => by rcases ha with ha | ha; exact ha; exact ha.elim)
      (fun a => by simp [NoneSet])) rfl hp rfl rfl rfl hy1 hal
  simp only [wrapSharedPtr, hsnd]
  generalize mCtorKey tbl k (newCell s o k).1 k s.cells.length = r at spec
  apply inv_addHandle k r.2 spec.inv
  · exact ⟨spec.levels, spec.nodup, o, spec.cellsOK⟩
  · intro a
    constructor
    · intro ha; rcases ha with ha | ha
      · subst ha; exact spec.head
      · exact ha
    · intro ha; exact Or.inr ha

theorem inv_mConstruct {tbl : ClassTable} (hwf : WF tbl) {s : State} (c : Nat)
    (h : Inv tbl s NoneSet NoneSet) : Inv tbl (mConstruct tbl s c).1 NoneSet NoneSet := by
  have h1 := inv_newObjCell c (inv_setAtExit h)
  have hcell : (newObjCell { s with atExit := true } c).1.cells[s.cells.length]? =
      some { obj := s.objs.length, cls := c, live := true, released := 0 } := by
    simp [newObjCell]
  have hobj : (newObjCell { s with atExit := true } c).1.objs[s.objs.length]? =
      some { dyn := c, strong := 1, ext := 0, alive := true, destroyed := 0 } := by
    simp [newObjCell]
  have h2 := inv_collInsert c s.cells.length _ h1 hcell rfl rfl rfl
  generalize hs2 : collInsert (newObjCell { s with atExit := true } c).1 c s.cells.length = s2 at h2
  have hs2cells : s2.cells = s.cells ++ [{ obj := s.objs.length, cls := c, live := true, released := 0 }] := by
    rw [← hs2]; simp [newObjCell]
  have hs2objs : s2.objs = s.objs ++ [{ dyn := c, strong := 1, ext := 0, alive := true, destroyed := 0 }] := by
    rw [← hs2]; simp [newObjCell]
  have h2' : Inv tbl s2 NoneSet (fun a => a = s.cells.length) := by
    refine h2.congr (fun a ha => ?_) (fun a => by simp [NoneSet])
    rcases ha with ⟨ha | ha, hne⟩
    · exact hne ha
    · exact ha
  have hcell2 : s2.cells[s.cells.length]? =
      some { obj := s.objs.length, cls := c, live := true, released := 0 } := by
    rw [hs2cells]; simp
  cases hb : baseOf tbl c with
  | none =>
    have : mConstruct tbl s c = addHandle s2 c [(c, s.cells.length)] := by
      simp [mConstruct, rtConstructor, hb, newObjCell] at hs2 ⊢
      rw [hs2]
    rw [this]
    apply inv_addHandle c _ h2'
    · refine ⟨by simp [chain_root hb], by simp, s.objs.length, ?_⟩
      intro c' a' hm
      simp only [List.mem_singleton] at hm; cases hm
      exact ⟨_, hcell2, rfl, rfl, rfl⟩
    · intro a; simp
  | some b =>
    have hbc := hwf c b hb
    have hobj2 : s2.objs[s.objs.length]? =
        some { dyn := c, strong := 1, ext := 0, alive := true, destroyed := 0 } := by
      rw [hs2objs]; simp
    have h3 := inv_newCell s.objs.length b _ h2' hobj2 rfl
    have hfst := newCell_fst s2 s.objs.length b _ hobj2
    have hlen2 : s2.cells.length = s.cells.length + 1 := by rw [hs2cells]; simp
    have hbp : (newCell s2 s.objs.length b).1.cells[s.cells.length + 1]? =
        some { obj := s.objs.length, cls := b, live := true, released := 0 } := by
      rw [hfst]; simp [← hlen2]
    have hobj3 : (newCell s2 s.objs.length b).1.objs[s.objs.length]? =
        some { dyn := c, strong := 2, ext := 0, alive := true, destroyed := 0 } := by
      rw [hfst]; simp [hs2objs]
    have hcell3 : (newCell s2 s.objs.length b).1.cells[s.cells.length]? =
        some { obj := s.objs.length, cls := c, live := true, released := 0 } := by
      rw [hfst]; exact getElem?_append_old hcell2
    have spec := mCtorKey_spec hwf (c - 1) (newCell s2 s.objs.length b).1 b (s.cells.length + 1)
      s.objs.length (fun a => a = s.cells.length + 1 ∨ a = s.cells.length) _ _ (by omega)
      (h3.congr (fun a ha => by
          rcases ha with ha | ha
          · omega
          · exact ha.elim) (fun a => by simp [hlen2]))
      (Or.inl rfl) hbp rfl rfl rfl hobj3 rfl
    have : mConstruct tbl s c =
        addHandle (mCtorKey tbl (c - 1) (newCell s2 s.objs.length b).1 b (s.cells.length + 1)).1 c
          ((c, s.cells.length) ::
            (mCtorKey tbl (c - 1) (newCell s2 s.objs.length b).1 b (s.cells.length + 1)).2) := by
      simp only [mConstruct, rtConstructor, hb]
      have e1 : (newObjCell { s with atExit := true } c).2.2 = s.cells.length := rfl
      have e2 : (newObjCell { s with atExit := true } c).2.1 = s.objs.length := rfl
      simp only [e1, e2, hs2]
      have e3 : (newCell s2 s.objs.length b).2 = s.cells.length + 1 := by simp [newCell, hlen2]
      simp only [e3]
    rw [this]
    generalize mCtorKey tbl (c - 1) (newCell s2 s.objs.length b).1 b (s.cells.length + 1) = r at spec
    have hlen3 : (newCell s2 s.objs.length b).1.cells.length = s.cells.length + 2 := by
      rw [hfst]; simp [hlen2]
    apply inv_addHandle c _ spec.inv
    · refine ⟨?_, ?_, s.objs.length, ?_⟩
      · simp [chain_succ hb hbc, spec.levels]
      · simp only [List.map_cons, List.nodup_cons]
        refine ⟨?_, spec.nodup⟩
        intro hm
        rcases spec.fresh _ hm with h | h <;> omega
      · intro c' a' hm
        simp only [List.mem_cons] at hm
        rcases hm with hm | hm
        · cases hm
          exact ⟨_, spec.frame _ _ hcell3, rfl, rfl, rfl⟩
        · exact spec.cellsOK c' a' hm
    · intro a
      simp only [List.map_cons, List.mem_cons]
      constructor
      · intro ha
        rcases ha with (ha | ha) | ha
        · subst ha; exact Or.inr spec.head
        · exact Or.inl ha
        · exact Or.inr ha
      · intro ha
        rcases ha with ha | ha
        · exact Or.inl (Or.inr ha)
        · exact Or.inr ha



/-! ### frames of the deconstructor -/

@[simp] theorem decStrong_cells (s : State) (o : Nat) : (decStrong s o).cells = s.cells := by
  unfold decStrong; split
  · split <;> rfl
  · rfl
@[simp] theorem decStrong_handles (s : State) (o : Nat) : (decStrong s o).handles = s.handles := by
  unfold decStrong; split
  · split <;> rfl
  · rfl
@[simp] theorem decStrong_coll (s : State) (o : Nat) : (decStrong s o).coll = s.coll := by
  unfold decStrong; split
  · split <;> rfl
  · rfl
@[simp] theorem decStrong_atExit (s : State) (o : Nat) : (decStrong s o).atExit = s.atExit := by
  unfold decStrong; split
  · split <;> rfl
  · rfl

@[simp] theorem deleteCell_handles (s : State) (a : Nat) : (deleteCell s a).handles = s.handles := by
  unfold deleteCell; split
  · split <;> simp
  · rfl
@[simp] theorem deleteCell_coll (s : State) (a : Nat) : (deleteCell s a).coll = s.coll := by
  unfold deleteCell; split
  · split <;> simp
  · rfl
@[simp] theorem deleteCell_atExit (s : State) (a : Nat) : (deleteCell s a).atExit = s.atExit := by
  unfold deleteCell; split
  · split <;> simp
  · rfl

theorem deleteCell_cells_ne (s : State) (a a' : Nat) (hne : a' ≠ a) :
    (deleteCell s a).cells[a']? = s.cells[a']? := by
  unfold deleteCell; split
  · split <;> simp only [decStrong_cells, List.getElem?_set] <;> rw [if_neg (fun e => hne (Eq.symm e))]
  · rfl

@[simp] theorem rtDeconstructor_handles (s : State) (c a : Nat) :
    (rtDeconstructor s c a).handles = s.handles := by simp [rtDeconstructor, collErase]

theorem rtDeconstructor_cells_ne (s : State) (c a a' : Nat) (hne : a' ≠ a) :
    (rtDeconstructor s c a).cells[a']? = s.cells[a']? := by
  simp [rtDeconstructor, collErase, deleteCell_cells_ne _ _ _ hne]

theorem collErase_deleteCell (s : State) (c a : Nat) :
    collErase (deleteCell s a) c a = rtDeconstructor s c a := by
  unfold rtDeconstructor collErase deleteCell
  simp only
  split
  · split
    · simp only [decStrong]
      split
      · split <;> rfl
      · rfl
    · rfl
  · rfl

/-! ### deleting a handle -/

theorem foldl_release {tbl : ClassTable} :
    ∀ (ps : List (Nat × Nat)) (s : State), (ps.map Prod.snd).Nodup →
      Inv tbl s NoneSet (fun a => a ∈ ps.map Prod.snd) →
      (∀ (c a : Nat), (c, a) ∈ ps → ∃ x : Cell, s.cells[a]? = some x ∧ x.live = true ∧ x.cls = c) →
      Inv tbl (ps.foldl (fun st p => rtDeconstructor st p.1 p.2) s) NoneSet NoneSet ∧
      (ps.foldl (fun st p => rtDeconstructor st p.1 p.2) s).handles = s.handles := by
  intro ps
  induction ps with
  | nil =>
    intro s _ h _
    exact ⟨h.congr (fun a ha => ha) (fun a => by simp [NoneSet]), rfl⟩
  | cons p ps ih =>
    intro s hnd h hcells
    simp only [List.map_cons, List.nodup_cons] at hnd
    obtain ⟨x, hx, hl, hc⟩ := hcells p.1 p.2 (by simp)
    have h1 := inv_release p.1 p.2 x h hx hl hc (by simp)
    simp only [List.foldl_cons]
    have h2 : Inv tbl (rtDeconstructor s p.1 p.2) NoneSet (fun a => a ∈ ps.map Prod.snd) := by
      refine h1.congr (fun a ha => ha.1) (fun a => ?_)
      simp only [List.map_cons, List.mem_cons]
      constructor
      · intro ha; rcases ha with ⟨ha | ha, hne⟩
        · exact (hne ha).elim
        · exact ha
      · intro ha
        refine ⟨Or.inr ha, ?_⟩
        intro e; subst e; exact hnd.1 ha
    have := ih (rtDeconstructor s p.1 p.2) hnd.2 h2 (by
      intro c a hm
      obtain ⟨x', hx', r⟩ := hcells c a (List.mem_cons_of_mem _ hm)
      have hne : a ≠ p.2 := by
        intro e; subst e
        exact hnd.1 (List.mem_map.2 ⟨(c, p.2), hm, rfl⟩)
      exact ⟨x', by rw [rtDeconstructor_cells_ne _ _ _ _ hne]; exact hx', r⟩)
    exact ⟨this.1, by rw [this.2]; simp⟩

theorem inv_mDelete {tbl : ClassTable} {s : State} (h0 : Nat) (hd0 : Handle)
    (h : Inv tbl s NoneSet NoneSet) (he : s.handles[h0]? = some hd0) (hv : HValid hd0) :
    Inv tbl (mDelete s h0) NoneSet NoneSet ∧
    (mDelete s h0).handles = s.handles.set h0 { hd0 with alive := false } := by
  simp only [mDelete, he]
  obtain ⟨e1, e2, o, e3⟩ := h.handleOK h0 hd0 he hv
  have := foldl_release (tbl := tbl) hd0.ptrs
    { s with handles := s.handles.set h0 { hd0 with alive := false } } e2
    (inv_killHandle h0 hd0 h he hv) (by
      intro c a hm
      obtain ⟨x, hx, hl, hc, _⟩ := e3 c a hm
      exact ⟨x, hx, hl, hc⟩)
  exact this

/-! ### unloading -/

theorem foldl_deleteAll {tbl : ClassTable} :
    ∀ (l : List (Nat × Nat)) (s : State), s.coll = l →
      Inv tbl s NoneSet (fun _ => True) → NoValid s →
      Inv tbl (l.foldl (fun st p => rtDeconstructor st p.1 p.2) s) NoneSet (fun _ => True) ∧
      (l.foldl (fun st p => rtDeconstructor st p.1 p.2) s).coll = [] ∧
      (l.foldl (fun st p => rtDeconstructor st p.1 p.2) s).handles = s.handles := by
  intro l
  induction l with
  | nil => intro s hc h hno; exact ⟨h, hc, rfl⟩
  | cons p l ih =>
    intro s hc h hno
    simp only [List.foldl_cons]
    obtain ⟨x, hx, hl, hcl⟩ := h.collSound p.1 p.2 (by rw [hc]; simp)
    have h1 := inv_release p.1 p.2 x h hx hl hcl trivial
    have hno' : NoValid (rtDeconstructor s p.1 p.2) := by
      intro hh hd e; rw [rtDeconstructor_handles] at e; exact hno hh hd e
    have h2 : Inv tbl (rtDeconstructor s p.1 p.2) NoneSet (fun _ => True) :=
      inv_weakenB _ (h1.congr (fun a ha => ha.1) (fun a => Iff.rfl)) hno' (fun _ _ => trivial)
    have hcoll : (rtDeconstructor s p.1 p.2).coll = l := by
      simp [rtDeconstructor, collErase, hc]
    have := ih _ hcoll h2 hno'
    exact ⟨this.1, this.2.1, by rw [this.2.2]; simp⟩

theorem deleteAllObjects_eq (s : State) :
    deleteAllObjects s = s.coll.foldl (fun st p => rtDeconstructor st p.1 p.2) s := by
  simp only [deleteAllObjects, collErase_deleteCell]

theorem noLive_of_coll_nil {tbl : ClassTable} {s : State} {B : Nat → Prop}
    (h : Inv tbl s NoneSet B) (hc : s.coll = []) :
    ∀ (a : Nat) (x : Cell), s.cells[a]? = some x → x.live = false := by
  intro a x hx
  cases hl : x.live with
  | false => rfl
  | true =>
    rcases h.collComplete a x hx hl with h1 | h1
    · rw [hc] at h1; cases h1
    · exact h1.elim

theorem inv_unload_aux {tbl : ClassTable} (s0 : State)
    (h0 : Inv tbl s0 NoneSet (fun _ => True)) (hno0 : NoValid s0) :
    Inv tbl { (if s0.atExit then deleteAllObjects s0 else s0) with coll := [], atExit := false }
      NoneSet NoneSet ∧
    (if s0.atExit then deleteAllObjects s0 else s0).handles = s0.handles := by
  have key : ∀ (s1 : State), Inv tbl s1 NoneSet (fun _ => True) → NoValid s1 → s1.coll = [] →
      Inv tbl { s1 with coll := [], atExit := false } NoneSet NoneSet := by
    intro s1 i1 n1 c1
    have nl := noLive_of_coll_nil i1 c1
    refine { i1 with collNodup := by simp, collSound := ?_, collComplete := ?_, atExitOK := ?_,
                     ownBuild := ?_, ownComplete := ?_ }
    · intro c a hm; cases hm
    · intro a x hx hl; rw [nl a x hx] at hl; cases hl
    · intro hne; exact (hne rfl).elim
    · intro hh hd p _ _ _ hf; exact hf
    · intro a x hx hl; rw [nl a x hx] at hl; cases hl
  by_cases hat : s0.atExit = true
  · rw [if_pos hat, deleteAllObjects_eq]
    obtain ⟨i1, c1, f1⟩ := foldl_deleteAll (tbl := tbl) _ _ rfl h0 hno0
    have n1 : NoValid (s0.coll.foldl (fun st p => rtDeconstructor st p.1 p.2) s0) := by
      intro hh hd e; rw [f1] at e; exact hno0 hh hd e
    exact ⟨key _ i1 n1 c1, f1⟩
  · have c0 : s0.coll = [] := by
      cases hq : s0.coll with
      | nil => rfl
      | cons p l => exact (hat (h0.atExitOK (by rw [hq]; simp))).elim
    rw [if_neg hat]
    exact ⟨key _ h0 hno0 c0, rfl⟩

theorem inv_unload {tbl : ClassTable} {s : State} (h : Inv tbl s NoneSet NoneSet) :
    Inv tbl (unload s) NoneSet NoneSet ∧ (unload s).coll = [] ∧
      (∀ (hh : Nat) (hd : Handle), (unload s).handles[hh]? = some hd → hd.stale = true) := by
  have h0 := inv_staleAll h
  have hstale : ∀ (hh : Nat) (hd : Handle),
      (s.handles.map fun hd => { hd with stale := true })[hh]? = some hd → hd.stale = true := by
    intro hh hd e
    simp only [List.getElem?_map] at e
    cases hq : s.handles[hh]? with
    | none => rw [hq] at e; cases e
    | some z => rw [hq] at e; simp at e; subst e; rfl
  have hno0 : NoValid { s with handles := s.handles.map fun hd => { hd with stale := true } } := by
    intro hh hd h1 h2
    have := hstale hh hd h1
    rw [h2.2] at this; cases this
  obtain ⟨i, f⟩ := inv_unload_aux _ h0 hno0
  refine ⟨i, rfl, ?_⟩
  intro hh hd e
  apply hstale hh hd
  have e' : (if s.atExit = true then
      deleteAllObjects { s with handles := s.handles.map fun hd => { hd with stale := true } }
      else { s with handles := s.handles.map fun hd => { hd with stale := true } }).handles[hh]?
      = some hd := e
  rw [f] at e'
  exact e'


/-! ### operations and histories -/


theorem objAlive_spec {s : State} {o : Nat} (h : objAlive s o = true) :
    ∃ y : Obj, s.objs[o]? = some y ∧ y.alive = true := by
  unfold objAlive at h
  cases hq : s.objs[o]? with
  | none => rw [hq] at h; cases h
  | some y => rw [hq] at h; exact ⟨y, rfl, h⟩

theorem handleUsable_spec {s : State} {h : Nat} (hu : handleUsable true s h = true) :
    ∃ hd : Handle, s.handles[h]? = some hd ∧ HValid hd := by
  unfold handleUsable at hu
  cases hq : s.handles[h]? with
  | none => rw [hq] at hu; cases hu
  | some hd =>
    rw [hq] at hu
    simp at hu
    exact ⟨hd, rfl, hu.1, hu.2⟩

theorem inv_microStep {tbl : ClassTable} (hwf : WF tbl) {s : State} (m : Micro)
    (h : Inv tbl s NoneSet NoneSet) (hv : microValid true tbl s m = true) :
    Inv tbl (microStep tbl s m) NoneSet NoneSet := by
  cases m with
  | use hh k => exact h
  | alloc d => exact inv_freshObj d h
  | hold o =>
    obtain ⟨y, hy, hal⟩ := objAlive_spec (by simpa [microValid] using hv)
    exact inv_incExt o y h hy hal
  | drop o => exact inv_decExt o h
  | ret o k =>
    simp only [microValid, Bool.and_eq_true] at hv
    obtain ⟨y, hy, hal⟩ := objAlive_spec hv.1
    exact inv_wrapSharedPtr hwf o k y h hy hal
  | retVoid o =>
    simp only [microValid, Bool.and_eq_true] at hv
    obtain ⟨y, hy, hal⟩ := objAlive_spec hv.1
    simp only [microStep, wrapSharedPtrVoid, hy]
    exact inv_wrapSharedPtr hwf o y.dyn y h hy hal

theorem inv_micros {tbl : ClassTable} (hwf : WF tbl) :
    ∀ (ms : List Micro) (s : State), Inv tbl s NoneSet NoneSet → microsValid true tbl s ms = true →
      Inv tbl (ms.foldl (microStep tbl) s) NoneSet NoneSet := by
  intro ms
  induction ms with
  | nil => intro s h _; exact h
  | cons m ms ih =>
    intro s h hv
    simp only [microsValid, Bool.and_eq_true] at hv
    exact ih _ (inv_microStep hwf m h hv.1) hv.2

theorem inv_step {tbl : ClassTable} (hwf : WF tbl) {s : State} (op : Op)
    (h : Inv tbl s NoneSet NoneSet) (hv : opValid true tbl s op = true) :
    Inv tbl (step tbl s op) NoneSet NoneSet := by
  cases op with
  | construct c => exact inv_mConstruct hwf c h
  | call ms => exact inv_micros hwf ms s h hv
  | delete hh =>
    obtain ⟨hd, he, hval⟩ := handleUsable_spec (by simpa [opValid] using hv)
    exact (inv_mDelete hh hd h he hval).1
  | unload => exact (inv_unload h).1

theorem inv_runFrom {tbl : ClassTable} (hwf : WF tbl) :
    ∀ (ops : List Op) (s : State), Inv tbl s NoneSet NoneSet → validFrom true tbl s ops = true →
      Inv tbl (runFrom tbl s ops) NoneSet NoneSet := by
  intro ops
  induction ops with
  | nil => intro s h _; exact h
  | cons op ops ih =>
    intro s h hv
    simp only [validFrom, Bool.and_eq_true] at hv
    exact ih _ (inv_step hwf op h hv.1) hv.2

theorem inv_init (tbl : ClassTable) : Inv tbl init NoneSet NoneSet := by
  constructor <;> simp [init]



theorem deleteCell_cells_length (s : State) (a : Nat) :
    (deleteCell s a).cells.length = s.cells.length := by
  unfold deleteCell; split
  · split <;> simp
  · rfl

theorem rtDeconstructor_cells_length (s : State) (c a : Nat) :
    (rtDeconstructor s c a).cells.length = s.cells.length := by
  simp [rtDeconstructor, collErase, deleteCell_cells_length]

theorem foldl_release_cells_length :
    ∀ (ps : List (Nat × Nat)) (s : State),
      (ps.foldl (fun st p => rtDeconstructor st p.1 p.2) s).cells.length = s.cells.length := by
  intro ps
  induction ps with
  | nil => intro s; rfl
  | cons p ps ih => intro s; simp only [List.foldl_cons]; rw [ih, rtDeconstructor_cells_length]

theorem mDelete_cells_length (s : State) (h : Nat) : (mDelete s h).cells.length = s.cells.length := by
  unfold mDelete
  split
  · rw [foldl_release_cells_length]
  · rfl

theorem WF_of_wfB {tbl : ClassTable} (h : wfB tbl = true) : WF tbl := by
  intro c b hb
  unfold wfB at h
  rw [List.all_eq_true] at h
  by_cases hc : c < tbl.length
  · have := h c (List.mem_range.2 hc)
    rw [hb] at this
    simpa using this
  · unfold baseOf at hb
    rw [List.getElem?_eq_none (by omega)] at hb
    cases hb


end WrapModel.Gateway
