/-
  The fuel `declsFuel m` demanded by the round-trip theorem is at most four per lexeme (plus one), and a spelling has at
  least one character per lexeme: `4·|text| + 2` units of fuel always suffice.
-/
import WrapModel.Lemmas.ModuleRoundTrip
import WrapModel.Lemmas.LiftLemmas

namespace WrapModel.Spec
open WrapModel WrapModel.Tok WrapModel.Parse

theorem identsLex_length (ws : List String) : (identsLex ws).length = 2 * ws.length := by
  induction ws with
  | nil => rfl
  | cons w ws ih => simp [identsLex, ih]; omega

theorem namesLex_length_ge (w : String) (more : List String) : more.length + 3 ≤ 4 * (namesLex (w :: more)).length := by
  rw [namesLex_first]
  by_cases h : w = "std" ∧ more.head? = some "pair"
  · rw [if_pos h]
    cases more with
    | nil => simp at h
    | cons m0 more' => simp [identsLex_length]; omega
  · rw [if_neg h]; simp [identsLex_length]; omega

mutual
  theorem tyFuel_le : ∀ t : CType, TyWF t → tyFuel t + 1 ≤ 4 * (tyLex t).length
    | .simple ⟨nss, name, insts⟩ ⟨c, sfx⟩ basic, hwf => by
      simp only [TyWF] at hwf
      obtain ⟨_, hwf⟩ := hwf
      simp only [tyFuel, tyLex, List.length_append]
      cases basic with
      | true =>
        simp only [if_true] at hwf
        obtain ⟨hns, _⟩ := hwf
        subst hns
        by_cases hs : hasSpace name = true
        · simp [hs]; omega
        · simp [hs, namesLex_first]
          omega
      | false =>
        simp only [Bool.false_and, Bool.false_eq_true, if_false]
        cases hnm : nss ++ [name] with
        | nil => simp at hnm
        | cons w more =>
          have hlen : more.length = nss.length := by
            have := congrArg List.length hnm; simp at this; omega
          have := namesLex_length_ge w more
          omega
    | .templ nss name ps ⟨c, sfx⟩, hwf => by
      simp only [TyWF] at hwf
      obtain ⟨_, hwps, _⟩ := hwf
      have ih := tysFuel_le ps hwps
      simp only [tyFuel, tyLex, List.length_append, List.length_cons]
      cases hnm : nss ++ [name] with
      | nil => simp at hnm
      | cons w more =>
        have hlen : more.length = nss.length := by
          have := congrArg List.length hnm; simp at this; omega
        have := namesLex_length_ge w more
        omega
  theorem tysFuel_le : ∀ ps : List CType, TysWF ps → tysFuel ps ≤ 4 * (tysLex ps).length
    | [], _ => by simp [tysFuel]
    | t :: ts, hwf => by
      obtain ⟨h1, h2⟩ : TyWF t ∧ TysWF ts := by simpa [TysWF] using hwf
      have i1 := tyFuel_le t h1
      have i2 := tysTailFuel_le ts h2
      simp only [tysFuel, tysLex, List.length_append]
      omega
  theorem tysTailFuel_le : ∀ ps : List CType, TysWF ps → tysFuel ps ≤ 4 * (tysTailLex ps).length
    | [], _ => by simp [tysFuel]
    | t :: ts, hwf => by
      obtain ⟨h1, h2⟩ : TyWF t ∧ TysWF ts := by simpa [TysWF] using hwf
      have i1 := tyFuel_le t h1
      have i2 := tysTailFuel_le ts h2
      simp only [tysFuel, tysTailLex, List.length_append, List.length_cons]
      omega
end

theorem argsFuel_le : ∀ as : List Arg, ArgsWF as → argsFuel as ≤ 4 * (argsLex as).length ∧ argsFuel as ≤ 4 * (argsTailLex as).length
  | [], _ => by simp [argsFuel]
  | a :: as, hwf => by
    obtain ⟨h1, h2⟩ : TyWF a.ctype ∧ ArgsWF as := by simpa [ArgsWF] using hwf
    have i1 := tyFuel_le a.ctype h1
    have i2 := (argsFuel_le as h2).2
    simp only [argsFuel, argsLex, argsTailLex, argLex, List.length_append, List.length_cons]
    constructor <;> omega

theorem tnsFuel_le : ∀ is : List Typename, TnsWF is →
    tnsFuel is ≤ 4 * (instsLex is).length + 4 * is.length ∧ tnsFuel is ≤ 4 * (instsTailLex is).length
  | [], _ => by simp [tnsFuel, instsLex, instsTailLex]
  | t :: ts, hwf => by
    obtain ⟨h1, h2⟩ : TnWF t ∧ TnsWF ts := by simpa [TnsWF] using hwf
    have i1 := tyFuel_le (tnToTy t) h1.1
    have i2 := (tnsFuel_le ts h2).2
    simp only [tnsFuel, instsLex, instsTailLex, List.length_append, List.length_cons]
    constructor <;> omega

theorem tparamInstsFuel_le (is : List Typename) (hwf : TnsWF is) : tnsFuel is ≤ 4 * (tparamInstsLex is).length := by
  cases is with
  | nil => simp [tnsFuel]
  | cons t ts =>
    obtain ⟨h1, h2⟩ : TnWF t ∧ TnsWF ts := by simpa [TnsWF] using hwf
    have i1 := tyFuel_le (tnToTy t) h1.1
    have i2 := (tnsFuel_le ts h2).2
    simp only [tnsFuel, tparamInstsLex, instsLex, List.length_append, List.length_cons, List.length_nil]
    omega

theorem tparamsFuel_le : ∀ ps : List TParam, TParamsWF ps →
    tparamsFuel ps ≤ 4 * (tparamsLex ps).length ∧ tparamsFuel ps ≤ 4 * (tparamsTailLex ps).length
  | [], _ => by simp [tparamsFuel]
  | p :: ps, hwf => by
    obtain ⟨h1, h2⟩ : TnsWF p.insts ∧ TParamsWF ps := by simpa [TParamsWF] using hwf
    have i1 := tparamInstsFuel_le p.insts h1
    have i2 := (tparamsFuel_le ps h2).2
    simp only [tparamsFuel, tparamsLex, tparamsTailLex, tparamLex, List.length_append, List.length_cons]
    constructor <;> omega

theorem tmplFuel_le (t : Option Template) (hwf : TmplWF t) : tmplFuel t ≤ 4 * (tmplLex t).length := by
  cases t with
  | none => simp [tmplFuel]
  | some ps =>
    have := (tparamsFuel_le ps hwf.2).1
    simp only [tmplFuel, tmplLex, List.length_append, List.length_cons, List.length_nil]
    omega

theorem retFuel_le (r : RetType) (hwf : RetWF r) : tyFuel (retAsType r) + 1 ≤ 4 * (retLex r).length :=
  tyFuel_le _ hwf.1

theorem enumeratorsLex_length (es : List String) : es.length ≤ (enumeratorsLex es).length := by
  cases es with
  | nil => simp [enumeratorsLex]
  | cons e es =>
    have : ∀ l : List String, l.length ≤ (enumeratorsTailLex l).length := by
      intro l; induction l with
      | nil => simp [enumeratorsTailLex]
      | cons a l ih => simp [enumeratorsTailLex]; omega
    simp [enumeratorsLex]; have := this es; omega

theorem memberFuel_le (m : Member) (hwf : MemberWF m) : memberFuel m + 1 ≤ 4 * (memberLex m).length := by
  cases m with
  | ctor tmpl name args =>
    have h1 := tmplFuel_le tmpl hwf.1
    have h2 := (argsFuel_le args hwf.2.1).1
    simp only [memberFuel, memberLex, List.length_append, List.length_cons, List.length_nil]; omega
  | method tmpl ret name args c =>
    have h1 := tmplFuel_le tmpl hwf.1
    have h2 := (argsFuel_le args hwf.2.2.1).1
    have h3 := retFuel_le ret hwf.2.1
    simp only [memberFuel, memberLex, List.length_append, List.length_cons, List.length_nil]; omega
  | static tmpl ret name args =>
    have h1 := tmplFuel_le tmpl hwf.1
    have h2 := (argsFuel_le args hwf.2.2).1
    have h3 := retFuel_le ret hwf.2.1
    simp only [memberFuel, memberLex, List.length_append, List.length_cons, List.length_nil]; omega
  | prop v =>
    have h3 := tyFuel_le v.ctype hwf.1
    simp only [memberFuel, memberLex, List.length_append, List.length_cons, List.length_nil]; omega
  | op ret sym args =>
    have h2 := (argsFuel_le args hwf.2.1).1
    have h3 := retFuel_le ret hwf.1
    simp only [memberFuel, memberLex, List.length_append, List.length_cons, List.length_nil]; omega
  | enum e =>
    have := enumeratorsLex_length e.enumerators
    simp only [memberFuel, memberLex, enumLex, List.length_append, List.length_cons, List.length_nil]; omega
  | dunder name args =>
    have h2 := (argsFuel_le args hwf).1
    simp only [memberFuel, memberLex, List.length_append, List.length_cons, List.length_nil]; omega

theorem membersFuel_le : ∀ ms : List Member, MembersWF ms → membersFuel ms ≤ 4 * (membersLex ms).length + 1
  | [], _ => by simp [membersFuel]
  | m :: ms, hwf => by
    obtain ⟨h1, h2⟩ : MemberWF m ∧ MembersWF ms := by simpa [MembersWF] using hwf
    have i1 := memberFuel_le m h1
    have i2 := membersFuel_le ms h2
    simp only [membersFuel, membersLex, List.length_append]; omega

theorem classFuel_le (c : ClassDecl) (hwf : ClassWF c) : classFuel c + 2 ≤ 4 * (classLex c).length := by
  obtain ⟨tmpl, virt, name, par, ms⟩ := c
  obtain ⟨h1, h2, h3, _⟩ := hwf
  have i1 := tmplFuel_le tmpl h1
  have i3 := membersFuel_le ms h3
  have i2 : parentFuel par ≤ 4 * (parentLex par).length := by
    cases par with
    | none => simp [parentFuel]
    | some t =>
      have := tyFuel_le t (parentWF_ty (some t) h2 t rfl)
      simp only [parentFuel, parentLex, List.length_cons]; omega
  simp only [classFuel, classLex, List.length_append, List.length_cons, List.length_nil]
  omega

theorem namesLexPlain_length (w : String) (more : List String) : (namesLexPlain (w :: more)).length = 1 + 2 * more.length := by
  simp [namesLexPlain, identsLex_length]; omega

mutual
  theorem declFuel_le : ∀ d : Decl, DeclWF d → declFuel d + 1 ≤ 4 * (declLex d).length
    | .fwd virt ⟨nss, name, insts⟩ parent, hwf => by
      have hp : fwdParentFuel parent ≤ 4 * (fwdParentLex parent).length := by
        cases parent with
        | none => simp [fwdParentFuel]
        | some p =>
          have := tyFuel_le (tnToTy p) hwf.2.2.1
          simp only [fwdParentFuel, fwdParentLex, List.length_cons]; omega
      cases hnm : nss ++ [name] with
      | nil => simp at hnm
      | cons w more =>
        have hlen : more.length = nss.length := by
          have := congrArg List.length hnm; simp at this; omega
        have hl := namesLexPlain_length w more
        simp only [declFuel, declLex, hnm, List.length_append, List.length_cons, List.length_nil, hl]
        omega
    | .incl h, _ => by simp [declFuel, declLex]
    | .cls c, hwf => by
      have := classFuel_le c hwf
      simp only [declFuel, declLex]; omega
    | .typedef tn name, hwf => by
      have := tyFuel_le (tnToTy tn) hwf.2.1
      simp only [declFuel, declLex, List.length_append, List.length_cons, List.length_nil]; omega
    | .func tmpl ret name args, hwf => by
      have h1 := tmplFuel_le tmpl hwf.1
      have h2 := (argsFuel_le args hwf.2.2).1
      have h3 := retFuel_le ret hwf.2.1
      simp only [declFuel, declLex, List.length_append, List.length_cons, List.length_nil]; omega
    | .enum e, _ => by
      have := enumeratorsLex_length e.enumerators
      simp only [declFuel, declLex, enumLex, List.length_append, List.length_cons, List.length_nil]; omega
    | .var v, hwf => by
      have h3 := tyFuel_le v.ctype hwf.1
      simp only [declFuel, declLex, List.length_append, List.length_cons, List.length_nil]; omega
    | .ns name ds, hwf => by
      have := declsFuel_le ds hwf
      simp only [declFuel, declLex, List.length_append, List.length_cons, List.length_nil]; omega
  theorem declsFuel_le : ∀ ds : List Decl, DeclsWF ds → declsFuel ds ≤ 4 * (declsLex ds).length + 1
    | [], _ => by simp [declsFuel]
    | d :: ds, hwf => by
      obtain ⟨h1, h2⟩ : DeclWF d ∧ DeclsWF ds := by simpa [DeclsWF] using hwf
      have i1 := declFuel_le d h1
      have i2 := declsFuel_le ds h2
      simp only [declsFuel, declsLex, List.length_append]; omega
end

/-- every lexeme is spelled with at least one character -/
theorem spells_length {ls : List Lexeme} {s : Lex.Src} (h : Spells ls s) : ls.length ≤ s.length := by
  induction h with
  | nil g _ => simp
  | cons g l ls r _ _ hok _ ih =>
    have hne : 1 ≤ l.chars.length := by
      cases l with
      | word w =>
        obtain ⟨hwl, _⟩ := hok
        obtain ⟨_, c, t, hw⟩ := wordLike_chars hwl
        simp [Lexeme.chars, hw]
      | sym t =>
        obtain ⟨hsym, _⟩ := hok
        have : ∀ x ∈ symbols, 1 ≤ x.toList.length := by decide
        simpa [Lexeme.chars] using this t hsym
      | atom q text tok lead =>
        obtain ⟨_, _, hne, _, _⟩ := hok
        simp only [Lexeme.chars]
        cases h : text.toList with
        | nil => exact absurd h hne
        | cons c t => simp
    simp only [List.length_cons, List.length_append]
    omega

/-- **the fuel of the entry point suffices** -/
theorem declsFuel_le_text (m : Module) (hwf : DeclsWF m) (s : Lex.Src) (hs : Spells (lexemes m) s) :
    declsFuel m ≤ 4 * s.length + 1 := by
  have h1 := declsFuel_le m hwf
  have h2 := spells_length hs
  simp only [lexemes] at h2
  omega

end WrapModel.Spec
