/-
  C07, lexical accounting: every lexical function of the model returns a SUFFIX of its input, and for each request the
  characters between the end of the preceding gap and that suffix are exactly the token that was asked for.
-/
import WrapModel.Model.P
import WrapModel.Model.Parse

namespace WrapModel.Lex

theorem suffix_refl (s : Src) : s <:+ s := List.suffix_refl s
theorem suffix_cons {r s : Src} (c : Char) (h : r <:+ s) : r <:+ c :: s := List.suffix_cons_iff.2 (Or.inr h)

theorem skipWs_suffix (s : Src) : skipWs s <:+ s := by
  induction s with
  | nil => exact suffix_refl _
  | cons c r ih => unfold skipWs; split; exact suffix_cons c ih; exact suffix_refl _

theorem blockEnd_suffix {s r : Src} (h : blockEnd s = some r) : r <:+ s := by
  induction s with
  | nil => simp [blockEnd] at h
  | cons c t ih =>
    unfold blockEnd at h
    split at h
    · simp at h; subst h; exact suffix_cons c (List.tail_suffix t)
    · exact suffix_cons c (ih h)

theorem lineEnd_suffix (s : Src) : lineEnd s <:+ s ∧ lineEndBs s <:+ s := by
  induction s with
  | nil => simp [lineEnd, lineEndBs]
  | cons c r ih =>
    constructor
    · unfold lineEnd; split
      · exact suffix_refl _
      · split
        · exact suffix_cons c ih.2
        · exact suffix_cons c ih.1
    · unfold lineEndBs; split
      · exact suffix_cons c ih.1
      · split
        · exact suffix_cons c ih.2
        · exact suffix_cons c ih.1

theorem comment_suffix {s r : Src} (h : comment s = some r) : r <:+ s := by
  unfold comment at h
  split at h
  · rename_i c d t
    split at h
    · exact suffix_cons c (suffix_cons d (blockEnd_suffix h))
    · split at h
      · simp at h; subst h; exact suffix_cons c (suffix_cons d (lineEnd_suffix t).1)
      · simp at h
  · simp at h

theorem skipGapF_suffix (n : Nat) (s : Src) : skipGapF n s <:+ s := by
  induction n generalizing s with
  | zero => exact skipWs_suffix s
  | succ n ih =>
    unfold skipGapF
    split
    · rename_i r h
      exact (ih r).trans ((comment_suffix h).trans (skipWs_suffix s))
    · exact skipWs_suffix s

theorem skipGap_suffix (s : Src) : skipGap s <:+ s := skipGapF_suffix _ s

theorem skipIgnorablesF_suffix (n : Nat) (s : Src) : skipIgnorablesF n s <:+ s := by
  induction n generalizing s with
  | zero => exact suffix_refl s
  | succ n ih =>
    unfold skipIgnorablesF
    split
    · rename_i r h
      exact (ih r).trans ((comment_suffix h).trans (skipWs_suffix s))
    · exact suffix_refl s

theorem skipIgnorables_suffix (s : Src) : skipIgnorables s <:+ s := skipIgnorablesF_suffix _ s

theorem stripPrefix_eq {a s r : Src} (h : stripPrefix a s = some r) : s = a ++ r := by
  induction a generalizing s with
  | nil => simp [stripPrefix] at h; simp [h]
  | cons c a ih =>
    cases s with
    | nil => simp [stripPrefix] at h
    | cons d s' =>
      simp only [stripPrefix] at h
      split at h
      · next hcd => have : c = d := by simpa using hcd
                    subst this; simp [ih h]
      · cases h

theorem spanP_eq (p : Char → Bool) (s : Src) : s = (spanP p s).1 ++ (spanP p s).2 := by
  induction s with
  | nil => simp [spanP]
  | cons c r ih =>
    unfold spanP
    split
    · simp [← ih]
    · simp

theorem spanP_snd_suffix (p : Char → Bool) (s : Src) : (spanP p s).2 <:+ s :=
  ⟨(spanP p s).1, (spanP_eq p s).symm⟩

theorem qsBody_suffix (q : Char) {s r : Src} (h : qsBody q s = some r) : r <:+ s := by
  induction s with
  | nil => simp [qsBody] at h
  | cons c t ih =>
    unfold qsBody at h
    split at h
    · simp at h; subst h; exact suffix_cons c (suffix_refl _)
    · split at h
      · cases h
      · exact suffix_cons c (ih h)

theorem quotedString_suffix (q : Char) {s r : Src} (h : quotedString q s = some r) : r <:+ s := by
  cases s with
  | nil => simp [quotedString] at h
  | cons c t =>
    simp only [quotedString] at h
    split at h
    · exact suffix_cons c (qsBody_suffix q h)
    · cases h

theorem bqBody_suffix (q : Char) (n : Nat) (s : Src) : ∀ r, bqBody q n s = some r → r <:+ s := by
  fun_induction bqBody q n s
  all_goals (intro r h)
  case case1 => cases h
  case case2 => cases h
  case case3 => cases h
  case case4 => cases h
  case case5 n c hc r' w r0 hne hsp ih =>
    have e : r0 = (spanP isHex r').2 := by rw [hsp]
    exact suffix_cons c (suffix_cons 'x' ((ih r h).trans (e ▸ spanP_snd_suffix isHex r')))
  case case6 n c hc c' r' hx ih => exact suffix_cons c (suffix_cons c' (ih r h))
  case case7 n c hc hq c' r' hq' ih => exact suffix_cons c (suffix_cons c' (ih r h))
  case case8 n c hc hq c' r' hq' => simp at h; subst h; exact suffix_cons c (suffix_refl _)
  case case9 n c hc hq => simp at h; subst h; exact suffix_cons c (suffix_refl _)
  case case10 => cases h
  case case11 n c r' hc hq hnl ih => exact suffix_cons c (ih r h)

theorem builtinQuoted_suffix {s r : Src} (h : builtinQuoted s = some r) : r <:+ s := by
  unfold builtinQuoted at h
  split at h
  · exact suffix_cons _ (bqBody_suffix _ _ _ _ h)
  · exact suffix_cons _ (bqBody_suffix _ _ _ _ h)
  · cases h

theorem contentRun_suffix (o c : Char) (s : Src) : contentRun o c s <:+ s := by
  induction s with
  | nil => exact suffix_refl _
  | cons y r ih =>
    unfold contentRun
    split
    · exact suffix_refl _
    · split
      · exact suffix_refl _
      · exact suffix_cons y ih

theorem nestedBody_suffix (o c : Char) (n : Nat) (s : Src) : ∀ r, nestedBody o c n s = some r → r <:+ s := by
  fun_induction nestedBody o c n s
  all_goals (intro r h)
  case case1 => cases h
  case case2 => cases h
  case case3 n s x t hsg hc =>
    simp at h; subst h
    exact (suffix_cons x (suffix_refl _)).trans (hsg ▸ skipGap_suffix s)
  case case4 n s x t hsg hc r' hq ih =>
    exact ((ih r h).trans (builtinQuoted_suffix hq)).trans (hsg ▸ skipGap_suffix s)
  case case5 n s x t hsg hc hq ho r' hn ih2 ih1 =>
    exact ((ih1 r h).trans ((ih2 r' hn).trans (suffix_cons x (suffix_refl _)))).trans (hsg ▸ skipGap_suffix s)
  case case6 => cases h
  case case7 n s x t hsg hc hq ho ih =>
    exact ((ih r h).trans ((contentRun_suffix o c t).trans (suffix_cons x (suffix_refl _)))).trans (hsg ▸ skipGap_suffix s)

theorem defaultElem_suffix (s : Src) : ∀ r, defaultElem s = some r → r <:+ s := by
  fun_cases defaultElem s
  all_goals (intro r h)
  case case1 => cases h
  case case2 x t c hc => exact suffix_cons x (nestedBody_suffix _ _ _ _ r h)
  case case3 x t hc w hq rq rw hw hqs hlt =>
    simp at h; subst h
    simp only [w] at hw
    split at hw
    · simp at hw; subst hw; exact spanP_snd_suffix _ _
    · cases hw
  case case4 x t hc w hq rq rw hw hqs hlt => simp at h; subst h; exact quotedString_suffix x hqs
  case case5 x t hc w hq rq hw hqs => simp at h; subst h; exact quotedString_suffix x hqs
  case case6 x t hc w hq hqs =>
    simp only [w] at h
    split at h
    · simp at h; subst h; exact spanP_snd_suffix _ _
    · cases h
  case case7 x t hc w hq =>
    simp only [w] at h
    split at h
    · simp at h; subst h; exact spanP_snd_suffix _ _
    · cases h

theorem defaultMore_suffix (n : Nat) (s : Src) : defaultMore n s <:+ s := by
  induction n generalizing s with
  | zero => exact suffix_refl _
  | succ n ih =>
    unfold defaultMore
    split
    · rename_i r h
      exact (ih r).trans ((defaultElem_suffix _ _ h).trans (skipGap_suffix s))
    · exact suffix_refl _

theorem take_append_of_suffix {e s : Src} (h : e <:+ s) : s.take (s.length - e.length) ++ e = s := by
  obtain ⟨pre, rfl⟩ := h
  simp

end WrapModel.Lex

namespace WrapModel
open Lex

/-- what a successful request consumed: after the layout in front of it (`skipGap`; comments only for the include
    header), exactly the text of the token that was asked for, and nothing else -/
def Consumed (q : Q) (s : Src) (t : String) (r : Src) : Prop :=
  match q with
  | .eof => skipGap s = [] ∧ r = []
  | .header => skipIgnorables s = t.toList ++ r
  | .stdPair => ∃ g, skipGap s = "std::".toList ++ g ∧ skipGap g = "pair".toList ++ r
  | _ => skipGap s = t.toList ++ r

theorem opsymFrom_spec (tbl : List String) (s : Src) : ∀ (init : Option (String × Src)),
    (∀ b rb, init = some (b, rb) → stripPrefix b.toList s = some rb) →
    ∀ o r, tbl.foldl (fun best o =>
      match stripPrefix o.toList s with
      | some r =>
        match best with
        | some (b, _) => if o.length > b.length then some (o, r) else best
        | none => some (o, r)
      | none => best) init = some (o, r) → stripPrefix o.toList s = some r := by
  induction tbl with
  | nil => intro init hinit o r h; exact hinit o r h
  | cons x tbl ih =>
    intro init hinit o r h
    simp only [List.foldl_cons] at h
    refine ih _ ?_ o r h
    intro b rb hb
    cases hx : stripPrefix x.toList s with
    | none => simp only [hx] at hb; exact hinit b rb hb
    | some rx =>
      simp only [hx] at hb
      cases init with
      | none => simp at hb; obtain ⟨rfl, rfl⟩ := hb; exact hx
      | some p =>
        obtain ⟨b0, r0⟩ := p
        simp only at hb
        split at hb
        · simp at hb; obtain ⟨rfl, rfl⟩ := hb; exact hx
        · exact hinit b rb hb

theorem answerC_consumed {q : Q} {s : Src} {t : String} {r : Src} (h : answerC q s = some (t, r)) : Consumed q s t r := by
  cases q with
  | word =>
    simp only [answerC, Lex.word] at h
    simp only [Consumed]
    split at h
    · cases h
    · rename_i c r0 hsg
      rw [hsg]
      split at h
      · simp at h; obtain ⟨rfl, rfl⟩ := h
        simpa using spanP_eq isWordChar (c :: r0)
      · split at h
        · split at h
          · split at h
            · cases h
            · simp at h; obtain ⟨rfl, rfl⟩ := h; simpa using spanP_eq isDigit (c :: r0)
          · simp at h; obtain ⟨rfl, rfl⟩ := h; simpa using spanP_eq isDigit (c :: r0)
        · cases h
  | alpha =>
    simp only [answerC, Lex.alphaWord] at h
    simp only [Consumed]
    split at h
    · cases h
    · rename_i w r0 _ hsp
      simp at h; obtain ⟨rfl, rfl⟩ := h
      have := spanP_eq isAlpha (skipGap s)
      rw [hsp] at this
      simpa using this
  | kw k =>
    simp only [answerC, Option.map_eq_some_iff, Prod.mk.injEq] at h
    obtain ⟨r0, hk, rfl, rfl⟩ := h
    simp only [Consumed]
    unfold Lex.kw at hk
    split at hk
    · rename_i c r1 hsp
      split at hk
      · cases hk
      · simp at hk; subst hk; exact stripPrefix_eq hsp
    · rename_i hsp; simp at hk; subst hk; exact stripPrefix_eq hsp
    · cases hk
  | lit x =>
    simp only [answerC, Option.map_eq_some_iff, Prod.mk.injEq] at h
    obtain ⟨r0, hk, rfl, rfl⟩ := h
    exact stripPrefix_eq hk
  | stdPair =>
    simp only [answerC, Option.map_eq_some_iff, Prod.mk.injEq] at h
    obtain ⟨r0, hk, _, rfl⟩ := h
    unfold Lex.stdPair at hk
    split at hk
    · rename_i r1 hl
      refine ⟨r1, stripPrefix_eq hl, ?_⟩
      unfold Lex.kw at hk
      split at hk
      · rename_i c r2 hsp
        split at hk
        · cases hk
        · simp at hk; subst hk; exact stripPrefix_eq hsp
      · rename_i hsp; simp at hk; subst hk; exact stripPrefix_eq hsp
      · cases hk
    · cases hk
  | opsym =>
    simp only [answerC, Lex.opsym, Lex.opsymFrom] at h
    exact stripPrefix_eq (opsymFrom_spec _ _ none (by intro b rb hb; cases hb) t r h)
  | dflt =>
    simp only [answerC, Lex.dflt] at h
    simp only [Consumed]
    split at h
    · cases h
    · rename_i r1 hde
      simp at h
      obtain ⟨rfl, rfl⟩ := h
      have hsuf : defaultMore (r1.length + 1) r1 <:+ skipGap s :=
        (defaultMore_suffix _ r1).trans (defaultElem_suffix _ _ hde)
      simpa using (take_append_of_suffix hsuf).symm
  | header =>
    simp only [answerC, Lex.header] at h
    simp only [Consumed]
    split at h
    · cases h
    · rename_i w r0 _ hsp
      simp at h; obtain ⟨rfl, rfl⟩ := h
      have := spanP_eq (· != '>') (skipIgnorables s)
      rw [hsp] at this
      simpa using this
  | eof =>
    simp only [answerC] at h
    by_cases he : Lex.eof s = true
    · rw [if_pos he] at h
      simp at h; obtain ⟨_, rfl⟩ := h
      exact ⟨by simpa [Lex.eof] using he, rfl⟩
    · rw [if_neg he] at h; cases h

/-- `s'` is reached from `s` by successful requests only: every character in between is layout in front of a token, or
    part of a token the grammar asked for at that position -/
inductive Accounted : Src → Src → Prop where
  | refl (s : Src) : Accounted s s
  | step (q : Q) (s : Src) (t : String) (r s' : Src) : Consumed q s t r → Accounted r s' → Accounted s s'

/-- every parser program moves through its input by successful requests only -/
theorem run_accounted (p : P α) : ∀ (s : Src) (a : α) (s' : Src), p.run s = .ok (a, s') → Accounted s s' := by
  induction p with
  | ret a => intro s a' s' h; simp [P.run] at h; obtain ⟨_, rfl⟩ := h; exact .refl _
  | fail e => intro s a' s' h; simp [P.run] at h
  | ask q k ih =>
    intro s a' s' h
    simp only [P.run] at h
    cases hq : answerC q s with
    | none => simp only [hq] at h; exact ih none s a' s' h
    | some tr =>
      obtain ⟨t, r⟩ := tr
      simp only [hq] at h
      exact .step q s t r s' (answerC_consumed hq) (ih (some t) r a' s' h)

theorem P.run_bind (p : P α) (f : α → P β) (s : Src) :
    (p >>= f).run s = match p.run s with
      | .ok (a, s1) => (f a).run s1
      | .error e => .error e := by
  show (P.bind p f).run s = _
  induction p generalizing s with
  | ret a => rfl
  | fail e => rfl
  | ask q k ih =>
    simp only [P.bind, P.run]
    cases answerC q s with
    | none => exact ih none s
    | some tr => exact ih _ _

/-- the module parser stops only at the end of the input -/
theorem pmodule_ends (n : Nat) : ∀ (s : Src) (m : Module) (s' : Src), (Parse.pmodule n).run s = .ok (m, s') → s' = [] := by
  induction n with
  | zero => intro s m s' h; simp [Parse.pmodule, P.run] at h
  | succ n ih =>
    intro s m s' h
    simp only [Parse.pmodule, P.run_bind] at h
    cases he : answerC .eof s with
    | some tr =>
      obtain ⟨t, r⟩ := tr
      have hc := answerC_consumed he
      simp only [Consumed] at hc
      simp only [P.probe, P.run, he] at h
      simp [P.run, Pure.pure] at h
      rw [← h.2]; exact hc.2
    | none =>
      simp only [P.probe, P.run, he] at h
      simp only [Option.isSome_none, Bool.false_eq_true, if_false] at h
      simp only [P.run_bind] at h
      cases hd : (Parse.pdecl n).run s with
      | error e => simp [hd] at h
      | ok x =>
        obtain ⟨d, s1⟩ := x
        simp only [hd] at h
        cases hm : (Parse.pmodule n).run s1 with
        | error e => simp [hm] at h
        | ok y =>
          obtain ⟨ds, s2⟩ := y
          simp only [hm] at h
          simp [P.run, Pure.pure] at h
          rw [← h.2]; exact ih s1 ds s2 hm

end WrapModel
