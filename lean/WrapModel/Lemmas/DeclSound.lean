/-
  C07, soundness direction, above types: arguments, templates, enums, members, declarations, modules.
  For every reader `p` with printer `pr`:  a successful run of `p` on a canonical lexeme list answered `yes` to exactly
  the tokens of `pr (result)`.
-/
import WrapModel.Lemmas.TypeSound
import WrapModel.Lemmas.MemberRoundTrip
import WrapModel.Lemmas.DeclRoundTrip
import WrapModel.Lemmas.ModuleRoundTrip

namespace WrapModel.Tok
open WrapModel WrapModel.Lex WrapModel.Parse WrapModel.Spec

def ArgsInv : List Arg → Prop
  | [] => True
  | a :: as => TyInv a.ctype ∧ ArgsInv as

theorem parg_sound (n : Nat) {ls rest : List Lexeme} {a : Arg} {tr : Trace} (hc : CanonL ls)
    (h : runT (parg n) ls = .ok a tr rest) :
    tr.flatMap trToks = (argLex a).map lexTok ∧ TyInv a.ctype := by
  unfold parg at h
  rw [runT_bind_ok] at h
  obtain ⟨t, t1, m1, t2, h1, h2, rfl⟩ := h
  obtain ⟨ht, _, hinv⟩ := ptype_sound n _ _ _ _ hc h1
  rw [runT_bind_ok] at h2
  obtain ⟨name, t3, m2, t4, h3, h4, rfl⟩ := h2
  rw [runT_need_ok] at h3
  obtain ⟨_, rfl⟩ := h3
  rw [runT_bind_ok] at h4
  obtain ⟨b, t5, m3, t6, h5, h6, rfl⟩ := h4
  rw [runT_probe_ok] at h5
  rcases h5 with ⟨rfl, x, _, rfl⟩ | ⟨rfl, _, rfl, rfl⟩
  · simp only [if_true] at h6
    rw [runT_bind_ok] at h6
    obtain ⟨d, t7, m4, t8, h7, h8, rfl⟩ := h6
    rw [runT_need_ok] at h7
    obtain ⟨_, rfl⟩ := h7
    rw [runT_pure_ok] at h8
    obtain ⟨rfl, rfl, rfl⟩ := h8
    exact ⟨by simp [argLex, dfltLex, ht, trToks, trTok, normTok, lexTok], hinv⟩
  · simp only [Bool.false_eq_true, if_false] at h6
    rw [runT_pure_ok] at h6
    obtain ⟨rfl, rfl, rfl⟩ := h6
    exact ⟨by simp [argLex, dfltLex, ht, trToks, trTok, normTok, lexTok], hinv⟩

theorem pargsMore_sound : ∀ (n : Nat) {ls rest : List Lexeme} {as : List Arg} {tr : Trace}, CanonL ls →
    runT (pargsMore n) ls = .ok as tr rest → tr.flatMap trToks = (argsLex as).map lexTok ∧ as ≠ [] ∧ ArgsInv as
  | 0, _, _, _, _, _, h => by simp [pargsMore, runT] at h
  | n+1, ls, rest, as, tr, hc, h => by
    simp only [pargsMore] at h
    rw [runT_bind_ok] at h
    obtain ⟨a, t1, m1, t2, h1, h2, rfl⟩ := h
    obtain ⟨ha, hinv⟩ := parg_sound n hc h1
    obtain ⟨c1, rfl, _, hc1⟩ := consumed_tokens _ _ _ _ _ hc h1
    rw [runT_bind_ok] at h2
    obtain ⟨b, t3, m2, t4, h3, h4, rfl⟩ := h2
    rw [runT_probe_ok] at h3
    rcases h3 with ⟨rfl, x, hx, rfl⟩ | ⟨rfl, _, rfl, rfl⟩
    · simp only [if_true] at h4
      obtain ⟨l, rfl, _⟩ := yes_head (by decide) hc1 hx
      rw [runT_bind_ok] at h4
      obtain ⟨as', t5, m3, t6, h5, h6, rfl⟩ := h4
      rw [runT_pure_ok] at h6
      obtain ⟨rfl, rfl, rfl⟩ := h6
      obtain ⟨ih, hne, hinvs⟩ := pargsMore_sound n hc1.tail h5
      refine ⟨?_, by simp, ⟨hinv, hinvs⟩⟩
      cases as' with
      | nil => exact absurd rfl hne
      | cons a' as'' => simp [argsLex, argsTailLex, ha, trToks, trTok, normTok, lexTok] at ih ⊢; exact ih
    · simp only [Bool.false_eq_true, if_false] at h4
      rw [runT_pure_ok] at h4
      obtain ⟨rfl, rfl, rfl⟩ := h4
      exact ⟨by simp [argsLex, argsTailLex, ha], by simp, ⟨hinv, trivial⟩⟩

/-- the argument list up to and including the closing parenthesis -/
theorem pargs_sound (n : Nat) {ls rest : List Lexeme} {as : List Arg} {tr : Trace} (hc : CanonL ls)
    (h : runT (pargs n) ls = .ok as tr rest) :
    tr.flatMap trToks = (argsLex as ++ [Lexeme.sym ")"]).map lexTok ∧ ArgsInv as := by
  unfold pargs at h
  rw [runT_bind_ok] at h
  obtain ⟨b, t1, m1, t2, h1, h2, rfl⟩ := h
  rw [runT_probe_ok] at h1
  rcases h1 with ⟨rfl, x, _, rfl⟩ | ⟨rfl, _, rfl, rfl⟩
  · simp only [if_true] at h2
    rw [runT_pure_ok] at h2
    obtain ⟨rfl, rfl, rfl⟩ := h2
    exact ⟨by simp [argsLex, trToks, trTok, normTok, lexTok], trivial⟩
  · simp only [Bool.false_eq_true, if_false] at h2
    rw [runT_bind_ok] at h2
    obtain ⟨as', t3, m2, t4, h3, h4, rfl⟩ := h2
    obtain ⟨ha, _, hinv⟩ := pargsMore_sound n hc h3
    rw [runT_bind_ok] at h4
    obtain ⟨u, t5, m3, t6, h5, h6, rfl⟩ := h4
    rw [runT_expect_ok] at h5
    obtain ⟨y, _, rfl⟩ := h5
    rw [runT_pure_ok] at h6
    obtain ⟨rfl, rfl, rfl⟩ := h6
    exact ⟨by simp [ha, trToks, trTok, normTok, lexTok], hinv⟩


/-! ### typenames read through the generic type reader (`strictTypename`) -/

mutual
  theorem strict_tokens : ∀ (top : Bool) (ty : CType) (tn : Typename), strictTypename top ty = some tn → TyInv ty →
      (tyLex (tnToTy tn)).map lexTok = (tyLex ty).map lexTok
    | top, .simple tn0 q basic, tn, h, hinv => by
      obtain ⟨nss, name, is⟩ := tn0
      obtain ⟨c, sfx⟩ := q
      simp only [TyInv] at hinv
      obtain ⟨his, hb1, hb0⟩ := hinv
      have his' : is = [] := his
      subst his'
      simp only [strictTypename] at h
      split at h
      · cases h
      · next hq =>
        obtain ⟨hc, hs⟩ : c = false ∧ sfx = .none := by
          cases c <;> cases sfx <;> first | exact ⟨rfl, rfl⟩ | (exfalso; revert hq; decide)
        subst hc; subst hs
        split at h
        · cases h
        · simp only [Option.some.injEq] at h
          subst h
          cases basic with
          | true =>
            obtain ⟨rfl, hmem⟩ := hb1 rfl
            simp [tnToTy, tyLex, hmem, Quals.plain]
          | false =>
            have hsp : hasSpace name = false := hb0 rfl
            simp [tnToTy, tyLex, hsp, Quals.plain]
    | top, .templ nss name ps q, tn, h, hinv => by
      obtain ⟨c, sfx⟩ := q
      simp only [TyInv] at hinv
      obtain ⟨hne, hinvs⟩ := hinv
      simp only [strictTypename] at h
      split at h
      · cases h
      · next hq =>
        obtain ⟨hc, hs⟩ : c = false ∧ sfx = .none := by
          cases c <;> cases sfx <;> first | exact ⟨rfl, rfl⟩ | (exfalso; revert hq; decide)
        subst hc; subst hs
        split at h
        · next is his =>
          simp only [Option.some.injEq] at h
          subst h
          obtain ⟨hl, hne'⟩ := stricts_tokens ps is his hinvs hne
          cases is with
          | nil => exact absurd rfl hne'
          | cons i is' => simp [tnToTy, tyLex, hl, Quals.plain]
        · cases h
  theorem stricts_tokens : ∀ (ps : List CType) (is : List Typename), strictTypenames ps = some is → TysInv ps → ps ≠ [] →
      (tysLex (tnsToTys is)).map lexTok = (tysLex ps).map lexTok ∧ is ≠ []
    | [], _, _, _, hne => absurd rfl hne
    | p :: ps, is, h, hinv, _ => by
      simp only [TysInv] at hinv
      simp only [strictTypenames] at h
      split at h
      · next t ts ht hts =>
        simp only [Option.some.injEq] at h
        subst h
        have h1 := strict_tokens false p t ht hinv.1
        refine ⟨?_, by simp⟩
        cases ps with
        | nil =>
          simp only [strictTypenames, Option.some.injEq] at hts
          subst hts
          simp [tnsToTys, tysLex, tysTailLex, h1]
        | cons p' ps' =>
          obtain ⟨h2, hne2⟩ := stricts_tokens (p' :: ps') ts hts hinv.2 (by simp)
          cases ts with
          | nil => exact absurd rfl hne2
          | cons t' ts' =>
            simp only [tnsToTys, tysLex, tysTailLex, List.map_append, List.map_cons] at h2 ⊢
            simp [h1, h2, lexTok]
      · cases h
end


/-! ### templates -/

theorem runT_liftOpt_ok {o : Option α} {a : α} {ls rest : List Lexeme} {tr : Trace} :
    runT (liftOpt o) ls = .ok a tr rest ↔ o = some a ∧ tr = [] ∧ rest = ls := by
  cases o with
  | none => simp [liftOpt, P.failParse, runT]
  | some b =>
    simp only [liftOpt]
    rw [runT_pure_ok]
    constructor
    · rintro ⟨rfl, rfl, rfl⟩; exact ⟨rfl, rfl, rfl⟩
    · rintro ⟨h, rfl, rfl⟩; cases h; exact ⟨rfl, rfl, rfl⟩

theorem pinsts_sound : ∀ (n : Nat) {ls rest : List Lexeme} {is : List Typename} {tr : Trace}, CanonL ls →
    runT (pinsts n) ls = .ok is tr rest → tr.flatMap trToks = (instsLex is).map lexTok ∧ is ≠ []
  | 0, _, _, _, _, _, h => by simp [pinsts, runT] at h
  | n+1, ls, rest, is, tr, hc, h => by
    simp only [pinsts] at h
    rw [runT_bind_ok] at h
    obtain ⟨t, t1, m1, t2, h1, h2, rfl⟩ := h
    obtain ⟨ht, _, hinv⟩ := ptype_sound n _ _ _ _ hc h1
    obtain ⟨c1, rfl, _, hc1⟩ := consumed_tokens _ _ _ _ _ hc h1
    rw [runT_bind_ok] at h2
    obtain ⟨tn, t3, m2, t4, h3, h4, rfl⟩ := h2
    rw [runT_liftOpt_ok] at h3
    obtain ⟨hst, rfl, rfl⟩ := h3
    have htn := strict_tokens true t.ty tn hst hinv
    rw [runT_bind_ok] at h4
    obtain ⟨b, t5, m3, t6, h5, h6, rfl⟩ := h4
    rw [runT_probe_ok] at h5
    rcases h5 with ⟨rfl, x, hx, rfl⟩ | ⟨rfl, _, rfl, rfl⟩
    · simp only [if_true] at h6
      obtain ⟨l, rfl, _⟩ := yes_head (by decide) hc1 hx
      rw [runT_bind_ok] at h6
      obtain ⟨ts, t7, m4, t8, h7, h8, rfl⟩ := h6
      rw [runT_pure_ok] at h8
      obtain ⟨rfl, rfl, rfl⟩ := h8
      obtain ⟨ih, hne⟩ := pinsts_sound n hc1.tail h7
      refine ⟨?_, by simp⟩
      cases ts with
      | nil => exact absurd rfl hne
      | cons t' ts' => simp [instsLex, instsTailLex, ht, htn, trToks, trTok, normTok, lexTok] at ih ⊢; exact ih
    · simp only [Bool.false_eq_true, if_false] at h6
      rw [runT_pure_ok] at h6
      obtain ⟨rfl, rfl, rfl⟩ := h6
      exact ⟨by simp [instsLex, instsTailLex, ht, htn], by simp⟩

theorem ptparams_sound : ∀ (n : Nat) {ls rest : List Lexeme} {ps : List TParam} {tr : Trace}, CanonL ls →
    runT (ptparams n) ls = .ok ps tr rest → tr.flatMap trToks = (tparamsLex ps).map lexTok ∧ ps ≠ []
  | 0, _, _, _, _, _, h => by simp [ptparams, runT] at h
  | n+1, ls, rest, ps, tr, hc, h => by
    simp only [ptparams] at h
    rw [runT_bind_ok] at h
    obtain ⟨name, t1, m1, t2, h1, h2, rfl⟩ := h
    rw [runT_need_ok] at h1
    obtain ⟨hw, rfl⟩ := h1
    obtain ⟨rfl, _⟩ := need_word hc hw
    rw [runT_bind_ok] at h2
    obtain ⟨insts, t3, m2, t4, h3, h4, rfl⟩ := h2
    -- the optional instantiation list
    have hi : t3.flatMap trToks = (tparamInstsLex insts).map lexTok ∧ CanonL m2 := by
      obtain ⟨c, _, _, hcm⟩ := consumed_tokens _ _ _ _ _ hc.tail h3
      refine ⟨?_, hcm⟩
      rw [runT_bind_ok] at h3
      obtain ⟨b, u1, k1, u2, g1, g2, rfl⟩ := h3
      rw [runT_probe_ok] at g1
      rcases g1 with ⟨rfl, x, hx, rfl⟩ | ⟨rfl, _, rfl, rfl⟩
      · simp only [if_true] at g2
        obtain ⟨l, hl, _⟩ := yes_head (by decide) hc.tail hx
        rw [runT_bind_ok] at g2
        obtain ⟨u, u3, k2, u4, g3, g4, rfl⟩ := g2
        rw [runT_expect_ok] at g3
        obtain ⟨y, hy, rfl⟩ := g3
        have hck1 : CanonL k1 := by rw [hl] at hc; exact hc.tail.tail
        obtain ⟨l2, hl2, _⟩ := yes_head (by decide) hck1 hy
        rw [runT_bind_ok] at g4
        obtain ⟨is, u5, k3, u6, g5, g6, rfl⟩ := g4
        have hck2 : CanonL k2 := by rw [hl2] at hck1; exact hck1.tail
        obtain ⟨his, hne⟩ := pinsts_sound n hck2 g5
        rw [runT_bind_ok] at g6
        obtain ⟨u', u7, k4, u8, g7, g8, rfl⟩ := g6
        rw [runT_expect_ok] at g7
        obtain ⟨z, _, rfl⟩ := g7
        rw [runT_pure_ok] at g8
        obtain ⟨rfl, rfl, rfl⟩ := g8
        cases insts with
        | nil => exact absurd rfl hne
        | cons i is' => simp [tparamInstsLex, his, trToks, trTok, normTok, lexTok]
      · simp only [Bool.false_eq_true, if_false] at g2
        rw [runT_pure_ok] at g2
        obtain ⟨rfl, rfl, rfl⟩ := g2
        simp [tparamInstsLex]
    obtain ⟨hi, hcm2⟩ := hi
    rw [runT_bind_ok] at h4
    obtain ⟨b, t5, m3, t6, h5, h6, rfl⟩ := h4
    rw [runT_probe_ok] at h5
    rcases h5 with ⟨rfl, x, hx, rfl⟩ | ⟨rfl, _, rfl, rfl⟩
    · simp only [if_true] at h6
      obtain ⟨l, rfl, _⟩ := yes_head (by decide) hcm2 hx
      rw [runT_bind_ok] at h6
      obtain ⟨ps', t7, m4, t8, h7, h8, rfl⟩ := h6
      rw [runT_pure_ok] at h8
      obtain ⟨rfl, rfl, rfl⟩ := h8
      obtain ⟨ih, hne⟩ := ptparams_sound n hcm2.tail h7
      refine ⟨?_, by simp⟩
      cases ps' with
      | nil => exact absurd rfl hne
      | cons p' ps'' => simp [tparamsLex, tparamsTailLex, tparamLex, hi, trToks, trTok, normTok, lexTok] at ih ⊢; exact ih
    · simp only [Bool.false_eq_true, if_false] at h6
      rw [runT_pure_ok] at h6
      obtain ⟨rfl, rfl, rfl⟩ := h6
      exact ⟨by simp [tparamsLex, tparamsTailLex, tparamLex, hi, trToks, trTok, normTok, lexTok], by simp⟩

theorem ptemplate_sound (n : Nat) {ls rest : List Lexeme} {tmpl : Option Template} {tr : Trace} (hc : CanonL ls)
    (h : runT (ptemplate n) ls = .ok tmpl tr rest) : tr.flatMap trToks = (tmplLex tmpl).map lexTok := by
  unfold ptemplate at h
  rw [runT_bind_ok] at h
  obtain ⟨b, t1, m1, t2, h1, h2, rfl⟩ := h
  rw [runT_probe_ok] at h1
  rcases h1 with ⟨rfl, x, hx, rfl⟩ | ⟨rfl, _, rfl, rfl⟩
  · simp only [if_true] at h2
    obtain ⟨l, rfl, _⟩ := yes_head (by decide) hc hx
    rw [runT_bind_ok] at h2
    obtain ⟨u, t3, m2, t4, h3, h4, rfl⟩ := h2
    rw [runT_expect_ok] at h3
    obtain ⟨y, hy, rfl⟩ := h3
    obtain ⟨l2, rfl, _⟩ := yes_head (by decide) hc.tail hy
    rw [runT_bind_ok] at h4
    obtain ⟨ps, t5, m3, t6, h5, h6, rfl⟩ := h4
    obtain ⟨hps, _⟩ := ptparams_sound n hc.tail.tail h5
    rw [runT_bind_ok] at h6
    obtain ⟨u', t7, m4, t8, h7, h8, rfl⟩ := h6
    rw [runT_expect_ok] at h7
    obtain ⟨z, _, rfl⟩ := h7
    rw [runT_pure_ok] at h8
    obtain ⟨rfl, rfl, rfl⟩ := h8
    simp (config := {decide := true}) [tmplLex, hps, trToks, trTok, normTok, lexTok]
  · simp only [Bool.false_eq_true, if_false] at h2
    rw [runT_pure_ok] at h2
    obtain ⟨rfl, rfl, rfl⟩ := h2
    simp [tmplLex]


/-! ### return types, enums, defaults -/

/-- the return type keeps everything the generic type reader read -/
theorem retAsType_toRet (r : TypeRes) (h : r.pairStd = pairFlag r.ty) : retAsType (toRet r) = r.ty := by
  obtain ⟨ty, fl⟩ := r
  simp only at h
  subst h
  unfold toRet
  split
  · next std nss name a b q hfl hty =>
    simp only at hfl hty
    subst hty
    split
    · next hc =>
      have hq : q = .plain := by
        obtain ⟨c, sfx⟩ := q
        cases c <;> cases sfx <;> simp (config := {decide := true}) [Quals.plain] at hc ⊢
      subst hq
      simp only [pairFlag] at hfl
      split at hfl
      · next h1 => obtain ⟨rfl, rfl⟩ := h1; cases hfl; simp [retAsType]
      · split at hfl
        · next h2 => obtain ⟨rfl, rfl⟩ := h2; cases hfl; simp [retAsType]
        · cases hfl
    · simp [retAsType]
  · simp [retAsType]

theorem penumerators_sound : ∀ (n : Nat) {ls rest : List Lexeme} {es : List String} {tr : Trace},
    runT (penumerators n) ls = .ok es tr rest → tr.flatMap trToks = (enumeratorsLex es).map lexTok ∧ es ≠ []
  | 0, _, _, _, _, h => by simp [penumerators, runT] at h
  | n+1, ls, rest, es, tr, h => by
    simp only [penumerators] at h
    rw [runT_bind_ok] at h
    obtain ⟨e, t1, m1, t2, h1, h2, rfl⟩ := h
    rw [runT_need_ok] at h1
    obtain ⟨_, rfl⟩ := h1
    rw [runT_bind_ok] at h2
    obtain ⟨b, t3, m2, t4, h3, h4, rfl⟩ := h2
    rw [runT_probe_ok] at h3
    rcases h3 with ⟨rfl, x, _, rfl⟩ | ⟨rfl, _, rfl, rfl⟩
    · simp only [if_true] at h4
      rw [runT_bind_ok] at h4
      obtain ⟨es', t5, m3, t6, h5, h6, rfl⟩ := h4
      rw [runT_pure_ok] at h6
      obtain ⟨rfl, rfl, rfl⟩ := h6
      obtain ⟨ih, hne⟩ := penumerators_sound n h5
      refine ⟨?_, by simp⟩
      cases es' with
      | nil => exact absurd rfl hne
      | cons e' es'' => simp [enumeratorsLex, enumeratorsTailLex, trToks, trTok, normTok, lexTok] at ih ⊢; exact ih
    · simp only [Bool.false_eq_true, if_false] at h4
      rw [runT_pure_ok] at h4
      obtain ⟨rfl, rfl, rfl⟩ := h4
      exact ⟨by simp [enumeratorsLex, enumeratorsTailLex, trToks, trTok, normTok, lexTok], by simp⟩

theorem penumKw_sound {ls rest : List Lexeme} {o : Option EnumKw} {tr : Trace} (h : runT penumKw ls = .ok o tr rest) :
    (∃ k, o = some k ∧ tr.flatMap trToks = (enumKwLex k).map lexTok) ∨ (o = none ∧ tr = [] ∧ rest = ls) := by
  unfold penumKw at h
  rw [runT_bind_ok] at h
  obtain ⟨b1, t1, m1, t2, h1, h2, rfl⟩ := h
  rw [runT_probe_ok] at h1
  rcases h1 with ⟨rfl, x, _, rfl⟩ | ⟨rfl, _, rfl, rfl⟩
  · simp only [if_true] at h2; rw [runT_pure_ok] at h2; obtain ⟨rfl, rfl, rfl⟩ := h2
    exact Or.inl ⟨_, rfl, by simp (config := {decide := true}) [enumKwLex, trToks, trTok, normTok, lexTok]⟩
  · simp only [Bool.false_eq_true, if_false] at h2
    rw [runT_bind_ok] at h2
    obtain ⟨b2, t3, m2, t4, h3, h4, rfl⟩ := h2
    rw [runT_probe_ok] at h3
    rcases h3 with ⟨rfl, x, _, rfl⟩ | ⟨rfl, _, rfl, rfl⟩
    · simp only [if_true] at h4; rw [runT_pure_ok] at h4; obtain ⟨rfl, rfl, rfl⟩ := h4
      exact Or.inl ⟨_, rfl, by simp (config := {decide := true}) [enumKwLex, trToks, trTok, normTok, lexTok]⟩
    · simp only [Bool.false_eq_true, if_false] at h4
      rw [runT_bind_ok] at h4
      obtain ⟨b3, t5, m3, t6, h5, h6, rfl⟩ := h4
      rw [runT_probe_ok] at h5
      rcases h5 with ⟨rfl, x, _, rfl⟩ | ⟨rfl, _, rfl, rfl⟩
      · simp only [if_true] at h6; rw [runT_pure_ok] at h6; obtain ⟨rfl, rfl, rfl⟩ := h6
        exact Or.inl ⟨_, rfl, by simp (config := {decide := true}) [enumKwLex, trToks, trTok, normTok, lexTok]⟩
      · simp only [Bool.false_eq_true, if_false] at h6; rw [runT_pure_ok] at h6; obtain ⟨rfl, rfl, rfl⟩ := h6
        exact Or.inr ⟨rfl, rfl, rfl⟩

/-- everything of an enum after its keyword -/
theorem penumRest_sound (n : Nat) (k : EnumKw) {ls rest : List Lexeme} {e : EnumDecl} {tr : Trace}
    (h : runT (penumRest n k) ls = .ok e tr rest) :
    e.kw = k ∧ tr.flatMap trToks = (Lexeme.word e.name :: .sym "{" :: (enumeratorsLex e.enumerators ++ [.sym "}", .sym ";"])).map lexTok := by
  unfold penumRest at h
  rw [runT_bind_ok] at h
  obtain ⟨name, t1, m1, t2, h1, h2, rfl⟩ := h
  rw [runT_need_ok] at h1
  obtain ⟨_, rfl⟩ := h1
  rw [runT_bind_ok] at h2
  obtain ⟨u, t3, m2, t4, h3, h4, rfl⟩ := h2
  rw [runT_expect_ok] at h3
  obtain ⟨y, _, rfl⟩ := h3
  rw [runT_bind_ok] at h4
  obtain ⟨es, t5, m3, t6, h5, h6, rfl⟩ := h4
  obtain ⟨hes, _⟩ := penumerators_sound n h5
  rw [runT_bind_ok] at h6
  obtain ⟨u2, t7, m4, t8, h7, h8, rfl⟩ := h6
  rw [runT_expect_ok] at h7
  obtain ⟨z, _, rfl⟩ := h7
  rw [runT_bind_ok] at h8
  obtain ⟨u3, t9, m5, t10, h9, h10, rfl⟩ := h8
  rw [runT_expect_ok] at h9
  obtain ⟨z2, _, rfl⟩ := h9
  rw [runT_pure_ok] at h10
  obtain ⟨rfl, rfl, rfl⟩ := h10
  exact ⟨rfl, by simp [hes, trToks, trTok, normTok, lexTok]⟩

theorem optDefault_sound {ls rest : List Lexeme} {d : Option String} {tr : Trace} (h : runT optDefault ls = .ok d tr rest) :
    tr.flatMap trToks = (dfltLex d).map lexTok := by
  unfold optDefault at h
  rw [runT_bind_ok] at h
  obtain ⟨b, t1, m1, t2, h1, h2, rfl⟩ := h
  rw [runT_probe_ok] at h1
  rcases h1 with ⟨rfl, x, _, rfl⟩ | ⟨rfl, _, rfl, rfl⟩
  · simp only [if_true] at h2
    rw [runT_bind_ok] at h2
    obtain ⟨dd, t3, m2, t4, h3, h4, rfl⟩ := h2
    rw [runT_need_ok] at h3
    obtain ⟨_, rfl⟩ := h3
    rw [runT_pure_ok] at h4
    obtain ⟨rfl, rfl, rfl⟩ := h4
    simp [dfltLex, trToks, trTok, normTok, lexTok]
  · simp only [Bool.false_eq_true, if_false] at h2
    rw [runT_pure_ok] at h2
    obtain ⟨rfl, rfl, rfl⟩ := h2
    simp [dfltLex]


/-! ### class members -/

theorem canon_rest {p : P α} {ls rest : List Lexeme} {a : α} {tr : Trace} (hc : CanonL ls) (h : runT p ls = .ok a tr rest) :
    CanonL rest := by
  obtain ⟨_, _, _, h'⟩ := consumed_tokens p ls rest a tr hc h
  exact h'

theorem retLex_toRet (r : TypeRes) (h : r.pairStd = pairFlag r.ty) : retLex (toRet r) = tyLex r.ty := by
  simp [retLex, retAsType_toRet r h]

theorem dunderPart_sound (n : Nat) {ls rest : List Lexeme} {m : Member} {tr : Trace} (hc : CanonL ls)
    (h : runT (dunderPart n) ls = .ok m tr rest) :
    ((Q.lit "__", "__") :: tr).flatMap trToks = (memberLex m).map lexTok := by
  unfold dunderPart at h
  rw [runT_bind_ok] at h
  obtain ⟨name, t1, m1, t2, h1, h2, rfl⟩ := h
  have hc1 := canon_rest hc h1
  rw [runT_need_ok] at h1
  obtain ⟨_, rfl⟩ := h1
  rw [runT_bind_ok] at h2
  obtain ⟨u, t3, m2, t4, h3, h4, rfl⟩ := h2
  have hc2 := canon_rest hc1 h3
  rw [runT_expect_ok] at h3
  obtain ⟨y, _, rfl⟩ := h3
  rw [runT_bind_ok] at h4
  obtain ⟨u2, t5, m3, t6, h5, h6, rfl⟩ := h4
  have hc3 := canon_rest hc2 h5
  rw [runT_expect_ok] at h5
  obtain ⟨y2, _, rfl⟩ := h5
  rw [runT_bind_ok] at h6
  obtain ⟨args, t7, m4, t8, h7, h8, rfl⟩ := h6
  obtain ⟨hargs, _⟩ := pargs_sound n hc3 h7
  rw [runT_bind_ok] at h8
  obtain ⟨u3, t9, m5, t10, h9, h10, rfl⟩ := h8
  rw [runT_expect_ok] at h9
  obtain ⟨y3, _, rfl⟩ := h9
  rw [runT_pure_ok] at h10
  obtain ⟨rfl, rfl, rfl⟩ := h10
  simp [memberLex, hargs, trToks, trTok, normTok, lexTok]

theorem staticPart_sound (n : Nat) (tmpl : Option Template) {ls rest : List Lexeme} {m : Member} {tr : Trace} (hc : CanonL ls)
    (h : runT (staticPart n tmpl) ls = .ok m tr rest) :
    ∃ ret name args, m = .static tmpl ret name args ∧
      tr.flatMap trToks = (retLex ret ++ Lexeme.word name :: Lexeme.sym "(" :: (argsLex args ++ [Lexeme.sym ")", Lexeme.sym ";"])).map lexTok := by
  unfold staticPart at h
  rw [runT_bind_ok] at h
  obtain ⟨r, t1, m1, t2, h1, h2, rfl⟩ := h
  obtain ⟨hr, hfl, _⟩ := ptype_sound n _ _ _ _ hc h1
  have hc1 := canon_rest hc h1
  rw [runT_bind_ok] at h2
  obtain ⟨name, t3, m2, t4, h3, h4, rfl⟩ := h2
  have hc2 := canon_rest hc1 h3
  rw [runT_need_ok] at h3
  obtain ⟨_, rfl⟩ := h3
  rw [runT_bind_ok] at h4
  obtain ⟨u, t5, m3, t6, h5, h6, rfl⟩ := h4
  have hc3 := canon_rest hc2 h5
  rw [runT_expect_ok] at h5
  obtain ⟨y, _, rfl⟩ := h5
  rw [runT_bind_ok] at h6
  obtain ⟨args, t7, m4, t8, h7, h8, rfl⟩ := h6
  obtain ⟨hargs, _⟩ := pargs_sound n hc3 h7
  rw [runT_bind_ok] at h8
  obtain ⟨u3, t9, m5, t10, h9, h10, rfl⟩ := h8
  rw [runT_expect_ok] at h9
  obtain ⟨y3, _, rfl⟩ := h9
  rw [runT_pure_ok] at h10
  obtain ⟨rfl, rfl, rfl⟩ := h10
  exact ⟨_, _, _, rfl, by simp [retLex_toRet r hfl, hr, hargs, trToks, trTok, normTok, lexTok]⟩


/-- constructor / method / operator / property: everything after the optional template -/
theorem memberTail_sound (n : Nat) (tmpl : Option Template) {ls rest : List Lexeme} {m : Member} {tr : Trace} (hc : CanonL ls)
    (h : runT (memberTail n tmpl) ls = .ok m tr rest) :
    (tmplLex tmpl).map lexTok ++ tr.flatMap trToks = (memberLex m).map lexTok := by
  unfold memberTail at h
  rw [runT_bind_ok] at h
  obtain ⟨r, t1, m1, t2, h1, h2, rfl⟩ := h
  obtain ⟨hr, hfl, _⟩ := ptype_sound n _ _ _ _ hc h1
  have hc1 := canon_rest hc h1
  rw [runT_bind_ok] at h2
  obtain ⟨b, t3, m2, t4, h3, h4, rfl⟩ := h2
  have hc2 := canon_rest hc1 h3
  rw [runT_probe_ok] at h3
  rcases h3 with ⟨rfl, x, _, rfl⟩ | ⟨rfl, _, rfl, rfl⟩
  · -- constructor
    simp only [if_true] at h4
    split at h4
    · next name hty =>
      rw [runT_bind_ok] at h4
      obtain ⟨args, t5, m3, t6, h5, h6, rfl⟩ := h4
      obtain ⟨hargs, _⟩ := pargs_sound n hc2 h5
      rw [runT_bind_ok] at h6
      obtain ⟨u, t7, m4, t8, h7, h8, rfl⟩ := h6
      rw [runT_expect_ok] at h7
      obtain ⟨y, _, rfl⟩ := h7
      rw [runT_pure_ok] at h8
      obtain ⟨rfl, rfl, rfl⟩ := h8
      rw [hty] at hr
      simp [memberLex, hr, hargs, tyLex, constLex, sufLex, namesLex, identsLex, trToks, trTok, normTok, lexTok]
    · simp [P.failParse, runT] at h4
  · simp only [Bool.false_eq_true, if_false] at h4
    rw [runT_bind_ok] at h4
    obtain ⟨name, t5, m3, t6, h5, h6, rfl⟩ := h4
    have hc3 := canon_rest hc2 h5
    rw [runT_need_ok] at h5
    obtain ⟨_, rfl⟩ := h5
    by_cases hop : (name == "operator") = true
    · -- operator
      simp only [hop, if_true] at h6
      have hname : name = "operator" := by simpa using hop
      subst hname
      cases tmpl with
      | some tp => simp [P.failParse, runT] at h6
      | none =>
        simp only [Option.isSome_none, Bool.false_eq_true, if_false] at h6
        rw [runT_bind_ok] at h6
        obtain ⟨sym, t7, m4, t8, h7, h8, rfl⟩ := h6
        have hc4 := canon_rest hc3 h7
        rw [runT_need_ok] at h7
        obtain ⟨_, rfl⟩ := h7
        rw [runT_bind_ok] at h8
        obtain ⟨u, t9, m5, t10, h9, h10, rfl⟩ := h8
        have hc5 := canon_rest hc4 h9
        rw [runT_expect_ok] at h9
        obtain ⟨y, _, rfl⟩ := h9
        rw [runT_bind_ok] at h10
        obtain ⟨args, t11, m6, t12, h11, h12, rfl⟩ := h10
        obtain ⟨hargs, _⟩ := pargs_sound n hc5 h11
        rw [runT_bind_ok] at h12
        obtain ⟨u2, t13, m7, t14, h13, h14, rfl⟩ := h12
        rw [runT_expect_ok] at h13
        obtain ⟨y2, _, rfl⟩ := h13
        rw [runT_bind_ok] at h14
        obtain ⟨u3, t15, m8, t16, h15, h16, rfl⟩ := h14
        rw [runT_expect_ok] at h15
        obtain ⟨y3, _, rfl⟩ := h15
        try simp only at h16
        split at h16
        · rw [runT_pure_ok] at h16
          obtain ⟨rfl, rfl, rfl⟩ := h16
          simp (config := {decide := true}) [memberLex, tmplLex, retLex_toRet r hfl, hr, hargs, trToks, trTok, normTok, lexTok]
        · simp [P.failValidation, runT] at h16
    · simp only [hop, Bool.false_eq_true, if_false] at h6
      rw [runT_bind_ok] at h6
      obtain ⟨b2, t7, m4, t8, h7, h8, rfl⟩ := h6
      have hc4 := canon_rest hc3 h7
      rw [runT_probe_ok] at h7
      rcases h7 with ⟨rfl, x2, _, rfl⟩ | ⟨rfl, _, rfl, rfl⟩
      · -- method
        simp only [if_true] at h8
        rw [runT_bind_ok] at h8
        obtain ⟨args, t9, m5, t10, h9, h10, rfl⟩ := h8
        obtain ⟨hargs, _⟩ := pargs_sound n hc4 h9
        rw [runT_bind_ok] at h10
        obtain ⟨isConst, t11, m6, t12, h11, h12, rfl⟩ := h10
        have hconst : t11.flatMap trToks = (constLex isConst).map lexTok := by
          rw [runT_probe_ok] at h11
          rcases h11 with ⟨rfl, x3, _, rfl⟩ | ⟨rfl, _, _, rfl⟩
          · simp (config := {decide := true}) [constLex, trToks, trTok, normTok, lexTok]
          · simp [constLex]
        rw [runT_bind_ok] at h12
        obtain ⟨u, t13, m7, t14, h13, h14, rfl⟩ := h12
        rw [runT_expect_ok] at h13
        obtain ⟨y, _, rfl⟩ := h13
        rw [runT_pure_ok] at h14
        obtain ⟨rfl, rfl, rfl⟩ := h14
        simp [memberLex, retLex_toRet r hfl, hr, hargs, hconst, trToks, trTok, normTok, lexTok]
      · -- property
        simp only [Bool.false_eq_true, if_false] at h8
        cases tmpl with
        | some tp => simp [P.failParse, runT] at h8
        | none =>
          simp only [Option.isSome_none, Bool.false_eq_true, if_false] at h8
          rw [runT_bind_ok] at h8
          obtain ⟨d, t9, m5, t10, h9, h10, rfl⟩ := h8
          have hd := optDefault_sound h9
          rw [runT_bind_ok] at h10
          obtain ⟨u, t11, m6, t12, h11, h12, rfl⟩ := h10
          rw [runT_expect_ok] at h11
          obtain ⟨y, _, rfl⟩ := h11
          rw [runT_pure_ok] at h12
          obtain ⟨rfl, rfl, rfl⟩ := h12
          simp [memberLex, tmplLex, hr, hd, trToks, trTok, normTok, lexTok]


theorem pmember_sound (n : Nat) {ls rest : List Lexeme} {m : Member} {tr : Trace} (hc : CanonL ls)
    (h : runT (pmember n) ls = .ok m tr rest) : tr.flatMap trToks = (memberLex m).map lexTok := by
  rw [pmember_eq] at h
  rw [runT_bind_ok] at h
  obtain ⟨b, t1, m1, t2, h1, h2, rfl⟩ := h
  have hc1 := canon_rest hc h1
  rw [runT_probe_ok] at h1
  rcases h1 with ⟨rfl, x, _, rfl⟩ | ⟨rfl, _, rfl, rfl⟩
  · simp only [if_true] at h2
    have := dunderPart_sound n hc1 h2
    simpa [normTok] using this
  · simp only [Bool.false_eq_true, if_false] at h2
    rw [runT_bind_ok] at h2
    obtain ⟨tmpl, t3, m2, t4, h3, h4, rfl⟩ := h2
    have ht := ptemplate_sound n hc1 h3
    have hc2 := canon_rest hc1 h3
    rw [runT_bind_ok] at h4
    obtain ⟨b2, t5, m3, t6, h5, h6, rfl⟩ := h4
    have hc3 := canon_rest hc2 h5
    rw [runT_probe_ok] at h5
    rcases h5 with ⟨rfl, x2, _, rfl⟩ | ⟨rfl, _, rfl, rfl⟩
    · simp only [if_true] at h6
      obtain ⟨ret, name, args, rfl, hs⟩ := staticPart_sound n tmpl hc3 h6
      simp (config := {decide := true}) [memberLex, ht, hs, trToks, trTok, normTok, lexTok]
    · simp only [Bool.false_eq_true, if_false] at h6
      rw [runT_bind_ok] at h6
      obtain ⟨ek, t7, m4, t8, h7, h8, rfl⟩ := h6
      have hc4 := canon_rest hc3 h7
      cases ek with
      | some k =>
        simp only at h8
        rw [runT_bind_ok] at h8
        obtain ⟨e, t9, m5, t10, h9, h10, rfl⟩ := h8
        obtain ⟨hk, he⟩ := penumRest_sound n k h9
        rw [runT_pure_ok] at h10
        obtain ⟨rfl, rfl, rfl⟩ := h10
        cases tmpl with
        | some tp =>
          simp only [Option.isNone_some, Bool.false_eq_true, if_false] at h7
          rw [runT_pure_ok] at h7
          obtain ⟨h7, _, _⟩ := h7
          cases h7
        | none =>
          simp only [Option.isNone_none, if_true] at h7
          rcases penumKw_sound h7 with ⟨k', hk', hkw⟩ | ⟨hk', _, _⟩
          · cases hk'
            simp [memberLex, enumLex, hk, tmplLex, hkw, he] at ht ⊢
            exact ht
          · cases hk'
      | none =>
        simp only at h8
        have hm := memberTail_sound n tmpl hc4 h8
        have h7' : t7 = [] := by
          cases tmpl with
          | some tp =>
            simp only [Option.isNone_some, Bool.false_eq_true, if_false] at h7
            rw [runT_pure_ok] at h7
            exact h7.2.1
          | none =>
            simp only [Option.isNone_none, if_true] at h7
            rcases penumKw_sound h7 with ⟨k', hk', _⟩ | ⟨_, ht7, _⟩
            · cases hk'
            · exact ht7
        subst h7'
        simp [ht, ← hm]

theorem pmembers_sound : ∀ (n : Nat) {ls rest : List Lexeme} {ms : List Member} {tr : Trace}, CanonL ls →
    runT (pmembers n) ls = .ok ms tr rest → tr.flatMap trToks = (membersLex ms ++ [Lexeme.sym "}"]).map lexTok
  | 0, _, _, _, _, _, h => by simp [pmembers, runT] at h
  | n+1, ls, rest, ms, tr, hc, h => by
    simp only [pmembers] at h
    rw [runT_bind_ok] at h
    obtain ⟨b, t1, m1, t2, h1, h2, rfl⟩ := h
    have hc1 := canon_rest hc h1
    rw [runT_probe_ok] at h1
    rcases h1 with ⟨rfl, x, _, rfl⟩ | ⟨rfl, _, rfl, rfl⟩
    · simp only [if_true] at h2
      rw [runT_pure_ok] at h2
      obtain ⟨rfl, rfl, rfl⟩ := h2
      simp [membersLex, trToks, trTok, normTok, lexTok]
    · simp only [Bool.false_eq_true, if_false] at h2
      rw [runT_bind_ok] at h2
      obtain ⟨m, t3, m2, t4, h3, h4, rfl⟩ := h2
      have hm := pmember_sound n hc1 h3
      have hc2 := canon_rest hc1 h3
      rw [runT_bind_ok] at h4
      obtain ⟨ms', t5, m3, t6, h5, h6, rfl⟩ := h4
      have ih := pmembers_sound n hc2 h5
      rw [runT_pure_ok] at h6
      obtain ⟨rfl, rfl, rfl⟩ := h6
      simp [membersLex, hm, ih]


/-! ### classes and forward declarations -/

theorem parentClause_sound (n : Nat) {ls rest : List Lexeme} {par : Option CType} {tr : Trace} (hc : CanonL ls)
    (h : runT (parentClause n) ls = .ok par tr rest) :
    tr.flatMap trToks = (parentLex par).map lexTok ∧ (∀ t, par = some t → TyInv t) := by
  unfold parentClause at h
  rw [runT_bind_ok] at h
  obtain ⟨b, t1, m1, t2, h1, h2, rfl⟩ := h
  have hc1 := canon_rest hc h1
  rw [runT_probe_ok] at h1
  rcases h1 with ⟨rfl, x, _, rfl⟩ | ⟨rfl, _, rfl, rfl⟩
  · simp only [if_true] at h2
    rw [runT_bind_ok] at h2
    obtain ⟨t, t3, m2, t4, h3, h4, rfl⟩ := h2
    obtain ⟨ht, _, hinv⟩ := ptype_sound n _ _ _ _ hc1 h3
    rw [runT_pure_ok] at h4
    obtain ⟨rfl, rfl, rfl⟩ := h4
    refine ⟨by simp [parentLex, ht, trToks, trTok, normTok, lexTok], ?_⟩
    intro t' ht'; cases ht'; exact hinv
  · simp only [Bool.false_eq_true, if_false] at h2
    rw [runT_pure_ok] at h2
    obtain ⟨rfl, rfl, rfl⟩ := h2
    exact ⟨by simp [parentLex], by intro t ht; cases ht⟩

/-- a plain, blank-free simple type prints as its bare qualified name, whatever its `basic` flag -/
theorem tyLex_plain_simple (tn : Typename) (b : Bool) (hsp : hasSpace tn.name = false) :
    tyLex (.simple tn ⟨false, .none⟩ b) = namesLex (tn.namespaces ++ [tn.name]) := by
  simp [tyLex, constLex, sufLex, hsp]

theorem quals_plain_of {q : Quals} {sp : Bool} (h : ¬ ((q.isConst || q.suffix != .none || sp) = true)) :
    q = ⟨false, .none⟩ ∧ sp = false := by
  obtain ⟨c, sfx⟩ := q
  cases c <;> cases sfx <;> cases sp <;> first | exact ⟨rfl, rfl⟩ | (exfalso; revert h; decide)

theorem fwdBody_sound (tmpl : Option Template) (virt : Bool) (w : String) (more : List String) (parent : Option CType)
    (hpar : ∀ t, parent = some t → TyInv t)
    {ls rest : List Lexeme} {d : Decl} {tr : Trace} (h : runT (fwdBody tmpl virt w more parent) ls = .ok d tr rest) :
    tr = [] ∧ rest = ls ∧ tmpl = none ∧
      (declLex d).map lexTok = ((if virt then [Lexeme.word "virtual"] else []) ++ Lexeme.word "class" :: Lexeme.word w ::
        (identsLex more ++ parentLex parent ++ [Lexeme.sym ";"])).map lexTok := by
  unfold fwdBody at h
  cases tmpl with
  | some tp => simp [P.failParse, runT] at h
  | none =>
    simp only [Option.isSome_none, Bool.false_eq_true, if_false] at h
    have hsl := splitLast_eq (w :: more) (by simp)
    cases hsp : splitLast (w :: more) with
    | mk nss name =>
      rw [hsp] at hsl
      simp only at hsl
      simp only [hsp] at h
      have hnames : namesLexPlain (nss ++ [name]) = Lexeme.word w :: identsLex more := by
        rw [← hsl]; rfl
      match parent, hpar, h with
      | none, _, h =>
        rw [runT_pure_ok] at h
        obtain ⟨rfl, rfl, rfl⟩ := h
        exact ⟨rfl, rfl, rfl, by simp [declLex, hnames, fwdParentLex, parentLex]⟩
      | some (.simple tn q b), hpar, h =>
        simp only at h
        split at h
        · simp [P.failParse, runT] at h
        · next hq =>
          obtain ⟨rfl, hsp'⟩ := quals_plain_of hq
          rw [runT_pure_ok] at h
          obtain ⟨rfl, rfl, rfl⟩ := h
          have hinv := hpar _ rfl
          have hst : strictTypename true (.simple tn ⟨false, .none⟩ b) = some tn := by
            simp (config := {decide := true}) [strictTypename, hsp']
          have := strict_tokens true _ tn hst hinv
          exact ⟨rfl, rfl, rfl, by simp [declLex, hnames, fwdParentLex, parentLex, this]⟩
      | some (.templ a b c d'), _, h => simp [P.failParse, runT] at h

theorem classBody_sound (n : Nat) (tmpl : Option Template) (virt : Bool) (w : String) (parent : Option CType)
    {ls rest : List Lexeme} {d : Decl} {tr : Trace} (hc : CanonL ls)
    (h : runT (classBody n tmpl virt w parent) ls = .ok d tr rest) :
    (tmplLex tmpl ++ (if virt then [Lexeme.word "virtual"] else []) ++ Lexeme.word "class" :: Lexeme.word w :: parentLex parent).map lexTok
        ++ tr.flatMap trToks = (declLex d).map lexTok := by
  unfold classBody at h
  rw [runT_bind_ok] at h
  obtain ⟨par, t1, m1, t2, h1, h2, rfl⟩ := h
  have hpar : t1 = [] ∧ m1 = ls ∧ (parentLex par).map lexTok = (parentLex parent).map lexTok := by
    match parent, h1 with
    | none, h1 => rw [runT_pure_ok] at h1; obtain ⟨rfl, rfl, rfl⟩ := h1; exact ⟨rfl, rfl, rfl⟩
    | some (.simple tn q b), h1 =>
      simp only at h1
      split at h1
      · simp [P.failParse, runT] at h1
      · next hq =>
        obtain ⟨rfl, hsp'⟩ := quals_plain_of hq
        rw [runT_pure_ok] at h1
        obtain ⟨rfl, rfl, rfl⟩ := h1
        refine ⟨rfl, rfl, ?_⟩
        simp [parentLex, Quals.plain, tyLex_plain_simple tn _ hsp']
    | some (.templ a b c d'), h1 => rw [runT_pure_ok] at h1; obtain ⟨rfl, rfl, rfl⟩ := h1; exact ⟨rfl, rfl, rfl⟩
  obtain ⟨rfl, rfl, hparL⟩ := hpar
  rw [runT_bind_ok] at h2
  obtain ⟨u, t3, m2, t4, h3, h4, rfl⟩ := h2
  have hc2 := canon_rest hc h3
  rw [runT_expect_ok] at h3
  obtain ⟨y, _, rfl⟩ := h3
  rw [runT_bind_ok] at h4
  obtain ⟨ms, t5, m3, t6, h5, h6, rfl⟩ := h4
  have hms := pmembers_sound n hc2 h5
  rw [runT_bind_ok] at h6
  obtain ⟨u2, t7, m4, t8, h7, h8, rfl⟩ := h6
  rw [runT_expect_ok] at h7
  obtain ⟨y2, _, rfl⟩ := h7
  split at h8
  · rw [runT_pure_ok] at h8
    obtain ⟨rfl, rfl, rfl⟩ := h8
    simp [declLex, classLex, hms, hparL, trToks, trTok, normTok, lexTok]
  · simp [P.failValidation, runT] at h8


/-- `[template] [virtual] class` already read -/
theorem pclassRest_sound (n : Nat) (tmpl : Option Template) (virt : Bool) {ls rest : List Lexeme} {d : Decl} {tr : Trace}
    (hc : CanonL ls) (h : runT (pclassRest n tmpl virt) ls = .ok d tr rest) :
    (tmplLex tmpl ++ (if virt then [Lexeme.word "virtual"] else []) ++ [Lexeme.word "class"]).map lexTok
        ++ tr.flatMap trToks = (declLex d).map lexTok := by
  rw [pclassRest_eq] at h
  rw [runT_bind_ok] at h
  obtain ⟨w, t1, m1, t2, h1, h2, rfl⟩ := h
  have hc1 := canon_rest hc h1
  rw [runT_need_ok] at h1
  obtain ⟨_, rfl⟩ := h1
  rw [runT_bind_ok] at h2
  obtain ⟨more, t3, m2, t4, h3, h4, rfl⟩ := h2
  have hmore := moreIdents_sound n h3
  have hc2 := canon_rest hc1 h3
  rw [runT_bind_ok] at h4
  obtain ⟨parent, t5, m3, t6, h5, h6, rfl⟩ := h4
  obtain ⟨hpar, hparinv⟩ := parentClause_sound n hc2 h5
  have hc3 := canon_rest hc2 h5
  rw [runT_bind_ok] at h6
  obtain ⟨b, t7, m4, t8, h7, h8, rfl⟩ := h6
  have hc4 := canon_rest hc3 h7
  rw [runT_probe_ok] at h7
  rcases h7 with ⟨rfl, x, _, rfl⟩ | ⟨rfl, _, rfl, rfl⟩
  · simp only [if_true] at h8
    obtain ⟨rfl, rfl, rfl, hd⟩ := fwdBody_sound tmpl virt w more parent hparinv h8
    rw [hd]
    simp [tmplLex, hmore, hpar, trToks, trTok, normTok, lexTok]
  · simp only [Bool.false_eq_true, if_false] at h8
    cases more with
    | cons a r => simp [P.failParse, runT] at h8
    | nil =>
      simp only [List.isEmpty_nil, Bool.not_true, Bool.false_eq_true, if_false] at h8
      have := classBody_sound n tmpl virt w parent hc4 h8
      rw [← this]
      have hm0 : List.flatMap trToks t3 = [] := hmore
      simp [hm0, hpar, trToks, trTok, normTok, lexTok]

theorem inclPart_sound {ls rest : List Lexeme} {d : Decl} {tr : Trace} (h : runT inclPart ls = .ok d tr rest) :
    ((Q.kw "#include", "#include") :: tr).flatMap trToks = (declLex d).map lexTok := by
  unfold inclPart at h
  rw [runT_bind_ok] at h
  obtain ⟨u, t1, m1, t2, h1, h2, rfl⟩ := h
  rw [runT_expect_ok] at h1
  obtain ⟨y, _, rfl⟩ := h1
  rw [runT_bind_ok] at h2
  obtain ⟨hd, t3, m2, t4, h3, h4, rfl⟩ := h2
  rw [runT_need_ok] at h3
  obtain ⟨_, rfl⟩ := h3
  rw [runT_bind_ok] at h4
  obtain ⟨u2, t5, m3, t6, h5, h6, rfl⟩ := h4
  rw [runT_expect_ok] at h5
  obtain ⟨y2, _, rfl⟩ := h5
  rw [runT_pure_ok] at h6
  obtain ⟨rfl, rfl, rfl⟩ := h6
  simp (config := {decide := true}) [declLex, trToks, trTok, normTok, lexTok]

theorem typedefPart_sound (n : Nat) {ls rest : List Lexeme} {d : Decl} {tr : Trace} (hc : CanonL ls)
    (h : runT (typedefPart n) ls = .ok d tr rest) :
    ((Q.kw "typedef", "typedef") :: tr).flatMap trToks = (declLex d).map lexTok := by
  unfold typedefPart at h
  rw [runT_bind_ok] at h
  obtain ⟨t, t1, m1, t2, h1, h2, rfl⟩ := h
  obtain ⟨ht, _, hinv⟩ := ptype_sound n _ _ _ _ hc h1
  split at h2
  · simp [P.failParse, runT] at h2
  · rw [runT_bind_ok] at h2
    obtain ⟨tn, t3, m2, t4, h3, h4, rfl⟩ := h2
    rw [runT_liftOpt_ok] at h3
    obtain ⟨hst, rfl, rfl⟩ := h3
    have htn := strict_tokens true t.ty tn hst hinv
    rw [runT_bind_ok] at h4
    obtain ⟨name, t5, m3, t6, h5, h6, rfl⟩ := h4
    rw [runT_need_ok] at h5
    obtain ⟨_, rfl⟩ := h5
    rw [runT_bind_ok] at h6
    obtain ⟨u, t7, m4, t8, h7, h8, rfl⟩ := h6
    rw [runT_expect_ok] at h7
    obtain ⟨y, _, rfl⟩ := h7
    rw [runT_pure_ok] at h8
    obtain ⟨rfl, rfl, rfl⟩ := h8
    simp (config := {decide := true}) [declLex, ht, htn, trToks, trTok, normTok, lexTok]

theorem declTail_sound (n : Nat) (tmpl : Option Template) {ls rest : List Lexeme} {d : Decl} {tr : Trace} (hc : CanonL ls)
    (h : runT (declTail n tmpl) ls = .ok d tr rest) :
    (tmplLex tmpl).map lexTok ++ tr.flatMap trToks = (declLex d).map lexTok := by
  unfold declTail at h
  rw [runT_bind_ok] at h
  obtain ⟨r, t1, m1, t2, h1, h2, rfl⟩ := h
  obtain ⟨hr, hfl, _⟩ := ptype_sound n _ _ _ _ hc h1
  have hc1 := canon_rest hc h1
  rw [runT_bind_ok] at h2
  obtain ⟨name, t3, m2, t4, h3, h4, rfl⟩ := h2
  have hc2 := canon_rest hc1 h3
  rw [runT_need_ok] at h3
  obtain ⟨_, rfl⟩ := h3
  rw [runT_bind_ok] at h4
  obtain ⟨b, t5, m3, t6, h5, h6, rfl⟩ := h4
  have hc3 := canon_rest hc2 h5
  rw [runT_probe_ok] at h5
  rcases h5 with ⟨rfl, x, _, rfl⟩ | ⟨rfl, _, rfl, rfl⟩
  · simp only [if_true] at h6
    rw [runT_bind_ok] at h6
    obtain ⟨args, t7, m4, t8, h7, h8, rfl⟩ := h6
    obtain ⟨hargs, _⟩ := pargs_sound n hc3 h7
    rw [runT_bind_ok] at h8
    obtain ⟨u, t9, m5, t10, h9, h10, rfl⟩ := h8
    rw [runT_expect_ok] at h9
    obtain ⟨y, _, rfl⟩ := h9
    rw [runT_pure_ok] at h10
    obtain ⟨rfl, rfl, rfl⟩ := h10
    simp [declLex, retLex_toRet r hfl, hr, hargs, trToks, trTok, normTok, lexTok]
  · simp only [Bool.false_eq_true, if_false] at h6
    split at h6
    · simp [P.failParse, runT] at h6
    · next hcond =>
      have htm : tmpl = none := by
        cases tmpl with
        | none => rfl
        | some tp => simp at hcond
      subst htm
      rw [runT_bind_ok] at h6
      obtain ⟨dd, t7, m4, t8, h7, h8, rfl⟩ := h6
      have hd := optDefault_sound h7
      rw [runT_bind_ok] at h8
      obtain ⟨u, t9, m5, t10, h9, h10, rfl⟩ := h8
      rw [runT_expect_ok] at h9
      obtain ⟨y, _, rfl⟩ := h9
      rw [runT_pure_ok] at h10
      obtain ⟨rfl, rfl, rfl⟩ := h10
      simp [declLex, tmplLex, hr, hd, trToks, trTok, normTok, lexTok]

theorem classOrTail_sound (n : Nat) (tmpl : Option Template) {ls rest : List Lexeme} {d : Decl} {tr : Trace} (hc : CanonL ls)
    (h : runT (classOrTail n tmpl) ls = .ok d tr rest) :
    (tmplLex tmpl).map lexTok ++ tr.flatMap trToks = (declLex d).map lexTok := by
  unfold classOrTail at h
  rw [runT_bind_ok] at h
  obtain ⟨virt, t1, m1, t2, h1, h2, rfl⟩ := h
  have hc1 := canon_rest hc h1
  have hvirt : t1.flatMap trToks = ((if virt then [Lexeme.word "virtual"] else []) : List Lexeme).map lexTok := by
    rw [runT_probe_ok] at h1
    rcases h1 with ⟨rfl, x, _, rfl⟩ | ⟨rfl, _, _, rfl⟩
    · simp (config := {decide := true}) [trToks, trTok, normTok, lexTok]
    · simp
  rw [runT_bind_ok] at h2
  obtain ⟨b, t3, m2, t4, h3, h4, rfl⟩ := h2
  have hc2 := canon_rest hc1 h3
  rw [runT_probe_ok] at h3
  rcases h3 with ⟨rfl, x, _, rfl⟩ | ⟨rfl, _, rfl, rfl⟩
  · simp only [if_true] at h4
    have := pclassRest_sound n tmpl virt hc2 h4
    rw [← this]
    simp (config := {decide := true}) [hvirt, trToks, trTok, normTok, lexTok]
  · simp only [Bool.false_eq_true, if_false] at h4
    cases virt with
    | true => simp [P.failParse, runT] at h4
    | false =>
      simp only [Bool.false_eq_true, if_false] at h4
      have := declTail_sound n tmpl hc2 h4
      rw [← this]
      have hv0 : List.flatMap trToks t1 = [] := hvirt
      simp [hv0]


/-! ### declarations, namespaces, the module -/

def DeclSound (m : Nat) : Prop :=
  ∀ (ls rest : List Lexeme) (d : Decl) (tr : Trace), CanonL ls → runT (pdecl m) ls = .ok d tr rest →
    tr.flatMap trToks = (declLex d).map lexTok

theorem pdecls_sound_of (N : Nat) (H : ∀ m, m < N → DeclSound m) :
    ∀ (m : Nat), m ≤ N → ∀ (ls rest : List Lexeme) (ds : List Decl) (tr : Trace), CanonL ls →
      runT (pdecls m) ls = .ok ds tr rest → tr.flatMap trToks = (declsLex ds ++ [Lexeme.sym "}"]).map lexTok := by
  intro m
  induction m with
  | zero => intro _ ls rest ds tr _ h; simp [pdecls, runT] at h
  | succ m ih =>
    intro hm ls rest ds tr hc h
    rw [pdecls] at h
    rw [runT_bind_ok] at h
    obtain ⟨b, t1, m1, t2, h1, h2, rfl⟩ := h
    have hc1 := canon_rest hc h1
    rw [runT_probe_ok] at h1
    rcases h1 with ⟨rfl, x, _, rfl⟩ | ⟨rfl, _, rfl, rfl⟩
    · simp only [if_true] at h2
      rw [runT_pure_ok] at h2
      obtain ⟨rfl, rfl, rfl⟩ := h2
      simp [declsLex, trToks, trTok, normTok, lexTok]
    · simp only [Bool.false_eq_true, if_false] at h2
      rw [runT_bind_ok] at h2
      obtain ⟨d, t3, m2, t4, h3, h4, rfl⟩ := h2
      have hd := H m (by omega) _ _ _ _ hc1 h3
      have hc2 := canon_rest hc1 h3
      rw [runT_bind_ok] at h4
      obtain ⟨ds', t5, m3, t6, h5, h6, rfl⟩ := h4
      have ihd := ih (by omega) _ _ _ _ hc2 h5
      rw [runT_pure_ok] at h6
      obtain ⟨rfl, rfl, rfl⟩ := h6
      simp [declsLex, hd, ihd]

theorem pdecl_sound : ∀ (n : Nat), DeclSound n := by
  intro n
  induction n using Nat.strongRecOn with
  | ind n ih =>
  intro ls rest d tr hc h
  cases n with
  | zero => simp [pdecl, runT] at h
  | succ n =>
  rw [pdecl_eq] at h
  rw [runT_bind_ok] at h
  obtain ⟨b1, t1, m1, t2, h1, h2, rfl⟩ := h
  have hc1 := canon_rest hc h1
  rw [runT_probe_ok] at h1
  rcases h1 with ⟨rfl, x, _, rfl⟩ | ⟨rfl, _, rfl, rfl⟩
  · simp only [if_true] at h2
    have := inclPart_sound h2
    simpa [normTok] using this
  · simp only [Bool.false_eq_true, if_false] at h2
    rw [runT_bind_ok] at h2
    obtain ⟨b2, t3, m2, t4, h3, h4, rfl⟩ := h2
    have hc2 := canon_rest hc1 h3
    rw [runT_probe_ok] at h3
    rcases h3 with ⟨rfl, x2, _, rfl⟩ | ⟨rfl, _, rfl, rfl⟩
    · simp only [if_true] at h4
      have := typedefPart_sound n hc2 h4
      simpa [normTok] using this
    · simp only [Bool.false_eq_true, if_false] at h4
      rw [runT_bind_ok] at h4
      obtain ⟨b3, t5, m3, t6, h5, h6, rfl⟩ := h4
      have hc3 := canon_rest hc2 h5
      rw [runT_probe_ok] at h5
      rcases h5 with ⟨rfl, x3, _, rfl⟩ | ⟨rfl, _, rfl, rfl⟩
      · -- namespace
        simp only [if_true] at h6
        rw [runT_bind_ok] at h6
        obtain ⟨name, t7, m4, t8, h7, h8, rfl⟩ := h6
        have hc4 := canon_rest hc3 h7
        rw [runT_need_ok] at h7
        obtain ⟨_, rfl⟩ := h7
        rw [runT_bind_ok] at h8
        obtain ⟨u, t9, m5, t10, h9, h10, rfl⟩ := h8
        have hc5 := canon_rest hc4 h9
        rw [runT_expect_ok] at h9
        obtain ⟨y, _, rfl⟩ := h9
        rw [runT_bind_ok] at h10
        obtain ⟨ds, t11, m6, t12, h11, h12, rfl⟩ := h10
        have hds := pdecls_sound_of (n+1) (fun m hm => ih m hm) n (by omega) _ _ _ _ hc5 h11
        rw [runT_pure_ok] at h12
        obtain ⟨rfl, rfl, rfl⟩ := h12
        simp (config := {decide := true}) [declLex, hds, trToks, trTok, normTok, lexTok]
      · simp only [Bool.false_eq_true, if_false] at h6
        rw [runT_bind_ok] at h6
        obtain ⟨ek, t7, m4, t8, h7, h8, rfl⟩ := h6
        have hc4 := canon_rest hc3 h7
        rcases penumKw_sound h7 with ⟨k, rfl, hkw⟩ | ⟨rfl, rfl, rfl⟩
        · simp only at h8
          rw [runT_bind_ok] at h8
          obtain ⟨e, t9, m5, t10, h9, h10, rfl⟩ := h8
          obtain ⟨hk, he⟩ := penumRest_sound n k h9
          rw [runT_pure_ok] at h10
          obtain ⟨rfl, rfl, rfl⟩ := h10
          simp [declLex, enumLex, hk, hkw, he]
        · simp only at h8
          rw [runT_bind_ok] at h8
          obtain ⟨tmpl, t9, m5, t10, h9, h10, rfl⟩ := h8
          have ht := ptemplate_sound n hc4 h9
          have hc5 := canon_rest hc4 h9
          have := classOrTail_sound n tmpl hc5 h10
          rw [← this]
          simp [ht]

/-- **Soundness of the module reader (C07).**  Whatever canonical lexeme list the module reader accepts, with whatever
    fuel: the requests it answered `yes` are — token for token — the canonical printing of the module it returns. -/
theorem pmodule_sound : ∀ (n : Nat) (ls rest : List Lexeme) (m : Module) (tr : Trace), CanonL ls →
    runT (pmodule n) ls = .ok m tr rest → tr.flatMap trToks = (Spec.lexemes m).map lexTok ∧ rest = []
  | 0, _, _, _, _, _, h => by simp [pmodule, runT] at h
  | n+1, ls, rest, m, tr, hc, h => by
    simp only [pmodule] at h
    rw [runT_bind_ok] at h
    obtain ⟨b, t1, m1, t2, h1, h2, rfl⟩ := h
    have hc1 := canon_rest hc h1
    rw [runT_probe_ok] at h1
    rcases h1 with ⟨rfl, x, hx, rfl⟩ | ⟨rfl, _, rfl, rfl⟩
    · simp only [if_true] at h2
      rw [runT_pure_ok] at h2
      obtain ⟨rfl, rfl, rfl⟩ := h2
      obtain ⟨_, hr⟩ := yes_eof hc hx
      exact ⟨by simp [Spec.lexemes, declsLex, trToks], hr⟩
    · simp only [Bool.false_eq_true, if_false] at h2
      rw [runT_bind_ok] at h2
      obtain ⟨d, t3, m2, t4, h3, h4, rfl⟩ := h2
      have hd := pdecl_sound n _ _ _ _ hc1 h3
      have hc2 := canon_rest hc1 h3
      rw [runT_bind_ok] at h4
      obtain ⟨ds, t5, m3, t6, h5, h6, rfl⟩ := h4
      obtain ⟨ihd, hr⟩ := pmodule_sound n _ _ _ _ hc2 h5
      rw [runT_pure_ok] at h6
      obtain ⟨rfl, rfl, rfl⟩ := h6
      exact ⟨by simp [Spec.lexemes, declsLex, hd] at ihd ⊢; exact ihd, hr⟩

end WrapModel.Tok
