/- character-level lemmas: gaps are skipped, words / keywords / literals are read as the lexeme list says -/
import WrapModel.Model.Tok

namespace WrapModel.Tok
open WrapModel WrapModel.Lex

theorem skipWs_of_not_ws {x : Src} (h : ∀ c r, x = c :: r → isWs c = false) : skipWs x = x := by
  cases x with
  | nil => rfl
  | cons c r => simp [skipWs, h c r rfl]

theorem skipGapF_tokStart (n : Nat) {x : Src} (h : TokStart x) : skipGapF n x = x := by
  cases n with
  | zero => simp [skipGapF, skipWs_of_not_ws h.1]
  | succ n => simp [skipGapF, skipWs_of_not_ws h.1, h.2]

theorem blockEnd_body (body rest : Src) (h : blockEnd (body ++ ['*']) = none) :
    blockEnd (body ++ '*' :: '/' :: rest) = some rest := by
  induction body with
  | nil => simp [blockEnd]
  | cons c r ih =>
    simp only [List.cons_append] at h ⊢
    unfold blockEnd at h ⊢
    by_cases hc : (c == '*' && (r ++ ['*']).head? == some '/') = true
    · rw [if_pos hc] at h; simp at h
    · have hc' : (c == '*' && (r ++ '*' :: '/' :: rest).head? == some '/') = false := by
        cases r with
        | nil => simp at hc ⊢
        | cons d r' => simp at hc ⊢; exact hc
      simp only [hc, Bool.false_eq_true, if_false] at h
      simp only [hc', Bool.false_eq_true, if_false]
      exact ih h

theorem lineEnd_body (body rest : Src) (h1 : ∀ c ∈ body, c ≠ '\n') (h2 : ∀ c ∈ body, c ≠ '\\') :
    lineEnd (body ++ '\n' :: rest) = '\n' :: rest := by
  induction body with
  | nil => simp [lineEnd]
  | cons c r ih =>
    have hc1 : c ≠ '\n' := h1 c (by simp)
    have hc2 : c ≠ '\\' := h2 c (by simp)
    simp only [List.cons_append]
    unfold lineEnd
    simp only [beq_iff_eq, hc1, hc2, if_false]
    exact ih (fun d hd => h1 d (by simp [hd])) (fun d hd => h2 d (by simp [hd]))

/-- THE lexical core: any gap in front of a token is skipped entirely, whatever it contains -/
theorem skipGapF_gap {g x : Src} (hg : Gap g) (hx : TokStart x) : ∀ n, (g ++ x).length ≤ n → skipGapF n (g ++ x) = x := by
  induction hg with
  | nil => intro n _; simpa using skipGapF_tokStart n hx
  | ws c g hc _ ih =>
    intro n hn
    cases n with
    | zero => simp at hn
    | succ n =>
      have h1 : skipWs (c :: (g ++ x)) = skipWs (g ++ x) := by simp [skipWs, hc]
      have := ih (n + 1) (by simp at hn ⊢; omega)
      simp only [List.cons_append, skipGapF, h1] at this ⊢
      exact this
  | block body g hb _ ih =>
    intro n hn
    cases n with
    | zero => simp at hn
    | succ n =>
      have hws : skipWs ('/' :: '*' :: (body ++ '*' :: '/' :: g) ++ x) = '/' :: '*' :: (body ++ '*' :: '/' :: (g ++ x)) := by
        simp [skipWs, isWs]
      have hcm : comment ('/' :: '*' :: (body ++ '*' :: '/' :: (g ++ x))) = some (g ++ x) := by
        simp only [comment]
        simp
        exact blockEnd_body body (g ++ x) hb
      simp only [skipGapF, hws, hcm]
      exact ih n (by simp at hn ⊢; omega)
  | line body g h1 h2 _ ih =>
    intro n hn
    cases n with
    | zero => simp at hn
    | succ n =>
      have hws : skipWs ('/' :: '/' :: (body ++ '\n' :: g) ++ x) = '/' :: '/' :: (body ++ '\n' :: (g ++ x)) := by
        simp [skipWs, isWs]
      have hcm : comment ('/' :: '/' :: (body ++ '\n' :: (g ++ x))) = some ('\n' :: (g ++ x)) := by
        simp only [comment]
        simp
        exact lineEnd_body body (g ++ x) h1 h2
      simp only [skipGapF, hws, hcm]
      -- the newline that ends the comment is whitespace of the next round
      cases n with
      | zero => simp at hn
      | succ m =>
        have h3 : skipWs ('\n' :: (g ++ x)) = skipWs (g ++ x) := by simp [skipWs, isWs]
        have := ih (m + 1) (by simp at hn ⊢; omega)
        simp only [skipGapF, h3] at this ⊢
        exact this

theorem skipGap_gap {g x : Src} (hg : Gap g) (hx : TokStart x) : skipGap (g ++ x) = x :=
  skipGapF_gap hg hx _ (Nat.le_refl _)

end WrapModel.Tok

namespace WrapModel.Tok
open WrapModel WrapModel.Lex

theorem spanP_append (p : Char → Bool) (a r : Src) (ha : ∀ d ∈ a, p d = true) (hr : ∀ c t, r = c :: t → p c = false) :
    spanP p (a ++ r) = (a, r) := by
  induction a with
  | nil =>
    cases r with
    | nil => rfl
    | cons c t => simp [spanP, hr c t rfl]
  | cons d a ih =>
    have hd : p d = true := ha d (by simp)
    have := ih (fun e he => ha e (by simp [he]))
    simp [spanP, hd, this]

theorem stripPrefix_append (a r : Src) : stripPrefix a (a ++ r) = some r := by
  induction a with
  | nil => simp [stripPrefix]
  | cons c a ih => simp [stripPrefix, ih]

/-- two different words: the keyword test fails (mismatch, or the longer one continues with a word character) -/
theorem stripPrefix_word_ne (k w r : Src) (hk : ∀ d ∈ k, isWordChar d = true) (hw : ∀ d ∈ w, isWordChar d = true)
    (hr : AfterWord r) (hne : k ≠ w) :
    (match stripPrefix k (w ++ r) with
      | some (c :: _) => isKwChar c = true
      | some [] => False
      | none => True) := by
  induction k generalizing w with
  | nil =>
    cases w with
    | nil => exact absurd rfl hne
    | cons c w' =>
      have : isWordChar c = true := hw c (by simp)
      simp [stripPrefix, isKwChar, this]
  | cons a k ih =>
    cases w with
    | nil =>
      cases r with
      | nil => simp [stripPrefix]
      | cons c t =>
        have h1 : isKwChar c = false := hr c t rfl
        have h2 : isWordChar a = true := hk a (by simp)
        simp only [List.nil_append, stripPrefix]
        by_cases hac : a = c
        · subst hac; simp [isKwChar, h2] at h1
        · simp [hac]
    | cons c w' =>
      simp only [List.cons_append, stripPrefix]
      by_cases hac : a = c
      · subst hac
        simp only [beq_self_eq_true, if_true]
        exact ih w' (fun d hd => hk d (by simp [hd])) (fun d hd => hw d (by simp [hd])) (fun h => hne (by simp [h]))
      · simp [hac]

theorem kw_word_ne (k w : String) (r : Src) (hk : ∀ d ∈ k.toList, isWordChar d = true) (hw : ∀ d ∈ w.toList, isWordChar d = true)
    (hr : AfterWord r) (hne : k.toList ≠ w.toList) (hts : skipGap (w.toList ++ r) = w.toList ++ r) :
    Lex.kw k (w.toList ++ r) = none := by
  have := stripPrefix_word_ne k.toList w.toList r hk hw hr hne
  unfold Lex.kw
  rw [hts]
  split at this
  · next c t h => simp [h, this]
  · exact absurd this id
  · next h => simp [h]

theorem kw_word_eq (k : String) (r : Src) (hr : AfterWord r) (hts : skipGap (k.toList ++ r) = k.toList ++ r) :
    Lex.kw k (k.toList ++ r) = some r := by
  unfold Lex.kw
  rw [hts, stripPrefix_append]
  cases r with
  | nil => rfl
  | cons c t => simp [hr c t rfl]

/-- neither literal is a prefix of the other: reading one where the other stands fails -/
theorem stripPrefix_incomparable (a b r : Src) (h1 : a.isPrefixOf b = false) (h2 : b.isPrefixOf a = false) :
    stripPrefix a (b ++ r) = none := by
  induction a generalizing b with
  | nil => simp at h1
  | cons c a ih =>
    cases b with
    | nil => simp at h2
    | cons d b' =>
      simp only [List.cons_append, stripPrefix]
      by_cases hcd : c = d
      · subst hcd
        simp only [beq_self_eq_true, if_true]
        exact ih b' (by simpa using h1) (by simpa using h2)
      · simp [hcd]

theorem stripPrefix_head_ne (a b : Src) (c d : Char) (h : c ≠ d) : stripPrefix (c :: a) (d :: b) = none := by
  simp [stripPrefix, h]

end WrapModel.Tok

namespace WrapModel.Tok
open WrapModel WrapModel.Lex

theorem spanP_fst_all (p : Char → Bool) (s : Src) : ∀ d ∈ (spanP p s).1, p d = true := by
  induction s with
  | nil => simp [spanP]
  | cons c r ih =>
    unfold spanP
    by_cases hc : p c = true
    · simp only [hc, if_true]
      intro d hd
      rcases List.mem_cons.1 hd with rfl | hd
      · exact hc
      · exact ih d hd
    · simp [hc]

theorem spanP_split (p : Char → Bool) (s : Src) :
    s = (spanP p s).1 ++ (spanP p s).2 ∧ ∀ c t, (spanP p s).2 = c :: t → p c = false := by
  induction s with
  | nil => simp [spanP]
  | cons c r ih =>
    unfold spanP
    by_cases hc : p c = true
    · simp only [hc, if_true]
      exact ⟨by simp [← ih.1], ih.2⟩
    · simp only [hc, Bool.false_eq_true, if_false]
      exact ⟨by simp, fun c' t' h => by cases h; simpa using hc⟩

/-- a keyword whose leading word differs from the word that stands here does not match (`#include`, `unsigned char`,
    `enum class`, … in front of some other word) -/
theorem stripPrefix_kwhead_ne (kh rest w r : Src) (hk : ∀ d ∈ kh, isWordChar d = true)
    (hrest : ∀ c t, rest = c :: t → isWordChar c = false) (hrne : rest ≠ [])
    (hw : ∀ d ∈ w, isWordChar d = true) (hr : AfterWord r) (hne : kh ≠ w) :
    stripPrefix (kh ++ rest) (w ++ r) = none := by
  induction kh generalizing w with
  | nil =>
    cases w with
    | nil => exact absurd rfl hne
    | cons c w' =>
      cases rest with
      | nil => exact absurd rfl hrne
      | cons rc rt =>
        have h1 : isWordChar c = true := hw c (by simp)
        have h2 : isWordChar rc = false := hrest rc rt rfl
        have : rc ≠ c := fun he => by subst he; simp [h1] at h2
        simp [stripPrefix, this]
  | cons a k ih =>
    have ha : isWordChar a = true := hk a (by simp)
    cases w with
    | nil =>
      cases r with
      | nil => simp [stripPrefix]
      | cons c t =>
        have h1 : isKwChar c = false := hr c t rfl
        have : a ≠ c := fun he => by subst he; simp [isKwChar, ha] at h1
        simp [stripPrefix, this]
    | cons c w' =>
      simp only [List.cons_append, stripPrefix]
      by_cases hac : a = c
      · subst hac
        simp only [beq_self_eq_true, if_true]
        exact ih w' (fun d hd => hk d (by simp [hd])) (fun d hd => hw d (by simp [hd])) (fun h => hne (by simp [h]))
      · simp [hac]

end WrapModel.Tok
