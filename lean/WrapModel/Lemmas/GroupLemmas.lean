/-
  Lemmas about `_group_methods` (`Model/Matlab/Base.lean: groupBy`): grouping of overloads by name.
-/
import WrapModel.Model.Matlab.Base
import WrapModel.Lemmas.PybindStateLemmas

namespace WrapModel.Matlab
open WrapModel WrapModel.Inst WrapModel.Pybind
variable {α : Type}

theorem ins_keys (acc : List (String × List (Ovl α))) (k : String) (os : List (Ovl α)) :
    (groupBy.ins acc k os).map (·.1) = pushNew (acc.map (·.1)) k := by
  induction acc with
  | nil => simp [groupBy.ins, pushNew]
  | cons p r ih =>
    obtain ⟨m, l⟩ := p
    simp only [groupBy.ins]
    by_cases h : m = k
    · subst h; simp [pushNew]
    · have hb : (m == k) = false := by simpa using h
      simp only [hb, Bool.false_eq_true, if_false, List.map_cons, ih]
      unfold pushNew
      by_cases hk : k ∈ r.map (·.1)
      · have : k ∈ m :: r.map (·.1) := List.mem_cons_of_mem _ hk
        simp [hk, this]
      · have : ¬ k ∈ m :: List.map (·.1) r := by
          simp only [List.mem_cons, not_or]; exact ⟨fun e => h e.symm, hk⟩
        simp [hk, this]

theorem ins_lookup (acc : List (String × List (Ovl α))) (k n : String) (os : List (Ovl α)) :
    (groupBy.ins acc k os).lookup n = if k = n then some ((acc.lookup n).getD [] ++ os) else acc.lookup n := by
  induction acc with
  | nil =>
    by_cases h : k = n
    · subst h; simp [groupBy.ins, List.lookup]
    · have : (n == k) = false := by simpa using fun e => h e.symm
      simp [groupBy.ins, List.lookup, h, this]
  | cons p r ih =>
    obtain ⟨m, l⟩ := p
    simp only [groupBy.ins]
    by_cases hmk : m = k
    · subst hmk
      by_cases h : m = n
      · subst h; simp [List.lookup]
      · have : (n == m) = false := by simpa using fun e => h e.symm
        simp [List.lookup, h, this]
    · have hb : (m == k) = false := by simpa using hmk
      simp only [hb, Bool.false_eq_true, if_false, List.lookup]
      by_cases hn : n = m
      · subst hn
        have : ¬ k = n := fun e => hmk e.symm
        simp [this]
      · have : (n == m) = false := by simpa using hn
        simp only [this, ih]

theorem nodup_eraseDups : ∀ (n : Nat) (l : List String), l.length ≤ n → l.eraseDups.Nodup := by
  intro n
  induction n with
  | zero => intro l h; have : l = [] := List.length_eq_zero_iff.1 (by omega); subst this; simp
  | succ n ih =>
    intro l h
    cases l with
    | nil => simp
    | cons a as =>
      have hl : (as.filter fun b => !b == a).length ≤ n := by
        have := List.length_filter_le (fun b => !b == a) as
        simp only [List.length_cons] at h; omega
      rw [List.eraseDups_cons, List.nodup_cons]
      refine ⟨?_, ih _ hl⟩
      intro hm
      have := List.mem_eraseDups.1 hm
      simp at this

/-- the expansion of one declaration's trailing defaults, `[]` where the dialect rejects it -/
def ovlsOf (args : α → List Arg) (m : α) : List (Ovl α) :=
  match expandDefaults m (args m) with | .ok os => os | .error _ => []

/-- the grouping as a fold -/
def groupPure (name : α → String) (args : α → List Arg) (acc : List (String × List (Ovl α))) (ms : List α) :=
  ms.foldl (fun acc m => groupBy.ins acc (name m) (ovlsOf args m)) acc

theorem go_ok (name : α → String) (args : α → List Arg) (ms : List α) (acc gs : List (String × List (Ovl α)))
    (h : groupBy.go name args acc ms = .ok gs) :
    gs = groupPure name args acc ms ∧ ∀ m ∈ ms, expandDefaults m (args m) = .ok (ovlsOf args m) := by
  induction ms generalizing acc with
  | nil => simp [groupBy.go] at h; subst h; simp [groupPure]
  | cons m r ih =>
    simp only [groupBy.go, bind, Except.bind] at h
    cases he : expandDefaults m (args m) with
    | error e => simp [he] at h
    | ok os =>
      simp only [he] at h
      have hov : ovlsOf args m = os := by simp [ovlsOf, he]
      obtain ⟨h1, h2⟩ := ih _ h
      refine ⟨?_, ?_⟩
      · simp only [groupPure, List.foldl_cons, hov]; exact h1
      · intro x hx
        rcases List.mem_cons.1 hx with rfl | hx
        · rw [hov]; exact he
        · exact h2 x hx

theorem groupPure_keys (name : α → String) (args : α → List Arg) (ms : List α) (acc : List (String × List (Ovl α))) :
    (groupPure name args acc ms).map (·.1) = (ms.map name).foldl pushNew (acc.map (·.1)) := by
  induction ms generalizing acc with
  | nil => rfl
  | cons m r ih => simp only [groupPure, List.foldl_cons, List.map_cons] at ih ⊢; rw [ih, ins_keys]

theorem groupPure_lookup (name : α → String) (args : α → List Arg) (ms : List α) (acc : List (String × List (Ovl α))) (n : String) :
    (groupPure name args acc ms).lookup n =
      if n ∈ ms.map name then some ((acc.lookup n).getD [] ++ (ms.filter fun m => name m == n).flatMap (ovlsOf args))
      else acc.lookup n := by
  induction ms generalizing acc with
  | nil => simp [groupPure]
  | cons m r ih =>
    simp only [groupPure, List.foldl_cons] at ih ⊢
    rw [ih, ins_lookup]
    by_cases hm : name m = n
    · subst hm
      by_cases hr : name m ∈ r.map name
      · simp [hr, List.filter_cons, List.append_assoc]
      · simp [hr, List.filter_cons]
        intro x hx hxe
        exact absurd (List.mem_map.2 ⟨x, hx, hxe⟩) hr
    · have hb : (name m == n) = false := by simpa using hm
      have hne : ¬ n = name m := fun e => hm e.symm
      simp [hm, hne, List.filter_cons, hb]


/-- `_group_methods` characterised: when it succeeds every declaration's defaults expand, there is one group per name in
    first-occurrence order, and the group of a name holds ALL overloads of that name — adjacent or not — in declaration
    order -/
theorem groupBy_spec (name : α → String) (args : α → List Arg) (ms : List α) (gs : List (String × List (Ovl α)))
    (h : groupBy name args ms = .ok gs) :
    gs.map (·.1) = (ms.map name).eraseDups ∧ (gs.map (·.1)).Nodup ∧
    (∀ m ∈ ms, expandDefaults m (args m) = .ok (ovlsOf args m)) ∧
    ∀ n ∈ ms.map name, gs.lookup n = some ((ms.filter fun m => name m == n).flatMap (ovlsOf args)) := by
  have h' : groupBy.go name args [] ms = .ok gs := h
  obtain ⟨h1, h2⟩ := go_ok name args ms [] gs h'
  have hk : gs.map (·.1) = (ms.map name).eraseDups := by
    rw [h1, groupPure_keys, pushAll_eq]
    simp only [List.map_nil, List.nil_append]
    have : (List.filter (fun x => !([] : List String).contains x) (ms.map name)) = ms.map name := by
      apply List.filter_eq_self.2; intro a _; simp
    rw [this]
  refine ⟨hk, ?_, h2, ?_⟩
  · rw [hk]; exact nodup_eraseDups _ _ (Nat.le_refl _)
  · intro n hn
    rw [h1, groupPure_lookup]
    simp [hn]

end WrapModel.Matlab
