/-
  C07, soundness direction, types: whatever lexeme list the type reader accepts, the lexemes it consumed are — token for
  token — the canonical printing (`Spec.tyLex`) of the type it returned.  (The converse of `ptype_lex`.)
-/
import WrapModel.Lemmas.Trace
import WrapModel.Spec.Lexemes
import WrapModel.Lemmas.TypeRoundTrip

namespace WrapModel.Tok
open WrapModel WrapModel.Lex WrapModel.Parse WrapModel.Spec

/-- tokens with the layout-dependent parts of atoms forgotten -/
inductive ATok where
  | w (s : String)
  | s (t : String)
  | a (q : Q) (tok : String)
deriving Repr, DecidableEq

def lexTok : Lexeme → ATok
  | .word w => .w w
  | .sym t => .s t
  | .atom q _ tok _ => .a q (normTok q tok)

/-- the token a logged request stands for -/
def trTok : Q × String → ATok
  | (.word, t) => .w t
  | (.kw k, _) => if okKw k then .w k else .a (.kw k) k
  | (.lit x, _) => .s x
  | (q, t) => .a q t

/-- the tokens a logged request stands for (the end-of-input test consumes nothing) -/
def trToks (e : Q × String) : List ATok := if e.1 = .eof then [] else [trTok e]

/-- canonical lexeme lists: words are words and punctuation is punctuation (atoms only for what only atoms can be) -/
def canonLexeme : Lexeme → Bool
  | .atom q _ _ _ =>
    match q with
    | .word => false
    | .lit _ => false
    | .eof => false
    | .kw k => !okKw k
    | _ => true
  | .word w => !hasSpace w
  | _ => true

def CanonL (ls : List Lexeme) : Prop := ∀ l ∈ ls, canonLexeme l = true

theorem CanonL.tail {l : Lexeme} {r : List Lexeme} (h : CanonL (l :: r)) : CanonL r := fun x hx => h x (by simp [hx])

def Ans.isYes : Ans → Bool
  | .yes .. => true
  | _ => false

/-- closes a goal whose hypothesis `h` equates a nest of `if`s over `no` / `stuck` with a `yes` -/
@[simp] theorem Ans.isYes_yes (t : String) (r : List Lexeme) : (Ans.yes t r).isYes = true := rfl
@[simp] theorem Ans.isYes_no : Ans.no.isYes = false := rfl
@[simp] theorem Ans.isYes_stuck : Ans.stuck.isYes = false := rfl

macro "not_yes" h:ident : tactic =>
  `(tactic| exact absurd (congrArg Ans.isYes $h) (by simp [apply_ite Ans.isYes]))

theorem yes_eof {ls r : List Lexeme} {t : String} (hc : CanonL ls) (h : answerL .eof ls = .yes t r) : ls = [] ∧ r = [] := by
  cases ls with
  | nil => simp [answerL, ansNil] at h; exact ⟨rfl, h.2⟩
  | cons l r0 =>
    have hl := hc l (by simp)
    cases l with
    | word w => simp [answerL, ansWord] at h
    | sym t0 =>
      simp only [answerL] at h
      split at h
      · simp [ansDunder] at h
      · simp [ansSym] at h
    | atom q' text tok lead =>
      simp only [answerL, ansAtom] at h
      by_cases hq : Q.eof = q'
      · subst hq; simp [canonLexeme] at hl
      · simp only [hq, if_false] at h
        not_yes h

/-- a `yes` (other than end of input) consumes exactly the first lexeme, and that lexeme is the logged token -/
theorem yes_head {q : Q} {ls r : List Lexeme} {t : String} (hq : q ≠ .eof) (hc : CanonL ls) (h : answerL q ls = .yes t r) :
    ∃ l, ls = l :: r ∧ lexTok l = trTok (q, normTok q t) := by
  cases ls with
  | nil =>
    cases q with
    | eof => exact absurd rfl hq
    | _ => simp only [answerL, ansNil] at h; not_yes h
  | cons l r0 =>
    have hl := hc l (by simp)
    cases l with
    | word w =>
      cases q with
      | word =>
        simp only [answerL, ansWord, Ans.yes.injEq] at h
        obtain ⟨h1, h2⟩ := h
        subst h1; subst h2
        exact ⟨_, rfl, rfl⟩
      | kw k =>
        simp only [answerL, ansWord] at h
        by_cases hk : okKw k = true
        · simp only [hk, if_true] at h
          by_cases hw : (w == k) = true
          · simp only [hw, if_true, Ans.yes.injEq] at h
            obtain ⟨h1, h2⟩ := h
            subst h2
            have : w = k := by simpa using hw
            subst this
            exact ⟨_, rfl, by simp [lexTok, trToks, trTok, hk]⟩
          · simp only [hw] at h; not_yes h
        · simp only [hk] at h; not_yes h
      | _ => simp only [answerL, ansWord] at h; not_yes h
    | sym t0 =>
      simp only [answerL] at h
      by_cases hd : (t0 == "__") = true
      · simp only [hd, if_true] at h
        have : t0 = "__" := by simpa using hd
        subst this
        cases q with
        | lit t' =>
          simp only [ansDunder] at h
          by_cases ht : (t' == "__") = true
          · simp only [ht, if_true, Ans.yes.injEq] at h
            obtain ⟨h1, h2⟩ := h
            subst h2
            have : t' = "__" := by simpa using ht
            subst this
            exact ⟨_, rfl, rfl⟩
          · simp only [ht] at h; not_yes h
        | _ => simp only [ansDunder] at h; not_yes h
      · rw [if_neg hd] at h
        cases q with
        | lit t' =>
          simp only [ansSym] at h
          by_cases ht : (t' == t0) = true
          · simp only [ht, if_true, Ans.yes.injEq] at h
            obtain ⟨h1, h2⟩ := h
            subst h2
            have : t' = t0 := by simpa using ht
            subst this
            exact ⟨_, rfl, rfl⟩
          · simp only [ht] at h; not_yes h
        | _ => simp only [ansSym] at h; not_yes h
    | atom q' text tok lead =>
      simp only [answerL, ansAtom] at h
      by_cases hqq : q = q'
      · simp only [hqq, if_true, Ans.yes.injEq] at h
        obtain ⟨h1, h2⟩ := h
        subst h2; subst hqq; subst h1
        refine ⟨_, rfl, ?_⟩
        cases q <;> simp [canonLexeme] at hl <;> simp [lexTok, trToks, trTok, normTok, hl]
      · simp only [hqq, if_false] at h
        exfalso
        split at h
        · cases h
        · split at h
          · split at h <;> cases h
          · cases h

/-- the lexemes consumed by a successful run are, token for token, the logged requests (the end-of-input test
    consumes nothing) -/
theorem consumed_tokens (p : P α) : ∀ (ls rest : List Lexeme) (a : α) (tr : Trace), CanonL ls → runT p ls = .ok a tr rest →
    ∃ consumed, ls = consumed ++ rest ∧ consumed.map lexTok = tr.flatMap trToks ∧ CanonL rest := by
  induction p with
  | ret a => intro ls rest a' tr hc h; simp only [runT, OutcomeT.ok.injEq] at h; obtain ⟨rfl, rfl, rfl⟩ := h; exact ⟨[], rfl, rfl, hc⟩
  | fail e => intro ls rest a' tr _ h; simp [runT] at h
  | ask q k ih =>
    intro ls rest a tr hc h
    simp only [runT] at h
    cases hans : answerL q ls with
    | yes t r =>
      rw [hans] at h
      dsimp only at h
      cases hk : runT (k (some t)) r with
      | ok a' tr' rest' =>
        rw [hk] at h
        simp only [OutcomeT.ok.injEq] at h
        obtain ⟨rfl, rfl, rfl⟩ := h
        by_cases hq : q = .eof
        · subst hq
          obtain ⟨rfl, rfl⟩ := yes_eof hc hans
          obtain ⟨c, hc1, hm, hcr⟩ := ih (some t) _ _ _ _ hc hk
          exact ⟨c, hc1, by simpa [trToks] using hm, hcr⟩
        · obtain ⟨l, rfl, hl⟩ := yes_head hq hc hans
          obtain ⟨c, rfl, hm, hcr⟩ := ih (some t) _ _ _ _ hc.tail hk
          exact ⟨l :: c, rfl, by simp [trToks, hq, hl, hm], hcr⟩
      | err e => rw [hk] at h; cases h
      | stuck => rw [hk] at h; cases h
    | no => rw [hans] at h; exact ih none ls rest a tr hc h
    | stuck => rw [hans] at h; cases h


/-! ### the pieces of the type reader -/

theorem psuffix_sound {ls rest : List Lexeme} {sfx : Suffix} {tr : Trace} (h : runT psuffix ls = .ok sfx tr rest) :
    tr.flatMap trToks = (sufLex sfx).map lexTok := by
  unfold psuffix at h
  rw [runT_bind_ok] at h
  obtain ⟨b1, t1, m1, t2, h1, h2, rfl⟩ := h
  rw [runT_probe_ok] at h1
  rcases h1 with ⟨rfl, t, _, rfl⟩ | ⟨rfl, _, rfl, rfl⟩
  · simp only [if_true] at h2; rw [runT_pure_ok] at h2; obtain ⟨rfl, rfl, rfl⟩ := h2
    simp [trToks, trTok, sufLex, lexTok]
  · simp only [Bool.false_eq_true, if_false] at h2
    rw [runT_bind_ok] at h2
    obtain ⟨b2, t3, m2, t4, h3, h4, rfl⟩ := h2
    rw [runT_probe_ok] at h3
    rcases h3 with ⟨rfl, t, _, rfl⟩ | ⟨rfl, _, rfl, rfl⟩
    · simp only [if_true] at h4; rw [runT_pure_ok] at h4; obtain ⟨rfl, rfl, rfl⟩ := h4
      simp [trToks, trTok, sufLex, lexTok]
    · simp only [Bool.false_eq_true, if_false] at h4
      rw [runT_bind_ok] at h4
      obtain ⟨b3, t5, m3, t6, h5, h6, rfl⟩ := h4
      rw [runT_probe_ok] at h5
      rcases h5 with ⟨rfl, t, _, rfl⟩ | ⟨rfl, _, rfl, rfl⟩
      · simp only [if_true] at h6; rw [runT_pure_ok] at h6; obtain ⟨rfl, rfl, rfl⟩ := h6
        simp [trToks, trTok, sufLex, lexTok]
      · simp only [Bool.false_eq_true, if_false] at h6; rw [runT_pure_ok] at h6; obtain ⟨rfl, rfl, rfl⟩ := h6
        simp [sufLex]

theorem firstKw_sound (ks : List String) {ls rest : List Lexeme} {o : Option String} {tr : Trace}
    (h : runT (firstKw ks) ls = .ok o tr rest) :
    (∃ b, o = some b ∧ b ∈ ks ∧ tr = [(.kw b, b)]) ∨ (o = none ∧ tr = [] ∧ rest = ls) := by
  induction ks generalizing ls tr with
  | nil =>
    simp only [firstKw] at h
    rw [runT_pure_ok] at h
    obtain ⟨rfl, rfl, rfl⟩ := h
    exact Or.inr ⟨rfl, rfl, rfl⟩
  | cons k ks ih =>
    simp only [firstKw] at h
    rw [runT_bind_ok] at h
    obtain ⟨b1, t1, m1, t2, h1, h2, rfl⟩ := h
    rw [runT_probe_ok] at h1
    rcases h1 with ⟨rfl, t, _, rfl⟩ | ⟨rfl, _, rfl, rfl⟩
    · simp only [if_true] at h2; rw [runT_pure_ok] at h2; obtain ⟨rfl, rfl, rfl⟩ := h2
      exact Or.inl ⟨k, rfl, by simp, by simp [normTok]⟩
    · simp only [Bool.false_eq_true, if_false] at h2
      rcases ih h2 with ⟨b, rfl, hb, rfl⟩ | ⟨rfl, rfl, rfl⟩
      · exact Or.inl ⟨b, rfl, by simp [hb], by simp⟩
      · exact Or.inr ⟨rfl, by simp, rfl⟩

theorem moreIdents_sound : ∀ (n : Nat) {ls rest : List Lexeme} {ws : List String} {tr : Trace},
    runT (moreIdents n) ls = .ok ws tr rest → tr.flatMap trToks = (identsLex ws).map lexTok
  | 0, _, _, _, _, h => by simp [moreIdents, runT] at h
  | n+1, ls, rest, ws, tr, h => by
    simp only [moreIdents] at h
    rw [runT_bind_ok] at h
    obtain ⟨b1, t1, m1, t2, h1, h2, rfl⟩ := h
    rw [runT_probe_ok] at h1
    rcases h1 with ⟨rfl, t, _, rfl⟩ | ⟨rfl, _, rfl, rfl⟩
    · simp only [if_true] at h2
      rw [runT_bind_ok] at h2
      obtain ⟨w, t3, m2, t4, h3, h4, rfl⟩ := h2
      rw [runT_need_ok] at h3
      obtain ⟨_, rfl⟩ := h3
      rw [runT_bind_ok] at h4
      obtain ⟨ws', t5, m3, t6, h5, h6, rfl⟩ := h4
      rw [runT_pure_ok] at h6
      obtain ⟨rfl, rfl, rfl⟩ := h6
      have ih := moreIdents_sound n h5
      simp [trToks, trTok, normTok, identsLex, lexTok, ih]
    · simp only [Bool.false_eq_true, if_false] at h2
      rw [runT_pure_ok] at h2
      obtain ⟨rfl, rfl, rfl⟩ := h2
      simp [identsLex]


/-- a lexeme whose token is a word is that word -/
theorem lexTok_word {l : Lexeme} {w : String} (h : lexTok l = .w w) : l = .word w := by
  cases l <;> simp [lexTok] at h
  subst h; rfl

theorem lexTok_sym {l : Lexeme} {t : String} (h : lexTok l = .s t) : l = .sym t := by
  cases l <;> simp [lexTok] at h
  subst h; rfl

/-- a successful word request, on a canonical list: the list starts with that word, which has no blank in it -/
theorem need_word {ls r : List Lexeme} {w : String} (hc : CanonL ls) (h : answerL .word ls = .yes w r) :
    ls = .word w :: r ∧ hasSpace w = false := by
  obtain ⟨l, rfl, hl⟩ := yes_head (by decide) hc h
  have hl' : l = .word w := lexTok_word (by simpa [trTok, normTok] using hl)
  subst hl'
  have := hc (.word w) (by simp)
  exact ⟨rfl, by simpa [canonLexeme] using this⟩

theorem moreIdents_words : ∀ (n : Nat) {ls rest : List Lexeme} {ws : List String} {tr : Trace}, CanonL ls →
    runT (moreIdents n) ls = .ok ws tr rest → ∀ w ∈ ws, hasSpace w = false
  | 0, _, _, _, _, _, h => by simp [moreIdents, runT] at h
  | n+1, ls, rest, ws, tr, hc, h => by
    simp only [moreIdents] at h
    rw [runT_bind_ok] at h
    obtain ⟨b1, t1, m1, t2, h1, h2, rfl⟩ := h
    rw [runT_probe_ok] at h1
    rcases h1 with ⟨rfl, t, ht, rfl⟩ | ⟨rfl, _, rfl, rfl⟩
    · simp only [if_true] at h2
      obtain ⟨l, rfl, _⟩ := yes_head (by decide) hc ht
      rw [runT_bind_ok] at h2
      obtain ⟨w, t3, m2, t4, h3, h4, rfl⟩ := h2
      rw [runT_need_ok] at h3
      obtain ⟨hw, rfl⟩ := h3
      obtain ⟨rfl, hsp⟩ := need_word hc.tail hw
      rw [runT_bind_ok] at h4
      obtain ⟨ws', t5, m3, t6, h5, h6, rfl⟩ := h4
      rw [runT_pure_ok] at h6
      obtain ⟨rfl, rfl, rfl⟩ := h6
      have ih := moreIdents_words n hc.tail.tail h5
      intro x hx
      simp only [List.mem_cons] at hx
      rcases hx with rfl | hx
      · exact hsp
      · exact ih x hx
    · simp only [Bool.false_eq_true, if_false] at h2
      rw [runT_pure_ok] at h2
      obtain ⟨rfl, rfl, rfl⟩ := h2
      intro x hx; cases hx

/-- the first of the further names is the word behind the first `::` -/
theorem moreIdents_head (n : Nat) {w2 : String} {r' rest : List Lexeme} {ws : List String} {tr : Trace}
    (h : runT (moreIdents n) (.sym "::" :: .word w2 :: r') = .ok ws tr rest) : ws.head? = some w2 := by
  cases n with
  | zero => simp [moreIdents, runT] at h
  | succ n =>
    simp only [moreIdents] at h
    rw [runT_bind_ok] at h
    obtain ⟨b1, t1, m1, t2, h1, h2, rfl⟩ := h
    rw [runT_probe_ok] at h1
    have hy : answerL (.lit "::") (.sym "::" :: .word w2 :: r') = .yes "::" (.word w2 :: r') := by
      simp (config := {decide := true}) [answerL, ansSym]
    rcases h1 with ⟨rfl, t, ha, rfl⟩ | ⟨rfl, ha, _, _⟩
    · rw [hy] at ha
      simp only [Ans.yes.injEq] at ha
      obtain ⟨_, rfl⟩ := ha
      simp only [if_true] at h2
      rw [runT_bind_ok] at h2
      obtain ⟨w, t3, m2, t4, h3, h4, rfl⟩ := h2
      rw [runT_need_ok] at h3
      obtain ⟨h3, rfl⟩ := h3
      simp only [answerL, ansWord, Ans.yes.injEq] at h3
      obtain ⟨rfl, rfl⟩ := h3
      rw [runT_bind_ok] at h4
      obtain ⟨ws', t5, m3, t6, h5, h6, rfl⟩ := h4
      rw [runT_pure_ok] at h6
      obtain ⟨rfl, rfl, rfl⟩ := h6
      rfl
    · rw [hy] at ha; cases ha

/-- how the name reader reports a leading `pair` -/
def namesFlagOf (names : List String) : Option Bool :=
  match names with
  | [] => none
  | w :: more => namesFlag w more

/-- the qualified name at the start of a non-basic type: consumed tokens are its canonical printing -/
theorem readNames_sound (n : Nat) {ls rest : List Lexeme} {x : List String × Option Bool} {tr : Trace} (hc : CanonL ls)
    (h : runT (readNames n) ls = .ok x tr rest) :
    tr.flatMap trToks = (namesLex x.1).map lexTok ∧ x.1 ≠ [] ∧ (∀ w ∈ x.1, hasSpace w = false) ∧ x.2 = namesFlagOf x.1 := by
  unfold readNames at h
  rw [runT_bind_ok] at h
  obtain ⟨b1, t1, m1, t2, h1, h2, rfl⟩ := h
  rw [runT_probe_ok] at h1
  rcases h1 with ⟨rfl, t, ht, rfl⟩ | ⟨rfl, hno, rfl, rfl⟩
  · simp only [if_true] at h2
    obtain ⟨l, rfl, _⟩ := yes_head (by decide) hc ht
    rw [runT_bind_ok] at h2
    obtain ⟨more, t3, m2, t4, h3, h4, rfl⟩ := h2
    rw [runT_pure_ok] at h4
    obtain ⟨rfl, rfl, rfl⟩ := h4
    have := moreIdents_sound n h3
    have hws := moreIdents_words n hc.tail h3
    refine ⟨?_, by simp, ?_, ?_⟩
    · simp [namesLex, stdPairAtom, trToks, trTok, normTok, lexTok, this]
    · intro w hw
      simp only [List.cons_append, List.nil_append, List.mem_cons] at hw
      rcases hw with rfl | rfl | hw
      · decide
      · decide
      · exact hws w hw
    · simp [namesFlagOf, namesFlag]
  · simp only [Bool.false_eq_true, if_false] at h2
    rw [runT_bind_ok] at h2
    obtain ⟨w, t3, m2, t4, h3, h4, rfl⟩ := h2
    rw [runT_need_ok] at h3
    obtain ⟨hw, rfl⟩ := h3
    rw [runT_bind_ok] at h4
    obtain ⟨more, t5, m3, t6, h5, h6, rfl⟩ := h4
    rw [runT_pure_ok] at h6
    obtain ⟨rfl, rfl, rfl⟩ := h6
    have hm := moreIdents_sound n h5
    obtain ⟨rfl, hwsp⟩ := need_word hc hw
    have hws := moreIdents_words n hc.tail h5
    -- the `std::pair` test said no in front of this word
    have hnp : ¬ (w = "std" ∧ more.head? = some "pair") := by
      rintro ⟨rfl, hp⟩
      simp only [answerL, ansWord] at hno
      have hs : stdPairNo m2 = true := by
        cases hs : stdPairNo m2 with
        | true => rfl
        | false => simp (config := {decide := true}) [hs] at hno
      unfold stdPairNo at hs
      split at hs
      · next t0 w2 r' =>
        have ht0 : t0 = "::" := by simp at hs; exact hs.1
        subst ht0
        have := moreIdents_head n h5
        rw [hp] at this
        simp at this
        subst this
        simp at hs
      · cases hs
    refine ⟨?_, by simp, ?_, ?_⟩
    · show List.flatMap trToks ([] ++ ([(Q.word, normTok Q.word w)] ++ (t5 ++ []))) = List.map lexTok (namesLex (w :: more))
      simp only [namesLex, hnp, if_false]
      simp [trToks, trTok, normTok, lexTok, hm]
    · intro x hx
      simp only [List.mem_cons] at hx
      rcases hx with rfl | hx
      · exact hwsp
      · exact hws x hx
    · simp [namesFlagOf, namesFlag, hnp]

mutual
  /-- what every type returned by the type reader looks like (needed to print its `Typename` form back) -/
  def TyInv : CType → Prop
    | .simple tn _ basic =>
      tn.insts = [] ∧ (basic = true → tn.namespaces = [] ∧ tn.name ∈ Gen.basicTypes) ∧ (basic = false → hasSpace tn.name = false)
    | .templ _ _ ps _ => ps ≠ [] ∧ TysInv ps
  def TysInv : List CType → Prop
    | [] => True
    | t :: ts => TyInv t ∧ TysInv ts
end

/-- what the soundness statement says about one successful run of the type reader with fuel `m` -/
def TySound (m : Nat) : Prop :=
  ∀ (ls rest : List Lexeme) (r : TypeRes) (tr : Trace), CanonL ls → runT (ptype m) ls = .ok r tr rest →
    tr.flatMap trToks = (tyLex r.ty).map lexTok ∧ r.pairStd = pairFlag r.ty ∧ TyInv r.ty

/-- the list reader, given the type reader for all smaller amounts of fuel -/
theorem ptypes_sound_of (N : Nat) (H : ∀ m, m < N → TySound m) :
    ∀ (m : Nat), m ≤ N → ∀ (ls rest : List Lexeme) (ps : List CType) (tr : Trace), CanonL ls →
      runT (ptypes m) ls = .ok ps tr rest → tr.flatMap trToks = (tysLex ps).map lexTok ∧ ps ≠ [] ∧ TysInv ps := by
  intro m
  induction m with
  | zero => intro _ ls rest ps tr _ h; simp [ptypes, runT] at h
  | succ m ih =>
    intro hm ls rest ps tr hc h
    rw [ptypes] at h
    rw [runT_bind_ok] at h
    obtain ⟨t, t1, m1, t2, h1, h2, rfl⟩ := h
    obtain ⟨ht, _, hinv⟩ := H m (by omega) ls m1 t t1 hc h1
    obtain ⟨c1, rfl, _, hc1⟩ := consumed_tokens _ _ _ _ _ hc h1
    rw [runT_bind_ok] at h2
    obtain ⟨b, t3, m2, t4, h3, h4, rfl⟩ := h2
    rw [runT_probe_ok] at h3
    rcases h3 with ⟨rfl, x, hx, rfl⟩ | ⟨rfl, _, rfl, rfl⟩
    · simp only [if_true] at h4
      rw [runT_bind_ok] at h4
      obtain ⟨ts, t5, m3, t6, h5, h6, rfl⟩ := h4
      rw [runT_pure_ok] at h6
      obtain ⟨rfl, rfl, rfl⟩ := h6
      obtain ⟨l, rfl, _⟩ := yes_head (by decide) hc1 hx
      obtain ⟨this, hne, hinvs⟩ := ih (by omega) _ _ _ _ hc1.tail h5
      refine ⟨?_, by simp, ⟨hinv, hinvs⟩⟩
      cases ts with
      | nil => exact absurd rfl hne
      | cons t' ts' => simp [tysLex, tysTailLex, ht, trToks, trTok, normTok, lexTok] at this ⊢; exact this
    · simp only [Bool.false_eq_true, if_false] at h4
      rw [runT_pure_ok] at h4
      obtain ⟨rfl, rfl, rfl⟩ := h4
      exact ⟨by simp [tysLex, tysTailLex, ht], by simp, ⟨hinv, trivial⟩⟩

theorem basic_kw_facts : ∀ b ∈ longestFirst Gen.basicTypes,
    (hasSpace b = true → okKw b = false) ∧ (hasSpace b = false → okKw b = true) ∧ b ∈ Gen.basicTypes ∧ b ≠ "pair" := by decide

/-- `< types > suffix` or `suffix`: the tail shared by both branches of the type reader -/
theorem typeTail_sound (N n : Nat) (hn : n ≤ N) (H : ∀ m, m < N → TySound m) (mk : List CType → Suffix → TypeRes) (mk0 : Suffix → TypeRes)
    {ls rest : List Lexeme} {r : TypeRes} {tr : Trace} (hc : CanonL ls)
    (h : runT (do
        if (← P.probe (.lit "<")) then
          let ps ← ptypes n
          P.expect (.lit ">")
          let sfx ← psuffix
          pure (mk ps sfx)
        else
          let sfx ← psuffix
          pure (mk0 sfx)) ls = .ok r tr rest) :
    (∃ ps sfx, r = mk ps sfx ∧ ps ≠ [] ∧ TysInv ps ∧
        tr.flatMap trToks = (.sym "<" :: (tysLex ps ++ .sym ">" :: sufLex sfx)).map lexTok) ∨
    (∃ sfx, r = mk0 sfx ∧ tr.flatMap trToks = (sufLex sfx).map lexTok) := by
  rw [runT_bind_ok] at h
  obtain ⟨b1, t1, m1, t2, h1, h2, rfl⟩ := h
  rw [runT_probe_ok] at h1
  rcases h1 with ⟨rfl, x, hx, rfl⟩ | ⟨rfl, _, rfl, rfl⟩
  · simp only [if_true] at h2
    obtain ⟨l, rfl, _⟩ := yes_head (by decide) hc hx
    rw [runT_bind_ok] at h2
    obtain ⟨ps, t3, m2, t4, h3, h4, rfl⟩ := h2
    obtain ⟨hps, hne, hinv⟩ := ptypes_sound_of N H n hn _ _ _ _ hc.tail h3
    rw [runT_bind_ok] at h4
    obtain ⟨u, t5, m3, t6, h5, h6, rfl⟩ := h4
    rw [runT_expect_ok] at h5
    obtain ⟨y, _, rfl⟩ := h5
    rw [runT_bind_ok] at h6
    obtain ⟨sfx, t7, m4, t8, h7, h8, rfl⟩ := h6
    rw [runT_pure_ok] at h8
    obtain ⟨rfl, rfl, rfl⟩ := h8
    have hs := psuffix_sound h7
    exact Or.inl ⟨ps, sfx, rfl, hne, hinv, by simp [trToks, trTok, normTok, lexTok, hps, hs]⟩
  · simp only [Bool.false_eq_true, if_false] at h2
    rw [runT_bind_ok] at h2
    obtain ⟨sfx, t3, m2, t4, h3, h4, rfl⟩ := h2
    rw [runT_pure_ok] at h4
    obtain ⟨rfl, rfl, rfl⟩ := h4
    exact Or.inr ⟨sfx, rfl, by simpa using psuffix_sound h3⟩

theorem splitLast_eq (l : List String) (hne : l ≠ []) : l = (splitLast l).1 ++ [(splitLast l).2] := by
  induction l with
  | nil => exact absurd rfl hne
  | cons a r ihl =>
    cases r with
    | nil => simp [splitLast]
    | cons b r' =>
      have := ihl (by simp)
      simp only [splitLast] at this ⊢
      simp [← this]

/-- **Soundness of the type reader (C07).**  Whatever canonical lexeme list the type reader accepts, with whatever fuel:
    the requests it answered `yes` are — token for token — the canonical printing of the type it returns. -/
theorem ptype_sound : ∀ (n : Nat), TySound n := by
  intro n
  induction n using Nat.strongRecOn with
  | ind n ih =>
  intro ls rest r tr hc h
  cases n with
  | zero => simp [ptype, runT] at h
  | succ n =>
  rw [ptype_eq] at h
  rw [runT_bind_ok] at h
  obtain ⟨isConst, t1, m1, t2, h1, h2, rfl⟩ := h
  obtain ⟨c1, rfl, _, hc1⟩ := consumed_tokens _ _ _ _ _ hc h1
  have hconst : t1.flatMap trToks = (constLex isConst).map lexTok := by
    rw [runT_probe_ok] at h1
    rcases h1 with ⟨rfl, x, _, rfl⟩ | ⟨rfl, _, _, rfl⟩
    · simp (config := {decide := true}) [constLex, trToks, trTok, normTok, lexTok]
    · simp [constLex]
  rw [runT_bind_ok] at h2
  obtain ⟨basic, t3, m2, t4, h3, h4, rfl⟩ := h2
  obtain ⟨c2, rfl, _, hc2⟩ := consumed_tokens _ _ _ _ _ hc1 h3
  rcases firstKw_sound _ h3 with ⟨b, rfl, hb, rfl⟩ | ⟨rfl, rfl, _⟩
  · -- a basic type
    have hf := basic_kw_facts b hb
    simp only at h4
    unfold afterBasic at h4
    by_cases hsp : hasSpace b = true
    · simp only [hsp, if_true] at h4
      rw [runT_bind_ok] at h4
      obtain ⟨sfx, t5, m3, t6, h5, h6, rfl⟩ := h4
      rw [runT_pure_ok] at h6
      obtain ⟨rfl, rfl, rfl⟩ := h6
      have hs := psuffix_sound h5
      refine ⟨?_, rfl, ?_⟩
      · simp [tyLex, hsp, spacedAtom, trToks, trTok, hf.1 hsp, normTok, lexTok, hconst, hs]
      · simp [TyInv, hf.2.2.1]
    · have hsp' : hasSpace b = false := by simpa using hsp
      simp only [hsp', Bool.false_eq_true, if_false] at h4
      rcases typeTail_sound (n+1) n (by omega) (fun m hm => ih m hm) _ _ hc2 h4 with ⟨ps, sfx, rfl, hne, hinv, htr⟩ | ⟨sfx, rfl, htr⟩
      · refine ⟨?_, ?_, ?_⟩
        · simp [tyLex, namesLex, identsLex, trToks, trTok, hf.2.1 hsp', lexTok, hconst, htr]
        · simp [pairFlag, hf.2.2.2]
        · exact ⟨hne, hinv⟩
      · refine ⟨?_, rfl, ?_⟩
        · simp [tyLex, hsp', namesLex, identsLex, trToks, trTok, hf.2.1 hsp', lexTok, hconst, htr]
        · simp [TyInv, hf.2.2.1]
  · -- a (qualified) name
    simp only at h4
    rw [runT_bind_ok] at h4
    obtain ⟨x, t5, m3, t6, h5, h6, rfl⟩ := h4
    obtain ⟨hnames, hne, hwords, hflag⟩ := readNames_sound n hc2 h5
    obtain ⟨c3, rfl, _, hc3⟩ := consumed_tokens _ _ _ _ _ hc2 h5
    unfold afterNames at h6
    cases hsp : splitLast x.1 with
    | mk nss name =>
      have hx : x.1 = nss ++ [name] := by
        have := splitLast_eq x.1 hne
        rw [hsp] at this
        exact this
      simp only [hsp] at h6
      rcases typeTail_sound (n+1) n (by omega) (fun m hm => ih m hm) _ _ hc3 h6 with ⟨ps, sfx, rfl, hne', hinv, htr⟩ | ⟨sfx, rfl, htr⟩
      · refine ⟨?_, ?_, ⟨hne', hinv⟩⟩
        · simp [tyLex, ← hx, hconst, hnames, htr]
        · simp only [hflag, pairFlag]
          cases hx1 : x.1 with
          | nil => exact absurd hx1 hne
          | cons w more =>
            rw [hx1] at hx
            simp only [namesFlagOf]
            exact namesFlag_eq w more nss name hx
      · refine ⟨?_, rfl, ?_⟩
        · simp [tyLex, ← hx, hconst, hnames, htr]
        · refine ⟨rfl, by simp, ?_⟩
          intro _
          exact hwords name (by rw [hx]; simp)

end WrapModel.Tok
