import WrapModel.Lemmas.TypeRoundTrip

namespace WrapModel.Spec
open WrapModel WrapModel.Tok WrapModel.Parse

/-- what a type can begin with -/
inductive HeadOK : Lexeme → Prop
  | const : HeadOK (.word "const")
  | basic (b : String) (h : b ∈ basicWords) : HeadOK (.word b)
  | name (w : String) (h1 : w ∉ reservedWords) (h2 : w ∉ Gen.basicTypes) (h3 : ∀ b ∈ basicSpaced, kwHead b ≠ w.toList)
      (h4 : startsDunder w = false) (h5 : w ≠ "") : HeadOK (.word w)
  | stdPair : HeadOK stdPairAtom
  | spaced (b : String) (h : b ∈ basicSpaced) : HeadOK (spacedAtom b)

/-- the lexeme list begins like a type -/
def StartsOK (ls : List Lexeme) : Prop := ∃ l Y, ls = l :: Y ∧ HeadOK l

theorem startsOK_cons {l : Lexeme} (h : HeadOK l) (Y : List Lexeme) : StartsOK (l :: Y) := ⟨l, Y, rfl, h⟩
theorem startsOK_append {a : List Lexeme} (h : StartsOK a) (b : List Lexeme) : StartsOK (a ++ b) := by
  obtain ⟨l, Y, rfl, hl⟩ := h
  exact ⟨l, Y ++ b, rfl, hl⟩

theorem namesLex_starts (w : String) (more : List String) (hf : FirstOK w more) : StartsOK (namesLex (w :: more)) := by
  obtain ⟨h1, h2, h3, h4, h5, _⟩ := hf
  rw [namesLex_first]
  by_cases hsp : w = "std" ∧ more.head? = some "pair"
  · rw [if_pos hsp]; exact startsOK_cons .stdPair _
  · rw [if_neg hsp]; exact startsOK_cons (.name w h1 h2 h3 h4 h5) _

theorem tyLex_starts (t : CType) (hwf : TyWF t) : StartsOK (tyLex t) := by
  cases t with
  | simple tn q basic =>
    obtain ⟨nss, name, insts⟩ := tn
    obtain ⟨c, sfx⟩ := q
    simp only [TyWF] at hwf
    obtain ⟨_, hwf⟩ := hwf
    simp only [tyLex]
    cases c with
    | true => exact startsOK_append (startsOK_append (startsOK_cons .const _) _) _
    | false =>
      simp only [constLex, Bool.false_eq_true, if_false, List.nil_append]
      apply startsOK_append
      cases basic with
      | true =>
        simp only [if_true] at hwf
        obtain ⟨hns, hmem⟩ := hwf
        subst hns
        cases hsp : hasSpace name with
        | true => simp only [Bool.and_self, if_true]; exact startsOK_cons (.spaced name (mem_basicSpaced hmem hsp)) _
        | false =>
          have hb := mem_basicWords hmem hsp
          simp only [Bool.and_false, Bool.false_eq_true, if_false, List.nil_append, namesLex_first, basicWord_ne_std hb, false_and]
          exact startsOK_cons (.basic name hb) _
      | false =>
        simp only [Bool.false_eq_true, if_false] at hwf
        simp only [Bool.false_and, Bool.false_eq_true, if_false]
        cases hnm : nss ++ [name] with
        | nil => simp at hnm
        | cons w more =>
          simp only [hnm] at hwf
          exact namesLex_starts w more hwf
  | templ nss name ps q =>
    obtain ⟨c, sfx⟩ := q
    simp only [TyWF] at hwf
    obtain ⟨_, _, hwn⟩ := hwf
    simp only [tyLex]
    cases c with
    | true => exact startsOK_append (startsOK_append (startsOK_cons .const _) _) _
    | false =>
      simp only [constLex, Bool.false_eq_true, if_false, List.nil_append]
      apply startsOK_append
      cases hnm : nss ++ [name] with
      | nil => simp at hnm
      | cons w more =>
        simp only [hnm] at hwn
        rcases hwn with ⟨hb, hm0⟩ | hf
        · subst hm0
          simp only [namesLex_first, basicWord_ne_std hb, false_and, if_false]
          exact startsOK_cons (.basic w hb) _
        · exact namesLex_starts w more hf

theorem lit_no_starts {ls : List Lexeme} (h : StartsOK ls) (x : String) (hx : x ∈ symbols) (hd : x ≠ "__") :
    answerL (.lit x) ls = .no := by
  obtain ⟨l, Y, rfl, hl⟩ := h
  cases hl with
  | const => simp [ansWord_lit x _ _ hx hd]
  | basic b _ => simp [ansWord_lit x _ _ hx hd]
  | name w _ _ _ _ _ => simp [ansWord_lit x _ _ hx hd]
  | stdPair => simp (config := {decide := true}) [stdPairAtom, ansAtom, kwIncomparable, ansWord_lit x _ _ hx hd]
  | spaced b hb =>
    rw [basicSpaced_eq] at hb
    simp only [List.mem_cons, List.not_mem_nil, or_false] at hb
    subst hb
    simp (config := {decide := true}) [spacedAtom, ansAtom, kwIncomparable, ansWord_lit x _ _ hx hd]

theorem noCont_word (w : String) (X : List Lexeme) : NoCont (.word w :: X) := by
  rw [noCont_iff]
  simp (config := {decide := true}) [ansWord_lit]

theorem dunder_no_starts {ls : List Lexeme} (h : StartsOK ls) : answerL (.lit "__") ls = .no := by
  obtain ⟨l, Y, rfl, hl⟩ := h
  cases hl with
  | const => simp (config := {decide := true}) [ansWord]
  | basic b hb =>
    rw [basicWords_eq] at hb
    simp only [List.mem_cons, List.not_mem_nil, or_false] at hb
    rcases hb with h | h | h | h | h | h | h <;> subst h <;> simp (config := {decide := true}) [ansWord]
  | name w _ _ _ h4 _ => simp (config := {decide := true}) [ansWord, h4]
  | stdPair => simp (config := {decide := true}) [stdPairAtom, ansAtom, kwIncomparable, ansWord]
  | spaced b hb =>
    rw [basicSpaced_eq] at hb
    simp only [List.mem_cons, List.not_mem_nil, or_false] at hb
    subst hb
    simp (config := {decide := true}) [spacedAtom, ansAtom, kwIncomparable, ansWord]

/-- the one-word keywords tested where a declaration or member may start -/
def startKeywords : List String := ["template", "static", "typedef", "namespace", "virtual", "class", "enum"]

theorem kw_no_starts {ls : List Lexeme} (h : StartsOK ls) (k : String) (hk : k ∈ startKeywords) : answerL (.kw k) ls = .no := by
  obtain ⟨l, Y, rfl, hl⟩ := h
  simp only [startKeywords, List.mem_cons, List.not_mem_nil, or_false] at hk
  cases hl with
  | const => rcases hk with h | h | h | h | h | h | h <;> subst h <;> simp (config := {decide := true}) [ansWord]
  | basic b hb =>
    rw [basicWords_eq] at hb
    simp only [List.mem_cons, List.not_mem_nil, or_false] at hb
    rcases hk with h | h | h | h | h | h | h <;> subst h <;>
      rcases hb with h | h | h | h | h | h | h <;> subst h <;> simp (config := {decide := true}) [ansWord]
  | name w h1 _ _ _ _ =>
    have hne : w ≠ k := by
      intro he; subst he
      apply h1
      rcases hk with h | h | h | h | h | h | h <;> subst h <;> decide
    rcases hk with h | h | h | h | h | h | h <;> subst h <;> simp [ansWord_kw_ne _ w Y (by decide) hne]
  | stdPair => rcases hk with h | h | h | h | h | h | h <;> subst h <;> simp (config := {decide := true}) [stdPairAtom, ansAtom, kwIncomparable, ansWord]
  | spaced b hb =>
    rw [basicSpaced_eq] at hb
    simp only [List.mem_cons, List.not_mem_nil, or_false] at hb
    subst hb
    rcases hk with h | h | h | h | h | h | h <;> subst h <;> simp (config := {decide := true}) [spacedAtom, ansAtom, kwIncomparable, ansWord]

/-- the keywords that are not single words -/
def startKeywords2 : List String := ["enum class", "enum struct", "#include"]

theorem kw2_no_starts {ls : List Lexeme} (h : StartsOK ls) (k : String) (hk : k ∈ startKeywords2) : answerL (.kw k) ls = .no := by
  obtain ⟨l, Y, rfl, hl⟩ := h
  simp only [startKeywords2, List.mem_cons, List.not_mem_nil, or_false] at hk
  cases hl with
  | const => rcases hk with h | h | h <;> subst h <;> simp (config := {decide := true}) [ansWord]
  | basic b hb =>
    rw [basicWords_eq] at hb
    simp only [List.mem_cons, List.not_mem_nil, or_false] at hb
    rcases hk with h | h | h <;> subst h <;>
      rcases hb with h | h | h | h | h | h | h <;> subst h <;> simp (config := {decide := true}) [ansWord]
  | name w h1 _ _ _ h5 =>
    have hne : w ≠ "enum" := by intro he; subst he; exact h1 (by decide)
    have hl1 : "enum".toList ≠ w.toList := fun he => hne (String.ext he).symm
    have hl2 : ([] : List Char) ≠ w.toList := fun he => h5 (String.ext (by simpa using he.symm))
    have ee : "enum".toList = ['e', 'n', 'u', 'm'] := by decide
    rw [ee] at hl1
    have e1 : kwHead "enum class" = ['e', 'n', 'u', 'm'] := by decide
    have e2 : kwHead "enum struct" = ['e', 'n', 'u', 'm'] := by decide
    have e3 : kwHead "#include" = [] := by decide
    have o1 : okKw "enum class" = false := by decide
    have o2 : okKw "enum struct" = false := by decide
    have o3 : okKw "#include" = false := by decide
    rcases hk with h | h | h <;> subst h
    · simp only [answerL_word, ansWord, o1, Bool.false_eq_true, if_false, e1]
      simp (config := {decide := true}) [hl1]
    · simp only [answerL_word, ansWord, o2, Bool.false_eq_true, if_false, e2]
      simp (config := {decide := true}) [hl1]
    · simp only [answerL_word, ansWord, o3, Bool.false_eq_true, if_false, e3]
      simp (config := {decide := true}) [hl2]
  | stdPair => rcases hk with h | h | h <;> subst h <;> simp (config := {decide := true}) [stdPairAtom, ansAtom, kwIncomparable, ansWord]
  | spaced b hb =>
    rw [basicSpaced_eq] at hb
    simp only [List.mem_cons, List.not_mem_nil, or_false] at hb
    subst hb
    rcases hk with h | h | h <;> subst h <;> simp (config := {decide := true}) [spacedAtom, ansAtom, kwIncomparable, ansWord]

theorem eof_no_starts {ls : List Lexeme} (h : StartsOK ls) : answerL .eof ls = .no := by
  obtain ⟨l, Y, rfl, hl⟩ := h
  cases hl with
  | const => simp [ansWord]
  | basic b _ => simp [ansWord]
  | name w _ _ _ _ _ => simp [ansWord]
  | stdPair => simp (config := {decide := true}) [stdPairAtom, ansAtom, kwIncomparable]
  | spaced b hb =>
    rw [basicSpaced_eq] at hb
    simp only [List.mem_cons, List.not_mem_nil, or_false] at hb
    subst hb
    simp (config := {decide := true}) [spacedAtom, ansAtom, kwIncomparable]

/-! ### arguments -/

theorem eq_no_comma (X : List Lexeme) : answerL (.lit "=") (.sym "," :: X) = .no := by
  simp (config := {decide := true}) [answerL_sym, ansSym]
theorem eq_no_rparen (X : List Lexeme) : answerL (.lit "=") (.sym ")" :: X) = .no := by
  simp (config := {decide := true}) [answerL_sym, ansSym]
theorem comma_no_rparen (X : List Lexeme) : answerL (.lit ",") (.sym ")" :: X) = .no := by
  simp (config := {decide := true}) [answerL_sym, ansSym]

theorem optDefault_lex (d : Option String) (X : List Lexeme) (hX : d = none → answerL (.lit "=") X = .no) :
    runL optDefault (dfltLex d ++ X) = .ok d X := by
  cases d with
  | none => simp [optDefault, dfltLex, runL_bind, runL_probe, hX rfl]
  | some v => simp (config := {decide := true}) [optDefault, dfltLex, runL_bind, runL_probe, runL_need, answerL_sym, ansSym, ansAtom]

theorem parg_lex (a : Arg) (n : Nat) (X : List Lexeme) (hwf : TyWF a.ctype) (hn : tyFuel a.ctype ≤ n)
    (hX : a.default = none → answerL (.lit "=") X = .no) :
    runL (parg n) (argLex a ++ X) = .ok a X := by
  obtain ⟨ty, name, d⟩ := a
  cases d with
  | none =>
    have h1 := ptype_lex n ty hn hwf (.word name :: X) (fun _ => noCont_word _ _)
    have := hX rfl
    simp [parg, argLex, dfltLex, runL_bind, runL_probe, runL_need, h1, this]
  | some v =>
    have h1 := ptype_lex n ty hn hwf (.word name :: .sym "=" :: .atom .dflt v v "" :: X) (fun _ => noCont_word _ _)
    simp (config := {decide := true}) [parg, argLex, dfltLex, runL_bind, runL_probe, runL_need, h1, answerL_sym, ansSym, ansAtom]

theorem pargsMore_lex : ∀ (as : List Arg), as ≠ [] → ArgsWF as → ∀ (n : Nat) (X : List Lexeme), argsFuel as ≤ n →
    answerL (.lit ",") X = .no → answerL (.lit "=") X = .no → runL (pargsMore n) (argsLex as ++ X) = .ok as X := by
  intro as
  induction as with
  | nil => intro h; exact absurd rfl h
  | cons a as' ih =>
    intro _ hwf n X hn hc he
    obtain ⟨hwa, hwas⟩ : TyWF a.ctype ∧ ArgsWF as' := by simpa [ArgsWF] using hwf
    simp only [argsFuel] at hn
    obtain ⟨m, rfl⟩ : ∃ m, n = m + 1 := ⟨n - 1, by omega⟩
    cases as' with
    | nil =>
      have h1 := parg_lex a m X hwa (by omega) (fun _ => he)
      simp [pargsMore, argsLex, argsTailLex, runL_bind, runL_probe, h1, hc]
    | cons a' as'' =>
      have h1 := parg_lex a m (.sym "," :: (argsLex (a' :: as'') ++ X)) hwa (by omega) (fun _ => eq_no_comma _)
      have h2 := ih (by simp) hwas m X (by simp [argsFuel] at hn ⊢; omega) hc he
      have e : argsLex (a :: a' :: as'') ++ X = argLex a ++ (.sym "," :: (argsLex (a' :: as'') ++ X)) := by
        simp [argsLex, argsTailLex]
      rw [e]
      simp (config := {decide := true}) [pargsMore, runL_bind, runL_probe, h1, h2, answerL_sym, ansSym]

theorem argLex_starts (a : Arg) (hwf : TyWF a.ctype) (Y : List Lexeme) : StartsOK (argLex a ++ Y) := by
  unfold argLex
  exact startsOK_append (startsOK_append (tyLex_starts a.ctype hwf) _) _

/-- the argument list, after the opening parenthesis, up to and including the closing one -/
theorem pargs_lex (as : List Arg) (hwf : ArgsWF as) (n : Nat) (Y : List Lexeme) (hn : argsFuel as ≤ n) :
    runL (pargs n) (argsLex as ++ .sym ")" :: Y) = .ok as Y := by
  cases as with
  | nil => simp (config := {decide := true}) [pargs, argsLex, runL_bind, runL_probe, answerL_sym, ansSym]
  | cons a as' =>
    have h1 := pargsMore_lex (a :: as') (by simp) hwf n (.sym ")" :: Y) hn (comma_no_rparen _) (eq_no_rparen _)
    have hs : StartsOK (argsLex (a :: as') ++ .sym ")" :: Y) := by
      simp only [argsLex, List.append_assoc]
      exact argLex_starts a (by simp [ArgsWF] at hwf; exact hwf.1) _
    have h0 := lit_no_starts hs ")" (by decide) (by decide)
    simp (config := {decide := true}) [pargs, runL_bind, runL_probe, runL_expect, h0, h1, answerL_sym, ansSym]

end WrapModel.Spec
