/-
  Lemmas for `Props/C14.lean`: the append-if-absent accumulator of a `PybindWrapper` object computes the duplicate-free
  list of serialising classes of the pure model.
-/
import WrapModel.Model.PybindState

namespace WrapModel.Pybind

theorem pushAll_eq (xs acc : List String) :
    xs.foldl pushNew acc = acc ++ (xs.filter fun x => !acc.contains x).eraseDups := by
  induction xs generalizing acc with
  | nil => simp
  | cons x r ih =>
    simp only [List.foldl_cons]
    rw [ih]
    unfold pushNew
    by_cases h : x ∈ acc
    · have hc : acc.contains x = true := by simpa using h
      simp [hc, h]
    · have hc : acc.contains x = false := by simpa using h
      simp only [hc, Bool.false_eq_true, if_false, List.filter_cons, Bool.not_false, if_true, List.eraseDups_cons,
        List.filter_filter, List.append_assoc, List.cons_append, List.nil_append]
      congr 3
      apply List.filter_congr
      intro y _
      by_cases hy : y = x <;> simp [hy, h]

theorem eraseDups_filter (p : String → Bool) : ∀ (n : Nat) (l : List String), l.length ≤ n →
    (l.filter p).eraseDups = l.eraseDups.filter p := by
  intro n
  induction n with
  | zero => intro l h; have : l = [] := List.length_eq_zero_iff.1 (by omega); subst this; simp
  | succ n ih =>
    intro l h
    cases l with
    | nil => simp
    | cons a as =>
      have hl : (as.filter fun b => !b == a).length ≤ n := by
        have := List.length_filter_le (fun b => !b == a) as
        simp only [List.length_cons] at h; omega
      by_cases hp : p a = true
      · simp only [List.filter_cons, hp, if_true, List.eraseDups_cons, List.filter_filter]
        congr 1
        rw [← ih _ hl, List.filter_filter]
        congr 1
        apply List.filter_congr; intro y _; exact Bool.and_comm _ _
      · have hp' : p a = false := by simpa using hp
        simp only [List.filter_cons, hp', Bool.false_eq_true, if_false, List.eraseDups_cons]
        rw [← ih _ hl, List.filter_filter]
        -- as.filter p vs as.filter (p ∧ ≠ a): every y with p y has y ≠ a
        congr 1
        apply List.filter_congr; intro y _
        by_cases hy : y = a
        · subst hy; simp [hp']
        · simp [hy]

theorem eraseDups_idem : ∀ (n : Nat) (l : List String), l.length ≤ n → l.eraseDups.eraseDups = l.eraseDups := by
  intro n
  induction n with
  | zero => intro l h; have : l = [] := List.length_eq_zero_iff.1 (by omega); subst this; simp
  | succ n ih =>
    intro l h
    cases l with
    | nil => simp
    | cons a as =>
      have hl : (as.filter fun b => !b == a).length ≤ n := by
        have := List.length_filter_le (fun b => !b == a) as
        simp only [List.length_cons] at h; omega
      rw [List.eraseDups_cons, List.eraseDups_cons]
      congr 1
      rw [← eraseDups_filter _ _ _ (Nat.le_refl _), List.filter_filter]
      have : (as.filter fun x => (!x == a) && !x == a) = as.filter fun b => !b == a := by
        apply List.filter_congr; intro y _; simp
      rw [this]
      exact ih _ hl

theorem eraseDups_append_eraseDups (a b : List String) : (a ++ b.eraseDups).eraseDups = (a ++ b).eraseDups := by
  rw [List.eraseDups_append, List.eraseDups_append]
  congr 1
  simp only [List.removeAll]
  rw [← eraseDups_filter _ _ _ (Nat.le_refl _)]
  rw [eraseDups_filter _ _ _ (Nat.le_refl _), eraseDups_filter _ _ _ (Nat.le_refl _), eraseDups_idem _ _ (Nat.le_refl _)]

theorem serializingClasses_eq (stmts : List PyStmt) : serializingClasses stmts = (allSer stmts).eraseDups := by
  induction stmts with
  | nil => rfl
  | cons s r ih =>
    cases s with
    | cls cpp par mv n inst items =>
      simp only [serializingClasses, allSer, serItems, ih]
      exact eraseDups_append_eraseDups _ _
    | submodule _ _ _ | fwdCls _ _ _ | enum _ _ _ _ _ | var _ _ _ _ | func _ _ => simpa [serializingClasses, allSer] using ih

theorem accumulate_nil (stmts : List PyStmt) : accumulate [] stmts = serializingClasses stmts := by
  rw [serializingClasses_eq]
  unfold accumulate
  rw [pushAll_eq]
  have : (List.filter (fun x => !([] : List String).contains x) (allSer stmts)) = allSer stmts := by
    apply List.filter_eq_self.2; intro a _; simp
  rw [this]; simp

end WrapModel.Pybind
